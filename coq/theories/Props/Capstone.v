(* Props/Capstone.v -- WP-T: the bridges COMPOSE.  Theorems only (exact <lemma of Proofs/CapstoneLemmas.v>),
   non-vacuity Examples, Print Assumptions.

   Session 3 produced bridge theorems that each close ONE hypothesis of another model.  Here they are chained, and
   every statement below is for ALL codings, leaf numberings, interpreters, shapes, base runtimes, namings, graph
   environments, node-order functions, annotations, values, fuels (and histories):

     crt := cap_runtime C kind_of rts mv rt0 P E ib T srt base
          = LeafBridge.bridged C kind_of rts mv rt0 (IoBridge.io_runtime P E ib T srt base)
            leaves  = the scalar model of C04 + the marshal-side scalar model       (Props/LeafBridge.v)
            serdes  = Serdes.load / Iter.itervalues / Iter.iteritems                 (Props/IoBridge.v)
            rest    = base (==, hashability, the exception kinds a union swallows)
     E   := tr_env N G, the core environment of the graph model's environment G      (Props/C05Bridge.v)
     noop   : any set of pass-through leaves of the leaf table (kind LAny); no_noop = none
     orders : any function with graph_orders N G noop orders -- whatever it returns for an annotation is the
            translation of SOME topological order of the adjacency Graph.type_graph builds (graphlib's contract)
     api_call crt E orders dir fuel T x : the MECHANISM (factory, TypeContext, Delayed proxies)   (Props/C05.v)

   Classification of what remains in the statements:
     [law]      interpreter-level law, sampled per run: Scalars.RuntimeLaws, FoldLaws, Utf8Total, Serdes.RuntimeLaws
     [guard]    computable, decided per run: valid, c01_guard, union_unamb, fix_ok, optional_only, fully_annotated,
                wf_env, DefaultsConform, tr w = Some j, dom j, nodup_keys j, clean_hist, bridge_guard / tr_order /
                is_topo_orderb inside graph_orders, unS, load_first_ty
     [contract] graphlib returns a topological order (is_topo_order inside graph_orders); the heap allocation laws
                AllocLaws / FreshLaws of the leaf results (C06H_place_alloc_laws discharges them for place tables)
     [coding]   harness identifications, sampled per run: coding_law C, BackLaws P E ib, TableLaws atab ktab unat
                (a THEOREM for the tables derived from the coding: Capstone_tables_from_coding), SShapeLaws / SLoadLaw
                (true by construction for with_load; together with RuntimeLaws a joint law: Capstone_same_serdes_joint_law)
     [fuel]     definitional side conditions: done (...) = true  -- the run was given enough fuel to terminate.
                NOTE: C05 proves  mechanism terminal => reference semantics equal for all large fuel; the converse
                (reference terminal => mechanism terminal for some fuel) is NOT proved anywhere, so "done (api_call ..)"
                cannot yet be replaced by "fuel >= bound".  Missing lemma: api_complete in Proofs/BuildSemLemmas.v. *)
From Coq Require Import List Arith Bool ZArith NArith.
Import ListNotations.
Require Import TL.Model.Core TL.Model.Build TL.Proofs.CoreMono TL.Proofs.BuildSemLemmas.
Require Import TL.Proofs.CapstoneLemmas.

(* ================================================================== 0. ONE runtime, both sets of laws *)
(* LeafBridge's [bridged] and IoBridge's [io_runtime] define disjoint fields of Core.runtime; composed in either
   order they give the same runtime ... *)
Theorem Capstone_constructions_commute : forall C kind_of rts mv rt0 P E ib T srt base,
  cap_runtime C kind_of rts mv rt0 P E ib T srt base =
  TL.Model.IoBridge.io_runtime P E ib T srt (TL.Model.LeafBridge.bridged C kind_of rts mv rt0 base).
Proof. exact cap_commute. Qed.

(* ... which satisfies BOTH sets of laws: every leaf-law record of C01 / C13 / C03 / C06 (LeafBridge) and
   IterLaws / LoadLaw (IoBridge).  No hypothesis of one side constrains a parameter of the other.
   remaining: [coding] coding_law, BackLaws; [law] RuntimeLaws, FoldLaws, Utf8Total; LoadLaws is discharged by
   SLoadLaw / SShapeLaws over the SAME Serdes runtime srt that the core load uses; suppressed base: a property of base *)
Theorem Capstone_one_runtime : forall C kind_of rts mv rt0 P E ib T srt base Tz,
  TL.Model.LeafBridge.coding_law C -> TL.Model.IoBridge.BackLaws P E ib ->
  (forall s, TL.Model.Scalars.RuntimeLaws (rts s)) -> (forall s, TL.Model.LeafBridge.FoldLaws (rts s)) ->
  TL.Proofs.LeafBridge.Utf8Total rt0 -> (forall e, suppressed base (TL.Model.LeafBridge.exn_map e) = true) ->
  (forall s, TL.Model.LeafBridge.SLoadLaw Tz srt (rts s)) -> (forall s, TL.Model.LeafBridge.SShapeLaws Tz (rts s)) ->
  TL.Proofs.LeafBridge.base_idem kind_of base ->
  let crt := cap_runtime C kind_of rts mv rt0 P E ib T srt base in
  TL.Model.CoreC01.RoundLaws crt (TL.Model.LeafBridge.lv C kind_of rts mv true) /\
  TL.Model.CoreValid.NoneLaws crt /\
  TL.Model.CoreValid.PassLaws crt (TL.Model.LeafBridge.lv_inst C kind_of rts) /\
  TL.Model.CoreValid.IdemLaws crt /\
  TL.Proofs.CoreC03.LeafLaws crt (TL.Model.LeafBridge.leaf_class_ok C kind_of rts) /\
  (forall strict, TL.Model.CoreC06.MarshalLaws crt (TL.Model.LeafBridge.prim_atom C)
     (TL.Model.LeafBridge.robust_leaf kind_of) (TL.Model.LeafBridge.robust_leaf kind_of)
     (TL.Model.LeafBridge.lv C kind_of rts mv strict) (TL.Model.LeafBridge.lit_leaf kind_of)
     (TL.Model.LeafBridge.lit_member C kind_of rts)) /\
  TL.Model.IoBridge.IterLaws P E crt /\ TL.Model.IoBridge.LoadLaw T srt crt /\
  (exists a, none crt = PAtom a).
Proof.
  intros C kind_of rts mv rt0 P E ib T srt base Tz CL BL HL HF HU HS H1 H2 HB.
  exact (let HLd := proj1 (cap_load_laws_same_serdes C kind_of rts mv rt0 P E ib T srt base Tz H1 H2) in
    conj (cap_round_laws C kind_of rts mv rt0 P E ib T srt base CL HL HF)
   (conj (cap_none_laws C kind_of rts mv rt0 P E ib T srt base CL HU HS)
   (conj (cap_pass_laws_inst C kind_of rts mv rt0 P E ib T srt base CL HU HS HLd)
   (conj (cap_idem_laws C kind_of rts mv rt0 P E ib T srt base CL HU HS HLd
            (fun s => TL.Model.Scalars.enum_result_member (rts s) (HL s)) HB)
   (conj (cap_leaf_laws C kind_of rts mv rt0 P E ib T srt base CL)
   (conj (cap_marshal_laws C kind_of rts mv rt0 P E ib T srt base CL)
   (conj (cap_iter_laws C kind_of rts mv rt0 P E ib T srt base BL)
   (conj (cap_load_law C kind_of rts mv rt0 P E ib T srt base)
         (cap_none_is_atom C kind_of rts mv rt0 P E ib T srt base))))))))).
Qed.

(* the mechanism along any translated topological order computes the reference semantics on the composed runtime
   (C05_unmarshal / C05_marshal o C05Bridge); no hypothesis about the runtime at all *)
Theorem Capstone_mechanism_is_reference : forall C kind_of rts mv rt0 P ib T srt base N G orders noop,
  (forall s, noop s = true -> TL.Model.LeafBridge.any_leaf kind_of s = true) ->
  TL.Proofs.GraphBridge.graph_orders N G noop orders ->
  forall Ty fuel x,
  let E := TL.Model.GraphBridge.tr_env N G in
  let crt := cap_runtime C kind_of rts mv rt0 P E ib T srt base in
  (done (api_call crt E orders true fuel Ty x) = true ->
     exists m, forall m', m' >= m -> unm crt E m' Ty x = api_call crt E orders true fuel Ty x) /\
  (done (api_call crt E orders false fuel Ty x) = true ->
     exists m, forall m', m' >= m -> mar crt E m' Ty x = api_call crt E orders false fuel Ty x).
Proof. intros C kind_of rts mv rt0 P ib T srt base N G orders noop NS GO Ty fuel x. exact (cap_mech_is_reference C kind_of rts mv rt0 P ib T srt base N G orders noop NS GO Ty fuel x). Qed.

(* One Serdes runtime for BOTH loads (the scalar routines' serdes.load and the core model's) is a JOINT law: Scalars.
   RuntimeLaws has one field about load on text (uuid_text_not_loadable); with load := Serdes.load it constrains the
   TEXT interpreter (its JSON decoder and literal_eval must reject the text of a UUID).  No single bridge states it.
   Exactly that, and nothing else, has to be added to RuntimeLaws + FoldLaws of the underlying interpreter: *)
Theorem Capstone_same_serdes_joint_law : forall rt Tz srt,
  TL.Model.Scalars.RuntimeLaws rt -> TL.Model.LeafBridge.FoldLaws rt ->
  (forall u c, TL.Model.Scalars.hashable c = true ->
     TL.Model.LeafBridge.ind_load Tz srt (TL.Model.Temporal.text rt c (TL.Model.Temporal.canon_text rt (TL.Model.Temporal.VUuid u)))
     = TL.Model.Temporal.Ok (TL.Model.Temporal.VText TL.Model.Temporal.CStr (TL.Model.Temporal.canon_text rt (TL.Model.Temporal.VUuid u)))) ->
  let rt' := TL.Model.LeafBridge.with_load rt (TL.Model.LeafBridge.ind_load Tz srt) in
  TL.Model.Scalars.RuntimeLaws rt' /\ TL.Model.LeafBridge.FoldLaws rt' /\ TL.Model.LeafBridge.SLoadLaw Tz srt rt'.
Proof. exact same_serdes_joint. Qed.

(* ... and that joint law is C14's theorem (C14_load_plain_text) transported: what is needed of the text interpreter is
   Serdes.RuntimeLaws, the shape of text carriers (STextLaws: provable for the concrete shape, LB_std_text_laws) and two
   interpreter FACTS about the text of a UUID: the JSON decoder rejects it and literal_eval rejects it (UuidTextFacts;
   the decoders are fields of Serdes.Runtime, so the facts are stated, not computed) *)
Theorem Capstone_same_serdes_from_c14 : forall rt Tz srt cp,
  TL.Model.Scalars.RuntimeLaws rt -> TL.Model.LeafBridge.FoldLaws rt -> TL.Model.Serdes.RuntimeLaws srt ->
  TL.Model.LeafBridge.STextLaws Tz srt rt cp -> TL.Model.LeafBridge.UuidTextFacts srt rt cp ->
  let rt' := TL.Model.LeafBridge.with_load rt (TL.Model.LeafBridge.ind_load Tz srt) in
  TL.Model.Scalars.RuntimeLaws rt' /\ TL.Model.LeafBridge.FoldLaws rt' /\ TL.Model.LeafBridge.SLoadLaw Tz srt rt'.
Proof. exact same_serdes_from_c14. Qed.
Example Capstone_same_serdes_from_c14_instance :
  TL.Model.Serdes.RuntimeLaws srt_nojson /\
  TL.Model.LeafBridge.UuidTextFacts srt_nojson TL.Model.ScalarsToy.toy_rt TL.Model.LeafBridge.codes /\
  TL.Model.Scalars.RuntimeLaws ex2_srt_rt /\ TL.Model.LeafBridge.FoldLaws ex2_srt_rt /\
  TL.Model.LeafBridge.SLoadLaw TL.Model.LeafBridge.std_sshape srt_nojson ex2_srt_rt.
Proof. exact (conj srt_nojson_laws (conj ex2_uuid_facts ex2_joint_from_c14)). Qed.

(* ... and the two EXISTING toy interpreters (Model/ScalarsToy.v, Model/SerdesToy.v) do NOT satisfy it together: a UUID
   of the scalar toy is any token and its text is the token, the text toy's JSON decoder reads "1" as the int 1.  (The
   non-vacuity instance below therefore uses a text interpreter in which nothing is JSON: srt_nojson.) *)
Theorem Capstone_refuted_joined_toys :
  ~ TL.Model.Scalars.RuntimeLaws
      (TL.Model.LeafBridge.with_load TL.Model.ScalarsToy.toy_rt
         (TL.Model.LeafBridge.ind_load TL.Model.LeafBridge.std_sshape TL.Model.SerdesToy.toy_rt)).
Proof. exact cap_refuted_joined_toys. Qed.

(* ================================================================== 1. C01 end to end *)
(* C01_roundtrip o C05_unmarshal / C05_marshal o C05Bridge o LeafBridge o IoBridge:
   unmarshal(T, marshal(v, t=T)) = v THROUGH THE MECHANISM, for the runtime whose leaves are the scalar model and whose
   serdes functions are the Serdes / Iter models, along any node order the graph model allows.
   remaining: [coding] coding_law C   [law] RuntimeLaws, FoldLaws of the per-leaf interpreters
              [contract] graph_orders (graphlib's is_topo_order; its guards are [guard])
              [guard] valid, c01_guard, union_unamb on (T, v)   [fuel] the three done / = Ok premises.
   NOT needed: any IoBridge hypothesis (the wire form of a composite is a composite: load is the identity on it),
   NoneLaws, the order contract, RoundLaws, leaf_m_inj. *)
Theorem Capstone_C01_roundtrip : forall C kind_of rts mv rt0 P ib T srt base N G orders noop,
  TL.Model.LeafBridge.coding_law C -> (forall s, noop s = true -> TL.Model.LeafBridge.any_leaf kind_of s = true) ->
  TL.Proofs.GraphBridge.graph_orders N G noop orders ->
  (forall s, TL.Model.Scalars.RuntimeLaws (rts s)) -> (forall s, TL.Model.LeafBridge.FoldLaws (rts s)) ->
  let E := TL.Model.GraphBridge.tr_env N G in
  let crt := cap_runtime C kind_of rts mv rt0 P E ib T srt base in
  let lvs := TL.Model.LeafBridge.lv C kind_of rts mv true in
  forall n Ty v fm fu w,
    TL.Model.CoreC01.valid crt lvs E n Ty v = true -> TL.Model.CoreC01.c01_guard crt E n Ty v = true ->
    TL.Model.CoreC01.union_unamb crt lvs E n Ty v = true ->
    done (mar crt E n Ty v) = true ->
    api_call crt E orders false fm Ty v = Ok w ->
    done (api_call crt E orders true fu Ty w) = true ->
    api_call crt E orders true fu Ty w = Ok v.
Proof. intros C kind_of rts mv rt0 P ib T srt base N G orders noop CL NS GO HL HF. exact (cap_C01_roundtrip C kind_of rts mv rt0 P ib T srt base N G orders noop CL NS GO HL HF). Qed.

(* the weak form (no unambiguity hypothesis): marshal(unmarshal(m)) = m for m = marshal(v), through the mechanism *)
Theorem Capstone_C01_union_fixpoint : forall C kind_of rts mv rt0 P ib T srt base N G orders noop,
  TL.Model.LeafBridge.coding_law C -> (forall s, noop s = true -> TL.Model.LeafBridge.any_leaf kind_of s = true) ->
  TL.Proofs.GraphBridge.graph_orders N G noop orders ->
  (forall s, TL.Model.Scalars.RuntimeLaws (rts s)) -> (forall s, TL.Model.LeafBridge.FoldLaws (rts s)) ->
  let E := TL.Model.GraphBridge.tr_env N G in
  let crt := cap_runtime C kind_of rts mv rt0 P E ib T srt base in
  let lvs := TL.Model.LeafBridge.lv C kind_of rts mv true in
  forall n Ty v fm fu fm' m v',
    TL.Model.CoreC01.fix_ok crt lvs E n Ty v = true -> done (mar crt E n Ty v) = true ->
    api_call crt E orders false fm Ty v = Ok m ->
    api_call crt E orders true fu Ty m = Ok v' ->
    done (api_call crt E orders false fm' Ty v') = true ->
    api_call crt E orders false fm' Ty v' = Ok m.
Proof. intros C kind_of rts mv rt0 P ib T srt base N G orders noop CL NS GO HL HF. exact (cap_C01_fixpoint C kind_of rts mv rt0 P ib T srt base N G orders noop CL NS GO HL HF). Qed.

(* 1b. ... and this is where IoBridge IS needed: the JSON TEXT of the wire form, in any of the five text carriers
   (str, bytes, bytearray, memoryview, ...), unmarshals to the value as well -- because the load of the composed runtime
   is Serdes.load (LoadLaw, by construction) and C14's theorem about it transports to Core.unm (IoBridge_C14_unm_json_text).
   additional remaining: [law] Serdes.RuntimeLaws srt (UTF-8 / JSON decoder laws)
                         [guard] load_first_ty, is_scalar w = false, encodable s, json_loads_str srt s = Ok r, unS T r = Some w
                                 (the text s is JSON for the wire form w), a_ser T a = carrier k s (atom a carries s) *)
Theorem Capstone_C01_roundtrip_text : forall C kind_of rts mv rt0 P ib T srt base N G orders noop,
  TL.Model.LeafBridge.coding_law C -> (forall s, noop s = true -> TL.Model.LeafBridge.any_leaf kind_of s = true) ->
  TL.Proofs.GraphBridge.graph_orders N G noop orders ->
  (forall s, TL.Model.Scalars.RuntimeLaws (rts s)) -> (forall s, TL.Model.LeafBridge.FoldLaws (rts s)) ->
  TL.Model.Serdes.RuntimeLaws srt ->
  let E := TL.Model.GraphBridge.tr_env N G in
  let crt := cap_runtime C kind_of rts mv rt0 P E ib T srt base in
  let lvs := TL.Model.LeafBridge.lv C kind_of rts mv true in
  forall n Ty v fm fu w a k s r,
    TL.Model.CoreC01.valid crt lvs E n Ty v = true -> TL.Model.CoreC01.c01_guard crt E n Ty v = true ->
    TL.Model.CoreC01.union_unamb crt lvs E n Ty v = true ->
    done (mar crt E n Ty v) = true ->
    api_call crt E orders false fm Ty v = Ok w ->
    TL.Model.IoBridge.load_first_ty E Ty = true -> is_scalar w = false ->
    TL.Model.Serdes.encodable s = true -> TL.Model.Serdes.json_loads_str srt s = TL.Model.Serdes.Ok r ->
    TL.Model.IoBridge.unS T r = Some w -> TL.Model.IoBridge.a_ser T a = TL.Model.Serdes.carrier srt k s ->
    done (api_call crt E orders true fu Ty (PAtom a)) = true ->
    api_call crt E orders true fu Ty (PAtom a) = Ok v.
Proof. intros C kind_of rts mv rt0 P ib T srt base N G orders noop CL NS GO HL HF SL. exact (cap_C01_roundtrip_text C kind_of rts mv rt0 P ib T srt base N G orders noop CL NS GO HL HF SL). Qed.

(* ================================================================== 2. the same in any history *)
(* Capstone_C01_roundtrip o C12Bridge_sound: what the i-th call of ANY history of the memoised system marshalled,
   the j-th call -- earlier or later, whatever ran in between, whichever caches were warm -- unmarshals back.
   additional remaining: [guard] clean_hist (no cache hit under an ==-equal, non-identical key: KF-C12-union-order) *)
Theorem Capstone_C01_any_history : forall C kind_of rts mv rt0 P ib T srt base N G orders noop,
  TL.Model.LeafBridge.coding_law C -> (forall s, noop s = true -> TL.Model.LeafBridge.any_leaf kind_of s = true) ->
  TL.Proofs.GraphBridge.graph_orders N G noop orders ->
  (forall s, TL.Model.Scalars.RuntimeLaws (rts s)) -> (forall s, TL.Model.LeafBridge.FoldLaws (rts s)) ->
  let E := TL.Model.GraphBridge.tr_env N G in
  let crt := cap_runtime C kind_of rts mv rt0 P E ib T srt base in
  let lvs := TL.Model.LeafBridge.lv C kind_of rts mv true in
  forall uw_fuel is_text max_load alias_load enc dec byteslike fuel h,
    TL.Model.CacheBridge.clean_hist crt E orders uw_fuel is_text max_load alias_load enc dec byteslike fuel
      TL.Model.CacheBridge.cinit h = true ->
  forall i j n Ty v w r,
    nth_error h i = Some (TL.Model.CacheBridge.CMarshal Ty v) ->
    nth_error (TL.Model.CacheBridge.outsS crt E orders uw_fuel is_text max_load alias_load enc dec byteslike fuel
                 TL.Model.CacheBridge.cinit h) i = Some (TL.Model.CacheBridge.COVal (Ok w)) ->
    TL.Model.CoreC01.valid crt lvs E n Ty v = true -> TL.Model.CoreC01.c01_guard crt E n Ty v = true ->
    TL.Model.CoreC01.union_unamb crt lvs E n Ty v = true -> done (mar crt E n Ty v) = true ->
    nth_error h j = Some (TL.Model.CacheBridge.CUnmarshal Ty w) ->
    nth_error (TL.Model.CacheBridge.outsS crt E orders uw_fuel is_text max_load alias_load enc dec byteslike fuel
                 TL.Model.CacheBridge.cinit h) j = Some (TL.Model.CacheBridge.COVal r) ->
    done r = true ->
    r = Ok v.
Proof.
  intros C kind_of rts mv rt0 P ib T srt base N G orders noop CL NS GO HL HF E crt lvs uw_fuel is_text max_load alias_load enc dec byteslike.
  exact (cap_C01_any_history C kind_of rts mv rt0 P ib T srt base N G orders noop CL NS GO HL HF uw_fuel is_text max_load alias_load enc dec byteslike).
Qed.

(* C03 in any history: NO interpreter law.  remaining: [coding] coding_law  [contract] graph_orders
   [guard] wf_env, clean_hist *)
Theorem Capstone_C03_any_history : forall C kind_of rts mv rt0 P ib T srt base N G orders noop,
  TL.Model.LeafBridge.coding_law C -> (forall s, noop s = true -> TL.Model.LeafBridge.any_leaf kind_of s = true) ->
  TL.Proofs.GraphBridge.graph_orders N G noop orders ->
  TL.Proofs.CoreC03.wf_env (TL.Model.GraphBridge.tr_env N G) ->
  let E := TL.Model.GraphBridge.tr_env N G in
  let crt := cap_runtime C kind_of rts mv rt0 P E ib T srt base in
  forall uw_fuel is_text max_load alias_load enc dec byteslike fuel h,
    TL.Model.CacheBridge.clean_hist crt E orders uw_fuel is_text max_load alias_load enc dec byteslike fuel
      TL.Model.CacheBridge.cinit h = true ->
  forall k Ty x v,
    nth_error h k = Some (TL.Model.CacheBridge.CUnmarshal Ty x) ->
    nth_error (TL.Model.CacheBridge.outsS crt E orders uw_fuel is_text max_load alias_load enc dec byteslike fuel
                 TL.Model.CacheBridge.cinit h) k = Some (TL.Model.CacheBridge.COVal (Ok v)) ->
    exists n, TL.Model.CoreC03.conforms crt E (TL.Model.LeafBridge.leaf_class_ok C kind_of rts) n Ty v = true.
Proof. intros C kind_of rts mv rt0 P ib T srt base N G orders noop CL NS GO WF. exact (cap_C03_any_history C kind_of rts mv rt0 P ib T srt base N G orders noop CL NS GO WF). Qed.

(* ================================================================== 3. C02 end to end *)
(* Model/Codec.v instantiated with the routines the FACTORY builds (encM / decM / api_encM: marshaller(T) = api_call ..
   false, unmarshaller(T) = api_call .. true) and the JSON layer of Model/Json.v:
     codec(T).decode(codec(T).encode(v)) = v;  typelib.encode(v, t=T) is codec(T).encode(v);  and for a T that is not
     bytes-like the bytes are valid JSON that EVERY reader variant (json.loads lenient / RFC-strict = orjson.loads /
     json.loads' own front end) parses to exactly (the translation of) marshal(v, t=T).
   C02_roundtrip o C02Bridge_encoder_law (C02Json_read_write) o Capstone_C01_roundtrip.
   remaining: those of (1), plus [coding] TableLaws atab ktab unat (atom <-> JSON scalar), [guard] tr w = Some j
   (the wire form is JSON data with str keys), dom j (orjson: 64-bit ints), nodup_keys j, forallb is_ws (st_sp st)
   (true of both known styles).  NO hypothesis about the JSON layer. *)
Theorem Capstone_C02_roundtrip : forall C kind_of rts mv rt0 P ib T srt base N G orders noop,
  TL.Model.LeafBridge.coding_law C -> (forall s, noop s = true -> TL.Model.LeafBridge.any_leaf kind_of s = true) ->
  TL.Proofs.GraphBridge.graph_orders N G noop orders ->
  (forall s, TL.Model.Scalars.RuntimeLaws (rts s)) -> (forall s, TL.Model.LeafBridge.FoldLaws (rts s)) ->
  let E := TL.Model.GraphBridge.tr_env N G in
  let crt := cap_runtime C kind_of rts mv rt0 P E ib T srt base in
  let lvs := TL.Model.LeafBridge.lv C kind_of rts mv true in
  forall atab ktab unat st strict surr dom isb class_of,
  TL.Proofs.CodecBridge.TableLaws atab ktab unat -> forallb TL.Model.Json.is_ws (TL.Model.Json.st_sp st) = true ->
  forall n Ty v fm fu w j,
    TL.Model.CoreC01.valid crt lvs E n Ty v = true -> TL.Model.CoreC01.c01_guard crt E n Ty v = true ->
    TL.Model.CoreC01.union_unamb crt lvs E n Ty v = true -> done (mar crt E n Ty v) = true ->
    api_call crt E orders false fm Ty v = Ok w ->
    TL.Proofs.CodecBridge.tr atab ktab w = Some j -> dom j = true -> TL.Proofs.CodecBridge.nodup_keys j = true ->
    done (api_call crt E orders true fu Ty w) = true ->
    TL.Model.Codec.bind (encM atab ktab unat crt E orders st strict surr dom isb fm fu Ty v)
                        (decM atab ktab unat crt E orders st strict surr dom isb fm fu Ty)
      = TL.Model.Codec.Ok (TL.Proofs.CodecBridge.OVal v) /\
    api_encM atab ktab crt E orders st dom isb class_of fm Ty v = encM atab ktab unat crt E orders st strict surr dom isb fm fu Ty v /\
    (isb Ty = false ->
       exists b, encM atab ktab unat crt E orders st strict surr dom isb fm fu Ty v
                   = TL.Model.Codec.Ok (TL.Proofs.CodecBridge.OBytes b) /\
                 (forall s' u', TL.Model.Json.json_read_gen s' u' b = Some j) /\
                 TL.Proofs.CodecBridge.untr unat j = w /\
                 (TL.Proofs.JsonLemmas.known_style st ->
                    TL.Model.Json.std_loads b = Some j /\ TL.Model.Json.std_utf8_branch b = true)).
Proof.
  intros C kind_of rts mv rt0 P ib T srt base N G orders noop CL NS GO HL HF E crt lvs atab ktab unat st strict surr dom isb class_of.
  exact (cap_C02_roundtrip C kind_of rts mv rt0 P ib T srt base N G orders noop CL NS GO HL HF atab ktab unat st strict surr dom isb class_of).
Qed.

(* C02Bridge o LeafBridge at the TABLE level: the atom table of the JSON layer is DEFINABLE from the scalar coding
   (cap_atab / cap_ktab / cap_unat: None <-> null, bool, int, str by character codes, field names; floats have no row)
   and C02Bridge's TableLaws follows from coding_law -- no longer an independent [coding] assumption *)
Theorem Capstone_tables_from_coding : forall C, TL.Model.LeafBridge.coding_law C ->
  TL.Proofs.CodecBridge.TableLaws (cap_atab C) (cap_ktab C) (cap_unat C).
Proof. exact cap_table_laws. Qed.

(* ... so composition (3) with these tables has NO [coding] premise beyond coding_law C *)
Theorem Capstone_C02_roundtrip_from_coding : forall C kind_of rts mv rt0 P ib T srt base N G orders noop,
  TL.Model.LeafBridge.coding_law C -> (forall s, noop s = true -> TL.Model.LeafBridge.any_leaf kind_of s = true) ->
  TL.Proofs.GraphBridge.graph_orders N G noop orders ->
  (forall s, TL.Model.Scalars.RuntimeLaws (rts s)) -> (forall s, TL.Model.LeafBridge.FoldLaws (rts s)) ->
  let E := TL.Model.GraphBridge.tr_env N G in
  let crt := cap_runtime C kind_of rts mv rt0 P E ib T srt base in
  let lvs := TL.Model.LeafBridge.lv C kind_of rts mv true in
  forall st strict surr dom isb, forallb TL.Model.Json.is_ws (TL.Model.Json.st_sp st) = true ->
  forall n Ty v fm fu w j,
    TL.Model.CoreC01.valid crt lvs E n Ty v = true -> TL.Model.CoreC01.c01_guard crt E n Ty v = true ->
    TL.Model.CoreC01.union_unamb crt lvs E n Ty v = true -> done (mar crt E n Ty v) = true ->
    api_call crt E orders false fm Ty v = Ok w ->
    TL.Proofs.CodecBridge.tr (cap_atab C) (cap_ktab C) w = Some j -> dom j = true -> TL.Proofs.CodecBridge.nodup_keys j = true ->
    done (api_call crt E orders true fu Ty w) = true ->
    TL.Model.Codec.bind (encM (cap_atab C) (cap_ktab C) (cap_unat C) crt E orders st strict surr dom isb fm fu Ty v)
                        (decM (cap_atab C) (cap_ktab C) (cap_unat C) crt E orders st strict surr dom isb fm fu Ty)
      = TL.Model.Codec.Ok (TL.Proofs.CodecBridge.OVal v).
Proof.
  intros C kind_of rts mv rt0 P ib T srt base N G orders noop CL NS GO HL HF E crt lvs st strict surr dom isb Hsp n Ty v fm fu w j Hv Hg Hu Hd Hm Ht Hdm Hn Hdu.
  exact (proj1 (cap_C02_roundtrip C kind_of rts mv rt0 P ib T srt base N G orders noop CL NS GO HL HF
                  (cap_atab C) (cap_ktab C) (cap_unat C) st strict surr dom isb (fun _ => Ty)
                  (cap_table_laws C CL) Hsp n Ty v fm fu w j Hv Hg Hu Hd Hm Ht Hdm Hn Hdu)).
Qed.

(* ================================================================== 4. C03 / C13 / C06 through the mechanism *)
(* C03_conforms o C05_unmarshal o C05Bridge o LB_leaf_laws: whatever the mechanism returns, for ANY input, conforms.
   remaining: [coding] coding_law  [contract] graph_orders  [guard] wf_env.  NO interpreter law. *)
Theorem Capstone_C03_conforms : forall C kind_of rts mv rt0 P ib T srt base N G orders noop,
  TL.Model.LeafBridge.coding_law C -> (forall s, noop s = true -> TL.Model.LeafBridge.any_leaf kind_of s = true) ->
  TL.Proofs.GraphBridge.graph_orders N G noop orders ->
  let E := TL.Model.GraphBridge.tr_env N G in
  let crt := cap_runtime C kind_of rts mv rt0 P E ib T srt base in
  TL.Proofs.CoreC03.wf_env E ->
  forall fuel Ty x v, api_call crt E orders true fuel Ty x = Ok v ->
    exists n, TL.Model.CoreC03.conforms crt E (TL.Model.LeafBridge.leaf_class_ok C kind_of rts) n Ty v = true.
Proof. intros C kind_of rts mv rt0 P ib T srt base N G orders noop CL NS GO. exact (cap_C03_conforms C kind_of rts mv rt0 P ib T srt base N G orders noop CL NS GO). Qed.

(* C13_passthrough o C05 o C05Bridge o LB_pass_laws_instances o LB_load_laws_from_serdes: an already valid value
   (instances at the leaves) passes through the mechanism unchanged; serdes.load of the scalar routines and of the core
   model are the SAME Serdes runtime srt.
   remaining: [coding] coding_law, SLoadLaw / SShapeLaws (true by construction / provable for the concrete shape)
   [law] Utf8Total rt0   [guard] wf_env, optional_only, valid, suppressed base   [contract] graph_orders  [fuel] done *)
Theorem Capstone_C13_passthrough : forall C kind_of rts mv rt0 P ib T srt base N G orders noop,
  TL.Model.LeafBridge.coding_law C -> (forall s, noop s = true -> TL.Model.LeafBridge.any_leaf kind_of s = true) ->
  TL.Proofs.GraphBridge.graph_orders N G noop orders ->
  let E := TL.Model.GraphBridge.tr_env N G in
  let crt := cap_runtime C kind_of rts mv rt0 P E ib T srt base in
  forall Tz, TL.Proofs.LeafBridge.Utf8Total rt0 -> (forall e, suppressed base (TL.Model.LeafBridge.exn_map e) = true) ->
  (forall s, TL.Model.LeafBridge.SLoadLaw Tz srt (rts s)) -> (forall s, TL.Model.LeafBridge.SShapeLaws Tz (rts s)) ->
  TL.Model.CoreValid.wf_env E ->
  forall n fuel Ty v, TL.Model.CoreValid.optional_only E n Ty = true ->
    TL.Model.CoreValid.valid (TL.Model.LeafBridge.lv_inst C kind_of rts) crt E n Ty v = true ->
    done (api_call crt E orders true fuel Ty v) = true -> api_call crt E orders true fuel Ty v = Ok v.
Proof. intros C kind_of rts mv rt0 P ib T srt base N G orders noop CL NS GO. exact (cap_C13_passthrough C kind_of rts mv rt0 P ib T srt base N G orders noop CL NS GO). Qed.

(* idempotence: what one call of the mechanism returned, another returns unchanged.
   additional remaining: [law] enum_result_member (a field of Scalars.RuntimeLaws)  [guard] DefaultsConform *)
Theorem Capstone_C13_idempotent : forall C kind_of rts mv rt0 P ib T srt base N G orders noop,
  TL.Model.LeafBridge.coding_law C -> (forall s, noop s = true -> TL.Model.LeafBridge.any_leaf kind_of s = true) ->
  TL.Proofs.GraphBridge.graph_orders N G noop orders ->
  let E := TL.Model.GraphBridge.tr_env N G in
  let crt := cap_runtime C kind_of rts mv rt0 P E ib T srt base in
  forall Tz, TL.Proofs.LeafBridge.Utf8Total rt0 -> (forall e, suppressed base (TL.Model.LeafBridge.exn_map e) = true) ->
  (forall s, TL.Model.LeafBridge.SLoadLaw Tz srt (rts s)) -> (forall s, TL.Model.LeafBridge.SShapeLaws Tz (rts s)) ->
  (forall s w m, TL.Model.Temporal.enum_of_val (rts s) w = TL.Model.Temporal.Ok m -> TL.Model.Temporal.is_member (rts s) m = true) ->
  TL.Proofs.LeafBridge.base_idem kind_of base ->
  TL.Model.CoreValid.wf_env E -> TL.Model.CoreValid.DefaultsConform crt E ->
  forall Ty, (forall k, TL.Model.CoreValid.optional_only E k Ty = true) ->
  forall f1 f2 x y, api_call crt E orders true f1 Ty x = Ok y ->
    done (api_call crt E orders true f2 Ty y) = true -> api_call crt E orders true f2 Ty y = Ok y.
Proof. intros C kind_of rts mv rt0 P ib T srt base N G orders noop CL NS GO. exact (cap_C13_idempotent C kind_of rts mv rt0 P ib T srt base N G orders noop CL NS GO). Qed.

(* C06_full o C05_marshal o C05Bridge o LB_marshal_laws: the mechanism's output for a valid value of a fully annotated
   type is wire data, freshly built.  remaining: [coding] coding_law [contract] graph_orders [guard] fully_annotated,
   valid.  NO interpreter law. *)
Theorem Capstone_C06_wire : forall C kind_of rts mv rt0 P ib T srt base N G orders noop,
  TL.Model.LeafBridge.coding_law C -> (forall s, noop s = true -> TL.Model.LeafBridge.any_leaf kind_of s = true) ->
  TL.Proofs.GraphBridge.graph_orders N G noop orders ->
  let E := TL.Model.GraphBridge.tr_env N G in
  let crt := cap_runtime C kind_of rts mv rt0 P E ib T srt base in
  forall strict R F Ty,
  TL.Model.CoreC06.fully_annotated E (TL.Model.LeafBridge.robust_leaf kind_of) (TL.Model.LeafBridge.robust_leaf kind_of) true R F Ty ->
  forall fuel n v w, TL.Model.CoreC06.valid crt E (TL.Model.LeafBridge.lv C kind_of rts mv strict) n Ty v = true ->
    api_call crt E orders false fuel Ty v = Ok w ->
    TL.Model.CoreC06.is_wire (TL.Model.LeafBridge.prim_atom C) w = true /\ TL.Model.CoreC06.built crt w.
Proof. intros C kind_of rts mv rt0 P ib T srt base N G orders noop CL NS GO. exact (cap_C06_wire C kind_of rts mv rt0 P ib T srt base N G orders noop CL NS GO). Qed.

(* ... with object identity (C06H_marshal_refines, C06H_fresh_fully_annotated, C06H_marshal_frame): the OBJECT the
   heap-level routine returns denotes exactly the value the mechanism returns, which is wire data; no mutable object
   reachable from it existed before the call; every object that existed before is unchanged.
   additional remaining: [contract] AllocLaws hr, FreshLaws hr (robust leaves place their results freshly)
   [guard] read fuel h l = Some v (the input denotes a value: acyclic)   [fuel] hmar .. = Ok.
   "none rt is an atom" of C06H_fresh is DISCHARGED by the construction (none crt = PAtom (enc C VNone)). *)
Theorem Capstone_C06_heap : forall C kind_of rts mv rt0 P ib T srt base N G orders noop,
  TL.Model.LeafBridge.coding_law C -> (forall s, noop s = true -> TL.Model.LeafBridge.any_leaf kind_of s = true) ->
  TL.Proofs.GraphBridge.graph_orders N G noop orders ->
  let E := TL.Model.GraphBridge.tr_env N G in
  let crt := cap_runtime C kind_of rts mv rt0 P E ib T srt base in
  forall (hr : TL.Model.Heap.hruntime) fu strict R F Ty,
  TL.Model.Heap.AllocLaws hr -> TL.Model.Heap.FreshLaws hr (TL.Model.LeafBridge.robust_leaf kind_of) fu ->
  TL.Model.CoreC06.fully_annotated E (TL.Model.LeafBridge.robust_leaf kind_of) (TL.Model.LeafBridge.robust_leaf kind_of) true R F Ty ->
  forall fuel fm n h l v h' l' w,
    TL.Model.Heap.read fuel h l = Some v ->
    TL.Model.CoreC06.valid crt E (TL.Model.LeafBridge.lv C kind_of rts mv strict) n Ty v = true ->
    TL.Model.Heap.hmar crt hr E fuel Ty h l = Ok (h', l') ->
    api_call crt E orders false fm Ty v = Ok w ->
    TL.Model.Heap.reads h' l' w /\ TL.Model.CoreC06.is_wire (TL.Model.LeafBridge.prim_atom C) w = true /\
    (forall p, TL.Model.Heap.reach h' l' p -> TL.Model.Heap.mutable_at h' p = true -> List.length h <= p) /\
    (forall k p x, TL.Model.Heap.read k h p = Some x -> TL.Model.Heap.read k h' p = Some x).
Proof. intros C kind_of rts mv rt0 P ib T srt base N G orders noop CL NS GO. exact (cap_C06_heap C kind_of rts mv rt0 P ib T srt base N G orders noop CL NS GO). Qed.

(* ================================================================== 5. C08 inside C05 *)
(* C08Bridge_first_acceptor o C05_unmarshal o C05Bridge o LB_none_laws: the union step of the composed system IS C08's
   statement -- the mechanism's answer y for Union[ts] is the answer of the first member IN DECLARED ORDER whose own
   reference routine accepts x, every member declared before it having rejected x with a swallowed kind.
   remaining: [coding] coding_law [law] Utf8Total rt0 [guard] suppressed base [contract] graph_orders *)
Theorem Capstone_C08_first_acceptor : forall C kind_of rts mv rt0 P ib T srt base N G orders noop,
  TL.Model.LeafBridge.coding_law C -> (forall s, noop s = true -> TL.Model.LeafBridge.any_leaf kind_of s = true) ->
  TL.Proofs.GraphBridge.graph_orders N G noop orders ->
  let E := TL.Model.GraphBridge.tr_env N G in
  let crt := cap_runtime C kind_of rts mv rt0 P E ib T srt base in
  TL.Proofs.LeafBridge.Utf8Total rt0 -> (forall e, suppressed base (TL.Model.LeafBridge.exn_map e) = true) ->
  forall fuel ts x y, x <> none crt \/ isoptional ts = false ->
    api_call crt E orders true fuel (TUnion ts) x = Ok y ->
    exists n, forall k, k >= n ->
      exists i t, nth_error ts i = Some t /\ unm crt E (S k) t x = Ok y /\
        forall j tj, j < i -> nth_error ts j = Some tj -> TL.Proofs.UnionBridge.c_rejects crt (unm crt E (S k) tj) x.
Proof. intros C kind_of rts mv rt0 P ib T srt base N G orders noop CL NS GO. exact (cap_C08_first_acceptor C kind_of rts mv rt0 P ib T srt base N G orders noop CL NS GO). Qed.

(* ================================================================== 6. Any fields: the pass-through kind *)
(* The compositions above take any set [noop] of pass-through leaves of the leaf table (kind LAny: typing.Any / object /
   unresolvable, NoOp routines on EVERY core value).  Conversely, whatever satisfies C05's hypothesis "noop_leaf s ->
   leaf_u rt s x = Ok x for EVERY x" on the composed runtime is such a leaf, or a leaf the table does not know (whose
   routine is the base runtime's): a scalar kind answers Unmodelled on a container. *)
Theorem Capstone_noop_forced : forall C kind_of rts mv rt0 P E ib T srt base noop_leaf,
  ((forall s x, noop_leaf s = true -> leaf_u (cap_runtime C kind_of rts mv rt0 P E ib T srt base) s x = Ok x) ->
   forall s, noop_leaf s = true -> TL.Model.LeafBridge.any_leaf kind_of s = true \/ kind_of s = None) /\
  ((forall s x, noop_leaf s = true -> leaf_m (cap_runtime C kind_of rts mv rt0 P E ib T srt base) s x = Ok x) ->
   forall s, noop_leaf s = true -> TL.Model.LeafBridge.any_leaf kind_of s = true \/ kind_of s = None).
Proof.
  intros C kind_of rts mv rt0 P E ib T srt base noop_leaf.
  exact (conj (cap_noop_forced_u C kind_of rts mv rt0 P E ib T srt base noop_leaf)
              (cap_noop_forced_m C kind_of rts mv rt0 P E ib T srt base noop_leaf)).
Qed.

(* The OLD leaf table (before LAny) bound every id to a scalar kind.  C05Bridge's guard classes_ok demands
   noop_leaf (any_id N) = true as soon as an expanded class has a field annotated typing.Any: with a table that binds
   any_id N to a scalar kind the two demands exclude each other, for EVERY graph with such a class and every noop_leaf.
   (This is what the first composition ran into; it is why LeafBridge gained the pass-through kind.) *)
Theorem Capstone_refuted_any_field : forall C kind_of rts mv rt0 P E' ib T srt base
    (N : TL.Model.GraphBridge.naming) (G : TL.Model.Graph.env) (noop_leaf : nat -> bool) (g : TL.Model.Graph.adjacency) p preds c d kd,
  kind_of (TL.Model.GraphBridge.any_id N) = Some kd -> kd <> TL.Model.LeafBridge.LAny ->
  In (p, preds) g -> TL.Model.Graph.nunw p = TL.Model.Graph.GClass c -> G c = Some d ->
  In TL.Model.Graph.GAny (map snd (TL.Model.Graph.cfields d)) ->
  TL.Proofs.GraphBridge.bridge_guard N G noop_leaf g = true ->
  ~ (forall s x, noop_leaf s = true -> leaf_u (cap_runtime C kind_of rts mv rt0 P E' ib T srt base) s x = Ok x).
Proof. intros C kind_of rts mv rt0 P E' ib T srt base N G noop_leaf g p preds c d kd K1 K2 H1 H2 H3 H4 H5 H6. exact (cap_any_field_excluded C kind_of rts mv rt0 P E' ib T srt base N G noop_leaf g p preds c d kd K1 K2 H1 H2 H3 H4 H5 H6). Qed.

(* the exclusion bites on a concrete module:  class Node: nxt: Optional[Node]; kids: list[Node]; s: int; t: Any. *)
Theorem Capstone_refuted_any_field_witness :
  exists g, TL.Model.Graph.type_graph 20 TL.Props.C05Bridge.brE2 (TL.Model.Graph.GClass 0) = TL.Model.Graph.Ok g /\
    TL.Proofs.GraphBridge.bridge_guard TL.Props.C05Bridge.brN2 TL.Props.C05Bridge.brE2 TL.Props.C05Bridge.any_leaf g = true /\
    forall C kind_of rts mv rt0 P E' ib T srt base noop_leaf kd,
      kind_of (TL.Model.GraphBridge.any_id TL.Props.C05Bridge.brN2) = Some kd -> kd <> TL.Model.LeafBridge.LAny ->
      TL.Proofs.GraphBridge.bridge_guard TL.Props.C05Bridge.brN2 TL.Props.C05Bridge.brE2 noop_leaf g = true ->
      ~ (forall s x, noop_leaf s = true -> leaf_u (cap_runtime C kind_of rts mv rt0 P E' ib T srt base) s x = Ok x).
Proof. exact cap_any_witness. Qed.

(* With the pass-through kind: [with_any a kind_of] binds leaf a to LAny (Model/LeafBridge.v's construction, nothing
   local); anything is valid there, and composition (1) holds for environments WITH Any fields (noop_leaf = exactly
   that leaf).  It is the instance noop := only_leaf (any_id N) of Capstone_C01_roundtrip. *)
Theorem Capstone_C01_roundtrip_with_any : forall C kind_of rts mv rt0 P ib T srt base N G orders,
  TL.Model.LeafBridge.coding_law C ->
  (forall s, TL.Model.Scalars.RuntimeLaws (rts s)) -> (forall s, TL.Model.LeafBridge.FoldLaws (rts s)) ->
  TL.Proofs.GraphBridge.graph_orders N G (only_leaf (TL.Model.GraphBridge.any_id N)) orders ->
  forall n Ty v fm fu w,
    let E := TL.Model.GraphBridge.tr_env N G in
    let rt := cap_runtime C (with_any (TL.Model.GraphBridge.any_id N) kind_of) rts mv rt0 P E ib T srt base in
    let lva := TL.Model.LeafBridge.lv C (with_any (TL.Model.GraphBridge.any_id N) kind_of) rts mv true in
    TL.Model.CoreC01.valid rt lva E n Ty v = true -> TL.Model.CoreC01.c01_guard rt E n Ty v = true ->
    TL.Model.CoreC01.union_unamb rt lva E n Ty v = true ->
    done (mar rt E n Ty v) = true ->
    api_call rt E orders false fm Ty v = Ok w ->
    done (api_call rt E orders true fu Ty w) = true ->
    api_call rt E orders true fu Ty w = Ok v.
Proof. intros C kind_of rts mv rt0 P ib T srt base N G orders CL HL HF GO. exact (cap_C01_roundtrip_with_any C kind_of rts mv rt0 P ib T srt base N G orders CL HL HF GO). Qed.
(* every value is valid at that leaf; every other leaf keeps its validity *)
Theorem Capstone_with_any_validity : forall C a kind_of rts mv strict,
  (forall x, TL.Model.LeafBridge.lv C (with_any a kind_of) rts mv strict a x = true) /\
  (forall s x, Nat.eqb s a = false ->
     TL.Model.LeafBridge.lv C (with_any a kind_of) rts mv strict s x = TL.Model.LeafBridge.lv C kind_of rts mv strict s x).
Proof. intros C a kind_of rts mv strict. exact (conj (with_any_lv C a kind_of rts mv strict) (with_any_other C a kind_of rts mv strict)). Qed.

(* ================================================================== non-vacuity *)
(* ONE instance in which ALL hypotheses of compositions (0) (1) hold simultaneously, fully computed:
     module   class N0: kids: list[N0]; val: Optional[int]        (Props/C05Bridge.v: brE, brN)
     root     list[N0]; node order = Kahn's order of the graph model's adjacency, translated (ex_graph_orders)
     leaves   the scalar model on the toy interpreter (leaf 0 = int), coding ex_coding (None = atom 0, int n = atom 261 + n)
     serdes   the Iter / Serdes models on the toy text runtime (Model/IoBridgeEq.v, Model/SerdesToy.v)
     value    [N0(kids=[N0(kids=[], val=None)], val=5), N0(kids=[], val=7)]
     wire     [{"kids": [{"kids": [], "val": None}], "val": 5}, {"kids": [], "val": 7}]
   and the conclusion of Capstone_C01_roundtrip is what the model computes. *)
Example Capstone_C01_instance :
  TL.Model.LeafBridge.coding_law ex_coding /\
  (forall s, TL.Model.Scalars.RuntimeLaws (ex_rts s)) /\ (forall s, TL.Model.LeafBridge.FoldLaws (ex_rts s)) /\
  TL.Model.IoBridge.BackLaws TL.Model.IoBridgeEq.toy_shape ex_E TL.Model.IoBridgeEq.toy_back /\
  TL.Model.Serdes.RuntimeLaws TL.Model.SerdesToy.toy_rt /\
  TL.Proofs.GraphBridge.graph_orders ex_N ex_G no_noop ex_orders /\
  TL.Model.CoreC01.valid ex_rt ex_lv ex_E 8 ex_Tn ex_value = true /\
  TL.Model.CoreC01.c01_guard ex_rt ex_E 8 ex_Tn ex_value = true /\
  TL.Model.CoreC01.union_unamb ex_rt ex_lv ex_E 8 ex_Tn ex_value = true /\
  done (mar ex_rt ex_E 8 ex_Tn ex_value) = true /\
  api_call ex_rt ex_E ex_orders false 20 ex_Tn ex_value = Ok ex_wire /\
  api_call ex_rt ex_E ex_orders true 20 ex_Tn ex_wire = Ok ex_value /\
  ex_wire = PSeq KList [PDict KDict [(PKey 0, PSeq KList [PDict KDict [(PKey 0, PSeq KList []); (PKey 1, PAtom 0)]]); (PKey 1, PAtom 266)];
                        PDict KDict [(PKey 0, PSeq KList []); (PKey 1, PAtom 268)]].
Proof.
  exact (conj ex_coding_law (conj (fun _ => TL.Proofs.ScalarsToyLemmas.toy_laws) (conj (fun _ => TL.Proofs.LeafBridge.toy_fold_laws)
        (conj ex_back_laws (conj TL.Proofs.SerdesLemmas.toy_laws (conj ex_graph_orders
        (conj (proj1 ex_instance) (conj (proj1 (proj2 ex_instance)) (conj (proj1 (proj2 (proj2 ex_instance)))
        (conj (proj1 (proj2 (proj2 (proj2 ex_instance)))) (conj (proj1 (proj2 (proj2 (proj2 (proj2 ex_instance)))))
        (conj (proj2 (proj2 (proj2 (proj2 (proj2 ex_instance))))) eq_refl)))))))))))).
Qed.
(* ... and the theorem applied to it *)
Example Capstone_C01_instance_by_theorem :
  api_call ex_rt ex_E ex_orders true 20 ex_Tn ex_wire = Ok ex_value.
Proof.
  exact (Capstone_C01_roundtrip ex_coding ex_kind ex_rts TL.Model.LeafBridge.ex_ev TL.Model.ScalarsToy.toy_rt
           TL.Model.IoBridgeEq.toy_shape TL.Model.IoBridgeEq.toy_back TL.Model.IoBridgeEq.toy_tshape TL.Model.SerdesToy.toy_rt
           TL.Model.LeafBridge.ex_base ex_N ex_G ex_orders no_noop ex_coding_law (no_noop_sub ex_kind) ex_graph_orders
           (fun _ => TL.Proofs.ScalarsToyLemmas.toy_laws) (fun _ => TL.Proofs.LeafBridge.toy_fold_laws)
           8 ex_Tn ex_value 20 20 ex_wire
           (proj1 ex_instance) (proj1 (proj2 ex_instance)) (proj1 (proj2 (proj2 ex_instance)))
           (proj1 (proj2 (proj2 (proj2 ex_instance)))) (proj1 (proj2 (proj2 (proj2 (proj2 ex_instance)))))
           (f_equal done (proj2 (proj2 (proj2 (proj2 (proj2 ex_instance))))))).
Qed.

(* (1b): list[int], the value [1, 2] and the bytes b"[1,2]" (atom 2 of the toy text shape): every hypothesis of
   Capstone_C01_roundtrip_text holds and the mechanism unmarshals the TEXT to the value *)
Example Capstone_C01_text_instance :
  TL.Model.CoreC01.valid ex_rt ex_lv ex_E 4 ex_Ti ex_ints = true /\
  TL.Model.CoreC01.c01_guard ex_rt ex_E 4 ex_Ti ex_ints = true /\
  TL.Model.CoreC01.union_unamb ex_rt ex_lv ex_E 4 ex_Ti ex_ints = true /\
  done (mar ex_rt ex_E 4 ex_Ti ex_ints) = true /\
  api_call ex_rt ex_E ex_orders false 20 ex_Ti ex_ints = Ok ex_ints /\
  TL.Model.IoBridge.load_first_ty ex_E ex_Ti = true /\ is_scalar ex_ints = false /\
  TL.Model.Serdes.encodable TL.Model.SerdesToy.t_list12 = true /\
  TL.Model.Serdes.json_loads_str TL.Model.SerdesToy.toy_rt TL.Model.SerdesToy.t_list12 = TL.Model.Serdes.Ok TL.Model.SerdesToy.v_list12 /\
  TL.Model.IoBridge.unS TL.Model.IoBridgeEq.toy_tshape TL.Model.SerdesToy.v_list12 = Some ex_ints /\
  TL.Model.IoBridge.a_ser TL.Model.IoBridgeEq.toy_tshape 2 =
    TL.Model.Serdes.carrier TL.Model.SerdesToy.toy_rt TL.Model.Serdes.CBytes TL.Model.SerdesToy.t_list12 /\
  api_call ex_rt ex_E ex_orders true 20 ex_Ti (PAtom 2) = Ok ex_ints.
Proof. exact ex_text_instance. Qed.

(* (3): the same instance through the codec with orjson's form: the wire value translates, the bytes are
   [{"kids":[{"kids":[],"val":null}],"val":5},{"kids":[],"val":7}], decode(encode(v)) = v is evaluated *)
Example Capstone_C02_instance :
  TL.Proofs.CodecBridge.TableLaws ex_atab ex_ktab ex_unat /\
  exists j, TL.Proofs.CodecBridge.tr ex_atab ex_ktab ex_wire = Some j /\ TL.Model.Json.orjson_dom j = true /\
    TL.Proofs.CodecBridge.nodup_keys j = true /\
    encM ex_atab ex_ktab ex_unat ex_rt ex_E ex_orders TL.Model.Json.orjson_style true false TL.Model.Json.orjson_dom (fun _ => false) 20 20 ex_Tn ex_value
      = TL.Model.Codec.Ok (TL.Proofs.CodecBridge.OBytes (TL.Model.Json.json_write TL.Model.Json.orjson_style j)) /\
    TL.Model.Json.json_write TL.Model.Json.orjson_style j =
      [91; 123; 34; 107; 105; 100; 115; 34; 58; 91; 123; 34; 107; 105; 100; 115; 34; 58; 91; 93; 44; 34; 118; 97; 108; 34; 58;
       110; 117; 108; 108; 125; 93; 44; 34; 118; 97; 108; 34; 58; 53; 125; 44; 123; 34; 107; 105; 100; 115; 34; 58; 91; 93; 44;
       34; 118; 97; 108; 34; 58; 55; 125; 93]%N /\
    TL.Model.Codec.bind
      (encM ex_atab ex_ktab ex_unat ex_rt ex_E ex_orders TL.Model.Json.orjson_style true false TL.Model.Json.orjson_dom (fun _ => false) 20 20 ex_Tn ex_value)
      (decM ex_atab ex_ktab ex_unat ex_rt ex_E ex_orders TL.Model.Json.orjson_style true false TL.Model.Json.orjson_dom (fun _ => false) 20 20 ex_Tn)
      = TL.Model.Codec.Ok (TL.Proofs.CodecBridge.OVal ex_value).
Proof. exact (conj ex_tables ex_codec_instance). Qed.


(* (0) the hypotheses of Capstone_one_runtime are JOINTLY satisfiable: the scalar toy interpreter with its load taken
   from a text interpreter in which nothing is JSON or a Python literal (ex2_srt_rt, srt_nojson), the toy iteration shape *)
Example Capstone_one_runtime_instance :
  TL.Model.LeafBridge.coding_law ex_coding /\
  TL.Model.IoBridge.BackLaws TL.Model.IoBridgeEq.toy_shape ex_E TL.Model.IoBridgeEq.toy_back /\
  TL.Model.Scalars.RuntimeLaws ex2_srt_rt /\ TL.Model.LeafBridge.FoldLaws ex2_srt_rt /\
  TL.Model.LeafBridge.SLoadLaw TL.Model.LeafBridge.std_sshape srt_nojson ex2_srt_rt /\
  TL.Model.LeafBridge.SShapeLaws TL.Model.LeafBridge.std_sshape ex2_srt_rt /\ TL.Proofs.LeafBridge.Utf8Total ex2_srt_rt /\
  (forall e, suppressed TL.Model.LeafBridge.ex_base (TL.Model.LeafBridge.exn_map e) = true).
Proof.
  exact (conj ex_coding_law (conj ex_back_laws (conj (proj1 ex2_joint) (conj (proj1 (proj2 ex2_joint))
        (conj (proj1 (proj2 (proj2 ex2_joint))) (conj (proj1 (proj2 (proj2 (proj2 ex2_joint))))
        (conj (proj2 (proj2 (proj2 (proj2 ex2_joint)))) TL.Proofs.LeafBridge.ex_base_suppresses))))))).
Qed.

(* (2) a history of the memoised system on the instance -- marshal; unmarshal what it returned; unmarshal list[int] from
   the bytes b"[1,2]" (through the strload memo); unmarshal again on warm caches -- lies inside clean_hist and answers
   what the stateless compositions say *)
Example Capstone_history_instance :
  TL.Model.CacheBridge.clean_hist ex_rt ex_E ex_orders 6 (fun x => match x with PAtom 2 => true | _ => false end) None false
    (@Ok pv) (@Ok pv) (fun _ => false) 20 TL.Model.CacheBridge.cinit ex_hist = true /\
  TL.Model.CacheBridge.outsS ex_rt ex_E ex_orders 6 (fun x => match x with PAtom 2 => true | _ => false end) None false
    (@Ok pv) (@Ok pv) (fun _ => false) 20 TL.Model.CacheBridge.cinit ex_hist =
  [TL.Model.CacheBridge.COVal (Ok ex_wire); TL.Model.CacheBridge.COVal (Ok ex_value);
   TL.Model.CacheBridge.COVal (Ok ex_ints); TL.Model.CacheBridge.COVal (Ok ex_value)].
Proof. exact ex_history_instance. Qed.

(* (4) on the instance: the environment is well formed, list[N0] is fully annotated over robust leaves, the value is
   already valid and passes through the mechanism of the same-serdes runtime unchanged, its wire form is wire data, it
   conforms.  (AllocLaws / FreshLaws of Capstone_C06_heap hold of every place table: C06H_place_alloc_laws.) *)
Example Capstone_C03_C13_C06_instance :
  TL.Model.CoreValid.wf_env ex_E /\
  TL.Model.CoreC06.fully_annotated ex_E (TL.Model.LeafBridge.robust_leaf ex_kind) (TL.Model.LeafBridge.robust_leaf ex_kind) true ex_R ex_R ex_Tn /\
  TL.Model.CoreValid.optional_only ex_E 8 ex_Tn = true /\
  TL.Model.CoreValid.valid (TL.Model.LeafBridge.lv_inst ex_coding ex_kind (fun _ => ex2_srt_rt)) ex2_rt ex_E 8 ex_Tn ex_value = true /\
  api_call ex2_rt ex_E ex_orders true 20 ex_Tn ex_value = Ok ex_value /\
  TL.Model.CoreC06.valid ex_rt ex_E (TL.Model.LeafBridge.lv ex_coding ex_kind ex_rts TL.Model.LeafBridge.ex_ev true) 8 ex_Tn ex_value = true /\
  TL.Model.CoreC06.is_wire (TL.Model.LeafBridge.prim_atom ex_coding) ex_wire = true /\
  TL.Model.CoreC03.conforms ex_rt ex_E (TL.Model.LeafBridge.leaf_class_ok ex_coding ex_kind ex_rts) 8 ex_Tn ex_value = true.
Proof. exact (conj ex_wf (conj ex_fully_annotated ex_value_instance)). Qed.

(* (5) Optional[int] as a root (node order = Kahn's order of the graph model, translated): the int 5 is answered by the
   first member, None by the None shortcut *)
Example Capstone_C08_instance :
  TL.Proofs.GraphBridge.graph_orders ex_N ex_G no_noop ex_orders_u /\
  api_call ex_rt ex_E ex_orders_u true 20 ex_Tu (ex_int 5) = Ok (ex_int 5) /\ ex_int 5 <> none ex_rt /\
  api_call ex_rt ex_E ex_orders_u true 20 ex_Tu ex_none = Ok ex_none /\ none ex_rt = ex_none /\ isoptional [TLeaf 0; TNone] = true.
Proof. exact (conj ex_graph_orders_u ex_union_instance). Qed.


(* (3) with the tables derived from the coding: the same bytes, the same round trip *)
Example Capstone_C02_from_coding_instance :
  exists j, TL.Proofs.CodecBridge.tr (cap_atab ex_coding) (cap_ktab ex_coding) ex_wire = Some j /\
    TL.Model.Json.orjson_dom j = true /\ TL.Proofs.CodecBridge.nodup_keys j = true /\
    TL.Model.Json.json_write TL.Model.Json.orjson_style j =
      [91; 123; 34; 107; 105; 100; 115; 34; 58; 91; 123; 34; 107; 105; 100; 115; 34; 58; 91; 93; 44; 34; 118; 97; 108; 34; 58;
       110; 117; 108; 108; 125; 93; 44; 34; 118; 97; 108; 34; 58; 53; 125; 44; 123; 34; 107; 105; 100; 115; 34; 58; 91; 93; 44;
       34; 118; 97; 108; 34; 58; 55; 125; 93]%N /\
    TL.Model.Codec.bind
      (encM (cap_atab ex_coding) (cap_ktab ex_coding) (cap_unat ex_coding) ex_rt ex_E ex_orders TL.Model.Json.orjson_style true false
         TL.Model.Json.orjson_dom (fun _ => false) 20 20 ex_Tn ex_value)
      (decM (cap_atab ex_coding) (cap_ktab ex_coding) (cap_unat ex_coding) ex_rt ex_E ex_orders TL.Model.Json.orjson_style true false
         TL.Model.Json.orjson_dom (fun _ => false) 20 20 ex_Tn)
      = TL.Model.Codec.Ok (TL.Proofs.CodecBridge.OVal ex_value).
Proof. exact ex_codec_from_coding. Qed.

Print Assumptions Capstone_constructions_commute.
Print Assumptions Capstone_one_runtime.
Print Assumptions Capstone_mechanism_is_reference.
Print Assumptions Capstone_same_serdes_joint_law.
Print Assumptions Capstone_same_serdes_from_c14.
Print Assumptions Capstone_same_serdes_from_c14_instance.
Print Assumptions Capstone_refuted_joined_toys.
Print Assumptions Capstone_C01_roundtrip.
Print Assumptions Capstone_C01_union_fixpoint.
Print Assumptions Capstone_C01_roundtrip_text.
Print Assumptions Capstone_C01_any_history.
Print Assumptions Capstone_C03_any_history.
Print Assumptions Capstone_C02_roundtrip.
Print Assumptions Capstone_tables_from_coding.
Print Assumptions Capstone_C02_roundtrip_from_coding.
Print Assumptions Capstone_C03_conforms.
Print Assumptions Capstone_C13_passthrough.
Print Assumptions Capstone_C13_idempotent.
Print Assumptions Capstone_C06_wire.
Print Assumptions Capstone_C06_heap.
Print Assumptions Capstone_C08_first_acceptor.
Print Assumptions Capstone_noop_forced.
Print Assumptions Capstone_refuted_any_field.
Print Assumptions Capstone_refuted_any_field_witness.
Print Assumptions Capstone_C01_roundtrip_with_any.
Print Assumptions Capstone_with_any_validity.
Print Assumptions Capstone_C01_instance.
Print Assumptions Capstone_C01_instance_by_theorem.
Print Assumptions Capstone_C01_text_instance.
Print Assumptions Capstone_C02_instance.
Print Assumptions Capstone_one_runtime_instance.
Print Assumptions Capstone_history_instance.
Print Assumptions Capstone_C03_C13_C06_instance.
Print Assumptions Capstone_C08_instance.
Print Assumptions Capstone_C02_from_coding_instance.
