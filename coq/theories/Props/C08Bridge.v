(* Bridge C08 <-> core value model: the union step of Core.unm / Core.mar (which C01 C03 C05 C06 C07 C11 C13
   reason about) IS the model of the two Union routines that C08's theorems are about (Model/Union.v), for every
   runtime, class environment, member list, fuel and input.  C08's statements therefore hold of the core
   semantics itself: first acceptor in DECLARED order, None honoured at any position, ValueError exactly when
   every member rejects.  This file contains only theorems (exact <lemma>) and non-vacuity examples. *)
From Coq Require Import List Bool Arith.
Import ListNotations.
Require TL.Model.Core TL.Model.Union TL.Model.CoreValid TL.Model.CoreC01 TL.Proofs.UnionLemmas.
Require Import TL.Model.UnionBridge TL.Proofs.UnionBridge.

(* the embedding loses nothing: distinct core outcomes stay distinct *)
Theorem C08Bridge_embedding_faithful : forall (A : Type) (r1 r2 : C.res A), lift_res r1 = lift_res r2 -> r1 = r2.
Proof. intros A r1 r2. exact (lift_res_inj r1 r2). Qed.

(* unmarshal side: Core.unm on a union = C08's unm_union over the declared members, each run by Core.unm on
   its own annotation *)
Theorem C08Bridge_unmarshal : forall rt E n ts x,
  lift_res (C.unm rt E (S n) (C.TUnion ts) x) = U.unm_union (sup_of rt) (map (member_u rt E n) ts) x.
Proof. exact unm_union_bridge. Qed.

(* marshal side *)
Theorem C08Bridge_marshal : forall rt E n ts x,
  lift_res (C.mar rt E (S n) (C.TUnion ts) x) =
  U.mar_union (C.is_none_val rt) (sup_of rt) (map (member_m rt E n) ts) x.
Proof. exact mar_union_bridge. Qed.

(* C08_first_acceptor, read on the core semantics: for every input other than "None given to an optional union",
   unm answers y iff some member IN DECLARATION ORDER answers y and every member declared before it rejected x
   with a kind the loop swallows.  (Members run with fuel S n, the union with S (S n).) *)
Theorem C08Bridge_first_acceptor : forall rt E n ts x y,
  TL.Model.CoreValid.NoneLaws rt ->
  x <> C.none rt \/ C.isoptional ts = false ->
  (C.unm rt E (S (S n)) (C.TUnion ts) x = C.Ok y <->
   exists i t, nth_error ts i = Some t /\ C.unm rt E (S n) t x = C.Ok y /\
               forall j tj, j < i -> nth_error ts j = Some tj -> c_rejects rt (C.unm rt E (S n) tj) x).
Proof. exact core_union_first_acceptor. Qed.

(* C08_none on the core semantics: None is a member at ANY position and x is None => None *)
Theorem C08Bridge_none : forall rt E n ts,
  TL.Model.CoreValid.NoneLaws rt -> C.isoptional ts = true ->
  C.unm rt E (S (S n)) (C.TUnion ts) (C.none rt) = C.Ok (C.none rt).
Proof. exact core_union_none. Qed.

(* C08_raises_value on the core semantics: every member rejects with a swallowed kind => ValueError *)
Theorem C08Bridge_raises_value : forall rt E n ts x,
  Forall (fun t => c_rejects rt (C.unm rt E n t) x) ts ->
  C.unm rt E (S n) (C.TUnion ts) x = C.Raise C.EValue.
Proof. exact core_union_all_reject. Qed.

(* marshal: optional union and None => None; otherwise the first acceptor in declaration order *)
Theorem C08Bridge_marshal_none : forall rt E n ts,
  C.isoptional ts = true -> C.mar rt E (S n) (C.TUnion ts) (C.none rt) = C.Ok (C.none rt).
Proof. exact core_union_mar_none. Qed.

Theorem C08Bridge_marshal_first_acceptor : forall rt E n ts x y,
  C.is_none_val rt x = false \/ C.isoptional ts = false ->
  (C.mar rt E (S n) (C.TUnion ts) x = C.Ok y <->
   exists i t, nth_error ts i = Some t /\ C.mar rt E n t x = C.Ok y /\
               forall j tj, j < i -> nth_error ts j = Some tj -> c_rejects rt (C.mar rt E n tj) x).
Proof. exact core_union_mar_first_acceptor. Qed.

(* ---- non-vacuity: C01's toy runtime (atoms: 0 None, 1 int 5, 2 str "5", ...; leaves 0 PurePath, 1 int, 2 str) ---- *)
Example C08Bridge_example :
  let rt := TL.Model.CoreC01.toy_rt in
  let E : C.env := fun _ => None in
  (* Union[int, None, str] on the str "5": int accepts first *)
  C.unm rt E 3 (C.TUnion [C.TLeaf 1; C.TNone; C.TLeaf 2]) (C.PAtom 2) = C.Ok (C.PAtom 1) /\
  (* the same union on None, None declared in the middle *)
  C.unm rt E 3 (C.TUnion [C.TLeaf 1; C.TNone; C.TLeaf 2]) (C.none rt) = C.Ok (C.none rt) /\
  lift_res (C.unm rt E 3 (C.TUnion [C.TLeaf 1; C.TNone; C.TLeaf 2]) (C.PAtom 2)) =
    U.unm_union (sup_of rt) (map (member_u rt E 2) [C.TLeaf 1; C.TNone; C.TLeaf 2]) (C.PAtom 2).
Proof. vm_compute. repeat split. Qed.

Print Assumptions C08Bridge_embedding_faithful.
Print Assumptions C08Bridge_unmarshal.
Print Assumptions C08Bridge_marshal.
Print Assumptions C08Bridge_first_acceptor.
Print Assumptions C08Bridge_none.
Print Assumptions C08Bridge_raises_value.
Print Assumptions C08Bridge_marshal_none.
Print Assumptions C08Bridge_marshal_first_acceptor.
