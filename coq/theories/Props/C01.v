(* C01 -- unmarshalling a marshalled value restores the value (with the weaker fixpoint form for
   ambiguous unions).  Property theorems only; every proof is in Proofs/CoreC01.v.

   Full statement, with "unambiguous" read literally (no earlier member's unmarshaller accepts the wire
   form the value's own member writes):

     C01_full_stmt := forall rt lv E n T v w, RoundLaws rt lv ->
       valid n T v -> c01_guard n T v -> stmt_unamb n T v -> mar n T v = Ok w -> unm n T w = Ok v.

   It is refuted on the faithful model (C01_refuted_full / C01_refuted_union_foreign_marshaller: the
   UnionMarshaller also answers with the first member whose MARSHALLER accepts the value).  The theorem
   proved is the same statement with union_unamb (decided exactly as the two Union routines run). *)
From Coq Require Import List Arith.
Import ListNotations.
Require Import TL.Model.Core TL.Model.CoreC01 TL.Proofs.CoreC01.

Definition C01_full : Prop := C01_full_stmt.

(* For every runtime satisfying the leaf laws, every class environment, annotation and value, without any
   bound on depth or size: a valid value whose unions are unambiguous comes back unchanged (structural
   equality of pv: the same runtime class at every position; sets keep their canonical element order). *)
Theorem C01_roundtrip : forall rt lv E, RoundLaws rt lv ->
  forall n fuel T v w, fuel <= n ->
  valid rt lv E n T v = true -> c01_guard rt E n T v = true -> union_unamb rt lv E n T v = true ->
  mar rt E fuel T v = Ok w ->
  exists m, forall f, f >= m -> unm rt E f T w = Ok v.
Proof. intros rt lv E L n fuel T v w Hle Hv Hg Hu Hm. exists n. exact (roundtrip_fuel rt lv E L n fuel T v w Hle Hv Hg Hu Hm). Qed.

Example C01_roundtrip_nonvacuous :
  RoundLaws toy_rt toy_lv /\
  valid toy_rt toy_lv toy_env 8 (TName 3) toy_value = true /\
  c01_guard toy_rt toy_env 8 (TName 3) toy_value = true /\
  union_unamb toy_rt toy_lv toy_env 8 (TName 3) toy_value = true /\
  exists w, mar toy_rt toy_env 8 (TName 3) toy_value = Ok w /\
            forall f, f >= 8 -> unm toy_rt toy_env f (TName 3) w = Ok toy_value.
Proof. split; [exact toy_laws | exact toy_roundtrip_instance]. Qed.

(* The weak form, with no unambiguity hypothesis: whenever the local fixpoint holds at each union position
   (fix_ok checks it there by evaluation; this is the region the open finding C01-union-fixpoint-noncanonical
   lives in) it holds for the whole value, through any nesting of containers, classes and wrappers:
   marshal (unmarshal m) = m for m = marshal v. *)
Theorem C01_union_fixpoint : forall rt lv E, RoundLaws rt lv ->
  forall n fuel T v m, fuel <= n -> fix_ok rt lv E n T v = true -> mar rt E fuel T v = Ok m ->
  exists v', (forall f, f >= n -> unm rt E f T m = Ok v') /\ (forall f, f >= n -> mar rt E f T v' = Ok m).
Proof. intros rt lv E L n fuel T v m Hle Hv Hm. exact (fixpoint_fuel rt lv E L n fuel T v m Hle Hv Hm). Qed.

(* an ambiguous union (int("5") accepts the str "5") inside a list: not unambiguous, fixpoint holds *)
Example C01_union_fixpoint_nonvacuous :
  let T := TSeq KList (TUnion [TLeaf 1; TLeaf 2]) in
  let v := PSeq KList [PAtom 2; PAtom 4] in
  let m := PSeq KList [PAtom 1; PAtom 4] in
  union_unamb toy_rt toy_lv toy_env 3 (TUnion [TLeaf 1; TLeaf 2]) (PAtom 2) = false /\
  fix_ok toy_rt toy_lv toy_env 4 T v = true /\
  mar toy_rt toy_env 4 T v = Ok m /\
  unm toy_rt toy_env 4 T m = Ok m.
Proof. exact toy_fixpoint_instance. Qed.

(* the statement's weak form without fix_ok is refuted: Union[date, str] and "2020-01-01T00:00:00" *)
Theorem C01_refuted_fixpoint_noncanonical :
  exists rt lv E n T v m v' m', RoundLaws rt lv /\
    valid rt lv E n T v = true /\ stmt_unamb rt lv E n T v = false /\ fix_ok rt lv E n T v = false /\
    mar rt E n T v = Ok m /\ unm rt E n T m = Ok v' /\ mar rt E n T v' = Ok m' /\ m' <> m.
Proof. exact refute_fixpoint_noncanonical. Qed.

(* c01_guard's only demand (marshalled mapping keys stay pairwise distinct under Python ==) follows, for a
   key type that is a leaf behind transparent wrappers (U: "mappings with scalar K"), from the leaf law
   leaf_m_inj. *)
Theorem C01_keys_of_leaf_law : forall rt lv E, leaf_m_inj rt lv ->
  forall n kt s keys ws, key_leaf E n kt = Some s -> forallb (valid rt lv E n kt) keys = true ->
  nodup_from rt [] keys = true -> mapM (mar rt E n kt) keys = Ok ws -> nodup_from rt [] ws = true.
Proof. intros rt lv E Inj n kt s keys ws. exact (keys_of_leaf_law rt lv E Inj n kt s keys ws). Qed.

(* more fuel never changes a terminal result *)
Theorem C01_fuel_unm : forall rt E n m T x v, n <= m -> unm rt E n T x = Ok v -> unm rt E m T x = Ok v.
Proof. intros rt E n m T x v H Hu. exact (le_res_ok _ _ v (unm_ge rt E n m T x H) Hu). Qed.
Theorem C01_fuel_mar : forall rt E n m T x v, n <= m -> mar rt E n T x = Ok v -> mar rt E m T x = Ok v.
Proof. intros rt E n m T x v H Hu. exact (le_res_ok _ _ v (mar_ge rt E n m T x H) Hu). Qed.

Theorem C01_refuted_full : ~ C01_full.
Proof. exact refute_full_stmt. Qed.

Theorem C01_refuted_union_foreign_marshaller :
  exists rt lv E n T v w v', RoundLaws rt lv /\
    valid rt lv E n T v = true /\ c01_guard rt E n T v = true /\ stmt_unamb rt lv E n T v = true /\
    union_unamb rt lv E n T v = false /\
    mar rt E n T v = Ok w /\ unm rt E n T w = Ok v' /\ v' <> v.
Proof. exact refute_union_foreign_marshaller. Qed.

Print Assumptions C01_roundtrip.
Print Assumptions C01_union_fixpoint.
Print Assumptions C01_refuted_fixpoint_noncanonical.
Print Assumptions C01_keys_of_leaf_law.
Print Assumptions C01_fuel_unm.
Print Assumptions C01_fuel_mar.
Print Assumptions C01_refuted_full.
Print Assumptions C01_refuted_union_foreign_marshaller.
