(* C01 -- unmarshalling a marshalled value restores the value (with the weaker fixpoint form for
   ambiguous unions).  Property theorems only; every proof is in Proofs/CoreC01.v.

   Full statement, with "unambiguous" read literally (no earlier member's unmarshaller accepts the wire
   form the value's own member writes):

     C01_full_stmt := forall rt lv E n T v w, RoundLaws rt lv ->
       valid n T v -> c01_guard n T v -> stmt_unamb n T v -> mar n T v = Ok w -> unm n T w = Ok v.

   It is refuted on the faithful model (C01_refuted_full / C01_refuted_union_foreign_marshaller: the
   UnionMarshaller also answers with the first member whose MARSHALLER accepts the value).  The theorem
   proved is the same statement with union_unamb (decided exactly as the two Union routines run). *)
From Coq Require Import List Arith.
Import ListNotations.
Require Import TL.Model.Core TL.Model.CoreC01 TL.Proofs.CoreC01.

Definition C01_full : Prop := C01_full_stmt.

(* For every runtime satisfying the leaf laws, every class environment, annotation and value, without any
   bound on depth or size: a valid value whose unions are unambiguous comes back unchanged (structural
   equality of pv: the same runtime class at every position; sets keep their canonical element order). *)
Theorem C01_roundtrip : forall rt lv E, RoundLaws rt lv ->
  forall n fuel T v w, fuel <= n ->
  valid rt lv E n T v = true -> c01_guard rt E n T v = true -> union_unamb rt lv E n T v = true ->
  mar rt E fuel T v = Ok w ->
  exists m, forall f, f >= m -> unm rt E f T w = Ok v.
Proof. intros rt lv E L n fuel T v w Hle Hv Hg Hu Hm. exists n. exact (roundtrip_fuel rt lv E L n fuel T v w Hle Hv Hg Hu Hm). Qed.

Example C01_roundtrip_nonvacuous :
  RoundLaws toy_rt toy_lv /\
  valid toy_rt toy_lv toy_env 8 (TName 3) toy_value = true /\
  c01_guard toy_rt toy_env 8 (TName 3) toy_value = true /\
  union_unamb toy_rt toy_lv toy_env 8 (TName 3) toy_value = true /\
  exists w, mar toy_rt toy_env 8 (TName 3) toy_value = Ok w /\
            forall f, f >= 8 -> unm toy_rt toy_env f (TName 3) w = Ok toy_value.
Proof. split; [exact toy_laws | exact toy_roundtrip_instance]. Qed.

(* more fuel never changes a terminal result *)
Theorem C01_fuel_unm : forall rt E n m T x v, n <= m -> unm rt E n T x = Ok v -> unm rt E m T x = Ok v.
Proof. intros rt E n m T x v H Hu. exact (le_res_ok _ _ v (unm_ge rt E n m T x H) Hu). Qed.
Theorem C01_fuel_mar : forall rt E n m T x v, n <= m -> mar rt E n T x = Ok v -> mar rt E m T x = Ok v.
Proof. intros rt E n m T x v H Hu. exact (le_res_ok _ _ v (mar_ge rt E n m T x H) Hu). Qed.

Theorem C01_refuted_full : ~ C01_full.
Proof. exact refute_full_stmt. Qed.

Theorem C01_refuted_union_foreign_marshaller :
  exists rt lv E n T v w v', RoundLaws rt lv /\
    valid rt lv E n T v = true /\ c01_guard rt E n T v = true /\ stmt_unamb rt lv E n T v = true /\
    union_unamb rt lv E n T v = false /\
    mar rt E n T v = Ok w /\ unm rt E n T w = Ok v' /\ v' <> v.
Proof. exact refute_union_foreign_marshaller. Qed.

Print Assumptions C01_roundtrip.
Print Assumptions C01_fuel_unm.
Print Assumptions C01_fuel_mar.
Print Assumptions C01_refuted_full.
Print Assumptions C01_refuted_union_foreign_marshaller.
