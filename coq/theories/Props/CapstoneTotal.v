(* Props/CapstoneTotal.v -- the capstone compositions of Props/Capstone.v WITHOUT the [fuel] premises about the
   mechanism.  Theorems only (exact <lemma of Proofs/CapstoneTotal.v>), non-vacuity Examples, Print Assumptions.

   Props/Capstone.v states every composition under  done (api_call crt E orders dir fuel Ty x) = true  ("the run of the
   MECHANISM was given enough fuel"): when it was written only soundness of the mechanism was known (C05_unmarshal /
   C05_marshal).  The converse now exists (Proofs/BuildComplete.v: api_u_complete / api_m_complete; Props/C05.v:
   C05_unmarshal_complete / C05_marshal_complete / C05_*_equiv), so here the fuel of the mechanism is DERIVED:

       exists f0, forall f, f >= f0 -> api_call crt E orders dir f Ty x = <what the composition says>.

   What replaces the [fuel] premises (same crt, E, orders, noop as in Props/Capstone.v; everything else unchanged):
     [contract] orders_strict orders     graph.static_order(t) ends in t's OWN EXPANDED node (ntype root = t, not cyclic, t an
                                         evaluated annotation) and whatever an order defers has an order (node_closed).
                                         Necessary: C05_complete_refuted_without_strict_roots.  Decided per run on the table
                                         of observed orders: BuildTables.orders_strict_ok, a conjunct of orders_hyps_ok
                                         (orders_strict_ok_sound).
     [guard]    defd orders Ty = true    static_order answers for (what) the root annotation (evaluates to); computable.
     [ref]      done (mar crt E n Ty v) = true / done (unm crt E n Ty x) = true / mar crt E n Ty v = Ok w
                                         termination of the REFERENCE semantics at the fuel n of the guards (a computable
                                         side condition on (n, Ty, v), as in Props/C01.v).  Where the value theorem itself
                                         produces the reference result no such premise is left at all: the unmarshal leg
                                         of C01 (C01_roundtrip gives unm = Ok v), C13 pass-through, C13 idempotence's
                                         second call, C06-heap (hmar = Ok gives mar = Ok).
   No statement below assumes that the mechanism terminates.  The statements of Props/Capstone.v stay as they are. *)
From Coq Require Import List Arith Bool ZArith NArith.
Import ListNotations.
Require Import TL.Model.Core TL.Model.Build TL.Proofs.CoreMono TL.Proofs.BuildSemLemmas TL.Proofs.BuildComplete.
Require Import TL.Proofs.CapstoneLemmas TL.Proofs.CapstoneTotal.

(* ================================================================== 0. mechanism = reference, both directions *)
(* Capstone_mechanism_is_reference read from the other side: whatever terminal result (value or exception) the reference
   semantics gives at some fuel, the mechanism gives at EVERY sufficiently large fuel -- on the composed runtime, along
   any translated topological order.  No hypothesis about the runtime. *)
Theorem Capstone_mechanism_total : forall C kind_of rts mv rt0 P ib T srt base N G orders noop,
  (forall s, noop s = true -> TL.Model.LeafBridge.any_leaf kind_of s = true) ->
  TL.Proofs.GraphBridge.graph_orders N G noop orders -> orders_strict orders ->
  let E := TL.Model.GraphBridge.tr_env N G in
  let crt := cap_runtime C kind_of rts mv rt0 P E ib T srt base in
  forall Ty, defd orders Ty = true -> forall n x,
  (done (unm crt E n Ty x) = true ->
     exists f0, forall f, f >= f0 -> api_call crt E orders true f Ty x = unm crt E n Ty x) /\
  (done (mar crt E n Ty x) = true ->
     exists f0, forall f, f >= f0 -> api_call crt E orders false f Ty x = mar crt E n Ty x).
Proof. intros C kind_of rts mv rt0 P ib T srt base N G orders noop NS GO OS. exact (capt_mech_total C kind_of rts mv rt0 P ib T srt base N G orders noop NS GO OS). Qed.

(* ... so the two have the same terminal results *)
Theorem Capstone_mechanism_equiv_total : forall C kind_of rts mv rt0 P ib T srt base N G orders noop,
  (forall s, noop s = true -> TL.Model.LeafBridge.any_leaf kind_of s = true) ->
  TL.Proofs.GraphBridge.graph_orders N G noop orders -> orders_strict orders ->
  let E := TL.Model.GraphBridge.tr_env N G in
  let crt := cap_runtime C kind_of rts mv rt0 P E ib T srt base in
  forall Ty, defd orders Ty = true -> forall x (r : Core.res pv), done r = true ->
  ((exists m, forall m', m' >= m -> unm crt E m' Ty x = r) <->
   (exists f0, forall f, f >= f0 -> api_call crt E orders true f Ty x = r)) /\
  ((exists m, forall m', m' >= m -> mar crt E m' Ty x = r) <->
   (exists f0, forall f, f >= f0 -> api_call crt E orders false f Ty x = r)).
Proof. intros C kind_of rts mv rt0 P ib T srt base N G orders noop NS GO OS. exact (capt_mech_equiv C kind_of rts mv rt0 P ib T srt base N G orders noop NS GO OS). Qed.

(* ================================================================== 1. C01 end to end *)
(* Capstone_C01_roundtrip without  api_call .. fm = Ok w  and  done (api_call .. fu ..) = true : there is a fuel f0 from
   which on marshal through the mechanism IS the reference result (value or exception), and if that is a value w then
   unmarshal through the mechanism gives v back.
   remaining: [coding] coding_law  [law] RuntimeLaws, FoldLaws  [contract] graph_orders, orders_strict
              [guard] defd, valid, c01_guard, union_unamb  [ref] done (mar crt E n Ty v) *)
Theorem Capstone_C01_roundtrip_total : forall C kind_of rts mv rt0 P ib T srt base N G orders noop,
  TL.Model.LeafBridge.coding_law C -> (forall s, noop s = true -> TL.Model.LeafBridge.any_leaf kind_of s = true) ->
  TL.Proofs.GraphBridge.graph_orders N G noop orders -> orders_strict orders ->
  (forall s, TL.Model.Scalars.RuntimeLaws (rts s)) -> (forall s, TL.Model.LeafBridge.FoldLaws (rts s)) ->
  let E := TL.Model.GraphBridge.tr_env N G in
  let crt := cap_runtime C kind_of rts mv rt0 P E ib T srt base in
  let lvs := TL.Model.LeafBridge.lv C kind_of rts mv true in
  forall n Ty v, defd orders Ty = true ->
    TL.Model.CoreC01.valid crt lvs E n Ty v = true -> TL.Model.CoreC01.c01_guard crt E n Ty v = true ->
    TL.Model.CoreC01.union_unamb crt lvs E n Ty v = true ->
    done (mar crt E n Ty v) = true ->
    exists f0, forall fm fu, fm >= f0 -> fu >= f0 ->
      api_call crt E orders false fm Ty v = mar crt E n Ty v /\
      forall w, mar crt E n Ty v = Ok w -> api_call crt E orders true fu Ty w = Ok v.
Proof. intros C kind_of rts mv rt0 P ib T srt base N G orders noop CL NS GO OS HL HF. exact (capt_C01_roundtrip C kind_of rts mv rt0 P ib T srt base N G orders noop CL NS GO OS HL HF). Qed.

(* the weak form (no unambiguity hypothesis): three calls, all at any fuel from f0 on *)
Theorem Capstone_C01_union_fixpoint_total : forall C kind_of rts mv rt0 P ib T srt base N G orders noop,
  TL.Model.LeafBridge.coding_law C -> (forall s, noop s = true -> TL.Model.LeafBridge.any_leaf kind_of s = true) ->
  TL.Proofs.GraphBridge.graph_orders N G noop orders -> orders_strict orders ->
  (forall s, TL.Model.Scalars.RuntimeLaws (rts s)) -> (forall s, TL.Model.LeafBridge.FoldLaws (rts s)) ->
  let E := TL.Model.GraphBridge.tr_env N G in
  let crt := cap_runtime C kind_of rts mv rt0 P E ib T srt base in
  let lvs := TL.Model.LeafBridge.lv C kind_of rts mv true in
  forall n Ty v m, defd orders Ty = true ->
    TL.Model.CoreC01.fix_ok crt lvs E n Ty v = true -> mar crt E n Ty v = Ok m ->
    exists v' f0, forall f, f >= f0 ->
      api_call crt E orders false f Ty v = Ok m /\ api_call crt E orders true f Ty m = Ok v' /\
      api_call crt E orders false f Ty v' = Ok m.
Proof. intros C kind_of rts mv rt0 P ib T srt base N G orders noop CL NS GO OS HL HF. exact (capt_C01_fixpoint C kind_of rts mv rt0 P ib T srt base N G orders noop CL NS GO OS HL HF). Qed.

(* 1b. the JSON TEXT of the wire form, in any of the five text carriers (additional remaining as in
   Capstone_C01_roundtrip_text: Serdes.RuntimeLaws, load_first_ty, is_scalar w = false, encodable, json_loads_str, unS, a_ser) *)
Theorem Capstone_C01_roundtrip_text_total : forall C kind_of rts mv rt0 P ib T srt base N G orders noop,
  TL.Model.LeafBridge.coding_law C -> (forall s, noop s = true -> TL.Model.LeafBridge.any_leaf kind_of s = true) ->
  TL.Proofs.GraphBridge.graph_orders N G noop orders -> orders_strict orders ->
  (forall s, TL.Model.Scalars.RuntimeLaws (rts s)) -> (forall s, TL.Model.LeafBridge.FoldLaws (rts s)) ->
  TL.Model.Serdes.RuntimeLaws srt ->
  let E := TL.Model.GraphBridge.tr_env N G in
  let crt := cap_runtime C kind_of rts mv rt0 P E ib T srt base in
  let lvs := TL.Model.LeafBridge.lv C kind_of rts mv true in
  forall n Ty v w a k s r, defd orders Ty = true ->
    TL.Model.CoreC01.valid crt lvs E n Ty v = true -> TL.Model.CoreC01.c01_guard crt E n Ty v = true ->
    TL.Model.CoreC01.union_unamb crt lvs E n Ty v = true ->
    mar crt E n Ty v = Ok w ->
    TL.Model.IoBridge.load_first_ty E Ty = true -> is_scalar w = false ->
    TL.Model.Serdes.encodable s = true -> TL.Model.Serdes.json_loads_str srt s = TL.Model.Serdes.Ok r ->
    TL.Model.IoBridge.unS T r = Some w -> TL.Model.IoBridge.a_ser T a = TL.Model.Serdes.carrier srt k s ->
    exists f0, forall f, f >= f0 ->
      api_call crt E orders false f Ty v = Ok w /\ api_call crt E orders true f Ty (PAtom a) = Ok v /\
      api_call crt E orders true f Ty w = Ok v.
Proof. intros C kind_of rts mv rt0 P ib T srt base N G orders noop CL NS GO OS HL HF SL. exact (capt_C01_roundtrip_text C kind_of rts mv rt0 P ib T srt base N G orders noop CL NS GO OS HL HF SL). Qed.

(* ================================================================== 2. the same in any history *)
(* Capstone_C01_any_history without  done r = true  and without the premise that call i answered Ok w: at every fuel
   from f0 on, in EVERY clean history, every marshal(v, t=Ty) call answers the reference result, and every
   unmarshal(Ty, w) call for that result w answers Ok v.   f0 depends on (n, Ty, v) only. *)
Theorem Capstone_C01_any_history_total : forall C kind_of rts mv rt0 P ib T srt base N G orders noop,
  TL.Model.LeafBridge.coding_law C -> (forall s, noop s = true -> TL.Model.LeafBridge.any_leaf kind_of s = true) ->
  TL.Proofs.GraphBridge.graph_orders N G noop orders -> orders_strict orders ->
  (forall s, TL.Model.Scalars.RuntimeLaws (rts s)) -> (forall s, TL.Model.LeafBridge.FoldLaws (rts s)) ->
  let E := TL.Model.GraphBridge.tr_env N G in
  let crt := cap_runtime C kind_of rts mv rt0 P E ib T srt base in
  let lvs := TL.Model.LeafBridge.lv C kind_of rts mv true in
  forall n Ty v, defd orders Ty = true ->
    TL.Model.CoreC01.valid crt lvs E n Ty v = true -> TL.Model.CoreC01.c01_guard crt E n Ty v = true ->
    TL.Model.CoreC01.union_unamb crt lvs E n Ty v = true -> done (mar crt E n Ty v) = true ->
  exists f0, forall fuel, fuel >= f0 ->
  forall uw_fuel is_text max_load alias_load enc dec byteslike h,
    TL.Model.CacheBridge.clean_hist crt E orders uw_fuel is_text max_load alias_load enc dec byteslike fuel
      TL.Model.CacheBridge.cinit h = true ->
    (forall i, nth_error h i = Some (TL.Model.CacheBridge.CMarshal Ty v) ->
       nth_error (TL.Model.CacheBridge.outsS crt E orders uw_fuel is_text max_load alias_load enc dec byteslike fuel
                    TL.Model.CacheBridge.cinit h) i = Some (TL.Model.CacheBridge.COVal (mar crt E n Ty v))) /\
    (forall j w, mar crt E n Ty v = Ok w -> nth_error h j = Some (TL.Model.CacheBridge.CUnmarshal Ty w) ->
       nth_error (TL.Model.CacheBridge.outsS crt E orders uw_fuel is_text max_load alias_load enc dec byteslike fuel
                    TL.Model.CacheBridge.cinit h) j = Some (TL.Model.CacheBridge.COVal (Ok v))).
Proof. intros C kind_of rts mv rt0 P ib T srt base N G orders noop CL NS GO OS HL HF. exact (capt_C01_any_history C kind_of rts mv rt0 P ib T srt base N G orders noop CL NS GO OS HL HF). Qed.

(* ================================================================== 3. C02 end to end *)
(* Capstone_C02_roundtrip with the codec's two routines run at ANY fuels fm, fu >= f0 *)
Theorem Capstone_C02_roundtrip_total : forall C kind_of rts mv rt0 P ib T srt base N G orders noop,
  TL.Model.LeafBridge.coding_law C -> (forall s, noop s = true -> TL.Model.LeafBridge.any_leaf kind_of s = true) ->
  TL.Proofs.GraphBridge.graph_orders N G noop orders -> orders_strict orders ->
  (forall s, TL.Model.Scalars.RuntimeLaws (rts s)) -> (forall s, TL.Model.LeafBridge.FoldLaws (rts s)) ->
  let E := TL.Model.GraphBridge.tr_env N G in
  let crt := cap_runtime C kind_of rts mv rt0 P E ib T srt base in
  let lvs := TL.Model.LeafBridge.lv C kind_of rts mv true in
  forall atab ktab unat st strict surr dom isb class_of,
  TL.Proofs.CodecBridge.TableLaws atab ktab unat -> forallb TL.Model.Json.is_ws (TL.Model.Json.st_sp st) = true ->
  forall n Ty v w j, defd orders Ty = true ->
    TL.Model.CoreC01.valid crt lvs E n Ty v = true -> TL.Model.CoreC01.c01_guard crt E n Ty v = true ->
    TL.Model.CoreC01.union_unamb crt lvs E n Ty v = true -> mar crt E n Ty v = Ok w ->
    TL.Proofs.CodecBridge.tr atab ktab w = Some j -> dom j = true -> TL.Proofs.CodecBridge.nodup_keys j = true ->
    exists f0, forall fm fu, fm >= f0 -> fu >= f0 ->
      TL.Model.Codec.bind (encM atab ktab unat crt E orders st strict surr dom isb fm fu Ty v)
                          (decM atab ktab unat crt E orders st strict surr dom isb fm fu Ty)
        = TL.Model.Codec.Ok (TL.Proofs.CodecBridge.OVal v) /\
      api_encM atab ktab crt E orders st dom isb class_of fm Ty v = encM atab ktab unat crt E orders st strict surr dom isb fm fu Ty v /\
      (isb Ty = false ->
         exists b, encM atab ktab unat crt E orders st strict surr dom isb fm fu Ty v
                     = TL.Model.Codec.Ok (TL.Proofs.CodecBridge.OBytes b) /\
                   (forall s' u', TL.Model.Json.json_read_gen s' u' b = Some j) /\
                   TL.Proofs.CodecBridge.untr unat j = w /\
                   (TL.Proofs.JsonLemmas.known_style st ->
                      TL.Model.Json.std_loads b = Some j /\ TL.Model.Json.std_utf8_branch b = true)).
Proof. intros C kind_of rts mv rt0 P ib T srt base N G orders noop CL NS GO OS HL HF. exact (capt_C02_roundtrip C kind_of rts mv rt0 P ib T srt base N G orders noop CL NS GO OS HL HF). Qed.

(* ... with the tables derived from the coding: no [coding] premise beyond coding_law C *)
Theorem Capstone_C02_roundtrip_from_coding_total : forall C kind_of rts mv rt0 P ib T srt base N G orders noop,
  TL.Model.LeafBridge.coding_law C -> (forall s, noop s = true -> TL.Model.LeafBridge.any_leaf kind_of s = true) ->
  TL.Proofs.GraphBridge.graph_orders N G noop orders -> orders_strict orders ->
  (forall s, TL.Model.Scalars.RuntimeLaws (rts s)) -> (forall s, TL.Model.LeafBridge.FoldLaws (rts s)) ->
  forall st strict surr dom isb, forallb TL.Model.Json.is_ws (TL.Model.Json.st_sp st) = true ->
  forall n Ty v w j, defd orders Ty = true ->
    TL.Model.CoreC01.valid (cap_runtime C kind_of rts mv rt0 P (TL.Model.GraphBridge.tr_env N G) ib T srt base)
      (TL.Model.LeafBridge.lv C kind_of rts mv true) (TL.Model.GraphBridge.tr_env N G) n Ty v = true ->
    TL.Model.CoreC01.c01_guard (cap_runtime C kind_of rts mv rt0 P (TL.Model.GraphBridge.tr_env N G) ib T srt base)
      (TL.Model.GraphBridge.tr_env N G) n Ty v = true ->
    TL.Model.CoreC01.union_unamb (cap_runtime C kind_of rts mv rt0 P (TL.Model.GraphBridge.tr_env N G) ib T srt base)
      (TL.Model.LeafBridge.lv C kind_of rts mv true) (TL.Model.GraphBridge.tr_env N G) n Ty v = true ->
    mar (cap_runtime C kind_of rts mv rt0 P (TL.Model.GraphBridge.tr_env N G) ib T srt base) (TL.Model.GraphBridge.tr_env N G) n Ty v = Ok w ->
    TL.Proofs.CodecBridge.tr (cap_atab C) (cap_ktab C) w = Some j -> dom j = true -> TL.Proofs.CodecBridge.nodup_keys j = true ->
    exists f0, forall fm fu, fm >= f0 -> fu >= f0 ->
      TL.Model.Codec.bind
        (encM (cap_atab C) (cap_ktab C) (cap_unat C) (cap_runtime C kind_of rts mv rt0 P (TL.Model.GraphBridge.tr_env N G) ib T srt base)
           (TL.Model.GraphBridge.tr_env N G) orders st strict surr dom isb fm fu Ty v)
        (decM (cap_atab C) (cap_ktab C) (cap_unat C) (cap_runtime C kind_of rts mv rt0 P (TL.Model.GraphBridge.tr_env N G) ib T srt base)
           (TL.Model.GraphBridge.tr_env N G) orders st strict surr dom isb fm fu Ty)
        = TL.Model.Codec.Ok (TL.Proofs.CodecBridge.OVal v).
Proof. exact capt_C02_roundtrip_from_coding. Qed.

(* ================================================================== 4. C03 / C13 / C06 through the mechanism *)
(* C03: on every input on which the reference semantics terminates the mechanism answers (from f0 on) exactly that, and a
   value it answers conforms -- at the fuel n itself.   remaining: [coding] coding_law [contract] graph_orders,
   orders_strict [guard] wf_env, defd [ref] done (unm crt E n Ty x).  NO interpreter law. *)
Theorem Capstone_C03_conforms_total : forall C kind_of rts mv rt0 P ib T srt base N G orders noop,
  TL.Model.LeafBridge.coding_law C -> (forall s, noop s = true -> TL.Model.LeafBridge.any_leaf kind_of s = true) ->
  TL.Proofs.GraphBridge.graph_orders N G noop orders -> orders_strict orders ->
  let E := TL.Model.GraphBridge.tr_env N G in
  let crt := cap_runtime C kind_of rts mv rt0 P E ib T srt base in
  TL.Proofs.CoreC03.wf_env E ->
  forall n Ty x, defd orders Ty = true -> done (unm crt E n Ty x) = true ->
  exists f0, forall f, f >= f0 ->
    api_call crt E orders true f Ty x = unm crt E n Ty x /\
    forall v, api_call crt E orders true f Ty x = Ok v ->
      TL.Model.CoreC03.conforms crt E (TL.Model.LeafBridge.leaf_class_ok C kind_of rts) n Ty v = true.
Proof. intros C kind_of rts mv rt0 P ib T srt base N G orders noop CL NS GO OS. exact (capt_C03_conforms C kind_of rts mv rt0 P ib T srt base N G orders noop CL NS GO OS). Qed.

(* C13 pass-through: NO termination premise of any kind -- validity alone makes the reference semantics answer v *)
Theorem Capstone_C13_passthrough_total : forall C kind_of rts mv rt0 P ib T srt base N G orders noop,
  TL.Model.LeafBridge.coding_law C -> (forall s, noop s = true -> TL.Model.LeafBridge.any_leaf kind_of s = true) ->
  TL.Proofs.GraphBridge.graph_orders N G noop orders -> orders_strict orders ->
  let E := TL.Model.GraphBridge.tr_env N G in
  let crt := cap_runtime C kind_of rts mv rt0 P E ib T srt base in
  forall Tz, TL.Proofs.LeafBridge.Utf8Total rt0 -> (forall e, suppressed base (TL.Model.LeafBridge.exn_map e) = true) ->
  (forall s, TL.Model.LeafBridge.SLoadLaw Tz srt (rts s)) -> (forall s, TL.Model.LeafBridge.SShapeLaws Tz (rts s)) ->
  TL.Model.CoreValid.wf_env E ->
  forall n Ty v, defd orders Ty = true -> TL.Model.CoreValid.optional_only E n Ty = true ->
    TL.Model.CoreValid.valid (TL.Model.LeafBridge.lv_inst C kind_of rts) crt E n Ty v = true ->
    exists f0, forall f, f >= f0 -> api_call crt E orders true f Ty v = Ok v.
Proof. intros C kind_of rts mv rt0 P ib T srt base N G orders noop CL NS GO OS. exact (capt_C13_passthrough C kind_of rts mv rt0 P ib T srt base N G orders noop CL NS GO OS). Qed.

(* C13 idempotence, two readings: (a) from the reference semantics: the first call answers the reference result and, if
   that is a value y, the second call answers y; (b) Capstone_C13_idempotent's own shape (a first call DID return y)
   without  done (api_call .. f2 ..) = true  for the second call *)
Theorem Capstone_C13_idempotent_total : forall C kind_of rts mv rt0 P ib T srt base N G orders noop,
  TL.Model.LeafBridge.coding_law C -> (forall s, noop s = true -> TL.Model.LeafBridge.any_leaf kind_of s = true) ->
  TL.Proofs.GraphBridge.graph_orders N G noop orders -> orders_strict orders ->
  let E := TL.Model.GraphBridge.tr_env N G in
  let crt := cap_runtime C kind_of rts mv rt0 P E ib T srt base in
  forall Tz, TL.Proofs.LeafBridge.Utf8Total rt0 -> (forall e, suppressed base (TL.Model.LeafBridge.exn_map e) = true) ->
  (forall s, TL.Model.LeafBridge.SLoadLaw Tz srt (rts s)) -> (forall s, TL.Model.LeafBridge.SShapeLaws Tz (rts s)) ->
  (forall s w m, TL.Model.Temporal.enum_of_val (rts s) w = TL.Model.Temporal.Ok m -> TL.Model.Temporal.is_member (rts s) m = true) ->
  TL.Proofs.LeafBridge.base_idem kind_of base ->
  TL.Model.CoreValid.wf_env E -> TL.Model.CoreValid.DefaultsConform crt E ->
  forall Ty, defd orders Ty = true -> (forall k, TL.Model.CoreValid.optional_only E k Ty = true) ->
  (forall n x, done (unm crt E n Ty x) = true ->
     exists f0, forall f1 f2, f1 >= f0 -> f2 >= f0 ->
       api_call crt E orders true f1 Ty x = unm crt E n Ty x /\
       forall y, unm crt E n Ty x = Ok y -> api_call crt E orders true f2 Ty y = Ok y) /\
  (forall f1 x y, api_call crt E orders true f1 Ty x = Ok y ->
     exists f0, forall f2, f2 >= f0 -> api_call crt E orders true f2 Ty y = Ok y).
Proof. intros C kind_of rts mv rt0 P ib T srt base N G orders noop CL NS GO OS. exact (capt_C13_idempotent C kind_of rts mv rt0 P ib T srt base N G orders noop CL NS GO OS). Qed.

(* C06: wire output.  [ref] done (mar crt E m Ty v) replaces "the mechanism answered Ok w" *)
Theorem Capstone_C06_wire_total : forall C kind_of rts mv rt0 P ib T srt base N G orders noop,
  TL.Model.LeafBridge.coding_law C -> (forall s, noop s = true -> TL.Model.LeafBridge.any_leaf kind_of s = true) ->
  TL.Proofs.GraphBridge.graph_orders N G noop orders -> orders_strict orders ->
  let E := TL.Model.GraphBridge.tr_env N G in
  let crt := cap_runtime C kind_of rts mv rt0 P E ib T srt base in
  forall strict R F Ty, defd orders Ty = true ->
  TL.Model.CoreC06.fully_annotated E (TL.Model.LeafBridge.robust_leaf kind_of) (TL.Model.LeafBridge.robust_leaf kind_of) true R F Ty ->
  forall m n v, TL.Model.CoreC06.valid crt E (TL.Model.LeafBridge.lv C kind_of rts mv strict) n Ty v = true ->
    done (mar crt E m Ty v) = true ->
    exists f0, forall f, f >= f0 ->
      api_call crt E orders false f Ty v = mar crt E m Ty v /\
      forall w, api_call crt E orders false f Ty v = Ok w ->
        TL.Model.CoreC06.is_wire (TL.Model.LeafBridge.prim_atom C) w = true /\ TL.Model.CoreC06.built crt w.
Proof. intros C kind_of rts mv rt0 P ib T srt base N G orders noop CL NS GO OS. exact (capt_C06_wire C kind_of rts mv rt0 P ib T srt base N G orders noop CL NS GO OS). Qed.

(* C06 with object identity: NO premise about the mechanism and none about mar -- the heap-level routine answered
   (hmar .. = Ok (h', l'), a [fuel] premise of the HEAP semantics, kept), so the object denotes a value w, and the
   mechanism answers exactly w at every fuel from f0 on *)
Theorem Capstone_C06_heap_total : forall C kind_of rts mv rt0 P ib T srt base N G orders noop,
  TL.Model.LeafBridge.coding_law C -> (forall s, noop s = true -> TL.Model.LeafBridge.any_leaf kind_of s = true) ->
  TL.Proofs.GraphBridge.graph_orders N G noop orders -> orders_strict orders ->
  let E := TL.Model.GraphBridge.tr_env N G in
  let crt := cap_runtime C kind_of rts mv rt0 P E ib T srt base in
  forall (hr : TL.Model.Heap.hruntime) fu strict R F Ty, defd orders Ty = true ->
  TL.Model.Heap.AllocLaws hr -> TL.Model.Heap.FreshLaws hr (TL.Model.LeafBridge.robust_leaf kind_of) fu ->
  TL.Model.CoreC06.fully_annotated E (TL.Model.LeafBridge.robust_leaf kind_of) (TL.Model.LeafBridge.robust_leaf kind_of) true R F Ty ->
  forall fuel n h l v h' l',
    TL.Model.Heap.read fuel h l = Some v ->
    TL.Model.CoreC06.valid crt E (TL.Model.LeafBridge.lv C kind_of rts mv strict) n Ty v = true ->
    TL.Model.Heap.hmar crt hr E fuel Ty h l = Ok (h', l') ->
    exists w f0,
      (forall f, f >= f0 -> api_call crt E orders false f Ty v = Ok w) /\
      TL.Model.Heap.reads h' l' w /\ TL.Model.CoreC06.is_wire (TL.Model.LeafBridge.prim_atom C) w = true /\
      (forall p, TL.Model.Heap.reach h' l' p -> TL.Model.Heap.mutable_at h' p = true -> List.length h <= p) /\
      (forall k p x, TL.Model.Heap.read k h p = Some x -> TL.Model.Heap.read k h' p = Some x).
Proof. intros C kind_of rts mv rt0 P ib T srt base N G orders noop CL NS GO OS. exact (capt_C06_heap C kind_of rts mv rt0 P ib T srt base N G orders noop CL NS GO OS). Qed.

(* ================================================================== 5. C08 inside C05 *)
Theorem Capstone_C08_first_acceptor_total : forall C kind_of rts mv rt0 P ib T srt base N G orders noop,
  TL.Model.LeafBridge.coding_law C -> (forall s, noop s = true -> TL.Model.LeafBridge.any_leaf kind_of s = true) ->
  TL.Proofs.GraphBridge.graph_orders N G noop orders -> orders_strict orders ->
  let E := TL.Model.GraphBridge.tr_env N G in
  let crt := cap_runtime C kind_of rts mv rt0 P E ib T srt base in
  TL.Proofs.LeafBridge.Utf8Total rt0 -> (forall e, suppressed base (TL.Model.LeafBridge.exn_map e) = true) ->
  forall n ts x, defd orders (TUnion ts) = true -> x <> none crt \/ isoptional ts = false ->
    done (unm crt E n (TUnion ts) x) = true ->
    exists f0, forall f, f >= f0 ->
      api_call crt E orders true f (TUnion ts) x = unm crt E n (TUnion ts) x /\
      forall y, api_call crt E orders true f (TUnion ts) x = Ok y ->
        exists n0, forall k, k >= n0 ->
          exists i t, nth_error ts i = Some t /\ unm crt E (S k) t x = Ok y /\
            forall j tj, j < i -> nth_error ts j = Some tj -> TL.Proofs.UnionBridge.c_rejects crt (unm crt E (S k) tj) x.
Proof. intros C kind_of rts mv rt0 P ib T srt base N G orders noop CL NS GO OS. exact (capt_C08_first_acceptor C kind_of rts mv rt0 P ib T srt base N G orders noop CL NS GO OS). Qed.

(* ================================================================== 6. Any fields *)
Theorem Capstone_C01_roundtrip_with_any_total : forall C kind_of rts mv rt0 P ib T srt base N G orders,
  TL.Model.LeafBridge.coding_law C ->
  (forall s, TL.Model.Scalars.RuntimeLaws (rts s)) -> (forall s, TL.Model.LeafBridge.FoldLaws (rts s)) ->
  TL.Proofs.GraphBridge.graph_orders N G (only_leaf (TL.Model.GraphBridge.any_id N)) orders -> orders_strict orders ->
  forall n Ty v,
    let E := TL.Model.GraphBridge.tr_env N G in
    let rt := cap_runtime C (with_any (TL.Model.GraphBridge.any_id N) kind_of) rts mv rt0 P E ib T srt base in
    let lva := TL.Model.LeafBridge.lv C (with_any (TL.Model.GraphBridge.any_id N) kind_of) rts mv true in
    defd orders Ty = true ->
    TL.Model.CoreC01.valid rt lva E n Ty v = true -> TL.Model.CoreC01.c01_guard rt E n Ty v = true ->
    TL.Model.CoreC01.union_unamb rt lva E n Ty v = true ->
    done (mar rt E n Ty v) = true ->
    exists f0, forall fm fu, fm >= f0 -> fu >= f0 ->
      api_call rt E orders false fm Ty v = mar rt E n Ty v /\
      forall w, mar rt E n Ty v = Ok w -> api_call rt E orders true fu Ty w = Ok v.
Proof. intros C kind_of rts mv rt0 P ib T srt base N G orders CL HL HF GO OS. exact (capt_C01_roundtrip_with_any C kind_of rts mv rt0 P ib T srt base N G orders CL HL HF GO OS). Qed.

(* ================================================================== not made total *)
(* Capstone_C03_any_history: its only premise about a run is  "call k of the history answered Ok v"  -- an observation of
   the memoised system, not a termination assumption; there is nothing to derive.  (A total reading is the conjunction of
   Capstone_C03_conforms_total with C12Bridge_kth_call, as done for C01 in Capstone_C01_any_history_total.)
   Capstone_C06_heap keeps  hmar crt hr E fuel Ty h l = Ok (h', l'):  that is termination of the HEAP-level reference
   routine (Model/Heap.v), for which no mechanism exists in the model; the full statement without it would be
     forall .. , read fuel h l = Some v -> valid .. n Ty v = true -> done (mar crt E m Ty v) = true ->
       exists k h' l', forall k', k' >= k -> hmar crt hr E k' Ty h l = Ok (h', l')
   and needs a completeness lemma  mar terminal -> hmar terminal  (the converse of C06H_marshal_refines) that
   Proofs/HeapLemmas.v does not have. *)

(* ================================================================== non-vacuity *)
(* the instance of Props/Capstone.v (class N0: kids: list[N0]; val: Optional[int]; root list[N0]; the value
   [N0(kids=[N0(kids=[], val=None)], val=5), N0(kids=[], val=7)]): ALL hypotheses of Capstone_C01_roundtrip_total hold,
   orders_strict and defd included (the two-row order table passes BuildTables.orders_strict_ok: the cyclic node of
   list[N0]'s order defers list[N0], which has an order) ... *)
Example CapstoneTotal_C01_instance :
  TL.Model.LeafBridge.coding_law ex_coding /\
  (forall s, TL.Model.Scalars.RuntimeLaws (ex_rts s)) /\ (forall s, TL.Model.LeafBridge.FoldLaws (ex_rts s)) /\
  TL.Proofs.GraphBridge.graph_orders ex_N ex_G no_noop ex_orders /\
  TL.Model.BuildTables.orders_strict_ok ex_table = true /\ orders_strict ex_orders /\
  defd ex_orders ex_Tn = true /\ defd ex_orders ex_Ti = true /\
  TL.Model.CoreC01.valid ex_rt ex_lv ex_E 8 ex_Tn ex_value = true /\
  TL.Model.CoreC01.c01_guard ex_rt ex_E 8 ex_Tn ex_value = true /\
  TL.Model.CoreC01.union_unamb ex_rt ex_lv ex_E 8 ex_Tn ex_value = true /\
  done (mar ex_rt ex_E 8 ex_Tn ex_value) = true /\ mar ex_rt ex_E 8 ex_Tn ex_value = Ok ex_wire.
Proof.
  exact (conj ex_coding_law (conj (fun _ => TL.Proofs.ScalarsToyLemmas.toy_laws) (conj (fun _ => TL.Proofs.LeafBridge.toy_fold_laws)
        (conj ex_graph_orders (conj ex_table_strict_ok (conj ex_orders_strict (conj (proj1 ex_defd) (conj (proj2 ex_defd)
        (conj (proj1 ex_instance) (conj (proj1 (proj2 ex_instance)) (conj (proj1 (proj2 (proj2 ex_instance)))
        (conj (proj1 (proj2 (proj2 (proj2 ex_instance)))) ex_mar_ref)))))))))))).
Qed.
(* ... the theorem applied to it (its conclusion with mar .. = Ok ex_wire substituted) ... *)
Example CapstoneTotal_C01_instance_by_theorem :
  exists f0, forall fm fu, fm >= f0 -> fu >= f0 ->
    api_call ex_rt ex_E ex_orders false fm ex_Tn ex_value = Ok ex_wire /\
    api_call ex_rt ex_E ex_orders true fu ex_Tn ex_wire = Ok ex_value.
Proof. exact ex_total_by_theorem. Qed.
(* ... and a fuel exhibited: 20 *)
Example CapstoneTotal_C01_instance_fuel :
  forall f, f >= 20 ->
    api_call ex_rt ex_E ex_orders false f ex_Tn ex_value = Ok ex_wire /\
    api_call ex_rt ex_E ex_orders true f ex_Tn ex_wire = Ok ex_value.
Proof. exact ex_total_fuel. Qed.

(* (5) Optional[int] as a root: the order table of Capstone_C08_instance is strict too; fuel 20 *)
Example CapstoneTotal_C08_instance :
  orders_strict ex_orders_u /\ defd ex_orders_u ex_Tu = true /\
  forall f, f >= 20 -> api_call ex_rt ex_E ex_orders_u true f ex_Tu (ex_int 5) = Ok (ex_int 5).
Proof. exact ex_union_total. Qed.

Print Assumptions Capstone_mechanism_total.
Print Assumptions Capstone_mechanism_equiv_total.
Print Assumptions Capstone_C01_roundtrip_total.
Print Assumptions Capstone_C01_union_fixpoint_total.
Print Assumptions Capstone_C01_roundtrip_text_total.
Print Assumptions Capstone_C01_any_history_total.
Print Assumptions Capstone_C02_roundtrip_total.
Print Assumptions Capstone_C02_roundtrip_from_coding_total.
Print Assumptions Capstone_C03_conforms_total.
Print Assumptions Capstone_C13_passthrough_total.
Print Assumptions Capstone_C13_idempotent_total.
Print Assumptions Capstone_C06_wire_total.
Print Assumptions Capstone_C06_heap_total.
Print Assumptions Capstone_C08_first_acceptor_total.
Print Assumptions Capstone_C01_roundtrip_with_any_total.
Print Assumptions CapstoneTotal_C01_instance.
Print Assumptions CapstoneTotal_C01_instance_by_theorem.
Print Assumptions CapstoneTotal_C01_instance_fuel.
Print Assumptions CapstoneTotal_C08_instance.
