(* C06 -- marshalled output is plain JSON-compatible data, freshly built.  Theorems only.

   All theorems are about Core.mar itself (NoneTypeMarshaller arm, /repo ae6ba7e).  CoreC06.mar_fixed is the same
   function in the shape marG none_m used by the proofs (C06_mar_is_mar_fixed, by conversion).
   The theorems quantify over every runtime rt, class environment E, annotation T, value v and every fuel.
   marG none_echo is the PINNED routine (NoOpMarshaller for NoneType); the C06_pinned_* witnesses record the
   repaired defects. *)
From Coq Require Import List Arith Bool PeanoNat.
Import ListNotations.
Require Import TL.Model.Core.
Require Import TL.Model.CoreC06.
Require Import TL.Model.CoreC06Toy.
Require Import TL.Proofs.CoreC06.

(* ---- the statement at full strength ---- *)
Theorem C06_full :
  forall rt E prim_atom robust_leaf wire_leaf R F leaf_valid lit_leaf lit_member,
    MarshalLaws rt prim_atom robust_leaf wire_leaf leaf_valid lit_leaf lit_member ->
    forall T, fully_annotated E robust_leaf wire_leaf true R F T ->
    forall m n v w, valid rt E leaf_valid n T v = true -> mar rt E m T v = Ok w ->
                    is_wire prim_atom w = true /\ built rt w.
Proof. exact full_holds. Qed.

(* ---- every valid value of a fully annotated type marshals to wire data ---- *)
Theorem C06_wire :
  forall rt E prim_atom robust_leaf wire_leaf R F leaf_valid lit_leaf lit_member,
    MarshalLaws rt prim_atom robust_leaf wire_leaf leaf_valid lit_leaf lit_member ->
    forall T, fully_annotated E robust_leaf wire_leaf true R F T ->
    forall m n v w, valid rt E leaf_valid n T v = true -> mar rt E m T v = Ok w ->
                    is_wire prim_atom w = true.
Proof. exact fixed_wire_valid. Qed.

Example C06_wire_nonvacuous :
  MarshalLaws (toy_rt false) toy_prim toy_robust toy_robust toy_valid toy_lit toy_lit_member /\
  fully_annotated toy_E toy_robust toy_robust true toy_R toy_R toy_T /\
  valid (toy_rt false) toy_E toy_valid 6 toy_T toy_v = true /\
  mar (toy_rt false) toy_E 6 toy_T toy_v = Ok toy_w /\ is_wire toy_prim toy_w = true.
Proof.
  split; [exact toy_laws|]. split; [split; [exact toy_env_robust | split; [exact toy_env_fa | reflexivity]]|].
  split; [vm_compute; reflexivity|]. split; vm_compute; reflexivity.
Qed.

(* ---- whatever the input, a robust annotation never lets non-wire data out ---- *)
Theorem C06_wire_any_input :
  forall rt E prim_atom robust_leaf wire_leaf R leaf_valid lit_leaf lit_member,
    MarshalLaws rt prim_atom robust_leaf wire_leaf leaf_valid lit_leaf lit_member ->
    env_robust E robust_leaf true R ->
    forall m T x w, robust_ty robust_leaf true R T = true -> mar rt E m T x = Ok w ->
                    is_wire prim_atom w = true.
Proof. exact fixed_wire_any. Qed.

Example C06_wire_any_input_nonvacuous :
  robust_ty toy_robust true toy_R none_first_T = true /\
  mar (toy_rt false) empty_E 3 none_first_T (PAtom 3) = Ok (PAtom 4) /\
  mar (toy_rt false) empty_E 3 none_first_T (PAtom 0) = Ok (PAtom 0).
Proof. repeat split; vm_compute; reflexivity. Qed.

(* ---- freshness: the result is a tree of list / dict nodes built by the composite routines, over results of
        leaf routines, field names and None.  No annotation, input or law is excluded. ---- *)
Theorem C06_fresh :
  forall rt E m T x w, mar rt E m T x = Ok w -> built rt w.
Proof. exact fixed_built. Qed.

Theorem C06_fresh_shape :
  forall rt E prim_atom robust_leaf wire_leaf R F leaf_valid lit_leaf lit_member,
    MarshalLaws rt prim_atom robust_leaf wire_leaf leaf_valid lit_leaf lit_member ->
    forall T, fully_annotated E robust_leaf wire_leaf true R F T ->
    forall m n v w, valid rt E leaf_valid n T v = true -> mar rt E m T v = Ok w ->
                    only_list_dict w = true.
Proof. exact fixed_shape. Qed.

Example C06_fresh_nonvacuous :
  mar (toy_rt false) toy_E 6 toy_T toy_v = Ok toy_w /\ only_list_dict toy_v = false /\ only_list_dict toy_w = true.
Proof. repeat split; vm_compute; reflexivity. Qed.

(* ---- a function of (rt, E, T, v); repeated calls, call history and caches are the business of the tie ---- *)
Theorem C06_deterministic :
  forall rt E m T x w1 w2, mar rt E m T x = Ok w1 -> mar rt E m T x = Ok w2 -> w1 = w2.
Proof. exact fixed_deterministic. Qed.

(* ---- Literal: a value that is not a member is rejected with ValueError (law_literal, sampled on every run) ---- *)
Theorem C06_literal_rejects :
  forall rt E prim_atom robust_leaf wire_leaf leaf_valid lit_leaf lit_member,
    MarshalLaws rt prim_atom robust_leaf wire_leaf leaf_valid lit_leaf lit_member ->
    forall s x m, lit_leaf s = true -> lit_member s x = false ->
      mar rt E (S m) (TLeaf s) x = Raise EValue.
Proof. intros rt E p rl wl lv ll lm L s x m Hs Hx. exact (proj2 (literal_rejects rt E p rl wl lv ll lm L s x m Hs Hx)). Qed.

Example C06_literal_rejects_nonvacuous :
  toy_lit 2 = true /\ toy_lit_member 2 (PAtom 6) = false /\
  mar (toy_rt false) empty_E 1 (TLeaf 2) (PAtom 6) = Raise EValue /\
  mar (toy_rt false) empty_E 1 (TLeaf 2) (PAtom 5) = Ok (PAtom 5).
Proof. repeat split; vm_compute; reflexivity. Qed.

(* ---- Core.mar is the function the proofs speak about ---- *)
Theorem C06_mar_is_mar_fixed :
  forall rt E m T x, mar rt E m T x = mar_fixed rt E m T x.
Proof. exact mar_is_marG. Qed.

(* ---- the repaired defects, as witnesses about the PINNED routine marG none_echo ---- *)
(* marshal(Decimal('1.5'), t=Union[None, Decimal]) returned the Decimal itself *)
Theorem C06_pinned_none_first_refuted :
  valid (toy_rt false) empty_E toy_valid 3 none_first_T (PAtom 3) = true /\
  marG (toy_rt false) empty_E none_echo 3 none_first_T (PAtom 3) = Ok (PAtom 3) /\ is_wire toy_prim (PAtom 3) = false /\
  mar (toy_rt false) empty_E 3 none_first_T (PAtom 3) = Ok (PAtom 4) /\ is_wire toy_prim (PAtom 4) = true.
Proof. repeat split; vm_compute; reflexivity. Qed.

(* ... and marshal(l, t=Union[None, list[int]]) returned the input list l itself, not a rebuilt one *)
Theorem C06_pinned_none_first_shares :
  exists T x, valid (toy_rt false) empty_E toy_valid 4 T x = true /\
              marG (toy_rt false) empty_E none_echo 4 T x = Ok x /\ x = PSeq KList [PAtom 1; PAtom 5] /\
              mar (toy_rt false) empty_E 4 T x = Ok (PSeq KList [PAtom 1; PAtom 5]).
Proof. exists none_first_seq_T, (PSeq KList [PAtom 1; PAtom 5]). repeat split; vm_compute; reflexivity. Qed.

(* why law_robust is asked of Literal leaves: with membership by == (the pinned LiteralMarshaller),
   marshal(Decimal('1'), t=Union[Literal[1], Decimal]) emits the Decimal *)
Theorem C06_refuted_literal_eq :
  exists T v w, valid (toy_rt true) empty_E toy_valid 3 T v = true /\
                mar (toy_rt true) empty_E 3 T v = Ok w /\ is_wire toy_prim w = false /\
                leaf_m (toy_rt true) 2 v = Ok w /\ toy_lit_member 2 v = false.
Proof. exists lit_eq_T, (PAtom 6), (PAtom 6). repeat split; vm_compute; reflexivity. Qed.

Print Assumptions C06_full.
Print Assumptions C06_wire.
Print Assumptions C06_wire_any_input.
Print Assumptions C06_fresh.
Print Assumptions C06_fresh_shape.
Print Assumptions C06_deterministic.
Print Assumptions C06_literal_rejects.
Print Assumptions C06_mar_is_mar_fixed.
Print Assumptions C06_pinned_none_first_refuted.
Print Assumptions C06_pinned_none_first_shares.
Print Assumptions C06_refuted_literal_eq.
