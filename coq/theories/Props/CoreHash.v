(* Order of hashing in Core's set / mapping steps.  Model/Core.v hashes each element (key) as soon as it is produced,
   as the code does (`self.origin(gen)`, `{k: v for ..}`); the earlier formulation converted every member first
   (Model/CoreLate.v: seq_late / map_late / mmap_late).  For every runtime, environment, fuel, annotation, input:
   the two have the same `Ok` results; they are EQUAL unless `*_parts` (an unhashable result followed by a member
   failing with something else than TypeError); there Core raises TypeError (what /repo does) and the earlier
   formulation reported the later failure.  Theorems only (`exact lemma`) + witnesses. *)
From Coq Require Import List Arith Bool PeanoNat.
Import ListNotations.
Require Import TL.Model.Core TL.Model.CoreLate TL.Proofs.CoreMono TL.Proofs.CoreHash TL.Proofs.CoreLate.

Theorem CH_unm_set_ok_iff : forall rt E n k a x y,
  unm rt E (S n) (TSeq k a) x = Ok y <-> seq_late rt (unm rt E n) k a x = Ok y.
Proof. exact unm_seq_ok_iff_late. Qed.
Theorem CH_unm_map_ok_iff : forall rt E n k kt vt x y,
  unm rt E (S n) (TMap k kt vt) x = Ok y <-> map_late rt E (unm rt E n) k kt vt x = Ok y.
Proof. exact unm_map_ok_iff_late. Qed.
Theorem CH_mar_map_ok_iff : forall rt E n k kt vt x y,
  mar rt E (S n) (TMap k kt vt) x = Ok y <-> mmap_late rt E (mar rt E n) kt vt x = Ok y.
Proof. exact mar_map_ok_iff_late. Qed.

Theorem CH_unm_set_eq_late : forall rt E n k a x, seq_parts rt (unm rt E n) k a x = false ->
  unm rt E (S n) (TSeq k a) x = seq_late rt (unm rt E n) k a x.
Proof. exact unm_seq_eq_late. Qed.
Theorem CH_unm_map_eq_late : forall rt E n k kt vt x, map_parts rt E (unm rt E n) kt vt x = false ->
  unm rt E (S n) (TMap k kt vt) x = map_late rt E (unm rt E n) k kt vt x.
Proof. exact unm_map_eq_late. Qed.
Theorem CH_mar_map_eq_late : forall rt E n k kt vt x, mmap_parts rt E (mar rt E n) kt vt x = false ->
  mar rt E (S n) (TMap k kt vt) x = mmap_late rt E (mar rt E n) kt vt x.
Proof. exact mar_map_eq_late. Qed.

(* the region is exact: inside it Core raises TypeError and the earlier formulation something else *)
Theorem CH_unm_set_outside_late : forall rt E n k a x, seq_parts rt (unm rt E n) k a x = true ->
  unm rt E (S n) (TSeq k a) x = Raise EType /\ is_other (seq_late rt (unm rt E n) k a x) = true.
Proof. exact unm_seq_outside_late. Qed.
Theorem CH_unm_map_outside_late : forall rt E n k kt vt x, map_parts rt E (unm rt E n) kt vt x = true ->
  unm rt E (S n) (TMap k kt vt) x = Raise EType /\ is_other (map_late rt E (unm rt E n) k kt vt x) = true.
Proof. exact unm_map_outside_late. Qed.
Theorem CH_mar_map_outside_late : forall rt E n k kt vt x, mmap_parts rt E (mar rt E n) kt vt x = true ->
  mar rt E (S n) (TMap k kt vt) x = Raise EType /\ is_other (mmap_late rt E (mar rt E n) kt vt x) = true.
Proof. exact mar_map_outside_late. Qed.

(* the generic facts *)
Theorem CH_mapM_hashing_ok : forall rt (A B : Type) (key : B -> pv) (f : A -> res B) l rs,
  mapM (hashing rt key f) l = Ok rs <->
  mapM f l = Ok rs /\ existsb (fun b => unhashable rt (key b)) rs = false.
Proof. exact mapM_hashing_ok. Qed.
Theorem CH_hashing_done : forall rt (A B : Type) (key : B -> pv) (f : A -> res B) x,
  done (hashing rt key f x) = done (f x).
Proof. exact hashing_done. Qed.

Print Assumptions CH_unm_set_ok_iff.
Print Assumptions CH_unm_map_ok_iff.
Print Assumptions CH_mar_map_ok_iff.
Print Assumptions CH_unm_set_eq_late.
Print Assumptions CH_unm_map_eq_late.
Print Assumptions CH_mar_map_eq_late.
Print Assumptions CH_unm_set_outside_late.
Print Assumptions CH_unm_map_outside_late.
Print Assumptions CH_mar_map_outside_late.
Print Assumptions CH_mapM_hashing_ok.
Print Assumptions CH_hashing_done.

(* ------------------------------------------------------------------ witnesses (replayed on /repo) *)
(* leaf 0 is `int` (atom 9 -- the text "x" -- is a ValueError) *)
Definition rt0 : runtime := {|
  leaf_u := fun s v => match v with PAtom 9 => Raise EValue | PAtom _ => Ok v | _ => Raise EType end;
  leaf_m := fun s v => match v with PAtom 9 => Raise EValue | _ => Ok v end;
  none_u := fun v => match v with PAtom 5 => Ok v | _ => Raise EValue end;
  load_scalar := fun v => Ok v;
  values_scalar := fun _ => Raise EType;
  items_scalar := fun _ => Raise EType;
  pairlike_scalar := fun _ => false;
  unpack_scalar := fun _ => Raise EType;
  index := fun i => PAtom (100 + i);
  unhashable_class := fun _ => false;
  atom_eq := fun _ _ => false;
  none := PAtom 5;
  suppressed := fun _ => true |}.
Definition E0 : env := fun _ => None.
Definition lst (l : list pv) := PSeq KList l.

(* unmarshal(set[list[int]], [[1], ["x"]]) raises TypeError("unhashable type: 'list'") on /repo *)
Example CH_unm_set_witness :
  let t := TSeq KList (TLeaf 0) in
  let x := lst [lst [PAtom 1]; lst [PAtom 9]] in
  seq_parts rt0 (unm rt0 E0 2) KSet t x = true /\
  unm rt0 E0 3 (TSeq KSet t) x = Raise EType /\
  seq_late rt0 (unm rt0 E0 2) KSet t x = Raise EValue.
Proof. vm_compute. repeat split. Qed.
(* unmarshal(dict[list[int], int], [[[1], 2], [[2], "x"]]) raises TypeError on /repo *)
Example CH_unm_map_witness :
  let kt := TSeq KList (TLeaf 0) in
  let x := lst [lst [lst [PAtom 1]; PAtom 2]; lst [lst [PAtom 2]; PAtom 9]] in
  map_parts rt0 E0 (unm rt0 E0 2) kt (TLeaf 0) x = true /\
  unm rt0 E0 3 (TMap KDict kt (TLeaf 0)) x = Raise EType /\
  map_late rt0 E0 (unm rt0 E0 2) KDict kt (TLeaf 0) x = Raise EValue.
Proof. vm_compute. repeat split. Qed.
(* marshal({(1,): 2, (2,): "x"}, dict[tuple[int, ...], int]) raises TypeError on /repo (a tuple key marshals to a list) *)
Example CH_mar_map_witness :
  let kt := TSeq KTuple (TLeaf 0) in
  let x := PDict KDict [(PSeq KTuple [PAtom 1], PAtom 2); (PSeq KTuple [PAtom 2], PAtom 9)] in
  mmap_parts rt0 E0 (mar rt0 E0 2) kt (TLeaf 0) x = true /\
  mar rt0 E0 3 (TMap KDict kt (TLeaf 0)) x = Raise EType /\
  mmap_late rt0 E0 (mar rt0 E0 2) kt (TLeaf 0) x = Raise EValue.
Proof. vm_compute. repeat split. Qed.
(* an EARLIER member failing wins in both orders; all members converting: the unhashable element is the TypeError *)
Example CH_unm_set_earlier :
  let t := TSeq KList (TLeaf 0) in
  unm rt0 E0 3 (TSeq KSet t) (lst [lst [PAtom 9]; lst [PAtom 1]]) = Raise EValue /\
  seq_parts rt0 (unm rt0 E0 2) KSet t (lst [lst [PAtom 9]; lst [PAtom 1]]) = false /\
  unm rt0 E0 3 (TSeq KSet t) (lst [lst [PAtom 1]; lst [PAtom 2]]) = Raise EType.
Proof. vm_compute. repeat split. Qed.
Example CH_unm_set_ok :
  unm rt0 E0 3 (TSeq KSet (TLeaf 0)) (lst [PAtom 1; PAtom 1; PAtom 2]) = Ok (PSeq KSet [PAtom 1; PAtom 2]).
Proof. vm_compute. reflexivity. Qed.
