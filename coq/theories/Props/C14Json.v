(* Property C14 on the concrete JSON reader: Serdes.Runtime instantiated with Model/Json.v (Model/SerdesJson.v).
   Only theorems (closed by `exact`), non-vacuity Examples, Print Assumptions.

   serdes_rt strict float_of float_tok lit_eval repr : the runtime whose UTF-8 codec is utf8_enc / utf8_dec and whose
   JSON decoder is the reader of Model/Json.v -- strict = true: orjson.loads (the configured backend),
   strict = false: json.loads (the fallback when orjson is not importable).  Still abstract: ast.literal_eval (its
   documented exception kinds are the one hypothesis left of RuntimeLaws), repr, the float conversion.
   Since C14-strload-decode-first.diff strload hands the decoder TEXT only, and every theorem below holds for BOTH
   backends; load_rawjson is the code before that repair (decoder on the bytes). *)
From Coq Require Import List ZArith NArith Bool.
Import ListNotations.
Require Import TL.Model.Serdes TL.Model.SerdesEq TL.Proofs.SerdesLemmas.
Require Import TL.Model.Json TL.Model.JsonEq TL.Proofs.JsonLemmas TL.Proofs.CodecBridge.
Require Import TL.Model.SerdesJson TL.Proofs.SerdesJson.

(* Serdes.RuntimeLaws (utf8_rt, json_errors_value) are theorems of both instances; literal_errors_doc remains the hypothesis *)
Theorem C14Json_runtime_laws : forall strict float_of float_tok lit_eval repr,
  (forall s e, lit_eval s = Raise e -> literal_suppressed e = true) ->
  RuntimeLaws (serdes_rt strict float_of float_tok lit_eval repr).
Proof. exact laws_inst. Qed.

(* hence every C14 theorem holds of them; the central one: *)
Theorem C14Json_carriers : forall strict float_of float_tok lit_eval repr,
  (forall s e, lit_eval s = Raise e -> literal_suppressed e = true) ->
  forall rest whole sup h k s, encodable s = true -> c14_guard h = true ->
  entry (serdes_rt strict float_of float_tok lit_eval repr) rest whole sup h
        (carrier (serdes_rt strict float_of float_tok lit_eval repr) k s) =
  entry (serdes_rt strict float_of float_tok lit_eval repr) rest whole sup h (PStr s).
Proof.
  intros st fo ft le rp Hl rest whole sup h k s He Hg.
  exact (entry_carrier _ (laws_inst st fo ft le rp Hl) rest whole sup h k s He Hg).
Qed.

(* C14_load_json with the decoder no longer abstract: load / strload return what parse_text returns (through Python's
   dict construction), in every carrier; bytes-like input of any content: what it returns for the decoded text *)
Theorem C14Json_load_json : forall strict float_of float_tok lit_eval repr,
  (forall s e, lit_eval s = Raise e -> literal_suppressed e = true) ->
  (forall k s j, encodable s = true -> parse_text strict s = Some j ->
     load (serdes_rt strict float_of float_tok lit_eval repr) (carrier (serdes_rt strict float_of float_tok lit_eval repr) k s)
       = Ok (pv_of float_of (jv_norm j)) /\
     match carrier (serdes_rt strict float_of float_tok lit_eval repr) k s with
     | PText k' p => strload (serdes_rt strict float_of float_tok lit_eval repr) k' p = Ok (pv_of float_of (jv_norm j))
     | _ => False end) /\
  (forall k b s j, is_bin k = true -> utf8_dec false b = Some s -> parse_text strict s = Some j ->
     strload (serdes_rt strict float_of float_tok lit_eval repr) k b = Ok (pv_of float_of (jv_norm j))).
Proof.
  intros st fo ft le rp Hl. split.
  - exact (load_json_str st fo ft le rp Hl).
  - exact (strload_json_bytes st fo ft le rp).
Qed.

(* JSON text of ANY wire value (any nesting, any Unicode string, any integer), in the form of either backend,
   in any of the five carriers: load returns exactly that value; the bytes carriers hold json_write's bytes *)
Theorem C14Json_load_wire : forall strict float_of float_tok lit_eval repr,
  (forall s e, lit_eval s = Raise e -> literal_suppressed e = true) ->
  forall st k j, forallb is_ws (st_sp st) = true -> jv_ok j = true -> nodup_keys j = true ->
  load (serdes_rt strict float_of float_tok lit_eval repr)
       (carrier (serdes_rt strict float_of float_tok lit_eval repr) k (wr st j)) = Ok (pv_of float_of j) /\
  carrier (serdes_rt strict float_of float_tok lit_eval repr) CBytes (wr st j) = PText CBytes (json_write st j).
Proof. intros sc fo ft le rp Hl st k j. exact (load_wire sc fo ft le rp Hl st k j). Qed.

(* the boundary: text the reader rejects is handed to the (abstract) literal reader; what that rejects too comes
   back as str.  So load never returns a JSON reading of text that is not JSON. *)
Theorem C14Json_load_rejected : forall strict float_of float_tok lit_eval repr,
  (forall s e, lit_eval s = Raise e -> literal_suppressed e = true) ->
  forall k s, encodable s = true -> parse_text strict s = None ->
  load (serdes_rt strict float_of float_tok lit_eval repr) (carrier (serdes_rt strict float_of float_tok lit_eval repr) k s) =
  match lit_eval s with Ok r => Ok r | Raise _ => Ok (PStr s) end.
Proof. intros sc fo ft le rp Hl k s. exact (load_rejected sc fo ft le rp Hl k s). Qed.

(* loads (dumps m) = m, and C14_json_text without its JSON hypothesis *)
Theorem C14Json_loads_dumps : forall strict float_of float_tok lit_eval repr,
  (forall v, is_float v = true -> float_of (float_tok v) = v) ->
  forall m j, jv_of float_tok m = Some j -> jv_ok j = true -> nodup_keys j = true ->
  encodable (Serdes.json_dumps (serdes_rt strict float_of float_tok lit_eval repr) m) = true /\
  json_loads_str (serdes_rt strict float_of float_tok lit_eval repr)
                 (Serdes.json_dumps (serdes_rt strict float_of float_tok lit_eval repr) m) = Ok m.
Proof. intros sc fo ft le rp Hf m j. exact (loads_dumps sc fo ft le rp Hf m j). Qed.

Theorem C14Json_json_text : forall strict float_of float_tok lit_eval repr,
  (forall s e, lit_eval s = Raise e -> literal_suppressed e = true) ->
  (forall v, is_float v = true -> float_of (float_tok v) = v) ->
  forall rest whole sup h k m j, load_first h = true -> is_text m = false ->
  jv_of float_tok m = Some j -> jv_ok j = true -> nodup_keys j = true ->
  entry (serdes_rt strict float_of float_tok lit_eval repr) rest whole sup h
        (carrier (serdes_rt strict float_of float_tok lit_eval repr) k
                 (Serdes.json_dumps (serdes_rt strict float_of float_tok lit_eval repr) m)) =
  entry (serdes_rt strict float_of float_tok lit_eval repr) rest whole sup h m.
Proof. intros sc fo ft le rp Hl Hf rest whole sup h k m j. exact (entry_json_text_inst sc fo ft le rp Hl Hf rest whole sup h k m j). Qed.

(* The code BEFORE C14-strload-decode-first.diff handed the decoder the bytes.
   orjson: no difference, on any input (so the repair changes nothing for the configured backend). *)
Theorem C14Json_rawjson_orjson_same : forall float_of float_tok lit_eval repr v,
  load_rawjson (serdes_rt true float_of float_tok lit_eval repr) v = load (serdes_rt true float_of float_tok lit_eval repr) v.
Proof. exact rawjson_strict_same. Qed.
(* json.loads (orjson not importable): it strips a UTF-8 signature from bytes and rejects U+FEFF in a str, so the
   bytes / bytearray carriers of U+FEFF '1' loaded as the int 1 and the str as itself (replayed on /repo b74fc47 with
   orjson shadowed: serdes.load(b'\xef\xbb\xbf1') == 1); after the repair every carrier loads as the str *)
Theorem C14Json_refuted_rawjson_lenient : forall float_of float_tok lit_eval repr,
  lit_eval bom1_text = Raise ESyntax ->
  encodable bom1_text = true /\
  load_rawjson (serdes_rt false float_of float_tok lit_eval repr)
       (carrier (serdes_rt false float_of float_tok lit_eval repr) CBytes bom1_text) = Ok (PInt 1) /\
  load_rawjson (serdes_rt false float_of float_tok lit_eval repr)
       (carrier (serdes_rt false float_of float_tok lit_eval repr) CBytearray bom1_text) = Ok (PInt 1) /\
  load_rawjson (serdes_rt false float_of float_tok lit_eval repr) (PStr bom1_text) = Ok (PStr bom1_text) /\
  (forall k, load (serdes_rt false float_of float_tok lit_eval repr)
                  (carrier (serdes_rt false float_of float_tok lit_eval repr) k bom1_text) = Ok (PStr bom1_text)).
Proof. exact lenient_rawjson_refuted. Qed.

(* ---------------------------------------------------------------- non-vacuity *)
Definition ex_lit (_ : str) : res pv := Raise ESyntax.
Definition ex_rt : Runtime := serdes_rt true tie_float_of (fun _ => []) ex_lit (fun _ => []).
Definition ex_j : jv :=
  JDict [([97], JList [JInt 1; JInt (-20)%Z; JBool true; JNull; JDict []; JStr [34; 92; 10; 233; 128512]]); ([233], JStr [])].
Example C14Json_hyps_satisfiable :
  RuntimeLaws ex_rt /\ jv_ok ex_j = true /\ nodup_keys ex_j = true /\
  load ex_rt (carrier ex_rt CMemviewRW (wr orjson_style ex_j)) = Ok (pv_of tie_float_of ex_j) /\
  load ex_rt (carrier ex_rt CStr (wr stdlib_style ex_j)) = Ok (pv_of tie_float_of ex_j) /\
  parse_text true [91; 49; 44; 93] = None /\
  load ex_rt (carrier ex_rt CBytearray [91; 49; 44; 93]) = Ok (PStr [91; 49; 44; 93]).
Proof.
  split; [apply laws_inst; intros s e H; inversion H; reflexivity|].
  repeat split; vm_compute; reflexivity.
Qed.

Definition ex_rt_std : Runtime := serdes_rt false tie_float_of (fun _ => []) ex_lit (fun _ => []).
Example C14Json_stdlib_backend :
  RuntimeLaws ex_rt_std /\
  load ex_rt_std (carrier ex_rt_std CMemviewRW (wr orjson_style ex_j)) = Ok (pv_of tie_float_of ex_j) /\
  load ex_rt_std (PText CBytes bom1) = Ok (PStr bom1_text) /\ load_rawjson ex_rt_std (PText CBytes bom1) = Ok (PInt 1).
Proof.
  split; [apply laws_inst; intros s e H; inversion H; reflexivity|].
  repeat split; vm_compute; reflexivity.
Qed.

Print Assumptions C14Json_runtime_laws.
Print Assumptions C14Json_carriers.
Print Assumptions C14Json_load_json.
Print Assumptions C14Json_load_wire.
Print Assumptions C14Json_load_rejected.
Print Assumptions C14Json_loads_dumps.
Print Assumptions C14Json_json_text.
Print Assumptions C14Json_rawjson_orjson_same.
Print Assumptions C14Json_refuted_rawjson_lenient.
