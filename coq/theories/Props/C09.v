(* Property C09 -- the type graph is a complete dependency order with every cycle cut.
   This file contains only the property theorems (each closed by a lemma of Proofs/), the full statements
   that are not theorems of the faithful model, the refutation witnesses, and non-vacuity examples. *)
From Coq Require Import List Arith Bool PeanoNat String Lia NArith.
Import ListNotations.
Require Import TL.Model.Graph TL.Model.Topo TL.Proofs.GraphLemmas TL.Proofs.GraphTermination TL.Proofs.TopoLemmas.
Require Import TL.Proofs.TopoRank TL.Proofs.GraphAcyclic TL.Proofs.GraphWeight.
Local Open Scope string_scope.
Local Open Scope list_scope.

(* ---- termination --------------------------------------------------------------------------- *)
(* For a finite universe closed under "member of the unwrapped form", with a weight certificate w (every
   child that can be pushed although already visited -- not cyclic-capable, or a generic that is not its own
   ancestor -- is counted in its parent's weight; such a certificate exists exactly when no annotation
   reaches itself through re-pushable children only) and W bounding w: the walk never runs out of fuel
   once fuel >= W * (|univ| + 1). *)
Theorem C09_terminates : forall (E : env) (univ : list gty) (w : gty -> list gty -> nat) (W : nat),
  (forall t var c, In t univ -> In (var, c) (level E (unwrap t)) -> skip var c = false -> In c univ) ->
  (forall t path, In t univ -> 1 + wsum w path (filter (repush E path) (level E (unwrap t))) <= w t path) ->
  (forall t path, In t univ -> w t path <= W) ->
  forall root, In root univ ->
  forall fuel, fuel >= W * S (List.length univ) -> type_graph fuel E root <> OutOfFuel.
Proof. intros E univ w W H1 H2 H3 root Hr fuel Hf. exact (terminates E univ w W H1 H2 H3 root Hr fuel Hf). Qed.

(* ---- the order ----------------------------------------------------------------------------- *)
(* For ANY order that satisfies graphlib's contract for the adjacency that was built: duplicate-free; the
   root is in it and every other node comes strictly before the root; every node of the graph is either
   deferred (cyclic) or expanded, and each non-skipped member (generic argument / field type) of an expanded
   node is answered for by a strictly earlier node: its own node, the member itself deferred, or the
   reference built for it. *)
Theorem C09_order : forall fuel E root g order,
  type_graph fuel E root = Ok g -> is_topo_order g order ->
  nodupb order = true /\
  inb (root_node root) order = true /\
  (forall n, In n order -> node_eqb n (root_node root) = false -> before n (root_node root) order) /\
  (forall n, In n (adj_nodes g) -> ncyc n = false -> exists preds, In (n, preds) g) /\
  (forall p preds, In (p, preds) g -> is_literal (unwrap (ntype p)) = false ->
     forall var c, In (var, c) (level E (unwrap (ntype p))) -> skip var c = false ->
     exists m, In m preds /\ before m p order /\ represents E m var c).
Proof.
  intros fuel E root g order Hg Ht.
  exact (conj (proj1 Ht) (conj (proj1 (root_last fuel E root g order Hg Ht))
        (conj (proj2 (root_last fuel E root g order Hg Ht))
        (conj (nodes_served fuel E root g Hg) (members_before fuel E root g order Hg Ht))))).
Qed.

(* ---- flags --------------------------------------------------------------------------------- *)
(* When no annotation of the graph has a ForwardRef as a direct member (references are evaluated before they
   are walked) every ForwardRef-typed node is flagged cyclic, and every flagged node was made by one of the
   two revisit branches for a cyclic-capable member (c, var) of some expanded node that counted as visited
   (its type or unwrapped form was in the set it is looked up in, or its node had been pushed before). *)
Theorem C09_flags : forall fuel E root g,
  type_graph fuel E root = Ok g -> is_ref root = false ->
  (forall p preds var c, In (p, preds) g -> In (var, c) (level E (unwrap (ntype p))) -> is_ref c = false) ->
  forall n, In n (adj_nodes g) ->
    (is_ref (ntype n) = true -> ncyc n = true) /\
    (ncyc n = true ->
       exists p preds var c, In (p, preds) g /\ In n preds /\ In (var, c) (level E (unwrap (ntype p))) /\
         skip var c = false /\ nvar n = var /\ nfor n = c /\ can_be_cyclic E (unwrap c) = true /\
         (n = mkdefer c (unwrap c) var \/ mkref E c (unwrap c) var = Some n) /\
         exists st0 path, visitedb E c (unwrap c) var st0 path = true).
Proof. intros fuel E root g H1 H2 H3 n Hn. exact (flags fuel E root g H1 H2 H3 n Hn). Qed.

(* ---- string aliases ------------------------------------------------------------------------ *)
Theorem C09_string_alias : forall fuel E root g,
  type_graph fuel E root = Ok g ->
  forall p preds m n body, In (p, preds) g -> ntype p = GAliasStr m n body ->
    preds = [] /\ ncyc p = false /\ nunw p = GRef (remove_lead (sapp m ".") body) (Some m).
Proof. intros fuel E root g H p preds m n body H1 H2. exact (string_alias fuel E root g H p preds m n body H1 H2). Qed.

(* ---- what a deferred node denotes ---------------------------------------------------------- *)
(* evalref: refs.evaluate = the interpreter's eval of the reference text in the module's namespace; its law:
   a module-level name evaluates to the object bound to it.  A member deferred as itself denotes itself;
   a reference denotes the member it stands for when that member is a named object (a class at module level
   or nested in classes, a leaf class, a NewType, an alias). *)
Theorem C09_denotes : forall (evalref : str -> option str -> option gty) E,
  (forall c m nm, named E c = Some (m, nm) -> denotes_guard E c = true -> evalref nm (Some m) = Some c) ->
  forall n var c, represents E n var c -> ncyc n = true ->
    ntype n = c \/
    (exists a mo, ntype n = GRef a mo /\ (denotes_guard E c = true -> evalref a mo = Some c)).
Proof.
  intros evalref E Hlaw n var c [_ [_ [[Hc _]|[[_ [Hd _]]|[_ [Hm _]]]]]] Hcyc.
  - congruence.
  - left; rewrite Hd; reflexivity.
  - right. destruct (mkref_shape _ _ _ _ _ Hm) as [_ [Hr _]]. destruct (ntype n) as [| | | | | | | | | | | |a mo] eqn:Hn; try discriminate.
    exists a, mo; split; [reflexivity|]. intros Hg. destruct (named E c) as [[m nm]|] eqn:Hnm.
    + pose proof (mkref_denotes _ _ _ _ _ _ _ Hm Hg Hnm) as Hd. rewrite Hn in Hd. inversion Hd; subst. apply Hlaw; auto.
    + unfold denotes_guard in Hg. rewrite Hnm in Hg. discriminate.
Qed.

(* The guard leaves out only names that refs.forwardref itself rewrites: a name inside which the module's own
   name followed by a dot occurs again (forwardref strips it), and dotted names of objects that are not
   classes.  The unguarded statement is kept as a definition, not claimed. *)
Definition C09_denotes_full : Prop :=
  forall (evalref : str -> option str -> option gty) E,
    (forall c m nm, named E c = Some (m, nm) -> evalref nm (Some m) = Some c) ->
    forall n var c a mo, represents E n var c -> ncyc n = true -> ntype n = GRef a mo -> evalref a mo = Some c.

(* Classes nested in classes are inside the guard: two different classes Outer.Inner (modules vm_a, vm_b)
   are referred to by their qualified name, each in its own module. *)
Definition nested_env : env := env_of
  [ (0, {| cmodule := "vm_a"; cqual := "Outer.Inner"; cfields := [("me", GUnion UOptional [GClass 0; GNone])] |});
    (1, {| cmodule := "vm_b"; cqual := "Outer.Inner"; cfields := [("me", GUnion UOptional [GClass 1; GNone])] |}) ].

Example C09_denotes_nested : exists g0 g1 n0 n1,
  type_graph 20 nested_env (GClass 0) = Ok g0 /\ type_graph 20 nested_env (GClass 1) = Ok g1 /\
  In n0 (adj_nodes g0) /\ In n1 (adj_nodes g1) /\ ncyc n0 = true /\ ncyc n1 = true /\
  nfor n0 = GClass 0 /\ nfor n1 = GClass 1 /\
  denotes_guard nested_env (GClass 0) = true /\ denotes_guard nested_env (GClass 1) = true /\
  ntype n0 = GRef "Outer.Inner" (Some "vm_a") /\ ntype n1 = GRef "Outer.Inner" (Some "vm_b").
Proof.
  destruct (type_graph 20 nested_env (GClass 0)) as [g0| |] eqn:H0; [|vm_compute in H0; discriminate|vm_compute in H0; discriminate].
  destruct (type_graph 20 nested_env (GClass 1)) as [g1| |] eqn:H1; [|vm_compute in H1; discriminate|vm_compute in H1; discriminate].
  exists g0, g1.
  exists {| ntype := GRef "Outer.Inner" (Some "vm_a"); nunw := GRef "Outer.Inner" (Some "vm_a"); nvar := None; ncyc := true; nfor := GClass 0 |}.
  exists {| ntype := GRef "Outer.Inner" (Some "vm_b"); nunw := GRef "Outer.Inner" (Some "vm_b"); nvar := None; ncyc := true; nfor := GClass 1 |}.
  vm_compute in H0. vm_compute in H1. inversion H0; inversion H1; subst. cbn. repeat split; auto 10.
Qed.

(* ---- input forms --------------------------------------------------------------------------- *)
(* NewType, value-alias, Final and string-alias roots: two roots with the same unwrapped form build the same
   adjacency up to the label of the root node (hence have the same topological orders up to that label);
   str / ForwardRef inputs are evaluated first by definition of static_order. *)
Theorem C09_input_forms :
  (forall fuel E r1 r2, unwrap r1 = unwrap r2 ->
     type_graph fuel E r2 = res_map (relabel_root (root_node r2)) (type_graph fuel E r1)) /\
  (forall evalref fuel E a m t, evalref a m = Some t -> is_ref t = false ->
     static_order evalref fuel E (GRef a m) = static_order evalref fuel E t).
Proof.
  split; [exact input_forms|].
  intros evalref fuel E a m t He Hr. unfold static_order. rewrite He. destruct t; try reflexivity. discriminate.
Qed.

(* ---- acyclicity: every cycle is cut ---------------------------------------------------------- *)
(* The adjacency that was built always has a topological order in the sense of graphlib's contract, i.e. it
   is acyclic up to node equality and graphlib cannot raise CycleError.  Proof: a rank that strictly decreases
   along every edge -- deferred nodes (0) < nodes that cannot be cyclic (1 + size of the unwrapped form; their
   members cannot be cyclic either and are smaller) < cyclic-capable nodes (by reverse position of their first
   entry: a cyclic-capable, non-deferred predecessor was unknown to the `expanded`/`visited` memory when its
   parent was popped, so no entry up to the parent's is keyed by an equal node). *)
Theorem C09_acyclic : forall fuel E root g,
  type_graph fuel E root = Ok g -> exists order, is_topo_order g order.
Proof. intros fuel E root g H. exact (type_graph_has_order fuel E root g H). Qed.

(* the rank itself: every edge goes from a node to a node of strictly smaller rank, equal nodes have equal rank *)
Theorem C09_acyclic_rank : forall fuel E root g,
  type_graph fuel E root = Ok g ->
  (forall a b, node_eqb a b = true -> rank E g a = rank E g b) /\
  (forall p preds m, In (p, preds) g -> In m preds -> rank E g m < rank E g p).
Proof.
  intros fuel E root g H.
  exact (conj (rank_cong E g) (fun p preds m Hp Hm => bfs_ranked fuel E root g H p preds m Hp Hm)).
Qed.

(* Not proved: that the concrete sorter Topo.kahn (CPython's algorithm) returns such an order; it is compared
   with graphlib on every correspondence case. *)
Definition C09_kahn_complete : Prop :=
  forall fuel E root g, type_graph fuel E root = Ok g -> exists order, kahn g = Some order.

(* ---- termination without a certificate ------------------------------------------------------- *)
(* For every finite universe closed under members the weight certificate of C09_terminates exists
   (GraphWeight.weight, bounded by Wtotal): the walk never runs out of fuel once
   fuel >= Wtotal E univ * (|univ| + 1). *)
Theorem C09_terminates_closed : forall (E : env) (univ : list gty),
  (forall t var c, In t univ -> In (var, c) (level E (unwrap t)) -> skip var c = false -> In c univ) ->
  forall root, In root univ ->
  forall fuel, fuel >= Wtotal E univ * S (List.length univ) -> type_graph fuel E root <> OutOfFuel.
Proof. intros E univ Hc root Hr fuel Hf. exact (terminates_closed E univ Hc root Hr fuel Hf). Qed.

(* ---- non-vacuity --------------------------------------------------------------------------- *)
Definition ex_env : env := env_of
  [ (0, {| cmodule := "vm"; cqual := "Node";
           cfields := [("nxt", GUnion UOptional [GClass 0; GNone]); ("kids", GGen GList [GClass 0]); ("s", GScalar SInt);
                       ("t", GScalar SInt)] |}) ].
Definition ex_univ : list gty :=
  [GClass 0; GUnion UOptional [GClass 0; GNone]; GGen GList [GClass 0]; GScalar SInt; GNone].
Definition ex_w (t : gty) (path : list gty) : nat :=
  match t with GClass _ => 7 | GUnion _ _ => 2 | _ => 1 end.

Example C09_terminates_hyps_satisfiable :
  (forall t var c, In t ex_univ -> In (var, c) (level ex_env (unwrap t)) -> skip var c = false -> In c ex_univ) /\
  (forall t path, In t ex_univ -> 1 + wsum ex_w path (filter (repush ex_env path) (level ex_env (unwrap t))) <= ex_w t path) /\
  (forall t path, In t ex_univ -> ex_w t path <= 7) /\
  exists g order, type_graph (7 * 6) ex_env (GClass 0) = Ok g /\ kahn g = Some order /\ is_topo_orderb g order = true /\
                  List.length order = 7.
Proof.
  split; [|split; [|split]].
  - intros t var c Hin Hk _. cbn in Hin.
    repeat (destruct Hin as [Ht|Hin]; [subst t; vm_compute in Hk; repeat (destruct Hk as [Hk|Hk]; [inversion Hk; subst; vm_compute; tauto|]); contradiction|]).
    contradiction.
  - intros t path Hin. cbn in Hin.
    repeat (destruct Hin as [Ht|Hin];
            [subst t; cbn;
             repeat match goal with |- context [revisit ?a ?b path] => destruct (revisit a b path) end; cbn; lia|]).
    contradiction.
  - intros t path Hin. cbn in Hin. repeat (destruct Hin as [Ht|Hin]; [subst t; cbn; lia|]). contradiction.
  - destruct (type_graph (7 * 6) ex_env (GClass 0)) as [g| |] eqn:Hg; [|vm_compute in Hg; discriminate|vm_compute in Hg; discriminate].
    destruct (kahn g) as [order|] eqn:Hk; [|vm_compute in Hg; inversion Hg; subst; vm_compute in Hk; discriminate].
    exists g, order. vm_compute in Hg. inversion Hg; subst. vm_compute in Hk. inversion Hk; subst.
    vm_compute. repeat split; reflexivity.
Qed.

(* the certificate-free theorem applies to the same environment; its bound is a closed number *)
Example C09_terminates_closed_instance :
  N.of_nat (Wtotal ex_env ex_univ) = 13656%N /\
  forall fuel, fuel >= Wtotal ex_env ex_univ * 6 -> type_graph fuel ex_env (GClass 0) <> OutOfFuel.
Proof.
  split; [vm_compute; reflexivity|]. intros fuel Hf.
  apply (C09_terminates_closed ex_env ex_univ (proj1 C09_terminates_hyps_satisfiable) (GClass 0)); [left; reflexivity | exact Hf].
Qed.

(* refs.forwardref drops "<module>." only where it leads a dotted name (/repo 31a6d65).  The text function it had
   before (every occurrence, Graph.remove_all_pinned) differs: within module app, app.webapp.Model is webapp.Model,
   not webModel -- and the reference the graph builds for such a name denotes another object *)
Theorem C09_refuted_pinned_forwardref : exists m s,
  remove_all_pinned (sapp m ".") s <> remove_lead (sapp m ".") s
  /\ remove_lead (sapp m ".") s = "webapp.Model"%string /\ remove_all_pinned (sapp m ".") s = "webModel"%string.
Proof. exists "app"%string, "app.webapp.Model"%string. vm_compute. repeat split. discriminate. Qed.
Example C09_forwardref_leading_only :
  remove_lead "m." "list[m.A, xm.B, m.m.C]" = "list[A, xm.B, m.C]"%string.
Proof. vm_compute. reflexivity. Qed.

Print Assumptions C09_terminates.
Print Assumptions C09_order.
Print Assumptions C09_flags.
Print Assumptions C09_string_alias.
Print Assumptions C09_denotes.
Print Assumptions C09_input_forms.
Print Assumptions C09_acyclic.
Print Assumptions C09_acyclic_rank.
Print Assumptions C09_terminates_closed.
Print Assumptions C09_refuted_pinned_forwardref.
