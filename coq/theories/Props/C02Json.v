(* Property C02, the JSON layer: "the encoded bytes are valid JSON that the standard json module parses to
   exactly marshal(v, t=T)" -- for the WHOLE wire language, with the backends modelled character by character
   (Model/Json.v) instead of assumed.  Only theorems (closed by `exact`), non-vacuity Examples, Print Assumptions.

   json_write st w      the bytes orjson.dumps (st = orjson_style) / json.dumps (st = stdlib_style) emit for w
   json_read            json.loads on UTF-8 bytes (lenient: NaN/Infinity, lone surrogate escapes, surrogatepass)
   json_read_strict     an RFC 8259-strict reader (what orjson.loads accepts)
   std_loads            json.loads on bytes inside the UTF-8 branch of json.detect_encoding (signature stripped)
   jv_ok w              every string of w consists of Unicode scalar values, every float literal of w is a JSON
                        number with a fraction or an exponent.  No bound on nesting, lengths or integers.
   The theorems hold for every style whose separators are followed by JSON whitespace only. *)
From Coq Require Import List ZArith NArith Bool.
Import ListNotations.
Require Import TL.Model.Json TL.Proofs.JsonLemmas.
Open Scope N_scope.

(* reader after writer, any nesting, any string, any integer: both readers, both UTF-8 error handlers *)
Theorem C02Json_read_write : forall st w, forallb is_ws (st_sp st) = true -> jv_ok w = true ->
  json_read (json_write st w) = Some w.
Proof. intros st w Hs Hok. exact (read_write st Hs false true w Hok). Qed.

Theorem C02Json_read_write_strict : forall st w, forallb is_ws (st_sp st) = true -> jv_ok w = true ->
  json_read_strict (json_write st w) = Some w.
Proof. intros st w Hs Hok. exact (read_write st Hs true false w Hok). Qed.

(* ... and through json.loads' own front end (encoding detection + signature stripping) *)
Theorem C02Json_std_loads_write : forall st w, known_style st -> jv_ok w = true ->
  std_loads (json_write st w) = Some w /\ std_utf8_branch (json_write st w) = true.
Proof.
  intros st w Hst Hok.
  exact (conj (std_loads_write st (known_sp_ws st Hst) w Hok) (proj2 (proj2 (output_wellformed st w Hst Hok)))).
Qed.

(* the writer is injective on well-formed wire values *)
Theorem C02Json_write_injective : forall st a b, forallb is_ws (st_sp st) = true ->
  jv_ok a = true -> jv_ok b = true -> json_write st a = json_write st b -> a = b.
Proof. intros st a b Hs. exact (write_injective st Hs a b). Qed.

(* the bytes: no control character (nor 0xF8..0xFF), valid strict UTF-8 (no surrogates) that decodes to the
   text the writer produced, read as UTF-8 by json.detect_encoding *)
Theorem C02Json_output_wellformed : forall st w, known_style st -> jv_ok w = true ->
  forallb byte_ok (json_write st w) = true /\
  utf8_dec false (json_write st w) = Some (wr st w) /\
  std_utf8_branch (json_write st w) = true.
Proof. exact output_wellformed. Qed.

(* json.dumps (ensure_ascii): printable ASCII only, and the bytes are the text *)
Theorem C02Json_output_ascii : forall w, jv_ok w = true ->
  json_write stdlib_style w = wr stdlib_style w /\ forallb ascii_ok (json_write stdlib_style w) = true.
Proof. exact output_ascii. Qed.

(* the unguarded statement, and why each part of the guard is there *)
Definition C02Json_full (st : style) : Prop := forall w, json_read (json_write st w) = Some w.
Theorem C02Json_full_refuted : forall st, known_style st -> ~ C02Json_full st.
Proof. exact read_write_full_refuted. Qed.
(* a high surrogate followed by a low one, written as two escapes by json.dumps, is read back as ONE
   astral character (CPython: json.loads(json.dumps(chr(0xD83D) + chr(0xDE00))) is the one character chr(0x1F600)) *)
Theorem C02Json_refuted_surrogate_pair :
  json_read (json_write stdlib_style (JStr [55357; 56832])) = Some (JStr [128512]).
Proof. exact refuted_surrogate_pair. Qed.
(* a number above 0x10FFFF is not a code point: no UTF-8 *)
Theorem C02Json_refuted_codepoint_range : json_read (json_write orjson_style (JStr [1114112])) = None.
Proof. exact refuted_codepoint_range. Qed.
(* a float whose literal has neither fraction nor exponent is read back as an int *)
Theorem C02Json_refuted_float_token : json_read (json_write orjson_style (JFloat [49])) = Some (JInt 1).
Proof. exact refuted_float_token. Qed.
(* a lone surrogate, raw: the lenient reader takes it, the strict one does not (orjson.dumps raises on it) *)
Theorem C02Json_refuted_strict_surrogate :
  json_read_strict (json_write orjson_style (JStr [55296])) = None /\
  json_read (json_write orjson_style (JStr [55296])) = Some (JStr [55296]).
Proof. exact refuted_strict_surrogate. Qed.

(* non-vacuity: a wire value with every escape class, non-ASCII and astral characters in a key, nesting, empty
   containers, a negative and a 70-bit integer, floats with fraction and exponent -- inside the guard, and the
   bytes of both backends, computed *)
Definition exW : jv :=
  JDict [([97], JList [JInt 1; JInt (-20)%Z; JInt 1180591620717411303424%Z; JBool true; JNull; JDict []; JList [];
                        JFloat [49; 46; 53]; JFloat [45; 49; 101; 45; 55]]);
         ([233; 128512; 10], JStr [34; 92; 47; 1; 8; 9; 10; 12; 13; 31; 127; 128; 233; 2047; 2048; 8232; 65535; 65536; 1114111])].
Example C02Json_hyps_satisfiable :
  jv_ok exW = true /\ known_style orjson_style /\ known_style stdlib_style /\
  json_write orjson_style exW =
    [123; 34; 97; 34; 58; 91; 49; 44; 45; 50; 48; 44; 49; 49; 56; 48; 53; 57; 49; 54; 50; 48; 55; 49; 55; 52; 49; 49; 51;
     48; 51; 52; 50; 52; 44; 116; 114; 117; 101; 44; 110; 117; 108; 108; 44; 123; 125; 44; 91; 93; 44; 49; 46; 53; 44; 45;
     49; 101; 45; 55; 93; 44; 34; 195; 169; 240; 159; 152; 128; 92; 110; 34; 58; 34; 92; 34; 92; 92; 47; 92; 117; 48; 48;
     48; 49; 92; 98; 92; 116; 92; 110; 92; 102; 92; 114; 92; 117; 48; 48; 49; 102; 127; 194; 128; 195; 169; 223; 191; 224;
     160; 128; 226; 128; 168; 239; 191; 191; 240; 144; 128; 128; 244; 143; 191; 191; 34; 125] /\
  json_read (json_write orjson_style exW) = Some exW /\
  json_read_strict (json_write orjson_style exW) = Some exW /\
  json_read_strict (json_write stdlib_style exW) = Some exW /\
  forallb ascii_ok (json_write stdlib_style exW) = true.
Proof. vm_compute. repeat split; try reflexivity; [left | right]; reflexivity. Qed.

Print Assumptions C02Json_read_write.
Print Assumptions C02Json_read_write_strict.
Print Assumptions C02Json_std_loads_write.
Print Assumptions C02Json_write_injective.
Print Assumptions C02Json_output_wellformed.
Print Assumptions C02Json_output_ascii.
Print Assumptions C02Json_full_refuted.
Print Assumptions C02Json_refuted_surrogate_pair.
Print Assumptions C02Json_refuted_codepoint_range.
Print Assumptions C02Json_refuted_float_token.
Print Assumptions C02Json_refuted_strict_surrogate.
