(* Property C10, the shell around the binders (the code WITH proposed_fixes/C10-reserved-keywords.diff):
   bind / BoundRoutine.__call__ / wrap's closure, the
   interpreter's own call rule (defaults, *args, **kwargs), the self parameter, wrap(cls) on a class
   hierarchy, wrapping twice, functools.wraps metadata.  Table-independent: every theorem holds for any
   dispatch matrix `rows` with `matrix_ok rows = true` (C10_matrix_ok proves that of the live matrix on
   every run; coq/dyn/C10/C10Shell.v instantiates the headline theorems with it).
   This file contains only theorems (closed by `exact <lemma>`), examples and refutation witnesses. *)
From Coq Require Import String List Arith Bool ZArith.
Import ListNotations.
Require Import TL.Model.Binding TL.Model.BindingEq TL.Proofs.BindingLemmas TL.Model.BindingShell TL.Proofs.BindingShellLemmas.

Section Statements.
Variables (val E : Type) (type_error : E) (um : nat -> val -> val + E) (key_val : nat -> val) (R : Type).

(* the evaluation-order model refines Binding.run_pos / run_kw: same routing, same refusals *)
Theorem C10S_trace_pos : forall m b (args : list val), run_pos val m b args = sequence (trace_pos val m b args).
Proof. exact (run_pos_trace val). Qed.
Theorem C10S_trace_kw : forall m b (kw : list (nat * val)), run_kw val m b kw = sequence_kw (trace_kw val m b kw).
Proof. exact (run_kw_trace val). Qed.

(* bind(f) and wrap(f) are the same shell (binder, then f) on every call *)
Theorem C10S_api_is_shell : forall rows s (f : callable val E R), matrix_ok rows = true ->
  exists c, matrix_lookup rows (truth_of s) = Some c /\
            wrap_fn val E type_error um key_val R rows s f = Some (shell_call val E type_error um key_val R c (get_binding s) f) /\
            bind val E type_error um key_val R rows s f = Some (shell_call val E type_error um key_val R c (get_binding s) f).
Proof. exact (api_is_shell val E type_error um key_val R). Qed.

(* For EVERY callable f: on a call the specification can bind, bind(f) / wrap(f) call f on the arguments
   converted per their own parameter (conv_call = Binding.expected_pos / expected_kw evaluated in call
   order) and return f's outcome unchanged; a failing conversion is raised and f is not called *)
Theorem C10S_bind_converts : forall rows s (f : callable val E R) args kw r,
  wfb s = true -> matrix_ok rows = true ->
  conv_call val E type_error um key_val s args kw = Some r ->
  exists g, bind val E type_error um key_val R rows s f = Some g /\
            g args kw = match r with inl (ua, uk) => f ua uk | inr e => Raise e end.
Proof. exact (bind_converts val E type_error um key_val R). Qed.
Theorem C10S_wrap_converts : forall rows s (f : callable val E R) args kw r,
  wfb s = true -> matrix_ok rows = true ->
  conv_call val E type_error um key_val s args kw = Some r ->
  exists g, wrap_fn val E type_error um key_val R rows s f = Some g /\
            g args kw = match r with inl (ua, uk) => f ua uk | inr e => Raise e end.
Proof. exact (wrap_converts val E type_error um key_val R). Qed.

(* ANY call: the shell raises TypeError or what an unmarshaller raised, or calls f with as many
   positionals and the same keyword names in the same order *)
Theorem C10S_shell_cases : forall c s (f : callable val E R) args kw,
  (exists e, shell_call val E type_error um key_val R c (get_binding s) f args kw = Raise e /\
             (e = type_error \/ raised_by_um val E um e)) \/
  (exists ua uk, shell_call val E type_error um key_val R c (get_binding s) f args kw = f ua uk /\
                 length ua = length args /\ map fst uk = map fst kw).
Proof. exact (shell_call_cases val E type_error um key_val R). Qed.

(* END TO END for a Python function pf = (signature, defaults, body), with the interpreter's own call
   rule (py_bind) modelled: if the interpreter binds the raw call to frame fr, the body runs on the
   frame in which every PASSED value is converted by its own parameter's unmarshaller -- defaults as
   they are, elements of *args / values of **kwargs by that parameter's -- and returns unchanged; the
   first failing conversion (call order) is raised instead *)
Theorem C10S_frame_accepts : forall rows (pf : pyfun val E R) c args kw fr,
  wfb (f_sig pf) = true -> distinct_names (f_sig pf) = true ->
  matrix_ok rows = true -> matrix_lookup rows (truth_of (f_sig pf)) = Some c ->
  py_bind val (f_def pf) (f_sig pf) args kw = Some fr ->
  exists r, conv_call val E type_error um key_val (f_sig pf) args kw = Some r /\
    match r with
    | inr e => shell_call val E type_error um key_val R c (get_binding (f_sig pf)) (call_fn val E type_error pf) args kw
               = Raise e
    | inl (ua, uk) =>
      exists fr', conv_frame val E um 0 fr = inl fr' /\ py_bind val (f_def pf) (f_sig pf) ua uk = Some fr' /\
        shell_call val E type_error um key_val R c (get_binding (f_sig pf)) (call_fn val E type_error pf) args kw
        = f_body pf fr'
    end.
Proof. exact (shell_frame_accepts val E type_error um key_val R). Qed.

(* a call the interpreter rejects is rejected by the bound callable: TypeError, unless an unmarshaller
   raised first; the body never runs *)
Theorem C10S_frame_rejects : forall (pf : pyfun val E R) c args kw,
  py_bind val (f_def pf) (f_sig pf) args kw = None ->
  exists e, shell_call val E type_error um key_val R c (get_binding (f_sig pf)) (call_fn val E type_error pf) args kw
            = Raise e /\ (e = type_error \/ raised_by_um val E um e).
Proof. exact (shell_frame_rejects val E type_error um key_val R). Qed.
Theorem C10S_frame_rejects_total : forall (pf : pyfun val E R) c args kw,
  (forall p v, exists u, um p v = inl u) ->
  py_bind val (f_def pf) (f_sig pf) args kw = None ->
  shell_call val E type_error um key_val R c (get_binding (f_sig pf)) (call_fn val E type_error pf) args kw
  = Raise type_error.
Proof. exact (shell_frame_rejects_total val E type_error um key_val R). Qed.
(* the same at the API level: g = wrap(f) (api = true) or g = bind(f) (api = false); no keyword is reserved *)
Theorem C10S_api_frame_accepts : forall api rows (pf : pyfun val E R) args kw fr,
  wfb (f_sig pf) = true -> distinct_names (f_sig pf) = true -> matrix_ok rows = true ->
  py_bind val (f_def pf) (f_sig pf) args kw = Some fr ->
  exists g r, api_apply val E type_error um key_val R api rows (f_sig pf) (call_fn val E type_error pf) = Some g /\
    conv_call val E type_error um key_val (f_sig pf) args kw = Some r /\
    match r with
    | inr e => g args kw = Raise e
    | inl (ua, uk) => exists fr', conv_frame val E um 0 fr = inl fr' /\ py_bind val (f_def pf) (f_sig pf) ua uk = Some fr' /\
                                  g args kw = f_body pf fr'
    end.
Proof. exact (api_frame_accepts val E type_error um key_val R). Qed.
Theorem C10S_api_frame_rejects : forall api rows (pf : pyfun val E R) args kw,
  matrix_ok rows = true -> py_bind val (f_def pf) (f_sig pf) args kw = None ->
  exists g e, api_apply val E type_error um key_val R api rows (f_sig pf) (call_fn val E type_error pf) = Some g /\
              g args kw = Raise e /\ (e = type_error \/ raised_by_um val E um e).
Proof. exact (api_frame_rejects val E type_error um key_val R). Qed.
(* acceptance by the interpreter depends on the shape of the call only *)
Theorem C10S_py_bind_shape : forall def s (args args' : list val) kw kw',
  length args = length args' -> map fst kw = map fst kw' ->
  is_some (py_bind val def s args kw) = is_some (py_bind val def s args' kw').
Proof. exact (py_bind_shape val). Qed.

(* wrap(cls): __init__(self, ...) is wrapped as a plain function; self (unannotated: NoOp) reaches the
   body as it is in the first slot, the rest as above with indexes shifted by one *)
Theorem C10S_init_self_untouched : forall rows (pf : pyfun val E R) self_name s c inst args kw fr,
  f_sig pf = init_sig self_name s -> (forall v, um 0 v = inl v) ->
  wfb (f_sig pf) = true -> distinct_names (f_sig pf) = true ->
  matrix_ok rows = true -> matrix_lookup rows (truth_of (f_sig pf)) = Some c ->
  py_bind val (f_def pf) (f_sig pf) (inst :: args) kw = Some fr ->
  exists fr0, fr = SArg inst :: fr0 /\
  exists r, conv_call val E type_error um key_val (f_sig pf) (inst :: args) kw = Some r /\
    match r with
    | inr e => shell_call val E type_error um key_val R c (get_binding (f_sig pf)) (call_fn val E type_error pf)
                 (inst :: args) kw = Raise e
    | inl _ => exists fr0', conv_frame val E um 1 fr0 = inl fr0' /\
                 shell_call val E type_error um key_val R c (get_binding (f_sig pf)) (call_fn val E type_error pf)
                   (inst :: args) kw = f_body pf (SArg inst :: fr0')
    end.
Proof. exact (shell_frame_init val E type_error um key_val R). Qed.

(* wrapping twice converts twice, each time by the same parameter's unmarshaller ... *)
Theorem C10S_twice : forall rows s c (f : callable val E R) args kw ua uk r2,
  wfb s = true -> matrix_ok rows = true -> matrix_lookup rows (truth_of s) = Some c ->
  conv_call val E type_error um key_val s args kw = Some (inl (ua, uk)) ->
  conv_call val E type_error um key_val s ua uk = Some r2 ->
  shell_call val E type_error um key_val R c (get_binding s)
    (shell_call val E type_error um key_val R c (get_binding s) f) args kw =
  match r2 with inl (ua2, uk2) => f ua2 uk2 | inr e => Raise e end.
Proof. exact (shell_call_twice val E type_error um key_val R). Qed.
Theorem C10S_twice_defined : forall s (args args' : list val) kw kw' r,
  conv_call val E type_error um key_val s args kw = Some r -> length args' = length args -> map fst kw' = map fst kw ->
  exists r', conv_call val E type_error um key_val s args' kw' = Some r'.
Proof. exact (conv_call_shape val E type_error um key_val). Qed.
(* ... which changes nothing, on any call, when the unmarshallers are idempotent *)
Theorem C10S_idempotent_layers : forall c s (f : callable val E R) args kw,
  um_idem val E um ->
  shell_call val E type_error um key_val R c (get_binding s)
    (shell_call val E type_error um key_val R c (get_binding s) f) args kw =
  shell_call val E type_error um key_val R c (get_binding s) f args kw.
Proof. intros c s f args kw H.
  exact (shell_call_idem val E type_error um key_val R H c (get_binding s) f args kw (get_binding_sp_vp s)). Qed.

(* the code as PINNED (before the repair) was the same shell outside two reserved keywords ... *)
Theorem C10S_pinned_is_shell : forall reserved self_name rows s (f : callable val E R), matrix_ok rows = true ->
  exists c, matrix_lookup rows (truth_of s) = Some c /\
    (exists g, wrap_fn_pinned val E type_error um key_val R reserved rows s f = Some g /\
       forall args kw, kw_find val reserved kw = None ->
         g args kw = shell_call val E type_error um key_val R c (get_binding s) f args kw) /\
    (exists h, bind_pinned val E type_error um key_val R self_name rows s f = Some h /\
       forall args kw, kw_find val self_name kw = None ->
         h args kw = shell_call val E type_error um key_val R c (get_binding s) f args kw).
Proof. exact (pinned_is_shell val E type_error um key_val R). Qed.
(* ... under which the pinned wrap replaced its binder by the caller's value and the pinned bind raised TypeError *)
Theorem C10S_wrap_pinned_hijacked : forall reserved rows s (f : callable val E R) g args kw x,
  wrap_fn_pinned val E type_error um key_val R reserved rows s f = Some g -> kw_find val reserved kw = Some x ->
  g args kw = Hijacked x args (kw_remove val reserved kw).
Proof. exact (wrap_pinned_hijacked val E type_error um key_val R). Qed.
Theorem C10S_bind_pinned_self_refused : forall self_name rows s (f : callable val E R) h args kw x,
  bind_pinned val E type_error um key_val R self_name rows s f = Some h -> kw_find val self_name kw = Some x ->
  h args kw = Raise type_error.
Proof. exact (bind_pinned_self_refused val E type_error um key_val R). Qed.
End Statements.

(* wrap(cls) always stores a fresh wrapper of whatever the attribute lookup finds *)
Theorem C10S_wrap_class_adds_layer : forall n fuel Ev c k f,
  Ev c = Some k -> resolve_init fuel Ev c = Some f ->
  resolve_init (S n) (wrap_class fuel Ev c) c = Some (FWrap f).
Proof. exact resolve_init_wrap_class. Qed.
(* ... and never touches a class that has an __init__ of its own *)
Theorem C10S_wrap_class_other : forall n fuel Ev c d kd g,
  d <> c -> Ev d = Some kd -> c_init kd = Some g ->
  resolve_init (S n) (wrap_class fuel Ev c) d = Some g.
Proof. exact resolve_init_wrap_other. Qed.
(* base and subclass both wrapped: when the subclass INHERITS __init__ the order is observable (base first:
   the subclass converts twice); when it has its own, each gets exactly one layer in either order *)
Theorem C10S_wrap_order_inherited : forall B S f, B <> S ->
  let Ev := two_classes B S f None in
  resolve_init 2 (wrap_classes 2 Ev [B; S]) S = Some (FWrap (FWrap f)) /\
  resolve_init 2 (wrap_classes 2 Ev [B; S]) B = Some (FWrap f) /\
  resolve_init 2 (wrap_classes 2 Ev [S; B]) S = Some (FWrap f) /\
  resolve_init 2 (wrap_classes 2 Ev [S; B]) B = Some (FWrap f).
Proof. exact wrap_order_inherited. Qed.
Theorem C10S_wrap_order_own_init : forall B S f g, B <> S ->
  let Ev := two_classes B S f (Some g) in
  forall order, order = [B; S] \/ order = [S; B] ->
  resolve_init 2 (wrap_classes 2 Ev order) S = Some (FWrap g) /\
  resolve_init 2 (wrap_classes 2 Ev order) B = Some (FWrap f).
Proof. exact wrap_order_own_init. Qed.

(* _get_binding memoises per callable (compat.cache).  For ANY history of bind / wrap calls with no cache clearing in
   between, every callable gets the binding built from ITS OWN signature -- provided two callables that share a slot
   have the same signature (true of a table keyed by the callable itself; FALSE of one keyed by a bound method's
   __func__: `inst.m` has no self in its signature, `Cls.m` has) *)
Theorem C10S_cache_own_binding : forall (obj key B : Type) (key_eqb : key -> key -> bool) (key_of : obj -> key)
    (sig_of : obj -> sig) (build : sig -> B),
  (forall a b, key_eqb (key_of a) (key_of b) = true -> sig_of a = sig_of b) ->
  forall h o, binding_after obj key B key_eqb key_of sig_of build h o = build (sig_of o).
Proof. exact binding_after_own. Qed.
(* necessity of the slot condition: def m(self, a: T1): 0 = Cls.m, 1 = inst.m, one shared slot; whichever is bound
   first fixes the table of both *)
Definition m_func : sig := [ {| pname := 998; pkind := PK; pann := false |}; {| pname := 1; pkind := PK; pann := true |} ].
Definition m_bound : sig := [ {| pname := 1; pkind := PK; pann := true |} ].
Example C10S_cache_shared_slot_refuted :
  let sig_of := fun o : nat => if Nat.eqb o 0 then m_func else m_bound in
  binding_after nat nat bstate Nat.eqb (fun _ => 0) sig_of get_binding [0] 1 = get_binding m_func /\
  binding_after nat nat bstate Nat.eqb (fun _ => 0) sig_of get_binding [1] 0 = get_binding m_bound /\
  bstate_eqb (get_binding m_func) (get_binding m_bound) = false /\
  binding_after nat nat bstate Nat.eqb (fun o => o) sig_of get_binding [0] 1 = get_binding m_bound.
Proof. vm_compute. repeat split. Qed.

(* functools.wraps: every metadata field the wrapped object has is on the wrapper, __wrapped__ is the
   wrapped object; a field it does not have (callable instances: __name__, __qualname__) stays the wrapper's *)
Theorem C10S_wraps_meta : forall src_id src own,
  m_wrapped (wraps src_id src own) = Some src_id /\
  (forall x, m_name src = Some x -> m_name (wraps src_id src own) = Some x) /\
  (forall x, m_qualname src = Some x -> m_qualname (wraps src_id src own) = Some x) /\
  (forall x, m_doc src = Some x -> m_doc (wraps src_id src own) = Some x) /\
  (forall x, m_module src = Some x -> m_module (wraps src_id src own) = Some x) /\
  (m_name src = None -> m_name (wraps src_id src own) = m_name own) /\
  (m_qualname src = None -> m_qualname (wraps src_id src own) = m_qualname own).
Proof. exact wraps_meta. Qed.
Theorem C10S_wraps_dict : forall src_id src own k v, NoDup (map fst (m_dict src)) -> In (k, v) (m_dict src) ->
  dict_get k (m_dict (wraps src_id src own)) = Some v.
Proof. exact wraps_dict. Qed.

(* ---------------------------------------------------------------------------------------------- *)
(* the full statements that do NOT hold of the faithful model, and their witnesses                 *)
(* ---------------------------------------------------------------------------------------------- *)
(* a matrix satisfying matrix_ok, independent of the live table *)
Definition canon_rows : list row :=
  map (fun t => (t, if t_vp t then AnyParamKindBinding else PosKwdKwargsBinding)) all_truths.
Example canon_rows_ok : matrix_ok canon_rows = true.
Proof. vm_compute. reflexivity. Qed.

(* f( **kw ) accepts any keyword.  The full statement for the code AS PINNED -- C10S_wrap_converts / C10S_bind_converts
   with wrap_fn_pinned / bind_pinned in place of wrap_fn / bind -- is false: the pinned wrap kept `__binding` for
   itself, the pinned bind kept `self` (both replayed on the unrepaired tree by the check; repaired by
   proposed_fixes/C10-reserved-keywords.diff, after which the theorems above hold without a guard) *)
Definition kw_sig : sig := [ {| pname := 0; pkind := VK; pann := true |} ].
Definition C10S_full_wrap_pinned : Prop := forall reserved rows s (f : callable tval texn (frame tval)) args kw r,
  wfb s = true -> matrix_ok rows = true ->
  conv_call tval texn XType (um_tie s) TKey s args kw = Some r ->
  exists g, wrap_fn_pinned tval texn XType (um_tie s) TKey (frame tval) reserved rows s f = Some g /\
            g args kw = match r with inl (ua, uk) => f ua uk | inr e => Raise e end.
Theorem C10S_refuted_reserved_wrap_pinned : ~ C10S_full_wrap_pinned.
Proof. intros H.
  destruct (H tie_reserved canon_rows kw_sig (call_fn tval texn XType (tie_fun kw_sig [None])) []
              [(tie_reserved, TRaw 7)] _ eq_refl canon_rows_ok eq_refl) as [g [Hg Hc]].
  vm_compute in Hg. injection Hg as <-. vm_compute in Hc. discriminate Hc. Qed.
Definition C10S_full_bind_pinned : Prop := forall self_name rows s (f : callable tval texn (frame tval)) args kw r,
  wfb s = true -> matrix_ok rows = true ->
  conv_call tval texn XType (um_tie s) TKey s args kw = Some r ->
  exists g, bind_pinned tval texn XType (um_tie s) TKey (frame tval) self_name rows s f = Some g /\
            g args kw = match r with inl (ua, uk) => f ua uk | inr e => Raise e end.
Theorem C10S_refuted_reserved_bind_pinned : ~ C10S_full_bind_pinned.
Proof. intros H.
  destruct (H tie_self canon_rows kw_sig (call_fn tval texn XType (tie_fun kw_sig [None])) []
              [(tie_self, TRaw 7)] _ eq_refl canon_rows_ok eq_refl) as [g [Hg Hc]].
  vm_compute in Hg. injection Hg as <-. vm_compute in Hc. discriminate Hc. Qed.
(* the repaired code on the same calls: both keywords reach f's **kw, converted by its unmarshaller *)
Example C10S_reserved_witness :
  fn_case_model canon_rows (kw_sig, [None], 1, false, [], [(tie_reserved, TRaw 7); (tie_self, TRaw 8)], ORaiseType)
    = ORet [OVarKw [(tie_reserved, TConv 0 (TRaw 7)); (tie_self, TConv 0 (TRaw 8))]] /\
  fn_case_model canon_rows (kw_sig, [None], 0, true, [], [(tie_reserved, TRaw 7); (tie_self, TRaw 8)], ORaiseType)
    = ORet [OVarKw [(tie_reserved, TConv 0 (TRaw 7)); (tie_self, TConv 0 (TRaw 8))]].
Proof. vm_compute. repeat split. Qed.

(* a second layer IS observable when an unmarshaller is not idempotent (the tagging unmarshallers are not) *)
Definition one_sig : sig := [ {| pname := 0; pkind := PK; pann := true |} ].
Definition C10S_full_layers : Prop := forall c s (f : callable tval texn (frame tval)) args kw,
  shell_call tval texn XType (um_tie s) TKey (frame tval) c (get_binding s)
    (shell_call tval texn XType (um_tie s) TKey (frame tval) c (get_binding s) f) args kw =
  shell_call tval texn XType (um_tie s) TKey (frame tval) c (get_binding s) f args kw.
Theorem C10S_refuted_double_conversion : ~ C10S_full_layers.
Proof. intros H. specialize (H PosOrKwdBinding one_sig (call_fn tval texn XType (tie_fun one_sig [None])) [TRaw 1] []).
  vm_compute in H. discriminate H. Qed.
(* without pairwise distinct parameter names (never true of a compiled function) the frame theorem fails *)
Definition dup_sig : sig := [ {| pname := 0; pkind := PK; pann := true |}; {| pname := 0; pkind := PK; pann := true |} ].
Example C10S_distinct_names_needed :
  wfb dup_sig = true /\ distinct_names dup_sig = false /\
  py_bind tval (tie_def [None; None]) dup_sig [TRaw 1] [(0, TRaw 2)] = None /\
  expected_pos tval dup_sig [TRaw 1] <> None /\ expected_kw tval dup_sig [(0, TRaw 2)] <> None.
Proof. vm_compute. repeat split; intros H; discriminate H. Qed.

(* ---------------------------------------------------------------------------------------------- *)
(* non-vacuity                                                                                      *)
(* ---------------------------------------------------------------------------------------------- *)
(* def f(a: T0, b: T1 = 901, /, c=902, *d: T3, e: T4, g: T5 = 905, **h: T6) *)
Definition ex_sig : sig :=
  [ {| pname := 0; pkind := PO; pann := true |}; {| pname := 1; pkind := PO; pann := true |};
    {| pname := 2; pkind := PK; pann := false |}; {| pname := 3; pkind := VP; pann := true |};
    {| pname := 4; pkind := KO; pann := true |}; {| pname := 5; pkind := KO; pann := true |};
    {| pname := 6; pkind := VK; pann := true |} ].
Definition ex_defaults : list (option nat) := [None; Some 901; Some 902; None; None; Some 905; None].
(* f(1, e=2, zz=3): b, c, g take their defaults unconverted; wrap and bind agree; a second layer shows *)
Example C10S_accepts_ex :
  wfb ex_sig = true /\ distinct_names ex_sig = true /\
  py_bind tval (tie_def ex_defaults) ex_sig [TRaw 1] [(4, TRaw 2); (100, TRaw 3)]
    = Some [SArg (TRaw 1); SDefault (TRaw 901); SDefault (TRaw 902); SVarPos []; SArg (TRaw 2); SDefault (TRaw 905);
            SVarKw [(100, TRaw 3)]] /\
  fn_case_model canon_rows (ex_sig, ex_defaults, 1, false, [TRaw 1], [(4, TRaw 2); (100, TRaw 3)], ORaiseType)
    = ORet [OVal (TConv 0 (TRaw 1)); OVal (TRaw 901); OVal (TRaw 902); OVarPos []; OVal (TConv 4 (TRaw 2));
            OVal (TRaw 905); OVarKw [(100, TConv 6 (TRaw 3))]] /\
  fn_case_model canon_rows (ex_sig, ex_defaults, 0, true, [TRaw 1], [(4, TRaw 2); (100, TRaw 3)], ORaiseType)
    = fn_case_model canon_rows (ex_sig, ex_defaults, 1, false, [TRaw 1], [(4, TRaw 2); (100, TRaw 3)], ORaiseType) /\
  fn_case_model canon_rows (ex_sig, ex_defaults, 2, false, [TRaw 1; TRaw 2; TRaw 3; TRaw 4], [(4, TRaw 5)], ORaiseType)
    = ORet [OVal (TConv 0 (TConv 0 (TRaw 1))); OVal (TConv 1 (TConv 1 (TRaw 2))); OVal (TRaw 3);
            OVarPos [TConv 3 (TConv 3 (TRaw 4))]; OVal (TConv 4 (TConv 4 (TRaw 5))); OVal (TRaw 905); OVarKw []].
Proof. vm_compute. repeat split. Qed.
(* rejected shapes raise TypeError; a refused value raises the unmarshaller's exception, first in call order *)
Example C10S_rejects_ex :
  py_bind tval (tie_def ex_defaults) ex_sig [] [(4, TRaw 2)] = None /\
  fn_case_model canon_rows (ex_sig, ex_defaults, 1, false, [], [(4, TRaw 2)], ORaiseType) = ORaiseType /\
  fn_case_model canon_rows (ex_sig, ex_defaults, 1, false, [TRaw 1], [], ORaiseType) = ORaiseType /\
  fn_case_model canon_rows (ex_sig, ex_defaults, 1, false, [TRaw 1], [(4, TRaw 600); (5, TRaw 601)], ORaiseType)
    = ORaiseConv 4 (TRaw 600) /\
  fn_case_model canon_rows (ex_sig, ex_defaults, 1, false, [TRaw 1; TRaw 602], [(5, TRaw 601)], ORaiseType)
    = ORaiseConv 1 (TRaw 602).
Proof. vm_compute. repeat split. Qed.
(* class K(Base) inheriting __init__(self, a: T1, /, *, k: T2 = 902): wrap(Base); wrap(K) converts twice,
   wrap(K); wrap(Base) once; self stays the instance *)
Definition ex_init : sig :=
  [ {| pname := 0; pkind := PO; pann := false |}; {| pname := 1; pkind := PO; pann := true |};
    {| pname := 2; pkind := KO; pann := true |} ].
Example C10S_class_ex :
  cls_case_model canon_rows ([(0, None, Some 0); (1, Some 0, None)], [(0, ex_init, [None; None; Some 902])],
                             [0; 1], 1, [TRaw 5], [], ORaiseType)
    = ORet [OVal TInst; OVal (TConv 1 (TConv 1 (TRaw 5))); OVal (TRaw 902)] /\
  cls_case_model canon_rows ([(0, None, Some 0); (1, Some 0, None)], [(0, ex_init, [None; None; Some 902])],
                             [1; 0], 1, [TRaw 5], [(2, TRaw 6)], ORaiseType)
    = ORet [OVal TInst; OVal (TConv 1 (TRaw 5)); OVal (TConv 2 (TRaw 6))].
Proof. vm_compute. repeat split. Qed.
Example C10S_idem_satisfiable :
  um_idem nat unit (fun _ v => inl (Nat.min v 3)).
Proof. intros p v u H. injection H as <-. rewrite <- Nat.min_assoc, Nat.min_id. reflexivity. Qed.

Print Assumptions C10S_trace_pos.
Print Assumptions C10S_trace_kw.
Print Assumptions C10S_api_is_shell.
Print Assumptions C10S_bind_converts.
Print Assumptions C10S_wrap_converts.
Print Assumptions C10S_shell_cases.
Print Assumptions C10S_frame_accepts.
Print Assumptions C10S_frame_rejects.
Print Assumptions C10S_frame_rejects_total.
Print Assumptions C10S_api_frame_accepts.
Print Assumptions C10S_api_frame_rejects.
Print Assumptions C10S_py_bind_shape.
Print Assumptions C10S_init_self_untouched.
Print Assumptions C10S_twice.
Print Assumptions C10S_twice_defined.
Print Assumptions C10S_idempotent_layers.
Print Assumptions C10S_wrap_class_adds_layer.
Print Assumptions C10S_wrap_class_other.
Print Assumptions C10S_wrap_order_inherited.
Print Assumptions C10S_wrap_order_own_init.
Print Assumptions C10S_cache_own_binding.
Print Assumptions C10S_wraps_meta.
Print Assumptions C10S_wraps_dict.
Print Assumptions C10S_pinned_is_shell.
Print Assumptions C10S_wrap_pinned_hijacked.
Print Assumptions C10S_bind_pinned_self_refused.
Print Assumptions C10S_refuted_reserved_wrap_pinned.
Print Assumptions C10S_refuted_reserved_bind_pinned.
Print Assumptions C10S_refuted_double_conversion.
