(* Property C13 -- already-valid values pass through unmarshal unchanged; unmarshal is idempotent.
   Only the property theorems.  Model: Model/Core.v (unm), Model/CoreValid.v (valid,
   optional_only, the laws);  scripts: Proofs/CoreC13.v, Proofs/CoreC13Toy.v.

   All theorems are for EVERY runtime rt (the scalar routines, text loading, None routine: laws stated
   in PassLaws / IdemLaws and sampled against the implementation on every run), every class
   environment E, every annotation T, every value, and all sufficiently large fuel. *)
From Coq Require Import List Arith Bool PeanoNat.
Import ListNotations.
Require Import TL.Model.Core TL.Model.CoreValid TL.Model.CoreValidToy TL.Proofs.CoreC13 TL.Proofs.CoreC13Toy.

(* The statement at full strength.  "T is union-free or only Optional" = optional_only at every depth. *)
Definition C13_full_passthrough : Prop :=
  forall rt E lv, PassLaws rt lv -> wf_env E ->
  forall n T v, optional_only E n T = true -> valid lv rt E n T v = true ->
  exists m, forall fuel, m <= fuel -> unm rt E fuel T v = Ok v.

Definition C13_full_idempotent : Prop :=
  forall rt E, IdemLaws rt -> wf_env E ->
  forall T, (forall k, optional_only E k T = true) ->
  forall n x y, unm rt E n T x = Ok y ->
  exists m, forall fuel, m <= fuel -> unm rt E fuel T y = Ok y.

(* ---- pass-through: holds at full strength, no guard ---- *)
Theorem C13_passthrough : C13_full_passthrough.
Proof. exact passthrough. Qed.

(* validity is monotone in the fuel (fuel only bounds how deep the check looks) *)
Theorem C13_valid_fuel_mono : forall rt E lv n m T v,
  n <= m -> valid lv rt E n T v = true -> valid lv rt E m T v = true.
Proof. exact valid_fuel_mono. Qed.

Example C13_passthrough_ex :
  valid toy_lv toy_rt toy_E 9 toy_T toy_v = true /\ optional_only toy_E 9 toy_T = true /\
  exists m, forall fuel, m <= fuel -> unm toy_rt toy_E fuel toy_T toy_v = Ok toy_v.
Proof.
  split; [reflexivity|]. split; [reflexivity|].
  exact (C13_passthrough toy_rt toy_E toy_lv toy_pass_laws toy_wf 9 toy_T toy_v eq_refl eq_refl).
Qed.

(* ---- idempotence ---- *)
(* whatever unm returns is valid w.r.t. the leaf predicate "fixed point of its own routine": every
   container and class instance is of exactly the annotated class and arity *)
Theorem C13_results_valid : forall rt E, IdemLaws rt -> wf_env E -> DefaultsConform rt E ->
  forall n T x y, optional_only E n T = true -> unm rt E n T x = Ok y ->
  exists k, valid (fixlv rt) rt E k T y = true.
Proof. exact unm_results_stable. Qed.

(* guard: every default of every class conforms to its own annotation *)
Theorem C13_idempotent : forall rt E, IdemLaws rt -> wf_env E -> DefaultsConform rt E ->
  forall T, (forall k, optional_only E k T = true) ->
  forall n x y, unm rt E n T x = Ok y ->
  exists m, forall fuel, m <= fuel -> unm rt E fuel T y = Ok y.
Proof. exact idempotent. Qed.

(* the guards are computable over the finite list of names of an environment *)
Theorem C13_defaults_guard_sound : forall rt E k cs,
  env_dom E cs -> defaults_okb rt E k cs = true -> DefaultsConform rt E.
Proof. exact defaults_okb_sound. Qed.

Theorem C13_wf_guard_sound : forall E cs, env_dom E cs -> nodup_namesb E cs = true -> wf_env E.
Proof. exact nodup_namesb_sound. Qed.

Example C13_idempotent_ex :
  unm toy_rt toy_E 8 (TName 2) toy_x = Ok toy_y /\ toy_x <> toy_y /\
  exists m, forall fuel, m <= fuel -> unm toy_rt toy_E fuel (TName 2) toy_y = Ok toy_y.
Proof.
  split; [reflexivity|]. split; [discriminate|].
  exact (C13_idempotent toy_rt toy_E toy_idem_laws toy_wf toy_defaults (TName 2)
           (fun k => proj1 (toy_oo k)) 8 toy_x toy_y eq_refl).
Qed.

(* ---- the excluded regions ---- *)
(* (1) the idempotence form is false without the guard on defaults:
       @dataclass class N0: a: int = None;  unmarshal(N0, {}) = N0(a=None);  unmarshal(N0, N0(a=None)) raises *)
Theorem C13_refuted_idem_nonconforming_default : ~ C13_full_idempotent.
Proof.
  intros F.
  destruct (F toy_rt bad_default_E toy_idem_laws bad_default_wf (TName 0) bad_default_oo
              3 (PDict KDict []) (PObj 0 [(0, PAtom 4)]) eq_refl) as [m Hm].
  exact (bad_default_second m (Hm m (le_n m))).
Qed.

(* (2) the restriction "union-free or only Optional" is necessary:
       int | float given "1.5" is 1.5, and given 1.5 is 1 *)
Theorem C13_refuted_idem_general_union :
  IdemLaws toy_rt /\ wf_env no_E /\ DefaultsConform toy_rt no_E /\
  optional_only no_E 1 bad_union_T = false /\
  unm toy_rt no_E 3 bad_union_T (PAtom 0) = Ok (PAtom 1) /\
  forall fuel, unm toy_rt no_E fuel bad_union_T (PAtom 1) <> Ok (PAtom 1).
Proof.
  exact (conj toy_idem_laws (conj no_wf (conj no_defaults (conj eq_refl (conj eq_refl bad_union_second))))).
Qed.

Print Assumptions C13_passthrough.
Print Assumptions C13_valid_fuel_mono.
Print Assumptions C13_results_valid.
Print Assumptions C13_idempotent.
Print Assumptions C13_defaults_guard_sound.
Print Assumptions C13_wf_guard_sound.
Print Assumptions C13_refuted_idem_nonconforming_default.
Print Assumptions C13_refuted_idem_general_union.
Print Assumptions C13_passthrough_ex.
Print Assumptions C13_idempotent_ex.
