(* Property C14 -- text-like inputs are interchangeable.
   This file contains only the property theorems (each closed by a lemma of
   Proofs/SerdesLemmas.v), non-vacuity examples, and Print Assumptions.

   rt    : the interpreter pieces (UTF-8 codec, the JSON decoder in use, ast.literal_eval,
           json.dumps, repr) -- a record argument; RuntimeLaws rt are its stated laws.
   rest  : the remainder of each routine after its first step, ANY function of the value the
           first step produced;  whole: a routine on inputs this layer does not open;
   sup   : ANY set of exception kinds on which a Union routine goes on to its next member.
   The model (Model/Serdes.v) mirrors the repaired serdes.strload (carriers normalised, decoded, and only the
   TEXT handed to the JSON decoder: no law about the decoder on bytes is needed any more); entry_pinned /
   load_gen false are the pinned code, load_rawjson the code between the two repairs (Props/C14Json.v). *)
From Coq Require Import List ZArith NArith Bool.
Import ListNotations.
Require Import TL.Model.Serdes TL.Model.SerdesToy TL.Proofs.SerdesLemmas.

(* The full statement is Model/Serdes.v: C14_full fixd -- every target without bytes-like members (c14_guard),
   every encodable s, every carrier, every remainder.  It holds for the repaired code; without the strload
   repair it is false. *)
Theorem C14_full_holds : C14_full true.
Proof. exact full_holds. Qed.
Theorem C14_full_pinned_refuted : ~ C14_full false.
Proof. exact full_pinned_refuted. Qed.

(* decode: all bytes-like carriers of the same bytes (valid UTF-8 or not) give the same text or
   raise the same error; and every carrier of s decodes to s. *)
Theorem C14_decode_carriers : forall rt,
  (forall k1 k2 p, is_bin k1 = true -> is_bin k2 = true -> decode rt (PText k1 p) = decode rt (PText k2 p)) /\
  (RuntimeLaws rt -> forall k s, encodable s = true -> decode rt (carrier rt k s) = Ok (PStr s)).
Proof. intros rt. split; [exact (decode_kinds rt) | exact (decode_carrier rt)]. Qed.

(* load (and strload) on any carrier of s = load on s itself: equal value or equal rejection *)
Theorem C14_load_carriers : forall rt, RuntimeLaws rt -> forall k s, encodable s = true ->
  load rt (carrier rt k s) = load rt (PStr s).
Proof. intros rt L k s He. exact (load_carrier rt L k s He). Qed.

(* every routine head, every remainder, every s, all five carriers: equal result or equal rejection *)
Theorem C14_carriers : forall rt, RuntimeLaws rt -> forall rest whole sup h k s,
  encodable s = true -> c14_guard h = true ->
  entry rt rest whole sup h (carrier rt k s) = entry rt rest whole sup h (PStr s).
Proof. intros rt L rest whole sup h k s He Hg. exact (entry_carrier rt L rest whole sup h k s He Hg). Qed.

(* for load-first heads (collections, mappings, structured, casts): the JSON text of m in any
   carrier is equivalent to m itself, under json_loads (json_dumps m) = m *)
Theorem C14_json_text : forall rt, RuntimeLaws rt -> forall rest whole sup h k m,
  load_first h = true -> is_text m = false -> encodable (json_dumps rt m) = true ->
  json_loads_str rt (json_dumps rt m) = Ok m ->
  entry rt rest whole sup h (carrier rt k (json_dumps rt m)) = entry rt rest whole sup h m.
Proof. intros rt L rest whole sup h k m H1 H2 H3 H4. exact (entry_json_text rt L rest whole sup h k m H1 H2 H3 H4). Qed.

(* ... and its Python-literal form repr m, under literal_eval (repr m) = m, when the JSON decoder
   (which is asked first) either rejects repr m or also reads it as m *)
Theorem C14_literal_text : forall rt, RuntimeLaws rt -> forall rest whole sup h k m,
  load_first h = true -> is_text m = false -> encodable (py_repr rt m) = true ->
  (forall r, json_loads_str rt (py_repr rt m) = Ok r -> r = m) ->
  literal_eval rt (py_repr rt m) = Ok m ->
  entry rt rest whole sup h (carrier rt k (py_repr rt m)) = entry rt rest whole sup h m.
Proof. intros rt L rest whole sup h k m H1 H2 H3 H4 H5. exact (entry_literal_text rt L rest whole sup h k m H1 H2 H3 H4 H5). Qed.

(* load / strload return what the JSON decoder returns for JSON text, in every carrier; for bytes-like input of
   any content strload returns what the decoder returns for the text the bytes decode to, and raises the codec's
   error when they are not UTF-8 (the decoder is never handed the bytes: C14-strload-decode-first.diff) *)
Theorem C14_load_json : forall rt, RuntimeLaws rt ->
  (forall k s r, encodable s = true -> json_loads_str rt s = Ok r ->
     load rt (carrier rt k s) = Ok r /\
     match carrier rt k s with PText k' p => strload rt k' p = Ok r | _ => False end) /\
  (forall k b s r, is_bin k = true -> utf8_decode rt b = Ok s -> json_loads_str rt s = Ok r -> strload rt k b = Ok r) /\
  (forall k b e, is_bin k = true -> utf8_decode rt b = Raise e -> strload rt k b = Raise e).
Proof.
  intros rt L. split; [exact (load_json rt L) | split; [exact (strload_json_bin rt) | exact (strload_undecodable rt)]].
Qed.

(* text that the JSON decoder and literal_eval both reject comes back unchanged as str; no raise *)
Theorem C14_load_plain_text : forall rt, RuntimeLaws rt -> forall k s e1 e2, encodable s = true ->
  json_loads_str rt s = Raise e1 -> literal_eval rt s = Raise e2 ->
  load rt (carrier rt k s) = Ok (PStr s).
Proof. intros rt L k s e1 e2 He H1 H2. exact (load_plain_text rt L k s e1 e2 He H1 H2). Qed.

(* non-text inputs come back untouched *)
Theorem C14_load_nontext : forall rt v, is_text v = false -> load rt v = Ok v.
Proof. intros rt v H. exact (load_nontext rt true v H). Qed.

(* pinned code: every load-first routine rejects bytearray (TypeError) and writable memoryview
   (ValueError) whatever the content -- and a concrete instance where str is accepted *)
Theorem C14_refuted_bytearray :
  (forall rt rest whole sup h p, load_first h = true ->
     entry_pinned rt rest whole sup h (PText CBytearray p) = Raise EType /\
     entry_pinned rt rest whole sup h (PText CMemviewRW p) = Raise EValue) /\
  exists (rt : Runtime) (rest whole : head -> pv -> res pv) (sup : exn -> bool) (h : head) (s : str),
    RuntimeLaws rt /\ encodable s = true /\ load_first h = true /\
    entry_pinned rt rest whole sup h (PStr s) = rest h (PList [PInt 1; PInt 2]) /\
    entry_pinned rt rest whole sup h (carrier rt CBytearray s) = Raise EType /\
    entry_pinned rt rest whole sup h (carrier rt CMemviewRW s) = Raise EValue /\
    entry_pinned rt rest whole sup h (carrier rt CBytearray s) <> entry_pinned rt rest whole sup h (PStr s).
Proof.
  split; [intros rt rest whole sup h p Hh; split;
          [exact (pinned_bytearray rt rest whole sup h p Hh) | exact (pinned_memview_rw rt rest whole sup h p Hh)]
         | exact refuted_bytearray].
Qed.

(* Literal: the text of a str member is that member in all five carriers, whatever else the text
   reads as (e.g. the member "1", which the loader reads as the number 1) *)
Theorem C14_literal_carriers : forall rt, RuntimeLaws rt -> forall rest whole sup vals k s,
  encodable s = true -> forallb no_bin_value vals = true -> in_values (PStr s) vals = true ->
  entry rt rest whole sup (HLiteral vals) (carrier rt k s) = Ok (PStr s).
Proof. intros rt L rest whole sup vals k s He Hnb Hin. exact (literal_member_carriers rt L rest whole sup vals k s He Hnb Hin). Qed.

(* pinned code: a MemoryError / RecursionError of literal_eval escapes from load; repaired: text back *)
Theorem C14_refuted_resource :
  exists (rt : Runtime) (s : str) (e : exn),
    json_loads_str rt s = Raise EValue /\ literal_eval rt s = Raise e /\
    load_gen rt false (PStr s) = Raise e /\ load_gen rt true (PStr s) = Ok (PStr s).
Proof. exact refuted_resource. Qed.

(* ---- non-vacuity: the hypotheses have a non-trivial instance (the toy runtime) ---- *)
Example C14_laws_satisfiable : RuntimeLaws toy_rt.
Proof. exact toy_laws. Qed.
Example C14_guard_inhabited :
  c14_guard (HUnion [HNumber; HLiteral [PStr t_abc; PInt 1]; HSubIterable]) = true.
Proof. exact toy_guard_union. Qed.
Example C14_literal_member_hyp : forallb no_bin_value [PStr t_one; PInt 1] = true /\
  in_values (PStr t_one) [PStr t_one; PInt 1] = true /\ load toy_rt (PStr t_one) = Ok (PInt 1).
Proof. exact toy_literal_member. Qed.
Example C14_json_text_hyp : json_loads_str toy_rt (json_dumps toy_rt v_list12) = Ok v_list12.
Proof. exact toy_json_text. Qed.
Example C14_plain_text_hyp : json_loads_str toy_rt t_abc = Raise EValue /\ literal_eval toy_rt t_abc = Raise ESyntax.
Proof. exact toy_plain. Qed.

Print Assumptions C14_full_holds.
Print Assumptions C14_full_pinned_refuted.
Print Assumptions C14_decode_carriers.
Print Assumptions C14_load_carriers.
Print Assumptions C14_carriers.
Print Assumptions C14_json_text.
Print Assumptions C14_literal_text.
Print Assumptions C14_load_json.
Print Assumptions C14_load_plain_text.
Print Assumptions C14_load_nontext.
Print Assumptions C14_refuted_bytearray.
Print Assumptions C14_literal_carriers.
Print Assumptions C14_refuted_resource.
