(* Property C15 -- every valid annotation yields working routines.
   Only the property theorems (proofs: Proofs/BuildLemmas.v, Proofs/BuildSemLemmas.v).
   In the model the extended constructors that typelib cannot resolve (Any, object, TypeVars, Callable,
   bare containers, user generics, classes without hints) are LEAF types whose routines are runtime
   functions; what is proved is that the composite machinery never fails on them and treats the
   pass-through ones as the identity.  Whether the implementation's dispatch accepts each exotic leaf
   is exercised by the tie and the oracle (open findings list the ones it does not). *)
From Coq Require Import List Arith Bool.
Import ListNotations.
Require Import TL.Model.Core TL.Model.Build TL.Proofs.CoreMono TL.Proofs.BuildLemmas TL.Proofs.BuildSemLemmas
  TL.Props.C05.

(* construction is total and needs no fuel (no unbounded recursion): for every environment, direction,
   annotation and node order accepted by the graph contract the factory returns a routine *)
Theorem C15_construction_total :
  forall (E : env) (dir : bool) (noop_leaf : nat -> bool) (orders : ty -> option (list node)) (T : ty),
    orders_contract E dir noop_leaf orders ->
    (exists ns, orders (evaluate T) = Some ns) ->
    exists r, build_root E orders dir T = Ok r.
Proof.
  intros E dir noop_leaf orders T Ho [ns Hns].
  destruct (Ho _ _ Hns) as [pre [root [-> [Hord Hroot]]]].
  destruct (build_routes E dir noop_leaf orders T pre root Hns Hord) as [r [Hr _]];
    [rewrite Hroot; apply norm_evaluate|].
  exists r. exact Hr.
Qed.

(* a position whose type cannot be resolved (no routine in the context: the structured routine falls back to
   the no-op routine) behaves as pass-through, in both directions and for every input *)
Theorem C15_passthrough :
  forall (rt : runtime) (E : env) (orders : ty -> option (list node)) (dir : bool) (fuel : nat) (x : pv),
    run rt E orders dir (S fuel) RNoOp x = Ok x.
Proof. intros rt E orders dir fuel x. destruct dir; reflexivity. Qed.

(* ... and such a position is the only place where the no-op routine can occur in a built routine *)
Theorem C15_noop_only_at_passthrough :
  forall (E : env) (dir : bool) (noop_leaf : nat -> bool) (a : ty),
    routes' E dir noop_leaf RNoOp a ->
    exists s, aeq E a (TLeaf s) /\ noop_leaf s = true /\ (noalias E -> a = TLeaf s).
Proof. intros E dir noop_leaf a H. destruct (routes'_noop E dir noop_leaf a H) as [s [Ha Hs]].
  exists s. split; [exact Ha|]. split; [exact Hs|]. intros Hna. exact (aeq_noalias E _ _ Hna Ha). Qed.

(* construction is repeatable: building is a function of (environment, node orders, direction, annotation);
   nothing else -- no cache state -- enters (the cache side is property C12) *)
Theorem C15_repeatable :
  forall (E : env) (orders : ty -> option (list node)) (dir : bool) (T : ty) (r1 r2 : routine),
    build_root E orders dir T = Ok r1 -> build_root E orders dir T = Ok r2 -> r1 = r2.
Proof. intros E orders dir T r1 r2 H1 H2. rewrite H1 in H2. injection H2 as <-. reflexivity. Qed.

(* non-vacuity: a class with an unresolvable field (leaf 9 = Any, no graph node for it) *)
Definition xE : env := fun n => match n with
  | 0 => Some (NClass {| cflavour := FPlain;
                          cfields := [ {| fname := 0; fty := TLeaf 9; fdefault := None |};
                                       {| fname := 1; fty := TSeq KList (TLeaf 9); fdefault := None |} ]; crequired := [] |})
  | _ => None end.
Definition xOrder : list node :=
  [ {| ntype := TLeaf 9; nunw := TLeaf 9; ncyc := false |};
    {| ntype := TSeq KList (TLeaf 9); nunw := TSeq KList (TLeaf 9); ncyc := false |};
    {| ntype := TName 0; nunw := TName 0; ncyc := false |} ].
Example C15_hyps_satisfiable :
  order_ok xE true (fun s => Nat.eqb s 9) [] xOrder = true /\
  build_root xE (fun _ => Some xOrder) true (TName 0)
    = Ok (RStruct 0 [(0, RLeaf 9); (1, RSeq KList (RLeaf 9))]).
Proof. vm_compute. split; reflexivity. Qed.

Print Assumptions C15_construction_total.
Print Assumptions C15_passthrough.
Print Assumptions C15_noop_only_at_passthrough.
Print Assumptions C15_repeatable.
