(* C11 / C12 on reference strings: in which module is a bare reference evaluated, and does the answer depend on
   what was asked before?  Model: Model/Refs.v (frames.extract, frames.getcaller, refs._resolve_module_name with its
   memo, refs.forwardref, refs.evaluate on dotted names, the caches of static_order / unmarshaller / marshaller /
   codec); fixed = false is the code before the repair proposed_fixes/C11-bare-string-caller-module.diff,
   fixed = true the repaired code.  Only theorems (proofs: Proofs/RefsLemmas.v; the concrete interpreter state W0
   and the library frames L0 / L1: Model/RefsEq.v) and examples. *)
From Coq Require Import List Bool String.
Import ListNotations.
Require Import TL.Model.Refs TL.Model.RefsEq TL.Proofs.RefsLemmas.
Local Open Scope string_scope.
Local Open Scope list_scope.

(* ---- the code before the repair ---- *)
(* mod_a and mod_b each define a class Node; mod_a calls unmarshal("Node", ..), then mod_b does: mod_b gets the routine
   of mod_a's class (alone it gets its own) *)
Theorem Refs_refuted_cross_module :
  warm false W0 L0 [call_a] call_b = ROk [cls 1 "mod_a"] /\
  cold false W0 L0 call_b = ROk [cls 2 "mod_b"] /\
  lookup "Node" d_mod_b = Some (cls 2 "mod_b").
Proof. exact refuted_cross_module. Qed.

(* ... by the memo of _resolve_module_name alone (all factory caches cleared in between) and by the str-keyed factory
   caches alone (the resolver's memo cleared in between) *)
Theorem Refs_refuted_resolver_memo :
  warm false W0 L0 [call_a; OClear CSo; OClear CUn; OClear CMa; OClear CCd] call_b = ROk [cls 1 "mod_a"].
Proof. exact refuted_resolver_memo. Qed.
Theorem Refs_refuted_factory_key :
  warm false W0 L0 [call_a; OClear CRes] call_b = ROk [cls 1 "mod_a"].
Proof. exact refuted_factory_key. Qed.

(* so the full statement (Refs_full: the answer to a call is the answer to the same call in a cold process, for every
   interpreter state, every library, every history) is false of the code before the repair *)
Theorem Refs_full_refuted : ~ Refs_full false.
Proof. exact full_refuted. Qed.

(* without any history: a name bound in the caller's module is taken from a frame of the library that binds it too,
   and the module of the object found (not of the binding) is where the name is evaluated *)
Theorem Refs_refuted_library_capture :
  cold false W0 L0 (OCall EUnmarshal (RStr "TypeNode") [fa; fmain]) = ROk [cls 900 "typelib.graph"] /\
  lookup "TypeNode" d_mod_a = Some (cls 4 "mod_a").
Proof. exact refuted_library_capture. Qed.
Theorem Refs_refuted_object_module :
  cold false W0 L0 (OCall EUnmarshal (RStr "Alias") [fa; fmain]) = RErr ENameError /\
  lookup "Alias" d_mod_a = Some (cls 3 "builtins") /\
  cold false W0 L0 (OCall EUnmarshal (RStr "Thing") [fc; fmain]) = RErr ENameError /\
  lookup "Thing" d_mod_c = Some (cls 1 "mod_a").
Proof. exact refuted_object_module. Qed.

(* ---- the repaired code ---- *)
(* history independence, full strength: every interpreter state, every set of library frames, every history of calls
   (any entry point, bare / qualified strings and ForwardRefs, any stack) and cache clears, every call *)
Theorem Refs_full_repaired : Refs_full true.
Proof. exact repaired_full. Qed.

(* a bare name: the NEAREST frame whose module binds it decides.  c is the innermost frame of the caller's stack that is
   not passed over (the frames pre in front of it are frames of the library, frames without a module name, or frames of
   any module whose globals do not bind the name -- helper modules through which the reference is issued: passes; and
   the library's own chain -- for decode both of its chains: lib_ok -- are frames of the library or frames without a
   module name) binds the name in its globals
   and runs in module m, which the interpreter knows and which binds the name to o: every entry point answers o,
   after every history, whatever lies further out on the stack (post: locals of the same name included) *)
Theorem Refs_repaired_bare : forall (W : world) (L : lib) (h : list op) (e : entry)
    (pre : list frame) (c : frame) (post : list frame) (s : string) (g : obj) (m : string) (d : table) (o : obj),
  match e with ECodecM | ECodecU | EDecodePre | ECodecPost => False | _ => True end ->
  is_ident s = true ->
  lib_ok L e = true -> forallb (passes (l_pkg L) s) pre = true ->
  lookup s (f_globals c) = Some g -> f_gname c = Some m -> skipped (l_pkg L) c = false ->
  lookup m (w_modules W) = Some d -> lookup s d = Some o -> not_module o = true ->
  warm true W L h (OCall e (RStr s) (pre ++ c :: post)) = expect e s m o.
Proof. exact repaired_bare. Qed.

(* ---- qualified names; forwardref repaired a second time (proposed_fixes/C11-qualified-name-mangled.diff:
   l_strip_lead, "<module>." is dropped only where it leads a dotted name) and the head rule
   (proposed_fixes/C11-dotted-prefix-is-caller-name.diff: l_caller_head, a leading name that the calling module binds is
   a name of that module) ---- *)
(* m.rest, rest any dotted name: where the calling module does not bind the name m (or is m itself), rest is evaluated
   in module m -- every history, every stack.  No guard about the text any more. *)
Theorem Refs_repaired_qualified : forall (W : world) (L : lib) (h : list op) (e : entry) (ust : list frame)
    (m rest : string),
  match e with ECodecM | ECodecU | ECodec | EForwardref | EDecodePre | ECodecPost => False | _ => True end ->
  l_strip_lead L = true ->
  is_ident m = true -> dotted_text rest = true ->
  lib_ok L e = true ->
  (caller_module_binding (l_pkg L) ust m = None \/ caller_module_binding (l_pkg L) ust m = Some m) ->
  warm true W L h (OCall e (RStr (m ++ "." ++ rest)) ust) = one (evaluate W (rest, Some m)).
Proof. exact repaired_qualified. Qed.

Theorem Refs_repaired_qualified_name : forall (W : world) (L : lib) (h : list op) (e : entry) (ust : list frame)
    (m n : string) (d : table) (o : obj),
  match e with ECodecM | ECodecU | ECodec | EForwardref | EDecodePre | ECodecPost => False | _ => True end ->
  l_strip_lead L = true ->
  is_ident m = true -> is_ident n = true ->
  lib_ok L e = true ->
  (caller_module_binding (l_pkg L) ust m = None \/ caller_module_binding (l_pkg L) ust m = Some m) ->
  lookup m (w_modules W) = Some d -> lookup n d = Some o -> not_module o = true ->
  warm true W L h (OCall e (RStr (m ++ "." ++ n)) ust) = ROk [o].
Proof. exact repaired_qualified_name. Qed.

(* where the calling module (c, running in cm) DOES bind the leading name, the whole text is an expression of that
   module -- `typing.Optional[Node]`, `models.Node` written where typing / models are imported *)
Theorem Refs_repaired_caller_head : forall (W : world) (L : lib) (h : list op) (e : entry)
    (pre : list frame) (c : frame) (post : list frame) (m rest : string) (g : obj) (cm : string),
  match e with ECodecM | ECodecU | ECodec | EForwardref | EDecodePre | ECodecPost => False | _ => True end ->
  l_strip_lead L = true -> l_caller_head L = true ->
  is_ident m = true -> dotted_text rest = true ->
  lib_ok L e = true -> forallb (skipped (l_pkg L)) pre = true ->
  skipped (l_pkg L) c = false -> lookup m (f_globals c) = Some g -> f_gname c = Some cm ->
  String.prefix (cm ++ ".") (m ++ "." ++ rest) = false ->
  warm true W L h (OCall e (RStr (m ++ "." ++ rest)) (pre ++ c :: post))
  = one (evaluate W ((m ++ "." ++ rest)%string, Some cm)).
Proof. exact repaired_caller_head. Qed.

(* ... so `import m' as m` in the calling module and "m.n" give the n of m' *)
Theorem Refs_repaired_caller_head_name : forall (W : world) (L : lib) (h : list op) (e : entry)
    (pre : list frame) (c : frame) (post : list frame) (m n : string) (g : obj) (cm : string)
    (dc : table) (m' : string) (d' : table) (o : obj),
  match e with ECodecM | ECodecU | ECodec | EForwardref | EDecodePre | ECodecPost => False | _ => True end ->
  l_strip_lead L = true -> l_caller_head L = true ->
  is_ident m = true -> is_ident n = true ->
  lib_ok L e = true -> forallb (skipped (l_pkg L)) pre = true ->
  skipped (l_pkg L) c = false -> lookup m (f_globals c) = Some g -> f_gname c = Some cm ->
  String.prefix (cm ++ ".") (m ++ "." ++ n) = false ->
  lookup cm (w_modules W) = Some dc -> lookup m dc = Some (OMod m') ->
  lookup m' (w_modules W) = Some d' -> lookup n d' = Some o -> not_module o = true ->
  warm true W L h (OCall e (RStr (m ++ "." ++ n)) (pre ++ c :: post)) = ROk [o].
Proof. exact repaired_caller_head_name. Qed.

(* the PINNED forwardref (str.replace: L0 before, L1 after the first repair) drops every occurrence of "<module>.":
   app.webapp.Model is looked up as webModel *)
Theorem Refs_refuted_qualified_mangled :
  forall fixed, cold fixed W0 (if fixed then L1 else L0) (OCall EUnmarshal (RStr "app.webapp.Model") [fc; fmain]) = RErr ENameError /\
  evaluate W0 ("webapp.Model", Some "app") = Ok (cls 7 "app.webapp") /\
  replace_all ("app" ++ ".") "webapp.Model" = "webModel".
Proof. exact refuted_qualified_mangled. Qed.

(* the PINNED head rule: with `import mod_a as ma` in the calling module, "ma.Node" is looked up in a module called ma *)
Theorem Refs_refuted_dotted_head_pinned :
  cold true W0 L2_head_pinned (OCall EUnmarshal (RStr "ma.Node") [fd; fmain]) = RErr ENameError /\
  cold true W0 L2 (OCall EUnmarshal (RStr "ma.Node") [fd; fmain]) = ROk [cls 1 "mod_a"] /\
  lookup "ma" d_mod_d = Some (OMod "mod_a").
Proof. exact refuted_dotted_head_pinned. Qed.

(* the hypothesis of Refs_repaired_qualified about the calling module is necessary: a binding there wins *)
Theorem Refs_repaired_caller_name_wins :
  cold true W0 L2 (OCall EUnmarshal (RStr "mod_b.Node") [fd; fmain]) = ROk [cls 1 "mod_a"] /\
  evaluate W0 ("Node", Some "mod_b") = Ok (cls 2 "mod_b") /\
  caller_module_binding "typelib" [fd; fmain] "mod_b" = Some "mod_d".
Proof. exact repaired_caller_name_wins. Qed.

(* "bound in the caller's GLOBALS" is necessary: a class defined in the calling function's body is not found *)
Theorem Refs_repaired_refuted_local_only :
  cold true W0 L1 (OCall EUnmarshal (RStr "Loc") [fc_local; fmain]) = RErr ENameError /\
  frame_binding fc_local "Loc" = Some (cls 60 "mod_c").
Proof. exact repaired_refuted_local_only. Qed.

(* ---- frames.extract (both variants) ---- *)
(* the innermost frame that binds the name decides; no frame further out, in particular no local of an outer frame, can
   change what is found *)
Theorem Refs_extract_innermost : forall (pre : list frame) (f : frame) (post : list frame) (n : string) (o : obj),
  Forall (unbound n) pre -> frame_binding f n = Some o -> extract (pre ++ f :: post) n = Some o.
Proof. exact extract_innermost. Qed.

(* inside one frame a global wins over a local of the same name *)
Theorem Refs_extract_global_before_local : forall (f : frame) (post : list frame) (n : string) (g : obj),
  lookup n (f_globals f) = Some g -> extract (f :: post) n = Some g.
Proof. exact extract_global_before_local. Qed.

(* a local of an OUTER frame is reached only when nothing further in binds the name; then (both variants) the module of
   the object decides, and the name is looked up there *)
Theorem Refs_outer_local_falls_to_object_module :
  forall fixed,
  cold fixed W0 (if fixed then L1 else L0) (OCall EForwardref (RStr "Ghost") [fa; fouter_ghost; fmain])
  = RRef "Ghost" (Some "mod_a") (Err ENameError).
Proof. exact outer_local_falls_to_object_module. Qed.

(* ---- the hypotheses are satisfiable ---- *)
Example Refs_repaired_bare_satisfiable :
  warm true W0 L1 [call_a; OCall ECodec (RStr "Node") [fa; fmain]] (OCall EUnmarshal (RStr "Node") [fb; fb_local; fmain])
  = ROk [cls 2 "mod_b"] /\
  lib_ok L1 EUnmarshal = true /\ skipped "typelib" fb = false /\ is_ident "Node" = true /\
  libs_ok L1 = true.
Proof. exact repaired_bare_example. Qed.

Example Refs_repaired_examples :
  warm true W0 L1 [call_a] (OCall EUnmarshal (RStr "Alias") [fa; fmain]) = ROk [cls 3 "builtins"] /\
  warm true W0 L1 [call_a] (OCall EMarshal (RStr "TypeNode") [fa; fmain]) = ROk [cls 4 "mod_a"] /\
  warm true W0 L1 [call_a] (OCall EDecode (RStr "Thing") [fc; fmain]) = ROk [cls 1 "mod_a"] /\
  warm true W0 L1 [call_b] (OCall EUnmarshal (RStr "mod_a.Node") [fb; fmain]) = ROk [cls 1 "mod_a"] /\
  warm true W0 L1 [call_b] (OCall EForwardref (RStr "Node") [fa; fb_local; fmain]) = RRef "Node" (Some "mod_a") (Ok (cls 1 "mod_a")).
Proof. exact repaired_examples. Qed.

Example Refs_repaired_helper_example :
  warm true W0 L2 [OCall EUnmarshal (RStr "Node") [fh; fa; fmain]] (OCall EUnmarshal (RStr "Node") [fh; fh; fb; fa; fmain])
  = ROk [cls 2 "mod_b"] /\
  cold true W0 L2 (OCall EUnmarshal (RStr "Node") [fh; fa; fmain]) = ROk [cls 1 "mod_a"] /\
  forallb (passes "typelib" "Node") [fh; fh] = true /\ skipped "typelib" fh = false.
Proof. exact repaired_helper_example. Qed.

Example Refs_repaired_mangled_example :
  cold true W0 L2 (OCall EUnmarshal (RStr "app.webapp.Model") [fc; fmain]) = ROk [cls 7 "app.webapp"] /\
  strip_lead "app" "app.webapp.Model" = "webapp.Model" /\
  strip_lead "app" "dict[app.K, xapp.app.V] | app.W" = "dict[K, xapp.app.V] | W".
Proof. exact repaired_mangled_example. Qed.

Example Refs_repaired_qualified_examples :
  warm true W0 L2 [call_a] (OCall EUnmarshal (RStr "mod_b.Node") [fc; fmain]) = ROk [cls 2 "mod_b"] /\
  caller_module_binding "typelib" [fc; fmain] "mod_b" = None /\
  warm true W0 L2 [call_b] (OCall EDecode (RStr "mod_a.Node") [fc; fmain]) = ROk [cls 1 "mod_a"] /\
  caller_module_binding "typelib" [fc; fmain] "mod_a" = Some "mod_c" /\
  libs_ok L2 = true /\ l_strip_lead L2 = true /\ l_caller_head L2 = true.
Proof. exact repaired_qualified_examples. Qed.

Print Assumptions Refs_refuted_cross_module.
Print Assumptions Refs_refuted_resolver_memo.
Print Assumptions Refs_refuted_factory_key.
Print Assumptions Refs_full_refuted.
Print Assumptions Refs_refuted_library_capture.
Print Assumptions Refs_refuted_object_module.
Print Assumptions Refs_full_repaired.
Print Assumptions Refs_repaired_bare.
Print Assumptions Refs_repaired_qualified.
Print Assumptions Refs_repaired_qualified_name.
Print Assumptions Refs_refuted_qualified_mangled.
Print Assumptions Refs_repaired_caller_head.
Print Assumptions Refs_repaired_caller_head_name.
Print Assumptions Refs_refuted_dotted_head_pinned.
Print Assumptions Refs_repaired_caller_name_wins.
Print Assumptions Refs_repaired_refuted_local_only.
Print Assumptions Refs_extract_innermost.
Print Assumptions Refs_extract_global_before_local.
Print Assumptions Refs_outer_local_falls_to_object_module.
