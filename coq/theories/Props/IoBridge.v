(* Bridge C18 / C14 <-> core value model.  Core.itervalues / Core.iteritems / Core.load -- the three serdes
   functions every composite case of Core.unm / Core.mar goes through (C01 C03 C05 C06 C07 C11 C13 C15) -- ARE,
   through an explicit embedding of core values, the functions the detailed models speak about:
   Iter.itervalues / Iter.iteritems (C18) and Serdes.load (C14).  C18's and C14's theorems therefore hold of
   the functions the composite theorems use.  Only theorems (exact <lemma>), examples and Print Assumptions.

     P : shape   how the iteration model sees a core scalar, a field name, a structured class
     T : tshape  how the text model sees a core scalar, and which core scalar a decoded scalar is
     E           the class environment (field names of named tuples)
     rt          ANY core runtime whose scalar fields obey the laws IterLaws / LoadLaw (they say: the scalar
                 fields answer like the two models); io_runtime is the runtime whose fields are DEFINED from the
                 two models -- it obeys them (IoBridge_induced_laws).
   Outside the embedding: one-shot iterators (a core value is a value: iterating it twice gives the same),
   custom containers / views (atoms of the core model, allowed as scalars through a_iter), and for the text
   model structured instances, named tuples, frozensets, deques, OrderedDicts (load never produces them and
   leaves them alone: IoBridge_load_commute covers them, IoBridge_load_embS does not). *)
From Coq Require Import List ZArith NArith String Ascii Bool Arith.
Import ListNotations.
Require TL.Model.Core TL.Model.Iter TL.Model.Serdes TL.Model.SerdesToy.
Require Import TL.Model.IoBridge TL.Model.IoBridgeEq TL.Proofs.IoBridge.

(* ---------------------------------------------------------------- the embedding of results loses nothing *)
Theorem IoBridge_results_faithful : forall (A : Type) (r1 r2 : I.res A), down r1 = down r2 -> r1 = r2.
Proof. intros A r1 r2. exact (down_inj r1 r2). Qed.

(* None and int (Unmodelled in Iter.v) raise TypeError like every instance without __dict__ of a class that
   declares no field and no __slots__: the total functions xvalues / xitems only name that case *)
Theorem IoBridge_scalar_shape : forall d,
  I.c_dataclass d = false -> I.public (I.c_hints d) = [] -> I.c_slots d = None ->
  fst (I.iteritems I.repaired (I.VObj d [] None [])) = I.Raise I.EType /\
  fst (I.itervalues I.repaired (I.VObj d [] None [])) = I.Raise I.EType.
Proof. exact scalar_shape_raises. Qed.

(* ---------------------------------------------------------------- (a) commutation, every value, any nesting *)
(* serdes.itervalues *)
Theorem IoBridge_values_commute : forall P E rt v, IterLaws P E rt -> io_guard P E v = true ->
  rmap (map (emb P E)) (C.itervalues rt v) = down (xvalues (emb P E v)).
Proof. intros P E rt v. exact (values_commute P E rt v). Qed.

(* serdes.iteritems as its callers consume it (`for k, v in serdes.iteritems(x)`): every value, any members.
   (Scalar members of an iterable of pairs are unpacked by the runtime field unpack_scalar, law il_unpack; with
   the previous definition of Core.unpack2 this statement was false: IoBridge_pinned_full_refuted below.) *)
Theorem IoBridge_items_commute : forall P E rt v, IterLaws P E rt -> io_guard P E v = true ->
  rmap (map (emb2 P E)) (C.iteritems rt E v) = down (xitems (emb P E v)).
Proof. intros P E rt v. exact (items_commute P E rt v). Qed.

(* serdes.load: text scalars go through the text model, everything else comes back untouched *)
Theorem IoBridge_load_commute : forall T srt rt v, LoadLaw T srt rt ->
  C.load rt v = if C.is_scalar v then undown T (S.load srt (sc T v)) else C.Ok v.
Proof. intros T srt rt v. exact (load_commute T srt rt v). Qed.

(* ... and for every value the text model can speak about (scalars, list / tuple / set / dict of such, any
   nesting) Core.load is Serdes.load read back *)
Theorem IoBridge_load_embS : forall T srt, SBackLaws T ->
  (forall u, C.is_scalar u = true -> s_back T (sc T u) = Some u) ->
  forall rt v x, LoadLaw T srt rt -> embS T v = Some x -> C.load rt v = undown T (S.load srt x).
Proof. intros T srt SB R rt v x. exact (load_embS T srt SB R rt v x). Qed.

Theorem IoBridge_readback : forall T, SBackLaws T ->
  (forall u, C.is_scalar u = true -> s_back T (sc T u) = Some u) ->
  forall v x, embS T v = Some x -> unS T x = Some v.
Proof. intros T SB R. exact (unS_embS T SB R). Qed.

(* ... and nothing is lost when a decoded value is read as a core value: it embeds back to the decoded value *)
Theorem IoBridge_readback_sound : forall T, SBackLaws T -> forall x v, unS T x = Some v -> embS T v = Some x.
Proof. intros T SB. exact (unS_sound T SB). Qed.

(* the runtime whose scalar fields are DEFINED from the two models obeys all the laws *)
Theorem IoBridge_induced_laws : forall P E i_back T srt base, BackLaws P E i_back ->
  IterLaws P E (io_runtime P E i_back T srt base) /\
  LoadLaw T srt (io_runtime P E i_back T srt base).
Proof.
  intros P E i_back T srt base BL.
  exact (conj (induced_iter_laws P E i_back BL T srt base) (induced_load_law T srt P E i_back base)).
Qed.

(* ---------------------------------------------------------------- (b) C18 carried over to the core functions *)
(* C18_values: list(itervalues(v)) is exactly the prescribed values, once each, in order *)
Theorem IoBridge_C18_values : forall P E rt v, IterLaws P E rt -> io_guard P E v = true ->
  C.is_scalar v = false ->
  rmap (map (emb P E)) (C.itervalues rt v) = C.Ok (I.spec_values (emb P E v)).
Proof. intros P E rt v. exact (values_spec P E rt v). Qed.

(* C18_items: the consumer of iteritems(v) sees exactly the prescribed elements, unpacked *)
Theorem IoBridge_C18_items : forall P E rt v, IterLaws P E rt -> io_guard P E v = true ->
  C.is_scalar v = false ->
  rmap (map (emb2 P E)) (C.iteritems rt E v) = down (imapM unpackI (I.spec_items (emb P E v))).
Proof. intros P E rt v. exact (items_spec P E rt v). Qed.

(* ... every (key, value) / (field, value) / (index, element) exactly once, in order, nothing lost: for
   mappings, structured instances, named tuples, and iterables whose first element is not a pair *)
Theorem IoBridge_C18_items_pairs : forall P E rt v, IterLaws P E rt -> io_guard P E v = true ->
  C.is_scalar v = false ->
  I.first_is_pair (I.elems (emb P E v)) = false \/ (match v with C.PSeq _ _ => False | _ => True end) ->
  rmap (map (emb2 P E)) (C.iteritems rt E v) = C.Ok (I.spec_pairs (emb P E v)).
Proof. intros P E rt v. exact (items_spec_pairs P E rt v). Qed.

(* C18_nondestructive: no core container is a one-shot iterator; iterating leaves the value as it was *)
Theorem IoBridge_C18_nondestructive : forall P E v, C.is_scalar v = false ->
  I.is_oneshot (emb P E v) = false /\
  xafter_items (emb P E v) = emb P E v /\ xafter_values (emb P E v) = emb P E v.
Proof. intros P E v H. exact (conj (emb_not_oneshot P E v H) (nondestructive P E v H)). Qed.

(* one-shot iterators have no core counterpart: a second iteration gives something else (nothing), while
   Core.itervalues is a function of the value *)
Theorem IoBridge_oneshot_outside :
  let it := I.VIter I.IGenerator 0 [I.VInt 1] in
  fst (I.itervalues I.repaired it) = I.Ok [I.VInt 1] /\
  fst (I.itervalues I.repaired (snd (I.itervalues I.repaired it))) = I.Ok [] /\
  forall P E v, C.is_scalar v = false -> emb P E v <> it.
Proof.
  split; [reflexivity|]. split; [reflexivity|].
  intros P E v H Heq. assert (Ho := emb_not_oneshot P E v H). rewrite Heq in Ho. discriminate.
Qed.

(* ---------------------------------------------------------------- (b) C14 carried over to Core.load / Core.unm *)
(* C14_load_carriers: two scalars that are carriers of one text load alike *)
Theorem IoBridge_C14_load_carriers : forall T srt rt, LoadLaw T srt rt -> S.RuntimeLaws srt ->
  forall a1 a2 k s, S.encodable s = true ->
  a_ser T a1 = S.carrier srt k s -> a_ser T a2 = S.PText S.CStr s ->
  C.load rt (C.PAtom a1) = C.load rt (C.PAtom a2).
Proof. intros T srt rt L RL a1 a2 k s He H1 H2. exact (io_load_carriers T srt rt L a1 a2 k s RL He H1 H2). Qed.

(* C14_load_json: JSON text in any carrier loads as what the decoder returns, read as a core value *)
Theorem IoBridge_C14_load_json : forall T srt rt, LoadLaw T srt rt -> S.RuntimeLaws srt ->
  forall a k s r, S.encodable s = true -> S.json_loads_str srt s = S.Ok r -> a_ser T a = S.carrier srt k s ->
  C.load rt (C.PAtom a) = undown T (S.Ok r).
Proof. intros T srt rt L RL a k s r He Hj Ha. exact (io_load_json T srt rt L a k s r RL He Hj Ha). Qed.

(* C14_load_plain_text: text neither decoder reads comes back as the str itself, no raise *)
Theorem IoBridge_C14_load_plain_text : forall T srt rt, LoadLaw T srt rt -> S.RuntimeLaws srt ->
  forall a k s e1 e2, S.encodable s = true ->
  S.json_loads_str srt s = S.Raise e1 -> S.literal_eval srt s = S.Raise e2 -> a_ser T a = S.carrier srt k s ->
  C.load rt (C.PAtom a) = undown T (S.Ok (S.PText S.CStr s)).
Proof. intros T srt rt L RL a k s e1 e2 He H1 H2 Ha. exact (io_load_plain T srt rt L a k s e1 e2 RL He H1 H2 Ha). Qed.

(* C14_load_nontext *)
Theorem IoBridge_C14_load_nontext : forall T srt rt, LoadLaw T srt rt ->
  forall v, C.is_scalar v = true -> S.is_text (sc T v) = false -> C.load rt v = undown T (S.Ok (sc T v)).
Proof. intros T srt rt L v Hs Ht. exact (io_load_nontext T srt rt L v Hs Ht). Qed.

(* The composite routines (subscripted iterable / mapping, fixed tuple, structured class) see their input only
   through serdes.load: any input is equivalent to the value load reads it as ... *)
Theorem IoBridge_unm_text_is_value : forall rt E n t x d, load_first_ty E t = true ->
  C.load rt x = C.Ok d -> C.load rt d = C.Ok d -> C.unm rt E n t x = C.unm rt E n t d.
Proof. exact unm_loaded. Qed.

(* ... so C14_carriers holds of Core.unm at every load-first annotation, any fuel, any environment *)
Theorem IoBridge_C14_unm_carriers : forall T srt rt E n t a1 a2 k s, LoadLaw T srt rt -> S.RuntimeLaws srt ->
  S.encodable s = true -> a_ser T a1 = S.carrier srt k s -> a_ser T a2 = S.PText S.CStr s ->
  load_first_ty E t = true ->
  C.unm rt E n t (C.PAtom a1) = C.unm rt E n t (C.PAtom a2).
Proof. exact unm_carriers. Qed.

(* ... and C14_json_text: the JSON text of a container in any carrier unmarshals like the container *)
Theorem IoBridge_C14_unm_json_text : forall T srt rt E n t a k s r d, LoadLaw T srt rt -> S.RuntimeLaws srt ->
  S.encodable s = true -> S.json_loads_str srt s = S.Ok r -> unS T r = Some d -> C.is_scalar d = false ->
  a_ser T a = S.carrier srt k s -> load_first_ty E t = true ->
  C.unm rt E n t (C.PAtom a) = C.unm rt E n t d.
Proof. exact unm_json_text. Qed.

(* ---------------------------------------------------------------- (c) where the two models DISAGREED *)
(* Until the runtime field unpack_scalar existed, Core.unpack2 unpacked a scalar member through serdes.itervalues
   (unpack2_pinned / iteritems_pinned are that definition).  It agrees with the present one wherever unpack_guard
   holds, and was refuted by the code outside (replayed on /repo: notes/iobridge.md); the witnesses stay part of
   every run of the core-io stream, where Core.iteritems must now agree with the code. *)
Theorem IoBridge_pinned_agrees : forall P E rt v, IterLaws P E rt -> unpack_guard P E v = true ->
  rmap (map (emb2 P E)) (iteritems_pinned E rt v) = rmap (map (emb2 P E)) (C.iteritems rt E v).
Proof. intros P E rt v. exact (items_pinned_agrees P E rt v). Qed.

Definition pair12 : C.pv := C.PSeq C.KTuple [int_atom 1; int_atom 2].
(* [(1, 2), UUID(int=5)]: the previous definition unpacked the UUID into its two public slots; the code
   (`for k, v in ...`) raises TypeError: cannot unpack non-iterable UUID object -- and so does Core.iteritems now *)
Theorem IoBridge_pinned_refuted_noniterable :
  let v := C.PSeq C.KList [pair12; C.PAtom 3] in
  IterLaws toy_shape toy_env toy_io_rt /\ io_guard toy_shape toy_env v = true /\
  unpack_guard toy_shape toy_env v = false /\
  iteritems_pinned toy_env toy_io_rt v = C.Ok [(int_atom 1, int_atom 2); (int_atom 5, C.PAtom 0)] /\
  xitems (emb toy_shape toy_env v) = I.Raise I.EType /\
  C.iteritems toy_io_rt toy_env v = C.Raise C.EType.
Proof. split; [exact toy_iter_laws|]. vm_compute. repeat split. Qed.

(* [(1, 2), mappingproxy({0: 1, 1: 0})]: the previous definition yielded the mapping's VALUES (1, 0), the code
   (and Core.iteritems now) its KEYS (0, 1) *)
Theorem IoBridge_pinned_refuted_mapping :
  let v := C.PSeq C.KList [pair12; C.PAtom 4] in
  IterLaws toy_shape toy_env toy_io_rt /\ io_guard toy_shape toy_env v = true /\
  unpack_guard toy_shape toy_env v = false /\
  iteritems_pinned toy_env toy_io_rt v = C.Ok [(int_atom 1, int_atom 2); (int_atom 1, int_atom 0)] /\
  xitems (emb toy_shape toy_env v) = I.Ok [(I.VInt 1, I.VInt 2); (I.VInt 0, I.VInt 1)] /\
  C.iteritems toy_io_rt toy_env v = C.Ok [(int_atom 1, int_atom 2); (int_atom 0, int_atom 1)].
Proof. split; [exact toy_iter_laws|]. vm_compute. repeat split. Qed.

Definition IoBridge_pinned_full : Prop :=
  forall P E rt v, IterLaws P E rt -> io_guard P E v = true ->
    rmap (map (emb2 P E)) (iteritems_pinned E rt v) = down (xitems (emb P E v)).
Theorem IoBridge_pinned_full_refuted : ~ IoBridge_pinned_full.
Proof.
  intros H.
  assert (Hv := H toy_shape toy_env toy_io_rt (C.PSeq C.KList [pair12; C.PAtom 3]) toy_iter_laws eq_refl).
  vm_compute in Hv. discriminate Hv.
Qed.

(* io_guard is needed, and is a restriction of the domain:
   - a PObj that lacks a declared public field (Core lists what is there; the code raises AttributeError:
     such an instance is malformed input for C18 as well);
   - a PNamed with another number of values than its class has fields (no such named tuple exists). *)
Theorem IoBridge_guard_needed :
  let o := C.PObj 0 [(0, int_atom 7)] in
  let n := C.PNamed 5 [int_atom 7] in
  io_guard toy_shape toy_env o = false /\
  C.iteritems toy_io_rt toy_env o = C.Ok [(C.PKey 0, int_atom 7)] /\
  xitems (emb toy_shape toy_env o) = I.Raise I.EAttribute /\
  io_guard toy_shape toy_env n = false /\
  C.itervalues toy_io_rt n = C.Ok [int_atom 7] /\ xvalues (emb toy_shape toy_env n) = I.Ok [].
Proof. vm_compute. repeat split. Qed.

(* ---------------------------------------------------------------- non-vacuity *)
Example IoBridge_laws_satisfiable :
  BackLaws toy_shape toy_env toy_back /\ IterLaws toy_shape toy_env toy_io_rt /\
  LoadLaw toy_tshape TL.Model.SerdesToy.toy_rt toy_io_rt /\ S.RuntimeLaws TL.Model.SerdesToy.toy_rt.
Proof.
  split; [exact toy_back_laws|]. split; [exact toy_iter_laws|]. split; [intros v Hv; reflexivity|].
  exact TL.Proofs.SerdesLemmas.toy_laws.
Qed.
Example IoBridge_sback_laws_satisfiable : SBackLaws toy_tshape.
Proof. exact toy_sback_laws. Qed.

(* a dataclass instance, a named tuple, a set whose first member is a 2-character str, a list of pairs with a
   2-character str among them, a dict: all inside both guards, with the expected results on the induced runtime *)
Example IoBridge_guards_inhabited :
  let o := C.PObj 0 [(0, int_atom 7); (1, C.PAtom 1)] in
  let n := C.PNamed 1 [pair12; C.PAtom 0] in
  let s := C.PSeq C.KSet [C.PKey 0; pair12] in
  let d := C.PDict C.KOrderedDict [(C.PKey 1, o)] in
  forallb (io_guard toy_shape toy_env) [o; n; s; d; C.PAtom 2; C.PSeq C.KList [pair12; C.PAtom 3]] = true /\
  C.iteritems toy_io_rt toy_env o = C.Ok [(C.PKey 0, int_atom 7); (C.PKey 1, C.PAtom 1)] /\
  C.iteritems toy_io_rt toy_env n = C.Ok [(C.PKey 0, pair12); (C.PKey 1, C.PAtom 0)] /\
  C.iteritems toy_io_rt toy_env s = C.Ok [(chr_atom "a", chr_atom "b"); (int_atom 1, int_atom 2)] /\
  C.itervalues toy_io_rt d = C.Ok [o] /\
  C.itervalues toy_io_rt (C.PAtom 2) = C.Ok [int_atom 91; int_atom 49; int_atom 44; int_atom 50; int_atom 93] /\
  C.itervalues toy_io_rt (int_atom 3) = C.Raise C.EType.
Proof. vm_compute. repeat split. Qed.

(* the str "[1,2]" and the bytes b"[1,2]" are carriers of one JSON text: both load as the list [1, 2], and
   list[leaf] unmarshals them like that list *)
Example IoBridge_text_example :
  a_ser toy_tshape 2 = S.carrier TL.Model.SerdesToy.toy_rt S.CBytes TL.Model.SerdesToy.t_list12 /\
  a_ser toy_tshape 1 = S.PText S.CStr TL.Model.SerdesToy.t_list12 /\
  C.load toy_io_rt (C.PAtom 2) = C.Ok (C.PSeq C.KList [int_atom 1; int_atom 2]) /\
  C.load toy_io_rt (C.PAtom 1) = C.Ok (C.PSeq C.KList [int_atom 1; int_atom 2]) /\
  load_first_ty toy_env (C.TSeq C.KTuple (C.TLeaf 0)) = true /\ load_first_ty toy_env (C.TName 0) = true /\
  embS toy_tshape (C.PSeq C.KList [int_atom 1; int_atom 2]) = Some TL.Model.SerdesToy.v_list12.
Proof. vm_compute. repeat split. Qed.

Print Assumptions IoBridge_results_faithful.
Print Assumptions IoBridge_scalar_shape.
Print Assumptions IoBridge_values_commute.
Print Assumptions IoBridge_items_commute.
Print Assumptions IoBridge_load_commute.
Print Assumptions IoBridge_load_embS.
Print Assumptions IoBridge_readback.
Print Assumptions IoBridge_readback_sound.
Print Assumptions IoBridge_induced_laws.
Print Assumptions IoBridge_C18_values.
Print Assumptions IoBridge_C18_items.
Print Assumptions IoBridge_C18_items_pairs.
Print Assumptions IoBridge_C18_nondestructive.
Print Assumptions IoBridge_oneshot_outside.
Print Assumptions IoBridge_C14_load_carriers.
Print Assumptions IoBridge_C14_load_json.
Print Assumptions IoBridge_C14_load_plain_text.
Print Assumptions IoBridge_C14_load_nontext.
Print Assumptions IoBridge_unm_text_is_value.
Print Assumptions IoBridge_C14_unm_carriers.
Print Assumptions IoBridge_C14_unm_json_text.
Print Assumptions IoBridge_pinned_agrees.
Print Assumptions IoBridge_pinned_refuted_noniterable.
Print Assumptions IoBridge_pinned_refuted_mapping.
Print Assumptions IoBridge_pinned_full_refuted.
Print Assumptions IoBridge_guard_needed.
