(* Property C19 -- slotted dataclasses behave like the original dataclass.
   Table-independent; this file contains only the property theorems (each closed by
   `exact`), non-vacuity examples and the refutation witnesses.

   `repaired` is the model of classes.py with proposed_fixes/C19-*.diff applied (what the
   correspondence ties to the code); `pinned` is the model of the code as pinned.

   Level: the theorems cover the data-level half of the statement (what class object
   wrap() builds, for every class of the class model and every decoration history).
   That identical method objects then behave identically on slot storage is CPython's
   descriptor semantics = the type_new contract, exercised by the oracle, not proved. *)
From Coq Require Import List String Bool.
Import ListNotations.
Require Import TL.Model.Slotted TL.Model.SlottedState TL.Proofs.SlottedLemmas TL.Proofs.SlottedStateLemmas.

(* ---- the full statement (data level), false of the faithful model: zero-arg super ---- *)
Definition C19_full : Prop :=
  forall l, Forall (fun fc => c_plain_meta (snd fc) = true /\ c19_guard (snd fc) = true) l ->
    fst (run repaired [] l) = [] /\
    Forall2 (fun fc r => exists n, r = Ok n /\ forall a, In a (c_stale n) -> In a (c_stale (snd fc)))
            l (snd (run repaired [] l)).

(* ---- decorating any number of classes in any order never raises --------------------- *)
(* For every history of plain-metaclass dataclasses with ordinary field names, started with an
   empty _stack: the guard is empty again, every decoration succeeds, and its result depends on
   the class and the flags only, not on the history. *)
Theorem C19_never_raises : forall l : list (flags * cls),
  Forall (fun fc => c_plain_meta (snd fc) = true /\ names_guard (snd fc) = true) l ->
  run repaired [] l = ([], map (fun fc => result_of (fst fc) (snd fc)) l)
  /\ Forall (fun r => is_ok r = true) (snd (run repaired [] l)).
Proof. exact st_never_raises. Qed.

Theorem C19_stack_empty_after_success : forall fl c n (st' : stack),
  wrap repaired fl [] c = (st', Ok n) -> st' = [].
Proof. exact st_stack_empty_after_success. Qed.

(* whatever the class (dataclass or not, any metaclass) and whatever the outcome: _stack is left
   as it was found; an entry with the same repr makes wrap raise TypeError *)
Theorem C19_stack_restored : forall fl (st : stack) c,
  fst (wrap repaired fl st c) = st /\ (mem (repr c) st = true -> snd (wrap repaired fl st c) = Raise EType).
Proof. exact st_stack_restored. Qed.

(* ---- __slots__ ----------------------------------------------------------------------- *)
(* = the field names that are not yet a slot somewhere in the MRO, in field order, followed by
   exactly the extras that were requested and are not provided by a base *)
Theorem C19_slots_exact : forall fl (st st' : stack) c n d,
  c19_guard c = true -> c_dc c = Some d -> wrap repaired fl st c = (st', Ok n) ->
  assoc k_slots (c_dict n) = Some (OSlots (filter (not_inherited c) (fnames d) ++ extras_for fl c)).
Proof. exact st_slots_exact. Qed.

(* when the inherited fields are exactly those the bases hold in slots (every dataclass base was
   slotted): one slot per field declared by the class itself *)
Theorem C19_slots_own_fields : forall fl (st st' : stack) c n d,
  c19_guard c = true -> c_dc c = Some d -> wrap repaired fl st c = (st', Ok n) ->
  (forall f, In f (d_fields d) -> mem (f_name f) (inherited_slots (c_mro c)) = f_inh f) ->
  assoc k_slots (c_dict n)
  = Some (OSlots (map f_name (filter (fun f => negb (f_inh f)) (d_fields d)) ++ extras_for fl c)).
Proof. exact st_slots_own_fields. Qed.

(* inheritance: a subclass of the new class (its MRO tail is full_mro n) sees as inherited slots the new
   slots plus what was inherited before; in particular every field of the base is held in a slot, which
   is the hypothesis of C19_slots_own_fields for that subclass *)
Theorem C19_chain : forall fl (st st' : stack) b nb d,
  c19_guard b = true -> c_dc b = Some d -> wrap repaired fl st b = (st', Ok nb) ->
  (forall x, mem x (inherited_slots (full_mro nb))
             = mem x (filter (not_inherited b) (fnames d) ++ extras_for fl b) || mem x (inherited_slots (c_mro b)))
  /\ (forall f, In f (fnames d) -> mem f (inherited_slots (full_mro nb)) = true).
Proof. exact st_chain. Qed.

(* ---- instance layout (through the type_new contract) --------------------------------- *)
Theorem C19_no_dict : forall fl (st st' : stack) c n d,
  c19_guard c = true -> c_dc c = Some d -> wrap repaired fl st c = (st', Ok n) ->
  layout_has k_dict (full_mro n) = fl_dict fl || layout_has k_dict (c_mro c).
Proof. exact st_no_dict. Qed.

Theorem C19_weakref_iff : forall fl (st st' : stack) c n d,
  c19_guard c = true -> c_dc c = Some d -> wrap repaired fl st c = (st', Ok n) ->
  layout_has k_weakref (full_mro n) = fl_weakref fl || layout_has k_weakref (c_mro c).
Proof. exact st_weakref_iff. Qed.

(* ---- everything else is carried over --------------------------------------------------- *)
(* every entry that is not a field name, __dict__, __weakref__ or __slots__ is the same object
   (all dataclass-generated dunders, __dataclass_fields__/__dataclass_params__, user methods,
   class variables); name, qualname, module, bases/MRO, dataclass parameters (frozen, eq, order,
   unsafe_hash) kept; user pickle hooks anywhere in the MRO are not overridden *)
Theorem C19_preserved : forall fl (st st' : stack) c n d,
  c19_guard c = true -> c_dc c = Some d -> wrap repaired fl st c = (st', Ok n) ->
  (forall (a : attr) (o : obj), In (a, o) (c_dict c) ->
     mem a (fnames d) = false -> is_extra a = false -> a <> k_slots -> In (a, o) (c_dict n))
  /\ c_name n = c_name c /\ c_qualname n = c_qualname c /\ c_module n = c_module c
  /\ c_mro n = c_mro c /\ c_dc n = c_dc c
  /\ (existsb s_getstate (full_mro c) || existsb s_setstate (full_mro c) = true ->
      assoc k_setstate (c_dict n) = assoc k_setstate (c_dict c)).
Proof. exact st_preserved. Qed.

(* and nothing is added except __slots__, one fresh descriptor per slot, __doc__ = None when it
   was missing, and _slots_setstate for a frozen class without any user hook in the MRO *)
Theorem C19_nothing_else : forall fl (st st' : stack) c n d,
  c19_guard c = true -> c_dc c = Some d -> wrap repaired fl st c = (st', Ok n) ->
  forall (a : attr) (o : obj), In (a, o) (c_dict n) ->
  In (a, o) (c_dict c)
  \/ (a = k_slots /\ o = OSlots (new_slots repaired fl c d))
  \/ (a = k_setstate /\ o = OSetstateFix /\ d_frozen d = true /\
      existsb s_getstate (full_mro c) = false /\ existsb s_setstate (full_mro c) = false)
  \/ (In a (new_slots repaired fl c d) /\ o = snd (descr a))
  \/ (a = k_doc /\ o = ONone).
Proof. exact st_nothing_else. Qed.

(* ---- defaults --------------------------------------------------------------------------- *)
(* What the model can say: the class-level default of every new slot is gone (the name is now a
   member descriptor), while __init__ and __dataclass_fields__ -- generated before wrapping, and
   holding the defaults / factories -- are the same objects. *)
Theorem C19_defaults : forall fl (st st' : stack) c n d,
  c19_guard c = true -> c_dc c = Some d -> wrap repaired fl st c = (st', Ok n) ->
  (forall o, In (k_init, o) (c_dict c) -> In (k_init, o) (c_dict n))
  /\ (forall o, In (k_dcfields, o) (c_dict c) -> In (k_dcfields, o) (c_dict n))
  /\ (forall f, In f (d_fields d) -> not_inherited c (f_name f) = true ->
        assoc (f_name f) (c_dict n) = Some (OMember (f_name f))).
Proof. exact st_defaults. Qed.

(* ---- zero-argument super --------------------------------------------------------------- *)
(* partial: a class none of whose methods closes over __class__ gets no new stale cell *)
Theorem C19_super_safe : forall fl (st st' : stack) c n d,
  c19_guard c = true -> c_dc c = Some d -> wrap repaired fl st c = (st', Ok n) ->
  c_cells c = [] -> forall a, In a (c_stale n) -> In a (c_stale c).
Proof. exact st_super_safe. Qed.

(* ---- copy / pickle of frozen slotted instances: _slots_setstate --------------------------- *)
(* For every well-formed instance (any slot names, any values, with or without an instance __dict__, any
   content of it): __new__ + _slots_setstate(__getstate__()) rebuilds the same slot values AND the same
   instance __dict__ (object.__getstate__ is a contract, sampled against the interpreter on every run). *)
Theorem C19_setstate_restores : forall i, wf_inst i = true ->
  exists r, restore i = SOk r /\ i_slotnames r = i_slotnames i
            /\ same_store (i_slots r) (i_slots i) /\ same_dict (i_dict r) (i_dict i).
Proof. exact restore_ok. Qed.

(* in particular when no member slot holds a value (a class without fields) and the state is therefore the
   bare instance __dict__ -- the case that raised AttributeError before
   proposed_fixes/C19-setstate-bare-dict-state.diff *)
Theorem C19_setstate_fieldless : forall i, wf_inst i = true -> i_slots i = [] ->
  exists r, restore i = SOk r /\ i_slots r = [] /\ same_dict (i_dict r) (i_dict i).
Proof. exact restore_fieldless. Qed.

(* ======================= witnesses ======================================================= *)
Definition S (s : string) : string := s.
Definition dunders : cdict :=
  [ ("__module__", OId 0); ("__annotations__", OId 1); ("b", OId 2); ("__dict__", OId 3);
    ("__weakref__", OId 4); ("__doc__", OId 5); ("__dataclass_params__", OId 6);
    ("__dataclass_fields__", OId 7); ("__init__", OId 8); ("__repr__", OId 9); ("__eq__", OId 10) ]%string.
Definition mkcls (mro : list csum) (dict : cdict) (frozen : bool) (fs : list field) (cells : list attr) : cls :=
  {| c_name := "K"; c_qualname := "Outer.K"; c_module := "m"; c_plain_meta := true; c_mro := mro;
     c_dict := dict;
     c_dc := Some {| d_frozen := frozen; d_eq := true; d_order := false; d_unsafe_hash := false; d_fields := fs |};
     c_cells := cells; c_stale := [] |}%string.
Definition fld (n : string) (k : defkind) (inh : bool) : field := {| f_name := n; f_def := k; f_inh := inh |}.
Definition unslotted_base : csum := {| s_slots := None; s_getstate := false; s_setstate := false |}.
Definition slotted_base : csum := {| s_slots := Some ["a"; "__weakref__"]%string; s_getstate := false; s_setstate := false |}.
Definition hooked_base : csum := {| s_slots := None; s_getstate := true; s_setstate := true |}.

(* a child of a slotted base: a is inherited as a slot, b is new *)
Definition ex_child : cls :=
  mkcls [slotted_base] dunders false [fld "a" NoDefault true; fld "b" Default false]%string [].
(* a child of an unslotted dataclass base (DESIGN section 9 row 20) *)
Definition ex_child_unslotted : cls :=
  mkcls [unslotted_base] dunders false [fld "a" NoDefault true; fld "b" Default false]%string [].
Definition ex_frozen_hooked : cls :=
  mkcls [hooked_base] dunders true [fld "a" NoDefault true; fld "b" Default false]%string [].
Definition ex_super : cls :=
  mkcls [] (dunders ++ [("describe"%string, OId 11)]) false [fld "b" Default false]%string ["describe"]%string.
Definition not_a_dataclass : cls :=
  {| c_name := "K"; c_qualname := "Outer.K"; c_module := "m"; c_plain_meta := true; c_mro := [];
     c_dict := [("__module__", OId 0); ("__dict__", OId 1); ("__weakref__", OId 2); ("__doc__", OId 3)];
     c_dc := None; c_cells := []; c_stale := [] |}%string.
Definition both := {| fl_dict := true; fl_weakref := true |}.

(* non-vacuity: the hypotheses of the theorems hold of non-trivial classes, and the conclusions
   are the expected concrete values *)
Example C19_hyps_satisfiable :
  c19_guard ex_child = true /\ c19_guard ex_child_unslotted = true /\ c19_guard ex_frozen_hooked = true /\
  (exists n, wrap repaired both [] ex_child = ([], Ok n)
     /\ assoc k_slots (c_dict n) = Some (OSlots ["b"; "__dict__"]%string)
     /\ layout_has k_dict (full_mro n) = true /\ layout_has k_weakref (full_mro n) = true
     /\ assoc "b"%string (c_dict n) = Some (OMember "b"%string)
     /\ assoc k_init (c_dict n) = Some (OId 8)) /\
  (exists n, wrap repaired default_flags [] ex_child_unslotted = ([], Ok n)
     /\ assoc k_slots (c_dict n) = Some (OSlots ["a"; "b"]%string)) /\
  (forall f, In f [fld "a" NoDefault true; fld "b" Default false]%string ->
     mem (f_name f) (inherited_slots (c_mro ex_child)) = f_inh f).
Proof.
  split; [reflexivity|]. split; [reflexivity|]. split; [reflexivity|]. split; [|split].
  - eexists. vm_compute. repeat split.
  - eexists. vm_compute. repeat split.
  - intros f [H|[H|[]]]; subst f; reflexivity.
Qed.

Example C19_history_example :
  run repaired [] [(default_flags, not_a_dataclass); (default_flags, ex_child_unslotted); (both, ex_child);
                   (default_flags, ex_child_unslotted)]
  = ([], [Raise EType; result_of default_flags ex_child_unslotted; result_of both ex_child;
          result_of default_flags ex_child_unslotted]).
Proof. vm_compute. reflexivity. Qed.

(* ---- refutations ------------------------------------------------------------------------ *)
(* open (known finding KF-C19-zero-arg-super): also on the repaired code a method that closes over
   __class__ is carried over unchanged, so its cell names the original class, which is not in the
   MRO of the new class: zero-argument super() raises TypeError there *)
Theorem C19_refuted_zero_arg_super : exists c n,
  c_plain_meta c = true /\ c19_guard c = true /\ c_stale c = [] /\
  wrap repaired default_flags [] c = ([], Ok n) /\ c_stale n <> [].
Proof. exists ex_super. eexists. vm_compute. repeat split. discriminate. Qed.

Theorem C19_full_is_false : ~ C19_full.
Proof.
  intros H. specialize (H [(default_flags, ex_super)]).
  destruct H as [_ H]; [repeat constructor|].
  vm_compute in H. inversion H as [|x y l l' [n [Hn Hs]] Hr]. inversion Hn. subst n.
  apply (Hs "describe"%string). left. reflexivity.
Qed.

(* fixed (proposed_fixes/C19-setstate-bare-dict-state.diff): a frozen slotted instance without any member slot
   holding a value but with a non-empty instance __dict__ has the bare dict as its state *)
Definition ex_dict_only : inst :=
  {| i_slotnames := []; i_slots := []; i_dict := Some [("_derived"%string, OId 1)] |}.
Example C19_setstate_fieldless_example :
  wf_inst ex_dict_only = true /\ getstate ex_dict_only = SDict [("_derived"%string, OId 1)] /\
  restore ex_dict_only = SOk ex_dict_only.
Proof. vm_compute. repeat split. Qed.

Definition ex_inst : inst :=
  {| i_slotnames := ["a"; "b"]%string; i_slots := [("b"%string, OId 2); ("a"%string, OId 1)];
     i_dict := Some [("_derived"%string, OId 3); ("cp"%string, OId 4)] |}.
Example C19_setstate_hyps_satisfiable :
  wf_inst ex_inst = true /\
  getstate ex_inst = SSeq [Some [("_derived"%string, OId 3); ("cp"%string, OId 4)];
                           Some [("b"%string, OId 2); ("a"%string, OId 1)]] /\
  restore ex_inst = SOk ex_inst.
Proof. vm_compute. repeat split. Qed.

(* fixed (proposed_fixes/C19-extras-base-conflict.diff): on the pinned code the default weakref=True
   on a child of an unslotted base makes type() raise TypeError, and the guard keeps the entry *)
Theorem C19_refuted_weakref_base : exists c,
  c_plain_meta c = true /\ c19_guard c = true /\
  wrap pinned default_flags [] c = ([repr c], Raise EType).
Proof. exists ex_child_unslotted. vm_compute. repeat split. Qed.

(* fixed (proposed_fixes/C19-stack-leak.diff): on the pinned code a failed decoration (here: not a
   dataclass -> TypeError, legitimately) leaves its repr in _stack; a valid dataclass with the same
   module.qualname, which decorates fine on its own, then raises the metaclass TypeError *)
Theorem C19_refuted_stack_leak : exists bad good,
  c_plain_meta good = true /\ c19_guard good = true /\
  is_ok (snd (wrap pinned {| fl_dict := false; fl_weakref := false |} [] good)) = true /\
  run pinned [] [(default_flags, bad); ({| fl_dict := false; fl_weakref := false |}, good)]
  = ([repr bad], [Raise EType; Raise EType]).
Proof. exists not_a_dataclass, ex_child_unslotted. vm_compute. repeat split. Qed.

(* fixed (proposed_fixes/C19-inherited-state-hooks.diff): on the pinned code a frozen class that
   inherits a user __getstate__/__setstate__ pair gets _slots_setstate installed over it *)
Theorem C19_refuted_inherited_hooks : exists c n,
  c_plain_meta c = true /\ c19_guard c = true /\
  existsb s_getstate (c_mro c) = true /\ existsb s_setstate (c_mro c) = true /\
  assoc k_setstate (c_dict c) = None /\
  wrap pinned {| fl_dict := false; fl_weakref := false |} [] c = ([], Ok n) /\
  assoc k_setstate (c_dict n) = Some OSetstateFix.
Proof. exists ex_frozen_hooked. eexists. vm_compute. repeat split. Qed.

Print Assumptions C19_never_raises.
Print Assumptions C19_stack_empty_after_success.
Print Assumptions C19_stack_restored.
Print Assumptions C19_slots_exact.
Print Assumptions C19_slots_own_fields.
Print Assumptions C19_chain.
Print Assumptions C19_no_dict.
Print Assumptions C19_weakref_iff.
Print Assumptions C19_preserved.
Print Assumptions C19_nothing_else.
Print Assumptions C19_defaults.
Print Assumptions C19_super_safe.
Print Assumptions C19_setstate_restores.
Print Assumptions C19_setstate_fieldless.
Print Assumptions C19_refuted_zero_arg_super.
Print Assumptions C19_full_is_false.
Print Assumptions C19_refuted_weakref_base.
Print Assumptions C19_refuted_stack_leak.
Print Assumptions C19_refuted_inherited_hooks.
