(* Property C19 -- slotted dataclasses behave like the original dataclass.
   Table-independent; this file contains only the property theorems (each closed by
   `exact`), non-vacuity examples and the refutation witnesses.

   `repaired` is the model of classes.py with proposed_fixes/C19-*.diff applied (what the
   correspondence ties to the code); `pinned` is the model of the code as pinned.

   Level: the theorems cover the data-level half of the statement (what class object
   wrap() builds, for every class of the class model and every decoration history).
   That identical method objects then behave identically on slot storage is CPython's
   descriptor semantics = the type_new contract, exercised by the oracle, not proved. *)
From Coq Require Import List String Bool.
Import ListNotations.
Require Import TL.Model.Slotted TL.Model.SlottedState TL.Model.SlottedInst.
Require Import TL.Proofs.SlottedLemmas TL.Proofs.SlottedStateLemmas TL.Proofs.SlottedInstLemmas.

(* ---- the full statement (data level), false of the faithful model: zero-arg super ---- *)
Definition C19_full : Prop :=
  forall l, Forall (fun fc => c_plain_meta (snd fc) = true /\ c19_guard (snd fc) = true) l ->
    fst (run repaired [] l) = [] /\
    Forall2 (fun fc r => exists n, r = Ok n /\ forall a, In a (c_stale n) -> In a (c_stale (snd fc)))
            l (snd (run repaired [] l)).

(* ---- decorating any number of classes in any order never raises --------------------- *)
(* For every history of plain-metaclass dataclasses with ordinary field names, started with an
   empty _stack: the guard is empty again, every decoration succeeds, and its result depends on
   the class and the flags only, not on the history. *)
Theorem C19_never_raises : forall l : list (flags * cls),
  Forall (fun fc => c_plain_meta (snd fc) = true /\ names_guard (snd fc) = true) l ->
  run repaired [] l = ([], map (fun fc => result_of (fst fc) (snd fc)) l)
  /\ Forall (fun r => is_ok r = true) (snd (run repaired [] l)).
Proof. exact st_never_raises. Qed.

Theorem C19_stack_empty_after_success : forall fl c n (st' : stack),
  wrap repaired fl [] c = (st', Ok n) -> st' = [].
Proof. exact st_stack_empty_after_success. Qed.

(* whatever the class (dataclass or not, any metaclass) and whatever the outcome: _stack is left
   as it was found; an entry with the same repr makes wrap raise TypeError *)
Theorem C19_stack_restored : forall fl (st : stack) c,
  fst (wrap repaired fl st c) = st /\ (mem (repr c) st = true -> snd (wrap repaired fl st c) = Raise EType).
Proof. exact st_stack_restored. Qed.

(* ---- __slots__ ----------------------------------------------------------------------- *)
(* = the field names that are not yet a slot somewhere in the MRO, in field order, followed by
   exactly the extras that were requested and are not provided by a base *)
Theorem C19_slots_exact : forall fl (st st' : stack) c n d,
  c19_guard c = true -> c_dc c = Some d -> wrap repaired fl st c = (st', Ok n) ->
  assoc k_slots (c_dict n) = Some (OSlots (filter (not_inherited c) (fnames d) ++ extras_for fl c)).
Proof. exact st_slots_exact. Qed.

(* when the inherited fields are exactly those the bases hold in slots (every dataclass base was
   slotted): one slot per field declared by the class itself *)
Theorem C19_slots_own_fields : forall fl (st st' : stack) c n d,
  c19_guard c = true -> c_dc c = Some d -> wrap repaired fl st c = (st', Ok n) ->
  (forall f, In f (d_fields d) -> mem (f_name f) (inherited_slots (c_mro c)) = f_inh f) ->
  assoc k_slots (c_dict n)
  = Some (OSlots (map f_name (filter (fun f => negb (f_inh f)) (d_fields d)) ++ extras_for fl c)).
Proof. exact st_slots_own_fields. Qed.

(* inheritance: a subclass of the new class (its MRO tail is full_mro n) sees as inherited slots the new
   slots plus what was inherited before; in particular every field of the base is held in a slot, which
   is the hypothesis of C19_slots_own_fields for that subclass *)
Theorem C19_chain : forall fl (st st' : stack) b nb d,
  c19_guard b = true -> c_dc b = Some d -> wrap repaired fl st b = (st', Ok nb) ->
  (forall x, mem x (inherited_slots (full_mro nb))
             = mem x (filter (not_inherited b) (fnames d) ++ extras_for fl b) || mem x (inherited_slots (c_mro b)))
  /\ (forall f, In f (fnames d) -> mem f (inherited_slots (full_mro nb)) = true).
Proof. exact st_chain. Qed.

(* ---- instance layout (through the type_new contract) --------------------------------- *)
Theorem C19_no_dict : forall fl (st st' : stack) c n d,
  c19_guard c = true -> c_dc c = Some d -> wrap repaired fl st c = (st', Ok n) ->
  layout_has k_dict (full_mro n) = fl_dict fl || layout_has k_dict (c_mro c).
Proof. exact st_no_dict. Qed.

Theorem C19_weakref_iff : forall fl (st st' : stack) c n d,
  c19_guard c = true -> c_dc c = Some d -> wrap repaired fl st c = (st', Ok n) ->
  layout_has k_weakref (full_mro n) = fl_weakref fl || layout_has k_weakref (c_mro c).
Proof. exact st_weakref_iff. Qed.

(* ---- everything else is carried over --------------------------------------------------- *)
(* every entry that is not a field name, __dict__, __weakref__ or __slots__ is the same object
   (all dataclass-generated dunders, __dataclass_fields__/__dataclass_params__, user methods,
   class variables); name, qualname, module, bases/MRO, dataclass parameters (frozen, eq, order,
   unsafe_hash) kept; user pickle hooks anywhere in the MRO are not overridden *)
Theorem C19_preserved : forall fl (st st' : stack) c n d,
  c19_guard c = true -> c_dc c = Some d -> wrap repaired fl st c = (st', Ok n) ->
  (forall (a : attr) (o : obj), In (a, o) (c_dict c) ->
     mem a (fnames d) = false -> is_extra a = false -> a <> k_slots -> In (a, o) (c_dict n))
  /\ c_name n = c_name c /\ c_qualname n = c_qualname c /\ c_module n = c_module c
  /\ c_mro n = c_mro c /\ c_dc n = c_dc c
  /\ (existsb s_getstate (full_mro c) || existsb s_setstate (full_mro c) = true ->
      assoc k_setstate (c_dict n) = assoc k_setstate (c_dict c)).
Proof. exact st_preserved. Qed.

(* and nothing is added except __slots__, one fresh descriptor per slot, __doc__ = None when it
   was missing, and _slots_setstate for a frozen class without any user hook in the MRO *)
Theorem C19_nothing_else : forall fl (st st' : stack) c n d,
  c19_guard c = true -> c_dc c = Some d -> wrap repaired fl st c = (st', Ok n) ->
  forall (a : attr) (o : obj), In (a, o) (c_dict n) ->
  In (a, o) (c_dict c)
  \/ (a = k_slots /\ o = OSlots (new_slots repaired fl c d))
  \/ (a = k_setstate /\ o = OSetstateFix /\ d_frozen d = true /\
      existsb s_getstate (full_mro c) = false /\ existsb s_setstate (full_mro c) = false)
  \/ (In a (new_slots repaired fl c d) /\ o = snd (descr a))
  \/ (a = k_doc /\ o = ONone).
Proof. exact st_nothing_else. Qed.

(* ---- defaults --------------------------------------------------------------------------- *)
(* What the model can say: the class-level default of every new slot is gone (the name is now a
   member descriptor), while __init__ and __dataclass_fields__ -- generated before wrapping, and
   holding the defaults / factories -- are the same objects. *)
Theorem C19_defaults : forall fl (st st' : stack) c n d,
  c19_guard c = true -> c_dc c = Some d -> wrap repaired fl st c = (st', Ok n) ->
  (forall o, In (k_init, o) (c_dict c) -> In (k_init, o) (c_dict n))
  /\ (forall o, In (k_dcfields, o) (c_dict c) -> In (k_dcfields, o) (c_dict n))
  /\ (forall f, In f (d_fields d) -> not_inherited c (f_name f) = true ->
        assoc (f_name f) (c_dict n) = Some (OMember (f_name f))).
Proof. exact st_defaults. Qed.

(* ---- zero-argument super --------------------------------------------------------------- *)
(* partial: a class none of whose methods closes over __class__ gets no new stale cell *)
Theorem C19_super_safe : forall fl (st st' : stack) c n d,
  c19_guard c = true -> c_dc c = Some d -> wrap repaired fl st c = (st', Ok n) ->
  c_cells c = [] -> forall a, In a (c_stale n) -> In a (c_stale c).
Proof. exact st_super_safe. Qed.

(* ---- copy / pickle of frozen slotted instances: _slots_setstate --------------------------- *)
(* For every well-formed instance (any slot names, any values, with or without an instance __dict__, any
   content of it): __new__ + _slots_setstate(__getstate__()) rebuilds the same slot values AND the same
   instance __dict__ (object.__getstate__ is a contract, sampled against the interpreter on every run). *)
Theorem C19_setstate_restores : forall i, wf_inst i = true ->
  exists r, restore i = SOk r /\ i_slotnames r = i_slotnames i
            /\ same_store (i_slots r) (i_slots i) /\ same_dict (i_dict r) (i_dict i).
Proof. exact restore_ok. Qed.

(* in particular when no member slot holds a value (a class without fields) and the state is therefore the
   bare instance __dict__ -- the case that raised AttributeError before
   proposed_fixes/C19-setstate-bare-dict-state.diff *)
Theorem C19_setstate_fieldless : forall i, wf_inst i = true -> i_slots i = [] ->
  exists r, restore i = SOk r /\ i_slots r = [] /\ same_dict (i_dict r) (i_dict i).
Proof. exact restore_fieldless. Qed.

(* ======================= witnesses ======================================================= *)
Definition S (s : string) : string := s.
Definition dunders : cdict :=
  [ ("__module__", OId 0); ("__annotations__", OId 1); ("b", OId 2); ("__dict__", OId 3);
    ("__weakref__", OId 4); ("__doc__", OId 5); ("__dataclass_params__", OId 6);
    ("__dataclass_fields__", OId 7); ("__init__", OId 8); ("__repr__", OId 9); ("__eq__", OId 10) ]%string.
Definition mkcls (mro : list csum) (dict : cdict) (frozen : bool) (fs : list field) (cells : list attr) : cls :=
  {| c_name := "K"; c_qualname := "Outer.K"; c_module := "m"; c_plain_meta := true; c_mro := mro;
     c_dict := dict;
     c_dc := Some {| d_frozen := frozen; d_eq := true; d_order := false; d_unsafe_hash := false; d_fields := fs |};
     c_cells := cells; c_stale := [] |}%string.
Definition fld (n : string) (k : defkind) (inh : bool) : field := {| f_name := n; f_def := k; f_inh := inh |}.
Definition unslotted_base : csum := {| s_slots := None; s_getstate := false; s_setstate := false |}.
Definition slotted_base : csum := {| s_slots := Some ["a"; "__weakref__"]%string; s_getstate := false; s_setstate := false |}.
Definition hooked_base : csum := {| s_slots := None; s_getstate := true; s_setstate := true |}.

(* a child of a slotted base: a is inherited as a slot, b is new *)
Definition ex_child : cls :=
  mkcls [slotted_base] dunders false [fld "a" NoDefault true; fld "b" Default false]%string [].
(* a child of an unslotted dataclass base (DESIGN section 9 row 20) *)
Definition ex_child_unslotted : cls :=
  mkcls [unslotted_base] dunders false [fld "a" NoDefault true; fld "b" Default false]%string [].
Definition ex_frozen_hooked : cls :=
  mkcls [hooked_base] dunders true [fld "a" NoDefault true; fld "b" Default false]%string [].
Definition ex_super : cls :=
  mkcls [] (dunders ++ [("describe"%string, OId 11)]) false [fld "b" Default false]%string ["describe"]%string.
Definition not_a_dataclass : cls :=
  {| c_name := "K"; c_qualname := "Outer.K"; c_module := "m"; c_plain_meta := true; c_mro := [];
     c_dict := [("__module__", OId 0); ("__dict__", OId 1); ("__weakref__", OId 2); ("__doc__", OId 3)];
     c_dc := None; c_cells := []; c_stale := [] |}%string.
Definition both := {| fl_dict := true; fl_weakref := true |}.

(* non-vacuity: the hypotheses of the theorems hold of non-trivial classes, and the conclusions
   are the expected concrete values *)
Example C19_hyps_satisfiable :
  c19_guard ex_child = true /\ c19_guard ex_child_unslotted = true /\ c19_guard ex_frozen_hooked = true /\
  (exists n, wrap repaired both [] ex_child = ([], Ok n)
     /\ assoc k_slots (c_dict n) = Some (OSlots ["b"; "__dict__"]%string)
     /\ layout_has k_dict (full_mro n) = true /\ layout_has k_weakref (full_mro n) = true
     /\ assoc "b"%string (c_dict n) = Some (OMember "b"%string)
     /\ assoc k_init (c_dict n) = Some (OId 8)) /\
  (exists n, wrap repaired default_flags [] ex_child_unslotted = ([], Ok n)
     /\ assoc k_slots (c_dict n) = Some (OSlots ["a"; "b"]%string)) /\
  (forall f, In f [fld "a" NoDefault true; fld "b" Default false]%string ->
     mem (f_name f) (inherited_slots (c_mro ex_child)) = f_inh f).
Proof.
  split; [reflexivity|]. split; [reflexivity|]. split; [reflexivity|]. split; [|split].
  - eexists. vm_compute. repeat split.
  - eexists. vm_compute. repeat split.
  - intros f [H|[H|[]]]; subst f; reflexivity.
Qed.

Example C19_history_example :
  run repaired [] [(default_flags, not_a_dataclass); (default_flags, ex_child_unslotted); (both, ex_child);
                   (default_flags, ex_child_unslotted)]
  = ([], [Raise EType; result_of default_flags ex_child_unslotted; result_of both ex_child;
          result_of default_flags ex_child_unslotted]).
Proof. vm_compute. reflexivity. Qed.

(* ---- refutations ------------------------------------------------------------------------ *)
(* open (known finding KF-C19-zero-arg-super): also on the repaired code a method that closes over
   __class__ is carried over unchanged, so its cell names the original class, which is not in the
   MRO of the new class: zero-argument super() raises TypeError there *)
Theorem C19_refuted_zero_arg_super : exists c n,
  c_plain_meta c = true /\ c19_guard c = true /\ c_stale c = [] /\
  wrap repaired default_flags [] c = ([], Ok n) /\ c_stale n <> [].
Proof. exists ex_super. eexists. vm_compute. repeat split. discriminate. Qed.

Theorem C19_full_is_false : ~ C19_full.
Proof.
  intros H. specialize (H [(default_flags, ex_super)]).
  destruct H as [_ H]; [repeat constructor|].
  vm_compute in H. inversion H as [|x y l l' [n [Hn Hs]] Hr]. inversion Hn. subst n.
  apply (Hs "describe"%string). left. reflexivity.
Qed.

(* fixed (proposed_fixes/C19-setstate-bare-dict-state.diff): a frozen slotted instance without any member slot
   holding a value but with a non-empty instance __dict__ has the bare dict as its state *)
Definition ex_dict_only : inst :=
  {| i_slotnames := []; i_slots := []; i_dict := Some [("_derived"%string, OId 1)] |}.
Example C19_setstate_fieldless_example :
  wf_inst ex_dict_only = true /\ getstate ex_dict_only = SDict [("_derived"%string, OId 1)] /\
  restore ex_dict_only = SOk ex_dict_only.
Proof. vm_compute. repeat split. Qed.

Definition ex_inst : inst :=
  {| i_slotnames := ["a"; "b"]%string; i_slots := [("b"%string, OId 2); ("a"%string, OId 1)];
     i_dict := Some [("_derived"%string, OId 3); ("cp"%string, OId 4)] |}.
Example C19_setstate_hyps_satisfiable :
  wf_inst ex_inst = true /\
  getstate ex_inst = SSeq [Some [("_derived"%string, OId 3); ("cp"%string, OId 4)];
                           Some [("b"%string, OId 2); ("a"%string, OId 1)]] /\
  restore ex_inst = SOk ex_inst.
Proof. vm_compute. repeat split. Qed.

(* fixed (proposed_fixes/C19-extras-base-conflict.diff): on the pinned code the default weakref=True
   on a child of an unslotted base makes type() raise TypeError, and the guard keeps the entry *)
Theorem C19_refuted_weakref_base : exists c,
  c_plain_meta c = true /\ c19_guard c = true /\
  wrap pinned default_flags [] c = ([repr c], Raise EType).
Proof. exists ex_child_unslotted. vm_compute. repeat split. Qed.

(* fixed (proposed_fixes/C19-stack-leak.diff): on the pinned code a failed decoration (here: not a
   dataclass -> TypeError, legitimately) leaves its repr in _stack; a valid dataclass with the same
   module.qualname, which decorates fine on its own, then raises the metaclass TypeError *)
Theorem C19_refuted_stack_leak : exists bad good,
  c_plain_meta good = true /\ c19_guard good = true /\
  is_ok (snd (wrap pinned {| fl_dict := false; fl_weakref := false |} [] good)) = true /\
  run pinned [] [(default_flags, bad); ({| fl_dict := false; fl_weakref := false |}, good)]
  = ([repr bad], [Raise EType; Raise EType]).
Proof. exists not_a_dataclass, ex_child_unslotted. vm_compute. repeat split. Qed.

(* fixed (proposed_fixes/C19-inherited-state-hooks.diff): on the pinned code a frozen class that
   inherits a user __getstate__/__setstate__ pair gets _slots_setstate installed over it *)
Theorem C19_refuted_inherited_hooks : exists c n,
  c_plain_meta c = true /\ c19_guard c = true /\
  existsb s_getstate (c_mro c) = true /\ existsb s_setstate (c_mro c) = true /\
  assoc k_setstate (c_dict c) = None /\
  wrap pinned {| fl_dict := false; fl_weakref := false |} [] c = ([], Ok n) /\
  assoc k_setstate (c_dict n) = Some OSetstateFix.
Proof. exists ex_frozen_hooked. eexists. vm_compute. repeat split. Qed.

(* ======================= instances ======================================================= *)
(* From here on: instances of the classes of the class model (Model/SlottedInst.v).  C = the dataclass
   c as given, S = n = the result of slotted(c); E says what the class model leaves open (the kind of
   each object of c's dict, the dictionaries of the bases).  klass_of E c false / klass_of E n true are
   the two classes as their instances see them.  Interpreter contract = the definitions of
   lookup / ogetattr / obj_setattr (descriptor precedence), regnames / getstate_default / rebuild
   (copyreg + object.__reduce_ex__, protocols 2-5), construct / dc_eq / dc_lt / dc_hash / dc_repr (the
   code dataclasses generates) -- each tied to the interpreter by its own correspondence layer. *)

(* ---- construction ----------------------------------------------------------------------- *)
(* K(pos.., kw..) for every argument list, every default / default-factory environment D and every list
   `post` of assignments made by __post_init__: both classes raise the same exception, or both succeed
   and the two instances hold the same value under EVERY name; every field is set and reads alike. *)
Theorem C19_construct : forall (E : cenv) fl (st st' : stack) c n d,
  c19_guard c = true -> c_dc c = Some d -> wrap repaired fl st c = (st', Ok n) ->
  forall D post pos kw, construct_guard E fl c d post = true ->
  match construct (klass_of E c false) d D post pos kw, construct (klass_of E n true) d D post pos kw with
  | SOk iC, SOk iS =>
      sim iC iS /\ all_set iS (fnames d)
      /\ inst_of (klass_of E c false) iC /\ inst_of (klass_of E n true) iS
      /\ (forall f, In f (fnames d) -> exists v, ogetattr (view_of E c) iC f = GVal v /\ ogetattr (view_of E n) iS f = GVal v)
  | SRaise e1, SRaise e2 => e1 = e2
  | _, _ => False
  end.
Proof. exact st_construct. Qed.

(* no per-instance __dict__ unless requested or inherited (no guard beyond c19_guard) *)
Theorem C19_instance_dict : forall (E : cenv) fl (st st' : stack) c n d,
  c19_guard c = true -> c_dc c = Some d -> wrap repaired fl st c = (st', Ok n) ->
  forall D post pos kw iS, construct (klass_of E n true) d D post pos kw = SOk iS ->
  (i_dict iS = None <-> fl_dict fl || layout_has k_dict (c_mro c) = false).
Proof. exact construct_no_dict. Qed.

(* ---- ==, <, hash, repr ------------------------------------------------------------------- *)
(* whichever __eq__ / __lt__ / __hash__ / __repr__ the MRO provides (generated for this class or for a
   base, absent, __hash__ = None), for every comparison of field values O: instances that hold the
   same values give the same answers *)
Theorem C19_methods : forall (E : cenv) fl (st st' : stack) c n d,
  c19_guard c = true -> c_dc c = Some d -> wrap repaired fl st c = (st', Ok n) ->
  forall (O : vops) iC iS jC jS, methods_guard E c d = true ->
  sim iC iS -> sim jC jS -> all_set iS (fnames d) -> all_set jS (fnames d) ->
  dc_eq O (klass_of E n true) iS jS = dc_eq O (klass_of E c false) iC jC
  /\ dc_lt O (klass_of E n true) iS jS = dc_lt O (klass_of E c false) iC jC
  /\ dc_hash (klass_of E n true) iS = dc_hash (klass_of E c false) iC
  /\ dc_repr (klass_of E n true) iS = dc_repr (klass_of E c false) iC.
Proof. exact methods_twin. Qed.

(* frozen-ness: assigning to a field through the generated __setattr__ behaves alike *)
Theorem C19_frozen_fields : forall (E : cenv) fl (st st' : stack) c n d,
  c19_guard c = true -> c_dc c = Some d -> wrap repaired fl st c = (st', Ok n) ->
  forall iC iS f v names, methods_guard E c d = true ->
  lookup (view_of E c) k_setattr = Some (CGen names) -> In f names ->
  py_setattr (klass_of E n true) iS f v = py_setattr (klass_of E c false) iC f v.
Proof. exact setattr_field_twin. Qed.

(* ---- copy.copy / copy.deepcopy / pickle.loads . pickle.dumps ------------------------------- *)
(* default protocol (no user hook in the MRO), frozen or not: for every instance of S and every value
   transport f (identity for copy.copy), the round trip succeeds, yields an instance of S, and every
   name holds the transported value of the source: slot values and the instance __dict__ *)
Theorem C19_roundtrip : forall (E : cenv) fl (st st' : stack) c n d,
  c19_guard c = true -> c_dc c = Some d -> wrap repaired fl st c = (st', Ok n) ->
  default_state_guard E c d = true ->
  forall U (H : hooks U) (f : obj -> obj) i, inst_of (klass_of E n true) i ->
  exists j, roundtrip H (klass_of E n true) f i = SOk j /\ inst_of (klass_of E n true) j
            /\ forall a, stored j a = omap f (stored i a).
Proof. exact roundtrip_default_S. Qed.

(* user hooks (own or inherited from any base): the round trip is exactly the user's pair -- nothing of
   slotted() stands in between -- so it restores whatever the pair restores *)
Theorem C19_roundtrip_user_hooks : forall (E : cenv) fl (st st' : stack) c n d,
  c19_guard c = true -> c_dc c = Some d -> wrap repaired fl st c = (st', Ok n) ->
  forall U (H : hooks U) f i, user_state_guard E c = true ->
  roundtrip H (klass_of E n true) f i = h_set H (blank_of (klass_of E n true)) (h_map H f (h_get H i)).
Proof. exact roundtrip_user_S. Qed.
Theorem C19_roundtrip_user_law : forall (E : cenv) fl (st st' : stack) c n d,
  c19_guard c = true -> c_dc c = Some d -> wrap repaired fl st c = (st', Ok n) ->
  forall U (H : hooks U) f i, user_state_guard E c = true -> hooks_restore H (klass_of E n true) f i ->
  restores f i (roundtrip H (klass_of E n true) f i).
Proof. exact st_roundtrip_user. Qed.

(* a copy compares equal to its source when transported values compare equal to the originals *)
Theorem C19_copy_equal : forall O K f i j names, lookup (kl_view K) k_eq = Some (CGen names) ->
  (forall a, stored j a = omap f (stored i a)) -> (forall a, In a names -> stored i a <> None) ->
  (forall v, v_eq O (f v) v = true) -> dc_eq O K j i = MBool true.
Proof. exact st_copy_equal. Qed.

(* end to end: S(args) succeeded; the instance goes through copy / deepcopy / pickle with a transport f
   under which values stay equal; the result is an S-instance holding the transported values, and it
   compares == to the source with the __eq__ dataclasses generated *)
Theorem C19_construct_copy_equal : forall (E : cenv) fl (st st' : stack) c n d,
  c19_guard c = true -> c_dc c = Some d -> wrap repaired fl st c = (st', Ok n) ->
  forall D post pos kw O U (H : hooks U) f iS names,
  construct_guard E fl c d post = true -> methods_guard E c d = true -> default_state_guard E c d = true ->
  construct (klass_of E n true) d D post pos kw = SOk iS ->
  lookup (view_of E c) k_eq = Some (CGen names) ->
  (forall v, v_eq O (f v) v = true) ->
  exists j, roundtrip H (klass_of E n true) f iS = SOk j /\ inst_of (klass_of E n true) j
            /\ (forall a, stored j a = omap f (stored iS a))
            /\ dc_eq O (klass_of E n true) j iS = MBool true.
Proof. exact st_construct_copy_equal. Qed.

(* chains: seen from a subclass of S, a field of c resolves to a slot descriptor iff it got a new slot
   or resolved to one before: the bases clause of construct_guard is inherited along slotted chains *)
Theorem C19_chain_members : forall (E : cenv) fl (st st' : stack) b nb d,
  c19_guard b = true -> c_dc b = Some d -> wrap repaired fl st b = (st', Ok nb) ->
  forall f, In f (fnames d) ->
  is_member (view_of E nb) f = negb (mem f (inherited_slots (c_mro b))) || is_member (e_bases E) f.
Proof. exact st_chain_members. Qed.

(* ======================= instance-level witnesses ======================================== *)
Definition fdunders : cdict :=
  dunders ++ [("__setattr__", OId 11); ("__delattr__", OId 12); ("__hash__", OId 13)]%string.
(* kinds of the objects above: b = 52 is a plain default; 8..13 are generated methods over fs *)
Definition ex_kind (fs : list attr) (k : nat) : ukind :=
  match k with 2 => UValue (OId 52) | 8 | 9 | 10 | 11 | 12 | 13 => UGen fs | _ => UValue (OId k) end.
Definition ab : list attr := ["a"; "b"]%string.
Definition slotted_base_view : dview := [("a", CMember); ("__weakref__", CGetSet); ("__init__", CGen ["a"])]%string.
Definition hooked_base_view : dview := [("__getstate__", CFunc 100); ("__setstate__", CFunc 101)]%string.
Definition E_child : cenv := {| e_kind := ex_kind ab; e_bases := [slotted_base_view] |}.
Definition E_plain : cenv := {| e_kind := ex_kind ab; e_bases := [] |}.
Definition E_hooked : cenv := {| e_kind := ex_kind ab; e_bases := [hooked_base_view] |}.
Definition D0 : dcenv := {| dv_default := fun _ => OId 52; dv_factory := fun _ => OId 99 |}.
Definition O0 : vops := {| v_eq := fun x y => match x, y with OId p, OId q => Nat.eqb p q | _, _ => false end;
                           v_lt := fun x y => match x, y with OId p, OId q => Nat.ltb p q | _, _ => false end |}.
Definition noflags := {| fl_dict := false; fl_weakref := false |}.
Definition ex_frozen : cls := mkcls [] fdunders true [fld "a" NoDefault false; fld "b" Default false]%string [].
Definition ex_plain : cls := mkcls [] dunders false [fld "a" NoDefault false; fld "b" Default false]%string [].
Definition the (r : res cls) : cls := match r with Ok n => n | _ => not_a_dataclass end.
Definition is_sok (r : sres) : bool := match r with SOk _ => true | _ => false end.
Definition the_inst (r : sres) : inst := match r with SOk i => i | _ => ex_dict_only end.

(* non-vacuity: a child of a slotted base (a in the base's slot, b new), dict=True; a frozen class;
   a frozen class inheriting a user pair: the guards hold, construction / comparison / copy have the
   expected concrete values on both classes *)
Example C19_instance_hyps_satisfiable :
  let n := the (snd (wrap repaired both [] ex_child)) in
  let KC := klass_of E_child ex_child false in let KS := klass_of E_child n true in
  construct_guard E_child both ex_child (match c_dc ex_child with Some d => d | None => {| d_frozen := false; d_eq := false; d_order := false; d_unsafe_hash := false; d_fields := [] |} end) [("_derived", OId 7)]%string = true
  /\ methods_guard E_child ex_child (match c_dc ex_child with Some d => d | None => {| d_frozen := false; d_eq := false; d_order := false; d_unsafe_hash := false; d_fields := [] |} end) = true
  /\ default_state_guard E_child ex_child (match c_dc ex_child with Some d => d | None => {| d_frozen := false; d_eq := false; d_order := false; d_unsafe_hash := false; d_fields := [] |} end) = true
  /\ (exists d iC iS, c_dc ex_child = Some d
        /\ construct KC d D0 [("_derived", OId 7)]%string [OId 1] [] = SOk iC
        /\ construct KS d D0 [("_derived", OId 7)]%string [OId 1] [] = SOk iS
        /\ i_slots iC = [("a", OId 1)]%string /\ i_dict iC = Some [("b", OId 52); ("_derived", OId 7)]%string
        /\ i_slots iS = [("a", OId 1); ("b", OId 52)]%string /\ i_dict iS = Some [("_derived", OId 7)]%string
        /\ dc_eq O0 KS iS iS = MBool true /\ dc_hash KS iS = HIdentity
        /\ dc_repr KS iS = RGen "Outer.K" [("a", OId 1); ("b", OId 52)]%string
        /\ getstate_default KS iS = SSeq [Some [("_derived", OId 7)]; Some [("b", OId 52); ("a", OId 1)]]%string
        /\ roundtrip (field_hooks [] []) KS (fun v => v) iS
           = SOk {| i_slotnames := i_slotnames iS; i_slots := [("b", OId 52); ("a", OId 1)]%string; i_dict := i_dict iS |}
        /\ construct KS d D0 [] [] [] = SRaise SType /\ construct KC d D0 [] [] [] = SRaise SType).
Proof.
  cbv zeta. split; [vm_compute; reflexivity|]. split; [vm_compute; reflexivity|]. split; [vm_compute; reflexivity|].
  eexists. eexists. eexists. vm_compute. repeat split.
Qed.

Example C19_frozen_roundtrip_example :
  let n := the (snd (wrap repaired noflags [] ex_frozen)) in
  let KS := klass_of E_plain n true in
  exists d iS, c_dc ex_frozen = Some d /\ default_state_guard E_plain ex_frozen d = true
    /\ assoc k_setstate (c_dict n) = Some OSetstateFix
    /\ construct KS d D0 [] [] [("a", OId 3)]%string = SOk iS /\ i_dict iS = None
    /\ getstate_default KS iS = SSeq [None; Some [("a", OId 3); ("b", OId 52)]%string]
    /\ roundtrip (field_hooks [] []) KS (fun v => v) iS = SOk iS
    /\ dc_hash KS iS = HTuple [OId 3; OId 52]
    /\ py_setattr KS iS "a"%string (OId 9) = SRaise SFrozen.
Proof. cbv zeta. eexists. eexists. vm_compute. repeat split. Qed.

Example C19_user_hooks_example :
  let n := the (snd (wrap repaired noflags [] ex_frozen_hooked)) in
  let KS := klass_of E_hooked n true in
  let H := field_hooks (kl_view KS) ab in
  exists d iS, c_dc ex_frozen_hooked = Some d /\ user_state_guard E_hooked ex_frozen_hooked = true
    /\ construct KS d D0 [] [OId 1; OId 2] [] = SOk iS
    /\ h_get H iS = [("a", OId 1); ("b", OId 2)]%string
    /\ roundtrip H KS (fun v => v) iS = SOk iS.
Proof. cbv zeta. eexists. eexists. vm_compute. repeat split. Qed.

(* ---- each guard is needed ---------------------------------------------------------------- *)
(* construct_guard, bases clause: a base (B, __slots__ = ()) shadows the slot `a` of its own base with
   a class attribute; the plain dataclass stores a in its __dict__, the slotted one cannot store it *)
Definition shadow_mro : list csum :=
  [ {| s_slots := Some []; s_getstate := false; s_setstate := false |};
    {| s_slots := Some ["a"]%string; s_getstate := false; s_setstate := false |} ].
Definition E_shadow : cenv :=
  {| e_kind := ex_kind ab; e_bases := [[("a", CValue (OId 5))]; [("a", CMember)]]%string |}.
Definition ex_shadowed : cls := mkcls shadow_mro dunders false [fld "a" NoDefault true; fld "b" Default false]%string [].
Theorem C19_refuted_shadowed_base_slot : exists E fl c n d D pos,
  c19_guard c = true /\ c_dc c = Some d /\ wrap repaired fl [] c = ([], Ok n)
  /\ construct_guard E fl c d [] = false
  /\ is_sok (construct (klass_of E c false) d D [] pos []) = true
  /\ construct (klass_of E n true) d D [] pos [] = SRaise SAttribute.
Proof. exists E_shadow, noflags, ex_shadowed. eexists. eexists. exists D0, [OId 1]. vm_compute. repeat split. Qed.

(* construct_guard, __post_init__ clause: state that is not a field needs an instance __dict__ --
   which is what "no per-instance __dict__ unless requested" means *)
Theorem C19_refuted_post_init_needs_dict : exists E fl c n d D pos post,
  c19_guard c = true /\ c_dc c = Some d /\ wrap repaired fl [] c = ([], Ok n)
  /\ construct_guard E fl c d post = false /\ construct_guard E fl c d [] = true
  /\ is_sok (construct (klass_of E c false) d D post pos []) = true
  /\ construct (klass_of E n true) d D post pos [] = SRaise SAttribute.
Proof.
  exists E_plain, noflags, ex_plain. eexists. eexists. exists D0, [OId 1], [("_derived", OId 7)]%string.
  vm_compute. repeat split.
Qed.

(* why every field name must leave the class dict, also one whose slot is inherited (seeded C19-r3m2):
   put the default of `a` back into the slotted child of a slotted base and the descriptor of the
   base is shadowed: construction raises AttributeError *)
Definition ex_redeclared : cls :=
  mkcls [slotted_base] (dunders ++ [("a", OId 14)]%string) false [fld "a" Default true; fld "b" Default false]%string [].
Definition with_entry (n : cls) (a : attr) (o : obj) : cls :=
  {| c_name := c_name n; c_qualname := c_qualname n; c_module := c_module n; c_plain_meta := c_plain_meta n;
     c_mro := c_mro n; c_dict := (a, o) :: c_dict n; c_dc := c_dc n; c_cells := c_cells n; c_stale := c_stale n |}.
Theorem C19_refuted_leftover_default : exists E fl c n d D,
  c19_guard c = true /\ c_dc c = Some d /\ wrap repaired fl [] c = ([], Ok n)
  /\ construct_guard E fl c d [] = true
  /\ assoc "a"%string (c_dict n) = None
  /\ is_sok (construct (klass_of E n true) d D [] [] []) = true
  /\ construct (klass_of E (with_entry n "a"%string (OId 14)) true) d D [] [] [] = SRaise SAttribute.
Proof. exists E_child, noflags, ex_redeclared. eexists. eexists. exists D0. vm_compute. repeat split. Qed.

(* user_state_guard (the hooks come as a pair): a frozen class with a lone user __getstate__ that
   returns a dict: the plain class restores it into __dict__, the slotted one has neither a __dict__
   nor a __setstate__ (the fix is not installed over a user hook) *)
Definition lone_get_dict : cdict := fdunders ++ [("__getstate__", OId 14)]%string.
Definition ex_lone_get : cls := mkcls [] lone_get_dict true [fld "a" NoDefault false; fld "b" Default false]%string [].
Definition E_lone : cenv :=
  {| e_kind := fun k => match k with 14 => UFunc | _ => ex_kind ab k end; e_bases := [] |}.
Theorem C19_refuted_lone_getstate : exists E fl c n d D pos,
  c19_guard c = true /\ c_dc c = Some d /\ wrap repaired fl [] c = ([], Ok n)
  /\ user_state_guard E c = false /\ default_state_guard E c d = false
  /\ (let KC := klass_of E c false in let KS := klass_of E n true in
      let iC := the_inst (construct KC d D [] pos []) in let iS := the_inst (construct KS d D [] pos []) in
      is_sok (construct KC d D [] pos []) = true /\ is_sok (construct KS d D [] pos []) = true
      /\ roundtrip (dict_hooks (kl_view KC) ab) KC (fun v => v) iC = SOk iC
      /\ roundtrip (dict_hooks (kl_view KS) ab) KS (fun v => v) iS = SRaise SAttribute).
Proof. exists E_lone, noflags, ex_lone_get. eexists. eexists. exists D0, [OId 1]. vm_compute. repeat split. Qed.

(* the pinned defect of C19_refuted_inherited_hooks at instance level (seeded C19-r3m1): with
   _slots_setstate installed over an inherited user pair whose state is keyed by the user's own names,
   copying raises AttributeError although the pair itself restores the instance (the repaired model: SOk i) *)
Definition upper_hooks : hooks store :=
  {| h_get := fun i => match stored i "a"%string with Some v => [("A"%string, v)] | None => [] end;
     h_set := fun b u => match assoc "A"%string u with Some v => obj_setattr b "a"%string v | None => SOk b end;
     h_map := map_store; h_plain := fun u => Some (SSeq [None; Some u]) |}.
Definition hooked_slotted_base : csum := {| s_slots := Some []; s_getstate := true; s_setstate := true |}.
Definition ex_hooked_a : cls := mkcls [hooked_slotted_base] fdunders true [fld "a" NoDefault false]%string [].
Definition E_hooked_a : cenv := {| e_kind := ex_kind ["a"%string]; e_bases := [hooked_base_view] |}.
Theorem C19_refuted_fix_over_user_hooks : exists E fl c d D pos,
  c19_guard c = true /\ c_dc c = Some d /\ user_state_guard E c = true
  /\ (let nP := the (snd (wrap pinned fl [] c)) in let nR := the (snd (wrap repaired fl [] c)) in
      let KP := klass_of E nP true in let KR := klass_of E nR true in
      let i := the_inst (construct KR d D [] pos []) in
      is_sok (construct KR d D [] pos []) = true /\ construct KP d D [] pos [] = construct KR d D [] pos []
      /\ roundtrip upper_hooks KR (fun v => v) i = SOk i
      /\ roundtrip upper_hooks KP (fun v => v) i = SRaise SAttribute).
Proof.
  exists E_hooked_a, noflags, ex_hooked_a. eexists. exists D0, [OId 1]. cbv zeta.
  split; [reflexivity|]. split; [reflexivity|]. split; [vm_compute; reflexivity|].
  split; [vm_compute; reflexivity|]. split; [vm_compute; reflexivity|]. split; vm_compute; reflexivity.
Qed.

(* default_state_guard, plain_bases clause: a class variable of the dataclass shadows a slot of a
   (non-dataclass) base: object.__getstate__ reads the class variable into the slot state, and the
   slotted class, without a __dict__, cannot store it back; the plain class can *)
Definition cv_base : csum := {| s_slots := Some ["cv"]%string; s_getstate := false; s_setstate := false |}.
Definition E_cv : cenv := {| e_kind := fun k => match k with 14 => UValue (OId 7) | _ => ex_kind ab k end;
                             e_bases := [[("cv", CMember)]]%string |}.
Definition ex_cv : cls := mkcls [cv_base] (dunders ++ [("cv", OId 14)]%string) false [fld "a" NoDefault false; fld "b" Default false]%string [].
Theorem C19_refuted_shadowing_classvar : exists E fl c n d D pos,
  c19_guard c = true /\ c_dc c = Some d /\ wrap repaired fl [] c = ([], Ok n)
  /\ default_state_guard E c d = false /\ construct_guard E fl c d [] = true
  /\ (let KC := klass_of E c false in let KS := klass_of E n true in
      let iC := the_inst (construct KC d D [] pos []) in let iS := the_inst (construct KS d D [] pos []) in
      is_sok (construct KC d D [] pos []) = true /\ is_sok (construct KS d D [] pos []) = true
      /\ is_sok (roundtrip (field_hooks [] []) KC (fun v => v) iC) = true
      /\ roundtrip (field_hooks [] []) KS (fun v => v) iS = SRaise SAttribute).
Proof. exists E_cv, noflags, ex_cv. eexists. eexists. exists D0, [OId 1]. vm_compute. repeat split. Qed.

(* frozen-ness beyond the fields (same root as KF-C19-zero-arg-super: the generated __setattr__ is
   carried over and its `cls` is the original class): assigning a name that is not a field raises
   FrozenInstanceError on the dataclass and TypeError on the slotted class *)
Theorem C19_refuted_frozen_nonfield_setattr : exists E fl c n d D pos,
  c19_guard c = true /\ c_dc c = Some d /\ wrap repaired fl [] c = ([], Ok n) /\ methods_guard E c d = true
  /\ (let KC := klass_of E c false in let KS := klass_of E n true in
      let iC := the_inst (construct KC d D [] pos []) in let iS := the_inst (construct KS d D [] pos []) in
      py_setattr KC iC "zzz"%string (OId 1) = SRaise SFrozen /\ py_setattr KS iS "zzz"%string (OId 1) = SRaise SType).
Proof. exists E_plain, noflags, ex_frozen. eexists. eexists. exists D0, [OId 1]. vm_compute. repeat split. Qed.

(* the law of the user's pair is needed: a pair that restores something else copies to something else *)
Definition lossy_hooks : hooks store :=
  {| h_get := fun _ => []; h_set := fun b _ => SOk b; h_map := map_store; h_plain := fun _ => None |}.
Theorem C19_refuted_lawless_hooks : exists E fl c d D pos,
  c19_guard c = true /\ c_dc c = Some d /\ user_state_guard E c = true
  /\ (let n := the (snd (wrap repaired fl [] c)) in let K := klass_of E n true in
      let i := the_inst (construct K d D [] pos []) in
      is_sok (construct K d D [] pos []) = true
      /\ exists j, roundtrip lossy_hooks K (fun v => v) i = SOk j /\ stored j "a"%string = None /\ stored i "a"%string = Some (OId 1)).
Proof.
  exists E_hooked_a, noflags, ex_hooked_a. eexists. exists D0, [OId 1]. cbv zeta.
  split; [reflexivity|]. split; [reflexivity|]. split; [vm_compute; reflexivity|]. split; [vm_compute; reflexivity|].
  eexists. vm_compute. repeat split.
Qed.

Print Assumptions C19_never_raises.
Print Assumptions C19_stack_empty_after_success.
Print Assumptions C19_stack_restored.
Print Assumptions C19_slots_exact.
Print Assumptions C19_slots_own_fields.
Print Assumptions C19_chain.
Print Assumptions C19_no_dict.
Print Assumptions C19_weakref_iff.
Print Assumptions C19_preserved.
Print Assumptions C19_nothing_else.
Print Assumptions C19_defaults.
Print Assumptions C19_super_safe.
Print Assumptions C19_setstate_restores.
Print Assumptions C19_setstate_fieldless.
Print Assumptions C19_refuted_zero_arg_super.
Print Assumptions C19_full_is_false.
Print Assumptions C19_refuted_weakref_base.
Print Assumptions C19_refuted_stack_leak.
Print Assumptions C19_refuted_inherited_hooks.
Print Assumptions C19_construct.
Print Assumptions C19_instance_dict.
Print Assumptions C19_methods.
Print Assumptions C19_frozen_fields.
Print Assumptions C19_roundtrip.
Print Assumptions C19_roundtrip_user_hooks.
Print Assumptions C19_roundtrip_user_law.
Print Assumptions C19_copy_equal.
Print Assumptions C19_construct_copy_equal.
Print Assumptions C19_chain_members.
Print Assumptions C19_refuted_shadowed_base_slot.
Print Assumptions C19_refuted_post_init_needs_dict.
Print Assumptions C19_refuted_leftover_default.
Print Assumptions C19_refuted_lone_getstate.
Print Assumptions C19_refuted_fix_over_user_hooks.
Print Assumptions C19_refuted_shadowing_classvar.
Print Assumptions C19_refuted_frozen_nonfield_setattr.
Print Assumptions C19_refuted_lawless_hooks.
