(* Property C12 -- results depend only on (type, input), never on call history.
   Model: TL.Model.Cache (memo tables keyed as functools keys them, object identity between caches,
   results and inputs).  This file contains only the property theorems, their non-vacuity examples and
   the refutation witnesses. *)
From Coq Require Import List NArith Bool.
Import ListNotations.
Require Import TL.Model.Cache TL.Model.CacheToy TL.Proofs.CacheMemo TL.Proofs.CacheLemmas.

(* The full statement: for every world (what the uncached bodies compute), every history h of operations
   {build routine, marshal, unmarshal, encode, decode (api and codec), mutate a returned result, mutate a
   passed input, clear caches} and every operation o: the outcome of o after h equals the outcome of o
   alone in a cold process (held inputs passed by their current content). *)
Definition C12_full : Prop :=
  forall (W : world) (h : list op) (o : op), warm W h o = cold W (run_hist W init h) o.

(* Generic: a cache keyed by eqv in front of f is invisible, whatever was asked before and whenever it was
   cleared or evicted, provided f gives equal answers on eqv-equal keys ... *)
Theorem C12_memo_transparent :
  forall (K V : Type) (eqv : K -> K -> bool) (f : K -> V) (max : option N),
    (forall k k', eqv k k' = true -> f k = f k') ->
    forall (h : list (option K)) (k : K), memo_run eqv f max [] h k = f k.
Proof. intros K V eqv f max H h k. exact (memo_transparent eqv f max H h k). Qed.

(* ... and the stored results cannot be changed by those who received them. *)
Theorem C12_memo_transparent_immutable :
  forall (K V : Type) (eqv : K -> K -> bool) (f : K -> V) (max : option N),
    (forall k k', eqv k k' = true -> f k = f k') ->
    forall (g : V -> V), (forall v, g v = v) ->
    forall (h : list K) (k : K), memo_run_mut eqv f max g [] h k = f k.
Proof. intros K V eqv f max H g Hg h k. exact (memo_transparent_immutable eqv f max H g Hg h k). Qed.

(* Main theorem.  c12_guard h o (computable): in no step of h ++ [o], nor in the cold run of o, did a cache
   hit return an entry stored under an equal-but-not-identical key (an ==-equal annotation with another
   member order; an ==-equal duration object of another class).  (The second ghost flag, a caller mutating an
   object owned by the strload cache, can no longer be raised: no result carries such an object.)  Then the outcome of o after h is its cold outcome. *)
Theorem C12_history_independent :
  forall (W : world) (h : list op) (o : op),
    c12_guard W h o = true -> warm W h o = cold W (run_hist W init h) o.
Proof. intros W h o H. exact (history_independent W h o H). Qed.

(* No marshal / unmarshal / encode / decode / build / clear operation changes an object the caller passed:
   the held inputs are only ever extended by the new input of the operation. *)
Theorem C12_inputs_untouched :
  forall (W : world) (s : state) (o : op),
    match o with OMutResult _ _ | OMutInput _ _ => False | _ => True end ->
    exists extra, inputs (fst (step W s o)) = inputs s ++ extra.
Proof. intros W s o H. exact (inputs_untouched W s o H). Qed.

(* the guard is satisfiable by a history that uses every kind of operation, including mutation of
   results that are fresh or the caller's own input, equal instants separated by a cache clear, and
   nested unions *)
Example C12_guard_satisfiable :
  c12_guard W0 h_good o_good = true /\
  warm W0 h_good o_good = OVal (Ok (VL PFresh [VA 3%N; VA 4%N])).
Proof. split; vm_compute; reflexivity. Qed.
(* the premise of the generic theorem is satisfiable: dateparse's key (text, class) is compared exactly *)
Example C12_memo_premise_satisfiable :
  forall k k' : N * sty, ps_same k k' = true -> w_parse W0 (fst k) (snd k) = w_parse W0 (fst k') (snd k').
Proof.
  intros [a s] [b t] H. unfold ps_same in H. cbn [fst snd] in *. apply andb_prop in H. destruct H as [H1 H2].
  apply N.eqb_eq in H1. subst b. destruct s, t; try discriminate; reflexivity.
Qed.

(* ---- outside the guard the full statement fails; each witness is replayed on the implementation *)

(* design observation 9 is repaired (f57eb40: strload hands out a deep copy of the memoised value):
   unmarshal(list, '[1,2]'), append to the result, unmarshal again -- bare list and list[int] -- is inside
   the guard; both get the pristine [1, 2] *)
Example C12_strload_result_mutation_ok :
  c12_guard W0 h_alias o_alias = true /\ c12_guard W0 h_alias o_alias_copy = true /\
  warm W0 h_alias o_alias = OVal (Ok (VL PFresh [VA 3%N; VA 4%N])) /\
  warm W0 h_alias o_alias_copy = OVal (Ok (VL PFresh [VA 3%N; VA 4%N])) /\
  cold W0 (run_hist W0 init h_alias) o_alias = OVal (Ok (VL PFresh [VA 3%N; VA 4%N])).
Proof. vm_compute. repeat split. Qed.

(* design observation 10 is repaired (34d5e39: only the duration writer is memoised): the equal instant
   17:00+05:00 after 12:00+00:00 is inside the guard and gets its own text *)
Example C12_isoformat_equal_instants_ok :
  c12_guard W0 h_iso o_iso = true /\ warm W0 h_iso o_iso = OVal (Ok (VA 9%N)) /\
  cold W0 (run_hist W0 init h_iso) o_iso = OVal (Ok (VA 9%N)).
Proof. vm_compute. repeat split. Qed.

(* finding 11: Union[str, int] after Union[int, str] is served by the routine of the first spelling,
   at the root (factory caches) and in nested positions (inspection.unwrap cache) *)
Theorem C12_refuted_union_order :
  exists W h o h' o',
    c12_guard W h o = false /\ warm W h o <> cold W (run_hist W init h) o /\
    c12_guard W h' o' = false /\ warm W h' o' <> cold W (run_hist W init h') o'.
Proof. exists W0, h_union, o_union, h_union_nested, o_union_nested. vm_compute. repeat split; intro H; discriminate H. Qed.

(* finding 24: a cached predicate computed from the spelling does not respect the cache's key equality:
   the premise of C12_memo_transparent fails and so does its conclusion *)
Theorem C12_refuted_predicate_spelling :
  exists k k' h,
    spelled_eq k k' = true /\ issubscripted_body k <> issubscripted_body k' /\
    memo_run spelled_eq issubscripted_body None [] h k' <> issubscripted_body k'.
Proof. exists (SpOptional SInt), (SpPipeNone SInt), [Some (SpOptional SInt)]. vm_compute. repeat split; intro H; discriminate H. Qed.

Theorem C12_full_refuted : ~ C12_full.
Proof.
  intro F. destruct C12_refuted_union_order as [W [h [o [_ [_ [_ [D _]]]]]]]. exact (D (F W h o)).
Qed.

Print Assumptions C12_memo_transparent.
Print Assumptions C12_memo_transparent_immutable.
Print Assumptions C12_history_independent.
Print Assumptions C12_inputs_untouched.
Print Assumptions C12_refuted_union_order.
Print Assumptions C12_refuted_predicate_spelling.
Print Assumptions C12_full_refuted.
