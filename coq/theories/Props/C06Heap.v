(* Object identity for C06 / C12 / C13: the heap-level routines of Model/Heap.v.  Theorems only.

   hmar / hunm are the routines of marshals/routines.py and unmarshals/routines.py on a heap of objects with
   identity.  They are quantified over every runtime rt (the value-level leaf behaviour), every hruntime hr (where leaf
   results live) obeying AllocLaws, every class environment, annotation, heap, location and every fuel.
     (a) refinement: the object returned denotes the value Core.mar / Core.unm returns (so every value theorem
         transfers: C06H_wire_transfers);
     (b) frame: no existing object is ever written: the input heap is a sub-heap of the output heap, for ALL inputs;
     (c) freshness: inside fresh_ty (every leaf places its result on new mutable objects: all of C06's "fully
         annotated" annotations, C06H_fresh_fully_annotated) every mutable object reachable from the result is new,
         for ALL inputs; outside -- Any members, bare list / dict -- it is refuted;
     (d) separation: the results of any call history share no mutable object with each other nor with anything older;
     (e) C13: the result of a composite routine is always a new object (an equal COPY of a valid input), a leaf that
         short-circuits hands back the SAME object. *)
From Coq Require Import List Arith Bool PeanoNat.
Import ListNotations.
Require Import TL.Model.Core.
Require Import TL.Model.CoreC06.
Require Import TL.Model.Heap.
Require Import TL.Model.HeapEq.
Require Import TL.Proofs.CoreC06.
Require Import TL.Proofs.HeapLemmas.

(* witnesses of the examples are computed, not guessed *)
Ltac run_ok :=
  match goal with
  | |- exists h' l', ?r = Ok (h', l') /\ _ =>
      let v := eval vm_compute in r in match v with Ok (?h, ?l) => exists h, l end
  end.
Ltac run_hist :=
  match goal with
  | |- exists h' r1 r2 r3, ?r = Ok (h', [r1; r2; r3]) /\ _ =>
      let v := eval vm_compute in r in match v with Ok (?h, [?a; ?b; ?c]) => exists h, a, b, c end
  | |- exists h' r1 r2, ?r = Ok (h', [r1; r2]) /\ _ =>
      let v := eval vm_compute in r in match v with Ok (?h, [?a; ?b]) => exists h, a, b end
  end.

(* ------------------------------------------------------------------ (a) refinement *)
Theorem C06H_marshal_refines :
  forall rt hr E, AllocLaws hr ->
  forall fuel t h l x, read fuel h l = Some x -> refines (hmar rt hr E fuel t h l) (mar rt E fuel t x).
Proof. exact hmar_refines. Qed.

Theorem C13H_unmarshal_refines :
  forall rt hr E, AllocLaws hr ->
  forall fuel t h l x, read fuel h l = Some x -> refines (hunm rt hr E fuel t h l) (unm rt E fuel t x).
Proof. exact hunm_refines. Qed.

Example C06H_refines_nonvacuous :
  AllocLaws htoy_hr /\ read 8 htoy_h0 htoy_l0 = Some htoy_v /\ mar htoy_rt htoy_E 8 htoy_T htoy_v = Ok htoy_w /\
  (exists h' l', hmar htoy_rt htoy_hr htoy_E 8 htoy_T htoy_h0 htoy_l0 = Ok (h', l') /\ read 8 h' l' = Some htoy_w) /\
  unm htoy_rt htoy_E 8 htoy_T htoy_u = Ok htoy_u /\
  (exists h' l', hunm htoy_rt htoy_hr htoy_E 8 htoy_T htoy_hu htoy_lu = Ok (h', l') /\ read 8 h' l' = Some htoy_u).
Proof.
  split; [apply place_alloc_laws|]. split; [vm_compute; reflexivity|]. split; [vm_compute; reflexivity|].
  split; [run_ok; split; vm_compute; reflexivity|]. split; [vm_compute; reflexivity|].
  run_ok; split; vm_compute; reflexivity.
Qed.

(* a value theorem carried over: C06_full about the object the heap-level marshaller returns *)
Theorem C06H_wire_transfers :
  forall rt hr E prim_atom robust_leaf wire_leaf R F leaf_valid lit_leaf lit_member,
    AllocLaws hr ->
    MarshalLaws rt prim_atom robust_leaf wire_leaf leaf_valid lit_leaf lit_member ->
    forall T, fully_annotated E robust_leaf wire_leaf true R F T ->
    forall fuel n h l x h' l', read fuel h l = Some x -> valid rt E leaf_valid n T x = true ->
      hmar rt hr E fuel T h l = Ok (h', l') ->
      exists w, reads h' l' w /\ is_wire prim_atom w = true /\ built rt w.
Proof.
  intros rt hr E pa rl wl R F lv ll lm HA L T HT fuel n h l x h' l' Hr HV HM.
  pose proof (hmar_refines rt hr E HA fuel T h l x Hr) as Href. rewrite HM in Href.
  destruct (mar rt E fuel T x) as [w|e| |] eqn:Hm; cbn [refines] in Href; try contradiction.
  exists w. split; [exact Href|]. exact (full_holds rt E pa rl wl R F lv ll lm L T HT fuel n x w HV Hm).
Qed.

(* ------------------------------------------------------------------ (b) frame *)
Theorem C06H_marshal_frame :
  forall rt hr E, AllocLaws hr ->
  forall fuel t h l h' l', hmar rt hr E fuel t h l = Ok (h', l') ->
    (forall p nd, hget h p = Some nd -> hget h' p = Some nd) /\
    (forall n p v, read n h p = Some v -> read n h' p = Some v).
Proof. intros rt hr E HA fuel t h l h' l' H. apply ext_unchanged. eapply hmar_frame; eauto. Qed.

Theorem C12H_unmarshal_frame :
  forall rt hr E, AllocLaws hr ->
  forall fuel t h l h' l', hunm rt hr E fuel t h l = Ok (h', l') ->
    (forall p nd, hget h p = Some nd -> hget h' p = Some nd) /\
    (forall n p v, read n h p = Some v -> read n h' p = Some v).
Proof. intros rt hr E HA fuel t h l h' l' H. apply ext_unchanged. eapply hunm_frame; eauto. Qed.

(* C12: after ANY history of marshal / unmarshal calls and new values every object that existed before is unchanged *)
Theorem C12H_inputs_never_mutated :
  forall rt hr E, AllocLaws hr ->
  forall fuel cs h h' rs, hrun rt hr E fuel cs h = Ok (h', rs) ->
    (forall p nd, hget h p = Some nd -> hget h' p = Some nd) /\
    (forall n p v, read n h p = Some v -> read n h' p = Some v).
Proof. intros rt hr E HA fuel cs h h' rs H. apply ext_unchanged. eapply hrun_frame; eauto. Qed.

Example C06H_frame_nonvacuous :
  exists h' l', hmar htoy_rt htoy_hr htoy_E 8 htoy_T htoy_h0 htoy_l0 = Ok (h', l') /\
                length htoy_h0 = 12 /\ length h' = 28 /\ firstn 12 h' = htoy_h0 /\ read 8 h' htoy_l0 = Some htoy_v.
Proof. run_ok. repeat split; vm_compute; reflexivity. Qed.

(* ------------------------------------------------------------------ (c) freshness *)
Theorem C06H_fresh :
  forall rt hr E fm fu G, AllocLaws hr -> FreshLaws hr fm fu -> env_fresh fm G E -> (exists a, none rt = PAtom a) ->
  forall fuel t h l h' l', fresh_ty fm G t = true -> hmar rt hr E fuel t h l = Ok (h', l') ->
    forall p, reach h' l' p -> mutable_at h' p = true -> length h <= p.
Proof.
  intros rt hr E fm fu G HA HF HE HN fuel t h l h' l' Ht H.
  destruct (hmar_ok rt hr E HA fm fu G fuel t h l h' l' H) as (x & w & _ & _ & _ & _ & Hf & _).
  apply Hf. split; [split; [exact HF | split; assumption] | exact Ht].
Qed.

Theorem C12H_unmarshal_fresh :
  forall rt hr E fm fu G, AllocLaws hr -> FreshLaws hr fm fu -> env_fresh fu G E -> (exists a, none rt = PAtom a) ->
  forall fuel t h l h' l', fresh_ty fu G t = true -> hunm rt hr E fuel t h l = Ok (h', l') ->
    forall p, reach h' l' p -> mutable_at h' p = true -> length h <= p.
Proof.
  intros rt hr E fm fu G HA HF HE HN fuel t h l h' l' Ht H.
  destruct (hunm_ok rt hr E HA fm fu G fuel t h l h' l' H) as (x & w & _ & _ & _ & _ & Hf & _).
  apply Hf. split; [split; [exact HF | split; assumption] | exact Ht].
Qed.

(* with C06's own hypothesis: T fully annotated (Props/C06.v), leaves that are robust / wire place their results freshly *)
Theorem C06H_fresh_fully_annotated :
  forall rt hr E robust_leaf wire_leaf fl fu R F,
    AllocLaws hr -> FreshLaws hr fl fu -> (exists a, none rt = PAtom a) ->
    (forall s, robust_leaf s = true -> fl s = true) -> (forall s, wire_leaf s = true -> fl s = true) ->
    forall T, fully_annotated E robust_leaf wire_leaf true R F T ->
    forall fuel h l h' l', hmar rt hr E fuel T h l = Ok (h', l') ->
      forall p, reach h' l' p -> mutable_at h' p = true -> length h <= p.
Proof.
  intros rt hr E rl wl fl fu R F HA HF HN Hrl Hwl T (HR & HFa & HT) fuel h l h' l' H.
  apply (C06H_fresh rt hr E fl fu (fun c => R c || F c) HA HF (fa_env_fresh rl wl fl R F Hrl Hwl E HR HFa) HN fuel T h l h' l');
    [apply (fa_fresh rl wl fl R F Hrl Hwl); exact HT | exact H].
Qed.

(* the concrete allocation of the tie obeys the laws *)
Theorem C06H_place_alloc_laws :
  forall pm pu, AllocLaws (place_hr pm pu) /\
    forall fm fu, (forall s, fm s = true -> place_fresh pm s) -> (forall s, fu s = true -> place_fresh pu s) ->
                  FreshLaws (place_hr pm pu) fm fu.
Proof. intros pm pu. split; [apply place_alloc_laws | apply place_fresh_laws]. Qed.

(* ... and so does the table-driven hruntime the tie evaluates, whenever the two boolean checks the tie decides per
   generated module hold: the hypotheses of C06H_fresh are then discharged for that run's tables *)
Theorem C06H_tables_laws :
  forall pm pu dm du,
    AllocLaws (mk_hruntime pm pu dm du) /\
    forall fl, place_tbl_fresh fl pm dm = true -> place_tbl_fresh fl pu du = true -> FreshLaws (mk_hruntime pm pu dm du) fl fl.
Proof. exact tables_laws. Qed.
Theorem C06H_env_fresh_check_sound :
  forall E fl G names, (forall c, G c = true -> In c names) -> env_fresh_b E fl G names = true -> env_fresh fl G E.
Proof. exact env_fresh_b_sound. Qed.

Example C06H_fresh_nonvacuous :
  FreshLaws htoy_hr htoy_fresh htoy_fresh /\ env_fresh htoy_fresh htoy_G htoy_E /\ fresh_ty htoy_fresh htoy_G htoy_T = true /\
  exists h' l', hmar htoy_rt htoy_hr htoy_E 8 htoy_T htoy_h0 htoy_l0 = Ok (h', l') /\
                mut_locs 8 h' l' = [27; 20; 17; 26; 23; 25] /\ length htoy_h0 = 12 /\
                mut_locs 8 htoy_h0 htoy_l0 = [4; 3; 10; 7; 9].
Proof.
  split.
  { apply place_fresh_laws; intros s Hs x; (destruct s as [|[|[|s]]]; [| | |discriminate Hs]).
    - left; reflexivity.
    - left; reflexivity.
    - left; reflexivity.
    - destruct x as [[|[|[|[|[|[|a]]]]]]| | | | |]; cbn; auto.
    - destruct x as [[|[|[|[|[|[|[|a]]]]]]]| | | | |]; cbn; auto.
    - left; reflexivity. }
  split.
  { intros c d Hc HE. unfold htoy_G in Hc. apply Nat.eqb_eq in Hc. subst c. cbn in HE. injection HE as <-. reflexivity. }
  split; [reflexivity|]. run_ok. repeat split; vm_compute; reflexivity.
Qed.

(* the boundary: the statement without the guard *)
Definition C06H_fresh_full : Prop :=
  forall rt hr E, AllocLaws hr ->
  forall fuel t h l h' l', hmar rt hr E fuel t h l = Ok (h', l') ->
    forall p, reach h' l' p -> mutable_at h' p = true -> length h <= p.

(* list[Any]: the no-op member routine hands the nested list back, the result shares it with the input *)
Theorem C06H_fresh_refuted_any_member :
  fresh_ty htoy_fresh htoy_G htoy_any_T = false /\
  exists h' l', hmar htoy_rt htoy_hr htoy_E 8 htoy_any_T htoy_hn htoy_ln = Ok (h', l') /\
                length htoy_hn = 4 /\ l' = 4 /\ mut_locs 8 h' l' = [4; 1] /\ mut_locs 8 htoy_hn htoy_ln = [3; 1].
Proof. split; [reflexivity|]. run_ok. repeat split; vm_compute; reflexivity. Qed.

(* a bare list is copied SHALLOWLY: a new outer list whose members are the input's members, nested lists included *)
Theorem C06H_fresh_refuted_bare_list :
  fresh_ty htoy_fresh htoy_G htoy_bare_T = false /\
  exists h' l', hmar htoy_rt htoy_hr htoy_E 8 htoy_bare_T htoy_hn htoy_ln = Ok (h', l') /\
                hget htoy_hn htoy_ln = Some (HSeq KList [1; 2]) /\ hget h' l' = Some (HSeq KList [1; 2]) /\
                l' = 4 /\ mut_locs 8 h' l' = [4; 1] /\ mutable_at h' 1 = true.
Proof. split; [reflexivity|]. run_ok. repeat split; vm_compute; reflexivity. Qed.

Theorem C06H_fresh_full_refuted : ~ C06H_fresh_full.
Proof.
  intros H.
  assert (Hm : hmar htoy_rt htoy_hr htoy_E 8 htoy_any_T htoy_hn htoy_ln =
               Ok ([HAtom 1; HSeq KList [0]; HAtom 5; HSeq KList [1; 2]; HSeq KList [1; 2]], 4)) by (vm_compute; reflexivity).
  specialize (H htoy_rt htoy_hr htoy_E (place_alloc_laws htoy_pm htoy_pu) 8 htoy_any_T htoy_hn htoy_ln _ _ Hm 1).
  assert (Hlt : length htoy_hn <= 1); [|vm_compute in Hlt; inversion Hlt as [|? Hlt']; inversion Hlt'].
  apply H; [|reflexivity].
  eapply reach_step; [reflexivity | left; reflexivity | apply reach_refl].
Qed.

(* ------------------------------------------------------------------ (d) separation of results *)
Theorem C12H_results_separate :
  forall rt hr E fm fu G, AllocLaws hr -> FreshLaws hr fm fu -> env_fresh fm G E -> env_fresh fu G E ->
    (exists a, none rt = PAtom a) ->
  forall fuel cs h h' rs, hrun rt hr E fuel cs h = Ok (h', rs) -> Forall (call_fresh fm fu G) cs ->
    (forall i j ri rj, i < j -> nth_error rs i = Some ri -> nth_error rs j = Some rj ->
       forall p, reach h' ri p -> reach h' rj p -> mutable_at h' p = true -> False) /\
    (forall r p, In r rs -> reach h' r p -> mutable_at h' p = true -> length h <= p).
Proof.
  intros rt hr E fm fu G HA HF HEm HEu HN fuel cs h h' rs H Hcs.
  assert (HFm : FHyp rt hr E fm fu G fm) by (split; [exact HF | split; assumption]).
  assert (HFu : FHyp rt hr E fm fu G fu) by (split; [exact HF | split; assumption]).
  split.
  - exact (hrun_separate rt hr E fm fu G HA HFm HFu fuel cs h h' rs H Hcs).
  - exact (hrun_fresh_all rt hr E fm fu G HA HFm HFu fuel cs h h' rs H Hcs).
Qed.

(* marshal v, marshal v again, unmarshal the first result: three results, pairwise disjoint, the input untouched *)
Example C12H_separate_nonvacuous :
  Forall (call_fresh htoy_fresh htoy_fresh htoy_G) [CMar htoy_T htoy_l0; CMar htoy_T htoy_l0; CUnm htoy_T 27] /\
  exists h' r1 r2 r3,
    hrun htoy_rt htoy_hr htoy_E 8 [CMar htoy_T htoy_l0; CMar htoy_T htoy_l0; CUnm htoy_T 27] htoy_h0 = Ok (h', [r1; r2; r3]) /\
    read 8 h' r1 = Some htoy_w /\ read 8 h' r2 = Some htoy_w /\ read 8 h' r3 = Some htoy_u /\
    shared_mut 8 h' r1 r2 = [] /\ shared_mut 8 h' r1 r3 = [] /\ shared_mut 8 h' r2 r3 = [] /\
    shared_mut 8 h' htoy_l0 r1 = [] /\ read 8 h' htoy_l0 = Some htoy_v.
Proof.
  split; [repeat constructor|]. run_hist. repeat split; vm_compute; reflexivity.
Qed.

(* outside the guard two results of the same input share what the no-op member passed through *)
Theorem C12H_separate_refuted_any_member :
  exists h' r1 r2, hrun htoy_rt htoy_hr htoy_E 8 [CMar htoy_any_T htoy_ln; CMar htoy_any_T htoy_ln] htoy_hn = Ok (h', [r1; r2]) /\
                   r1 <> r2 /\ shared_mut 8 h' r1 r2 = [1].
Proof. run_hist. split; [vm_compute; reflexivity|]. split; [discriminate | vm_compute; reflexivity]. Qed.

(* ------------------------------------------------------------------ (e) C13: copies and pass-through *)
(* the result of a composite routine (subscripted iterable / mapping, fixed tuple, structured class, through every
   wrapper and alias) is a NEW object, whatever the input: an already-valid container is returned as an equal copy *)
Theorem C13H_composite_is_copy :
  forall rt hr E, AllocLaws hr ->
  forall fuel n t h l h' l', composite_ty E n t = true -> hunm rt hr E fuel t h l = Ok (h', l') -> length h <= l'.
Proof.
  intros rt hr E HA fuel n t h l h' l' Hc H.
  destruct (hunm_ok rt hr E HA (fun _ => false) (fun _ => false) (fun _ => false) fuel t h l h' l' H) as (x & w & _ & _ & _ & _ & _ & Hn).
  exact (Hn n Hc).
Qed.
Theorem C06H_composite_is_new :
  forall rt hr E, AllocLaws hr ->
  forall fuel n t h l h' l', composite_ty E n t = true -> hmar rt hr E fuel t h l = Ok (h', l') -> length h <= l'.
Proof.
  intros rt hr E HA fuel n t h l h' l' Hc H.
  destruct (hmar_ok rt hr E HA (fun _ => false) (fun _ => false) (fun _ => false) fuel t h l h' l' H) as (x & w & _ & _ & _ & _ & _ & Hn).
  exact (Hn n Hc).
Qed.

(* a leaf routine that short-circuits (place PInput) and answers with an equal value returns the input object itself *)
Theorem C13H_leaf_same_object :
  forall rt pm pu E fuel s h l x,
    read (S fuel) h l = Some x -> pu s x = PInput -> leaf_u rt s x = Ok x ->
    hunm rt (place_hr pm pu) E (S fuel) (TLeaf s) h l = Ok (h, l).
Proof.
  intros rt pm pu E fuel s h l x Hr Hp Hl. unfold hunm. rewrite Hr. cbn [hunm_w hunm_step snd fst].
  rewrite Hl. cbn [bind place_hr leaf_alloc_u]. rewrite Hp. cbn [place_alloc].
  assert (He : pv_eqb x x = true).
  { clear. induction x as [a|f|k l IH|k l IH|c l IH|c l IH] using pv_ind'; cbn [pv_eqb].
    - apply Nat.eqb_refl.
    - apply Nat.eqb_refl.
    - replace (seqkind_eqb k k) with true by (destruct k; reflexivity). cbn [andb].
      induction IH as [|y r Hy _ IHr]; [reflexivity|]. rewrite Hy. exact IHr.
    - replace (dictkind_eqb k k) with true by (destruct k; reflexivity). cbn [andb].
      induction IH as [|[y1 y2] r [Hy1 Hy2] _ IHr]; [reflexivity|]. cbn [fst snd] in *. rewrite Hy1, Hy2. exact IHr.
    - rewrite Nat.eqb_refl. cbn [andb].
      induction IH as [|[g y] r Hy _ IHr]; [reflexivity|]. cbn [snd] in *. rewrite Nat.eqb_refl, Hy. exact IHr.
    - rewrite Nat.eqb_refl. cbn [andb].
      induction IH as [|y r Hy _ IHr]; [reflexivity|]. rewrite Hy. exact IHr. }
  rewrite He. reflexivity.
Qed.

(* a valid value made of exactly the annotated classes: equal value (C13), every container a new object, every
   scalar leaf the same object; under Any / a bare list the instance itself passes through *)
Example C13H_positions_nonvacuous :
  composite_ty htoy_E 3 htoy_T = true /\
  (exists h' l', hunm htoy_rt htoy_hr htoy_E 8 htoy_T htoy_hu htoy_lu = Ok (h', l') /\ read 8 h' l' = Some htoy_u /\
                 length htoy_hu = 12 /\ conts 8 h' l' = [19; 15; 14; 18; 16; 17] /\
                 hget h' 15 = Some (HObj 0 [(0, 0); (1, 14)]) /\ hget htoy_hu 4 = Some (HObj 0 [(0, 0); (1, 3)]) /\
                 hget h' 14 = Some (HSeq KList [1; 2]) /\ hget htoy_hu 3 = Some (HSeq KList [1; 2])) /\
  hunm htoy_rt htoy_hr htoy_E 8 (TLeaf 3) htoy_hn htoy_ln = Ok (htoy_hn, htoy_ln) /\
  hunm htoy_rt htoy_hr htoy_E 8 htoy_bare_T htoy_hn htoy_ln = Ok (htoy_hn, htoy_ln).
Proof.
  split; [reflexivity|]. split; [run_ok; repeat split; vm_compute; reflexivity|].
  split; vm_compute; reflexivity.
Qed.

Print Assumptions C06H_marshal_refines.
Print Assumptions C13H_unmarshal_refines.
Print Assumptions C06H_wire_transfers.
Print Assumptions C06H_marshal_frame.
Print Assumptions C12H_unmarshal_frame.
Print Assumptions C12H_inputs_never_mutated.
Print Assumptions C06H_fresh.
Print Assumptions C12H_unmarshal_fresh.
Print Assumptions C06H_fresh_fully_annotated.
Print Assumptions C06H_place_alloc_laws.
Print Assumptions C06H_tables_laws.
Print Assumptions C06H_env_fresh_check_sound.
Print Assumptions C06H_fresh_refuted_any_member.
Print Assumptions C06H_fresh_refuted_bare_list.
Print Assumptions C06H_fresh_full_refuted.
Print Assumptions C12H_results_separate.
Print Assumptions C12H_separate_refuted_any_member.
Print Assumptions C13H_composite_is_copy.
Print Assumptions C06H_composite_is_new.
Print Assumptions C13H_leaf_same_object.
