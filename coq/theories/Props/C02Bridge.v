(* Property C02, end to end: the codec model (Model/Codec.v) instantiated with the core value model
   (marshaller(T) = Core.mar, unmarshaller(T) = Core.unm) and with the JSON wire model (compat.json.dumps =
   json_write, compat.json.loads = json_read_gen) -- Proofs/CodecBridge.v.  Only theorems (closed by `exact`), a
   non-vacuity Example, Print Assumptions.

   What C02_roundtrip / C02_valid_json (Props/C02.v) ASSUMED about the JSON layer ("decoder(encoder(w)) = w on dom",
   "std_loads inverts the encoder") is here a consequence of Props/C02Json.v; what they assumed about
   marshal/unmarshal is C01_roundtrip (Props/C01.v).  What remains assumed is visible in the statements:
     RoundLaws rt lv      the leaf laws of C01 (scalar routines round-trip, None)
     TableLaws atab ktab unat   the atom table: the JSON scalar of each wire atom / the text of each field name is
                          inside jv_ok, and the decoder's object for it is that atom / key (unat inverts the tables)
     valid, c01_guard, union_unamb   C01's hypotheses on (T, v)
     tr w = Some j        the marshalled value is JSON data with str keys (C06's statement + C02's quantifier)
     dom j, nodup_keys j  inside the encoder's domain (orjson: 64-bit ints); no dict of the wire value repeats a key
     forallb is_ws (st_sp st)   the style's separators are followed by JSON whitespace only (both known styles) *)
From Coq Require Import List ZArith NArith Bool.
Import ListNotations.
Require Import TL.Model.Core TL.Model.CoreC01 TL.Proofs.CoreC01.
Require TL.Model.Codec.
Require Import TL.Model.Json TL.Model.JsonEq TL.Proofs.JsonLemmas TL.Proofs.CodecBridge.

(* the translation is injective on wire values, and the decoder's object construction inverts it *)
Theorem C02Bridge_untr_tr : forall atab ktab unat, TableLaws atab ktab unat ->
  forall w j, tr atab ktab w = Some j -> untr unat j = w /\ jv_ok j = true.
Proof. intros atab ktab unat L w j H. exact (conj (untr_tr atab ktab unat L w j H) (tr_ok atab ktab unat L w j H)). Qed.

Theorem C02Bridge_tr_injective : forall atab ktab unat, TableLaws atab ktab unat ->
  forall a b j, tr atab ktab a = Some j -> tr atab ktab b = Some j -> a = b.
Proof. exact tr_injective. Qed.

(* the encoder law of C02_roundtrip: decoder(encoder(w)) = w, for every reader variant and style *)
Theorem C02Bridge_encoder_law : forall atab ktab unat st strict surr dom, TableLaws atab ktab unat ->
  forallb is_ws (st_sp st) = true ->
  forall w j, tr atab ktab w = Some j -> dom j = true -> nodup_keys j = true ->
  Codec.bind (json_dumps atab ktab st dom (OVal w)) (json_loads unat strict surr) = Codec.Ok (OVal w).
Proof. intros atab ktab unat st strict surr dom. exact (encoder_law atab ktab unat st strict surr dom). Qed.

(* codec(T).decode(codec(T).encode(v)) = v: C01's hypotheses, no hypothesis about the JSON layer *)
Theorem C02Bridge_roundtrip : forall atab ktab unat rt E st strict surr dom isb (class_of : obj -> ty) lv,
  TableLaws atab ktab unat -> forallb is_ws (st_sp st) = true -> RoundLaws rt lv ->
  forall n fm T v w j, (fm <= n)%nat ->
  valid rt lv E n T v = true -> c01_guard rt E n T v = true -> union_unamb rt lv E n T v = true ->
  mar rt E fm T v = Ok w -> tr atab ktab w = Some j -> dom j = true -> nodup_keys j = true ->
  exists m, forall fu, (fu >= m)%nat ->
    Codec.bind (enc atab ktab unat rt E st strict surr dom isb fm fu T v)
               (dec atab ktab unat rt E st strict surr dom isb fm fu T) = Codec.Ok (OVal v).
Proof.
  intros atab ktab unat rt E st strict surr dom isb class_of lv L Hs.
  exact (roundtrip atab ktab unat rt E st strict surr dom isb class_of L Hs lv).
Qed.

(* the encoded bytes are valid JSON that parses -- with the lenient reader, the strict reader, and through
   json.loads' own front end -- to exactly (the translation of) marshal(v, t=T) *)
Theorem C02Bridge_valid_json : forall atab ktab unat rt E st strict surr dom isb,
  TableLaws atab ktab unat -> forallb is_ws (st_sp st) = true ->
  forall fm fu T v w j, isb T = false -> mar rt E fm T v = Ok w -> tr atab ktab w = Some j -> dom j = true ->
  exists b, enc atab ktab unat rt E st strict surr dom isb fm fu T v = Codec.Ok (OBytes b) /\
            (forall s' u', json_read_gen s' u' b = Some j) /\ untr unat j = w /\
            (known_style st -> std_loads b = Some j /\ std_utf8_branch b = true).
Proof. intros atab ktab unat rt E st strict surr dom isb. exact (valid_json atab ktab unat rt E st strict surr dom isb). Qed.

(* ---------------------------------------------------------------- non-vacuity: C01's toy instance, through orjson's form *)
Definition toy_atab (a : nat) : option jv :=
  match a with
  | 0 => Some JNull | 1 => Some (JInt 5) | 2 => Some (JStr [53%N]) | 4 => Some (JStr [97%N]) | 5 => Some (JInt 7)
  | 7 => Some (JStr [50; 48; 50; 48; 45; 48; 49; 45; 48; 49; 84; 48; 48; 58; 48; 48; 58; 48; 48]%N)
  | 8 => Some (JStr [50; 48; 50; 48; 45; 48; 49; 45; 48; 49]%N)
  | _ => None
  end%nat.
Definition toy_ktab (f : nat) : option (list N) :=
  match f with 0 => Some [102; 48]%N | 1 => Some [102; 49]%N | _ => None end%nat.
Definition toy_unat (j : jv) : pv :=
  match j with
  | JNull => PAtom 0
  | JInt 5%Z => PAtom 1
  | JInt 7%Z => PAtom 5
  | JStr s => if text_eqb s [53%N] then PAtom 2 else if text_eqb s [97%N] then PAtom 4
              else if text_eqb s [102; 48]%N then PKey 0 else if text_eqb s [102; 49]%N then PKey 1
              else if text_eqb s [50; 48; 50; 48; 45; 48; 49; 45; 48; 49]%N then PAtom 8
              else PAtom 7
  | _ => PAtom 99
  end.
Lemma toy_tables : TableLaws toy_atab toy_ktab toy_unat.
Proof.
  split.
  - intros a j H _. do 9 (destruct a as [|a]; [cbn in H; try discriminate; inversion H; subst; split; reflexivity|]).
    discriminate.
  - intros f s H. do 2 (destruct f as [|f]; [inversion H; subst; split; reflexivity|]). discriminate.
Qed.

Example C02Bridge_hyps_satisfiable :
  TableLaws toy_atab toy_ktab toy_unat /\ RoundLaws toy_rt toy_lv /\
  valid toy_rt toy_lv toy_env 8 (TName 3) toy_value = true /\
  c01_guard toy_rt toy_env 8 (TName 3) toy_value = true /\
  union_unamb toy_rt toy_lv toy_env 8 (TName 3) toy_value = true /\
  exists w j, mar toy_rt toy_env 8 (TName 3) toy_value = Ok w /\ tr toy_atab toy_ktab w = Some j /\
              orjson_dom j = true /\ nodup_keys j = true /\
              enc toy_atab toy_ktab toy_unat toy_rt toy_env orjson_style true false orjson_dom (fun _ => false) 8 8
                  (TName 3) toy_value = Codec.Ok (OBytes (json_write orjson_style j)) /\
              Codec.bind (enc toy_atab toy_ktab toy_unat toy_rt toy_env orjson_style true false orjson_dom (fun _ => false) 8 8
                              (TName 3) toy_value)
                         (dec toy_atab toy_ktab toy_unat toy_rt toy_env orjson_style true false orjson_dom (fun _ => false) 8 8
                              (TName 3)) = Codec.Ok (OVal toy_value).
Proof.
  split; [exact toy_tables|]. split; [exact toy_laws|].
  repeat (split; [vm_compute; reflexivity|]).
  eexists _, _. repeat split; vm_compute; reflexivity.
Qed.

Print Assumptions C02Bridge_untr_tr.
Print Assumptions C02Bridge_tr_injective.
Print Assumptions C02Bridge_encoder_law.
Print Assumptions C02Bridge_roundtrip.
Print Assumptions C02Bridge_valid_json.
