(* Bridge C09 -> C05/C07/C11/C15: the contract `order_ok` that the factory model (Model/Build.v) needs from
   graph.static_order is a THEOREM of the graph model (Model/Graph.v), for every topological order of the
   adjacency it builds.  Only the theorems (proofs: Proofs/GraphBridge.v; translation: Model/GraphBridge.v),
   non-vacuity examples, and an example showing that the one guard on the factory side is needed. *)
From Coq Require Import List Arith Bool String.
Import ListNotations.
Require Import TL.Model.Graph TL.Model.Topo.
Require Import TL.Model.Core TL.Model.Build TL.Proofs.CoreMono TL.Proofs.BuildLemmas.
Require Import TL.Model.GraphBridge TL.Proofs.GraphBridge TL.Props.C05 TL.Props.C07 TL.Props.C15.

(* The main lemma.  N: the naming (how module-level names / reference texts of the string level meet the
   numbers of the core level; rref = refs.evaluate).  For every environment E of the graph model, every root,
   every adjacency g that graph.get_type_graph builds (any fuel that suffices), EVERY order satisfying
   graphlib's contract for g, both directions and every choice of pass-through leaves: when every node of
   the order translates (tr_order) and the computable guard holds --
     classes_ok: every expanded class is described by E, all of its field types translate, and if one of
                 them is Any (graph.py gives it no node) then Any is a pass-through leaf (noop_leaf);
     refs_ok:    every deferred node is the member deferred as itself, or the reference built for the member
                 translates to refs.forwardref of the translated member (what TypeContext.__missing__ looks
                 up last) and the reference built for its unwrapped form has the same normal form --
   the translated order is accepted by the factory's contract order_ok in the translated environment. *)
Theorem C05_contract_from_graph :
  forall (N : naming) (E : Graph.env) (dir : bool) (noop_leaf : nat -> bool)
         (fuel : nat) (root : gty) (g : adjacency) (order : list Graph.node) (ns : list node),
    type_graph fuel E root = Graph.Ok g ->
    is_topo_order g order ->
    bridge_guard N E noop_leaf g = true ->
    tr_order N order = Some ns ->
    order_ok (tr_env N E) dir noop_leaf [] ns = true.
Proof. exact order_ok_from_graph_guarded. Qed.

(* The same for ANY core environment E' whose classes have the translated field types (flavour, field names,
   defaults, required keys are free), with the two guards as hypotheses about g. *)
Theorem C05_contract_from_graph_env :
  forall (N : naming) (E : Graph.env) (E' : env) (dir : bool) (noop_leaf : nat -> bool)
         (fuel : nat) (root : gty) (g : adjacency) (order : list Graph.node),
    type_graph fuel E root = Graph.Ok g ->
    is_topo_order g order ->
    (forall p preds c, In (p, preds) g -> Graph.nunw p = GClass c ->
       exists d, E c = Some d /\ class_rel N d (E' c) /\
                 (In GAny (map snd (Graph.cfields d)) -> noop_leaf (any_id N) = true)) ->
    (forall p preds n, In (p, preds) g -> In n preds -> Graph.ncyc n = true -> cyc_ok N n = true) ->
    forall ns, tr_order N order = Some ns -> order_ok E' dir noop_leaf [] ns = true.
Proof. exact order_ok_from_graph. Qed.

(* the last node of the translated order is the root's own *)
Theorem C05_root_from_graph :
  forall (N : naming) (E : Graph.env) (fuel : nat) (root : gty) (g : adjacency) (order : list Graph.node),
    type_graph fuel E root = Graph.Ok g -> is_topo_order g order ->
    forall ns T, tr_order N order = Some ns -> tr_ty N root = Some T ->
    exists pre r, ns = pre ++ [r] /\ ntype r = T.
Proof. exact root_from_graph. Qed.

(* graph_orders N E noop_leaf orders: whatever `orders` returns for an annotation t is the translation of some
   topological order of the adjacency the graph model builds for a root translating to t, inside the guard.
   Then `orders` satisfies the hypothesis of C05 / C07 / C11 / C15. *)
Theorem C05_orders_contract_from_graph :
  forall (N : naming) (E : Graph.env) (dir : bool) (noop_leaf : nat -> bool) (orders : ty -> option (list node)),
    graph_orders N E noop_leaf orders -> orders_contract (tr_env N E) dir noop_leaf orders.
Proof. exact contract_from_graph. Qed.

(* C05 with the order contract discharged by the graph model *)
Theorem C05_unmarshal_from_graph :
  forall (rt : runtime) (N : naming) (E : Graph.env) (noop_leaf : nat -> bool) (orders : ty -> option (list node)),
    graph_orders N E noop_leaf orders ->
    (forall s x, noop_leaf s = true -> leaf_u rt s x = Ok x) ->
    forall (T : ty) (fuel : nat) (x : pv),
      done (api_call rt (tr_env N E) orders true fuel T x) = true ->
      exists m, forall m', m' >= m -> unm rt (tr_env N E) m' T x = api_call rt (tr_env N E) orders true fuel T x.
Proof. exact unmarshal_from_graph. Qed.

Theorem C05_marshal_from_graph :
  forall (rt : runtime) (N : naming) (E : Graph.env) (noop_leaf : nat -> bool) (orders : ty -> option (list node)),
    graph_orders N E noop_leaf orders ->
    (forall s x, noop_leaf s = true -> leaf_m rt s x = Ok x) ->
    forall (T : ty) (fuel : nat) (x : pv),
      done (api_call rt (tr_env N E) orders false fuel T x) = true ->
      exists m, forall m', m' >= m -> mar rt (tr_env N E) m' T x = api_call rt (tr_env N E) orders false fuel T x.
Proof. exact marshal_from_graph. Qed.

(* the same discharge for the other properties that assume the order contract *)
Theorem C07_build_total_from_graph :
  forall (N : naming) (E : Graph.env) (dir : bool) (noop_leaf : nat -> bool) (orders : ty -> option (list node)) (T : ty),
    graph_orders N E noop_leaf orders ->
    (exists ns, orders (evaluate T) = Some ns) ->
    exists r, build_root (tr_env N E) orders dir T = Ok r /\ routes (tr_env N E) dir noop_leaf r T.
Proof. intros N E dir noop_leaf orders T Hgo Hns.
  exact (C07_build_total (tr_env N E) dir noop_leaf orders T (contract_from_graph N E dir noop_leaf orders Hgo) Hns). Qed.

Theorem C07_all_depths_from_graph :
  forall (rt : runtime) (N : naming) (E : Graph.env) (noop_leaf : nat -> bool) (orders : ty -> option (list node)),
    graph_orders N E noop_leaf orders ->
    (forall s x, noop_leaf s = true -> leaf_u rt s x = Ok x) ->
    (forall s x, noop_leaf s = true -> leaf_m rt s x = Ok x) ->
    forall (T : ty) (fuel : nat) (x : pv),
      (done (api_call rt (tr_env N E) orders true fuel T x) = true ->
         exists m, forall m', m' >= m -> unm rt (tr_env N E) m' T x = api_call rt (tr_env N E) orders true fuel T x) /\
      (done (api_call rt (tr_env N E) orders false fuel T x) = true ->
         exists m, forall m', m' >= m -> mar rt (tr_env N E) m' T x = api_call rt (tr_env N E) orders false fuel T x).
Proof. intros rt N E noop_leaf orders Hgo Lu Lm.
  exact (C07_all_depths rt (tr_env N E) noop_leaf orders (contract_from_graph N E true noop_leaf orders Hgo)
           (contract_from_graph N E false noop_leaf orders Hgo) Lu Lm). Qed.

Theorem C15_construction_total_from_graph :
  forall (N : naming) (E : Graph.env) (dir : bool) (noop_leaf : nat -> bool) (orders : ty -> option (list node)) (T : ty),
    graph_orders N E noop_leaf orders ->
    (exists ns, orders (evaluate T) = Some ns) ->
    exists r, build_root (tr_env N E) orders dir T = Ok r.
Proof. intros N E dir noop_leaf orders T Hgo Hns.
  exact (C15_construction_total (tr_env N E) dir noop_leaf orders T (contract_from_graph N E dir noop_leaf orders Hgo) Hns). Qed.

(* the boolean form of graphlib's contract, which the C09 tie decides on every observed order, suffices *)
Theorem C05_topo_check_sound :
  forall g order, is_topo_orderb g order = true -> is_topo_order g order.
Proof. exact is_topo_orderb_sound. Qed.


(* refs_ok need not be decided per graph: it follows, for every graph over the environment, from a law about
   NAMES checked once on a finite universe of named objects (names_okb: the name of each object, looked up in
   its own module, evaluates to it -- the law C09_denotes states for refs.evaluate), when every deferred node
   stands for a member of that universe inside C09's guard (named_refs_ok). *)
Theorem C05_refs_ok_from_names :
  forall (N : naming) (E : Graph.env) (univ : list gty) (fuel : nat) (root : gty) (g : adjacency),
    type_graph fuel E root = Graph.Ok g -> names_ok N E univ -> named_refs_ok N E univ g = true -> refs_ok N g = true.
Proof. exact refs_ok_from_names. Qed.
Theorem C05_names_check_sound :
  forall (N : naming) (E : Graph.env) (univ : list gty), names_okb N E univ = true -> names_ok N E univ.
Proof. exact names_okb_sound. Qed.

(* ---- non-vacuity ---------------------------------------------------------------------------- *)
Local Open Scope string_scope.
Local Open Scope list_scope.
(* the recursive class of Props/C05.v at the string level:  class N0: kids: list[N0]; val: Optional[int] *)
Definition ex_sid (s : scalar) : nat :=
  match s with
  | SInt => 0 | SStr => 1 | SFloat => 2 | SBool => 3 | SBytes => 4 | SDecimal => 5 | SDatetime => 6
  | SDate => 7 | SUuid => 8 | SFraction => 9 | SPurePath => 10 | SEnum => 11
  end.
Definition brE : Graph.env := env_of
  [ (0, {| cmodule := "vm"; cqual := "N0";
           Graph.cfields := [("kids", GGen GList [GClass 0]); ("val", GUnion UOptional [GScalar SInt; GNone])] |}) ].
Definition brN : naming := {|
  rref := fun a mo => if String.eqb a "N0" then Some (TRef 0) else None;
  wid := fun _ _ => 0;
  fid := fun f => if String.eqb f "kids" then 0 else 1;
  flav := fun _ => FDataclass;
  fdef := fun _ _ => None;
  creq := fun _ => []; sid := ex_sid; any_id := 12; lit_id := fun n => 13 + n; mkind := fun _ => KDict |}.
Definition brRoot : gty := GGen GList [GClass 0].
Definition brOrders (t : ty) : option (list node) :=
  if ty_eqb t (TSeq KList (TName 0)) then Some (exOrder ++ [exRoot]) else None.

(* the translated environment is C05's, the graph is built, Kahn's order of it is a topological order, the
   guard holds, and its translation is exactly the order C05's example took from the implementation *)
Example C05Bridge_hyps_satisfiable :
  (forall c, tr_env brN brE c = exE c) /\
  tr_ty brN brRoot = Some (TSeq KList (TName 0)) /\
  exists g order,
    type_graph 20 brE brRoot = Graph.Ok g /\ kahn g = Some order /\ is_topo_order g order /\
    bridge_guard brN brE (fun _ => false) g = true /\
    tr_order brN order = Some (exOrder ++ [exRoot]).
Proof.
  split; [intros [|c]; reflexivity|]. split; [reflexivity|].
  destruct (type_graph 20 brE brRoot) as [g| |] eqn:Hg; [|vm_compute in Hg; discriminate|vm_compute in Hg; discriminate].
  destruct (kahn g) as [order|] eqn:Hk; [|vm_compute in Hg; inversion Hg; subst; vm_compute in Hk; discriminate].
  exists g, order. split; [reflexivity|]. split; [exact Hk|].
  vm_compute in Hg. inversion Hg; subst; clear Hg. vm_compute in Hk. inversion Hk; subst; clear Hk.
  split; [apply is_topo_orderb_sound; vm_compute; reflexivity|]. split; vm_compute; reflexivity.
Qed.

Example C05Bridge_graph_orders_satisfiable : graph_orders brN brE (fun _ => false) brOrders.
Proof.
  intros t ns H. unfold brOrders in H. destruct (ty_eqb t (TSeq KList (TName 0))) eqn:Ht; [|discriminate H].
  apply ty_eqb_eq in Ht. subst t. injection H as <-.
  destruct C05Bridge_hyps_satisfiable as [_ [HT [g [order [Hg [_ [Ho [Hb Htr]]]]]]]].
  exists 20, brRoot, g, order.
  split; [exact HT|]. split; [exact Hg|]. split; [exact Ho|]. split; [exact Hb|exact Htr].
Qed.

(* a class whose members are answered for by a REFERENCE node and which has an Any field:
     class Node: nxt: Optional[Node]; kids: list[Node]; s: int; t: Any
   refs_ok holds with rref "Node" = the class; classes_ok needs Any to be a pass-through leaf, and without
   that the factory's contract really fails on the translated order (the guard cannot be dropped) *)
Definition brE2 : Graph.env := env_of
  [ (0, {| cmodule := "vm"; cqual := "Node";
           Graph.cfields := [("nxt", GUnion UOptional [GClass 0; GNone]); ("kids", GGen GList [GClass 0]);
                             ("s", GScalar SInt); ("t", GAny)] |}) ].
Definition brN2 : naming := {|
  rref := fun a mo => if String.eqb a "Node" then Some (TRef 0) else None;
  wid := fun _ _ => 0;
  fid := fun f => String.length f;
  flav := fun _ => FDataclass;
  fdef := fun _ _ => None;
  creq := fun _ => []; sid := ex_sid; any_id := 12; lit_id := fun n => 13 + n; mkind := fun _ => KDict |}.
Definition any_leaf (s : nat) : bool := Nat.eqb s 12.

Example C05Bridge_reference_node :
  exists g order ns,
    type_graph 20 brE2 (GClass 0) = Graph.Ok g /\ kahn g = Some order /\ is_topo_order g order /\
    tr_order brN2 order = Some ns /\
    In {| ntype := TRef 0; nunw := TRef 0; ncyc := true |} ns /\
    bridge_guard brN2 brE2 any_leaf g = true /\
    order_ok (tr_env brN2 brE2) true any_leaf [] ns = true /\
    (* the guard on Any is needed *)
    bridge_guard brN2 brE2 (fun _ => false) g = false /\
    order_ok (tr_env brN2 brE2) true (fun _ => false) [] ns = false.
Proof.
  destruct (type_graph 20 brE2 (GClass 0)) as [g| |] eqn:Hg; [|vm_compute in Hg; discriminate|vm_compute in Hg; discriminate].
  destruct (kahn g) as [order|] eqn:Hk; [|vm_compute in Hg; inversion Hg; subst; vm_compute in Hk; discriminate].
  destruct (tr_order brN2 order) as [ns|] eqn:Hn;
    [|vm_compute in Hg; inversion Hg; subst; vm_compute in Hk; inversion Hk; subst; vm_compute in Hn; discriminate].
  exists g, order, ns. split; [reflexivity|]. split; [exact Hk|].
  vm_compute in Hg. inversion Hg; subst; clear Hg. vm_compute in Hk. inversion Hk; subst; clear Hk.
  vm_compute in Hn. inversion Hn; subst; clear Hn.
  split; [apply is_topo_orderb_sound; vm_compute; reflexivity|]. split; [reflexivity|].
  split; [cbn; tauto|]. repeat split; vm_compute; reflexivity.
Qed.

(* wrappers, a string alias, references to a NewType and to a leaf class, a fixed and a variadic tuple, a
   Final-qualified mapping (the order the implementation returns for the analogous module is this one):
     AS1 = TypeAliasType("AS1", "N0"); NT2 = NewType("NT2", N0); AL3 = TypeAliasType("AL3", Optional[N0])
     class N0: nxt: AS1; nt: NT2; al: AL3; tup: tuple[N0, str]; fin: Final[dict[str, NT2]];
               vt: tuple[Fraction, ...]; fr: Fraction *)
Definition brNT2 : gty := GNewType "vm" "NT2" (GClass 0).
Definition brE3 : Graph.env := env_of
  [ (0, {| cmodule := "vm"; cqual := "N0";
           Graph.cfields := [("nxt", GAliasStr "vm" "AS1" "N0"); ("nt", brNT2);
              ("al", GAlias "vm" "AL3" (GUnion UOptional [GClass 0; GNone]));
              ("tup", GGen GTuple [GClass 0; GScalar SStr]); ("fin", GFinal (GGen GDict [GScalar SStr; brNT2]));
              ("vt", GGen GTuple [GScalar SFraction; GEllipsis]); ("fr", GScalar SFraction) ] |}) ].
Definition brN3 : naming := {|
  rref := fun a mo => if String.eqb a "N0" then Some (TRef 0)
                      else if String.eqb a "NT2" then Some (TRefTo (TNewType 2 (TName 0)))
                      else if String.eqb a "Fraction" then Some (TRefLeaf 9) else None;
  wid := fun _ n => if String.eqb n "AS1" then 1 else if String.eqb n "NT2" then 2 else 3;
  fid := fun f => String.length f;
  flav := fun _ => FDataclass;
  fdef := fun _ _ => None;
  creq := fun _ => []; sid := ex_sid; any_id := 12; lit_id := fun n => 13 + n; mkind := fun _ => KDict |}.
Definition brUniv3 : list gty := [GClass 0; brNT2; GScalar SFraction].

Example C05Bridge_wrappers :
  names_okb brN3 brE3 brUniv3 = true /\
  exists g order ns,
    type_graph 40 brE3 (GClass 0) = Graph.Ok g /\ kahn g = Some order /\ is_topo_order g order /\
    named_refs_ok brN3 brE3 brUniv3 g = true /\ classes_ok brN3 brE3 (fun _ => false) g = true /\
    bridge_guard brN3 brE3 (fun _ => false) g = true /\
    tr_order brN3 order = Some ns /\
    In {| ntype := TRefTo (TNewType 2 (TName 0)); nunw := TRef 0; ncyc := true |} ns /\
    In {| ntype := TAliasStr 1 0; nunw := TRef 0; ncyc := false |} ns /\
    In {| ntype := TRefLeaf 9; nunw := TRefLeaf 9; ncyc := true |} ns /\
    order_ok (tr_env brN3 brE3) true (fun _ => false) [] ns = true /\
    order_ok (tr_env brN3 brE3) false (fun _ => false) [] ns = true.
Proof.
  split; [vm_compute; reflexivity|].
  destruct (type_graph 40 brE3 (GClass 0)) as [g| |] eqn:Hg; [|vm_compute in Hg; discriminate|vm_compute in Hg; discriminate].
  destruct (kahn g) as [order|] eqn:Hk; [|vm_compute in Hg; inversion Hg; subst; vm_compute in Hk; discriminate].
  destruct (tr_order brN3 order) as [ns|] eqn:Hn;
    [|vm_compute in Hg; inversion Hg; subst; vm_compute in Hk; inversion Hk; subst; vm_compute in Hn; discriminate].
  exists g, order, ns. split; [reflexivity|]. split; [exact Hk|].
  vm_compute in Hg. inversion Hg; subst; clear Hg. vm_compute in Hk. inversion Hk; subst; clear Hk.
  vm_compute in Hn. inversion Hn; subst; clear Hn.
  split; [apply is_topo_orderb_sound; vm_compute; reflexivity|].
  split; [vm_compute; reflexivity|]. split; [vm_compute; reflexivity|]. split; [vm_compute; reflexivity|].
  split; [reflexivity|]. split; [cbn; tauto|]. split; [cbn; tauto|]. split; [cbn; tauto|].
  split; vm_compute; reflexivity.
Qed.

(* ---- the guards cannot be dropped ------------------------------------------------------------ *)
(* Without the guard the statement quantifies over model parameters that the implementation fixes: which
   leaves pass through (Any does) and what refs.evaluate answers (the object bound to the name).  Chosen
   inconsistently, the translated order is rejected.  Neither witness is a defect of typelib. *)
Definition C05_contract_from_graph_full : Prop :=
  forall (N : naming) (E : Graph.env) (dir : bool) (noop_leaf : nat -> bool)
         (fuel : nat) (root : gty) (g : adjacency) (order : list Graph.node) (ns : list node),
    type_graph fuel E root = Graph.Ok g -> is_topo_order g order -> tr_order N order = Some ns ->
    order_ok (tr_env N E) dir noop_leaf [] ns = true.

Theorem C05_contract_refuted_any_not_passthrough : ~ C05_contract_from_graph_full.
Proof.
  intros H. destruct C05Bridge_reference_node as [g [order [ns [Hg [_ [Ho [Hn [_ [_ [_ [_ Hbad]]]]]]]]]]].
  rewrite (H brN2 brE2 true (fun _ => false) 20 (GClass 0) g order ns Hg Ho Hn) in Hbad. discriminate Hbad.
Qed.

(* a resolver that answers "Node" with a different class: every node still translates, refs_ok fails, and
   so does the contract (with Any passing through) *)
Definition brN2bad : naming := {|
  rref := fun a mo => if String.eqb a "Node" then Some (TRef 1) else None;
  wid := wid brN2; fid := fid brN2; flav := flav brN2; fdef := fdef brN2; creq := creq brN2; sid := ex_sid; any_id := 12; lit_id := fun n => 13 + n; mkind := fun _ => KDict |}.
Theorem C05_contract_refuted_wrong_resolver :
  exists g order ns,
    type_graph 20 brE2 (GClass 0) = Graph.Ok g /\ is_topo_order g order /\ tr_order brN2bad order = Some ns /\
    classes_ok brN2bad brE2 any_leaf g = true /\ refs_ok brN2bad g = false /\
    order_ok (tr_env brN2bad brE2) true any_leaf [] ns = false.
Proof.
  destruct (type_graph 20 brE2 (GClass 0)) as [g| |] eqn:Hg; [|vm_compute in Hg; discriminate|vm_compute in Hg; discriminate].
  destruct (kahn g) as [order|] eqn:Hk; [|vm_compute in Hg; inversion Hg; subst; vm_compute in Hk; discriminate].
  destruct (tr_order brN2bad order) as [ns|] eqn:Hn;
    [|vm_compute in Hg; inversion Hg; subst; vm_compute in Hk; inversion Hk; subst; vm_compute in Hn; discriminate].
  exists g, order, ns. split; [reflexivity|].
  vm_compute in Hg. inversion Hg; subst; clear Hg. vm_compute in Hk. inversion Hk; subst; clear Hk.
  vm_compute in Hn. inversion Hn; subst; clear Hn.
  split; [apply is_topo_orderb_sound; vm_compute; reflexivity|]. split; [reflexivity|].
  repeat split; vm_compute; reflexivity.
Qed.

Print Assumptions C05_contract_from_graph.
Print Assumptions C05_contract_from_graph_env.
Print Assumptions C05_root_from_graph.
Print Assumptions C05_orders_contract_from_graph.
Print Assumptions C05_unmarshal_from_graph.
Print Assumptions C05_marshal_from_graph.
Print Assumptions C05_topo_check_sound.
Print Assumptions C05_refs_ok_from_names.
Print Assumptions C05_names_check_sound.
Print Assumptions C05_contract_refuted_any_not_passthrough.
Print Assumptions C05_contract_refuted_wrong_resolver.
Print Assumptions C07_build_total_from_graph.
Print Assumptions C07_all_depths_from_graph.
Print Assumptions C15_construction_total_from_graph.
