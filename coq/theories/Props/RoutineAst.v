(* Routine programs: Core's composite steps are the interpretation of the routine classes' __call__ bodies.
   Table-independent.  `expected d h` is the program harness/routasttie.py must translate the class
   `class_name d h` to on every run (coq/dyn/RoutineAst/RoutineAstX.v decides it); here: running that program with
   the members' semantics `unm n` / `mar n` IS the step `unm (S n)` / `mar (S n)` of Model/Core.v.
   Theorems only (`exact lemma`) + refutation witnesses and non-vacuity examples. *)
From Coq Require Import List Arith Bool PeanoNat String.
Import ListNotations.
Require Import TL.Model.Core TL.Model.CoreLate TL.Model.RoutineAst TL.Proofs.RoutineAst.

(* ---- all heads at once ---- *)
Theorem RA_unm_step : forall rt E n t x h, head_of E t = Some h -> guard_u E t = true ->
  run rt E (unm rt E n) t (expected DU h) x = unm rt E (S n) t x.
Proof. exact unm_step. Qed.
Theorem RA_mar_step : forall rt E n t x h, head_of E t = Some h ->
  run rt E (mar rt E n) t (expected DM h) x = mar rt E (S n) t x.
Proof. exact mar_step. Qed.

(* ---- per routine class: unmarshal ---- *)
Theorem RA_unm_iterable : forall rt E n k a x,
  run rt E (unm rt E n) (TSeq k a) (expected DU HIterable) x = unm rt E (S n) (TSeq k a) x.
Proof. exact unm_iterable. Qed.
Theorem RA_unm_mapping : forall rt E n k kt vt x,
  run rt E (unm rt E n) (TMap k kt vt) (expected DU HMapping) x = unm rt E (S n) (TMap k kt vt) x.
Proof. exact unm_mapping. Qed.
Theorem RA_unm_tuple : forall rt E n ts x,
  run rt E (unm rt E n) (TTuple ts) (expected DU HTuple) x = unm rt E (S n) (TTuple ts) x.
Proof. exact unm_tuple. Qed.
Theorem RA_unm_struct : forall rt E n c cd x, E c = Some (NClass cd) -> req_wf cd = true ->
  run rt E (unm rt E n) (TName c) (expected DU HStruct) x = unm rt E (S n) (TName c) x.
Proof. exact unm_struct. Qed.
Theorem RA_unm_union : forall rt E n ts x,
  run rt E (unm rt E n) (TUnion ts) (expected DU HUnion) x = unm rt E (S n) (TUnion ts) x.
Proof. exact unm_union. Qed.

(* ---- per routine class: marshal ---- *)
Theorem RA_mar_iterable : forall rt E n k a x,
  run rt E (mar rt E n) (TSeq k a) (expected DM HIterable) x = mar rt E (S n) (TSeq k a) x.
Proof. exact mar_iterable. Qed.
Theorem RA_mar_mapping : forall rt E n k kt vt x,
  run rt E (mar rt E n) (TMap k kt vt) (expected DM HMapping) x = mar rt E (S n) (TMap k kt vt) x.
Proof. exact mar_mapping. Qed.
Theorem RA_mar_tuple : forall rt E n ts x,
  run rt E (mar rt E n) (TTuple ts) (expected DM HTuple) x = mar rt E (S n) (TTuple ts) x.
Proof. exact mar_tuple. Qed.
Theorem RA_mar_struct : forall rt E n c cd x, E c = Some (NClass cd) ->
  run rt E (mar rt E n) (TName c) (expected DM HStruct) x = mar rt E (S n) (TName c) x.
Proof. exact mar_struct. Qed.
Theorem RA_mar_union : forall rt E n ts x,
  run rt E (mar rt E n) (TUnion ts) (expected DM HUnion) x = mar rt E (S n) (TUnion ts) x.
Proof. exact mar_union. Qed.

(* ---- against the EARLIER formulation of Core's set / mapping steps (convert every member, hash afterwards:
        Model/CoreLate.v).  Where the two orders differ (`*_parts`) the program (the code) raises TypeError and the
        earlier step reported another failure -- the modelling error the translator found (D1), now repaired in Core ---- *)
Theorem RA_unm_set_late_outside : forall rt E n k a x, seq_parts rt (unm rt E n) k a x = true ->
  run rt E (unm rt E n) (TSeq k a) (expected DU HIterable) x = Raise EType /\
  CoreLate.is_other (seq_late rt (unm rt E n) k a x) = true.
Proof. exact unm_iterable_late_outside. Qed.
Theorem RA_unm_mapping_late_outside : forall rt E n k kt vt x, map_parts rt E (unm rt E n) kt vt x = true ->
  run rt E (unm rt E n) (TMap k kt vt) (expected DU HMapping) x = Raise EType /\
  CoreLate.is_other (map_late rt E (unm rt E n) k kt vt x) = true.
Proof. exact unm_mapping_late_outside. Qed.
Theorem RA_mar_mapping_late_outside : forall rt E n k kt vt x, mmap_parts rt E (mar rt E n) kt vt x = true ->
  run rt E (mar rt E n) (TMap k kt vt) (expected DM HMapping) x = Raise EType /\
  CoreLate.is_other (mmap_late rt E (mar rt E n) kt vt x) = true.
Proof. exact mar_mapping_late_outside. Qed.

(* hashing every element as it is produced = converting everything and hashing afterwards, outside late_hash *)
Theorem RA_hash_order : forall rt (A : Type) (key : A -> pv) (l : list (res A)),
  late_hash rt key false l = false -> consume_hashing rt key l = eager rt key l.
Proof. exact consume_eager. Qed.

(* ---- transport to a translated table ---- *)
Theorem RA_prog_eqb_sound : forall a b, prog_eqb a b = true -> a = b.
Proof. exact prog_eqb_eq. Qed.
Theorem RA_src_prog : forall tb d h, progs_agree tb = true -> src_prog tb d h = expected d h.
Proof. exact src_prog_expected. Qed.
Theorem RA_src_prog_dir : forall tb d h, progs_agree_dir d tb = true -> src_prog tb d h = expected d h.
Proof. exact src_prog_expected_dir. Qed.
Theorem RA_unm_step_src : forall rt E tb, progs_agree_dir DU tb = true ->
  forall n t x h, head_of E t = Some h -> guard_u E t = true ->
  run rt E (unm rt E n) t (src_prog tb DU h) x = unm rt E (S n) t x.
Proof. exact unm_step_src. Qed.
Theorem RA_mar_step_src : forall rt E tb, progs_agree_dir DM tb = true ->
  forall n t x h, head_of E t = Some h ->
  run rt E (mar rt E n) t (src_prog tb DM h) x = mar rt E (S n) t x.
Proof. exact mar_step_src. Qed.

Print Assumptions RA_unm_step.
Print Assumptions RA_mar_step.
Print Assumptions RA_unm_iterable.
Print Assumptions RA_unm_mapping.
Print Assumptions RA_unm_tuple.
Print Assumptions RA_unm_struct.
Print Assumptions RA_unm_union.
Print Assumptions RA_mar_iterable.
Print Assumptions RA_mar_mapping.
Print Assumptions RA_mar_tuple.
Print Assumptions RA_mar_struct.
Print Assumptions RA_mar_union.
Print Assumptions RA_unm_set_late_outside.
Print Assumptions RA_unm_mapping_late_outside.
Print Assumptions RA_mar_mapping_late_outside.
Print Assumptions RA_hash_order.
Print Assumptions RA_prog_eqb_sound.
Print Assumptions RA_src_prog.
Print Assumptions RA_src_prog_dir.
Print Assumptions RA_unm_step_src.
Print Assumptions RA_mar_step_src.

(* ------------------------------------------------------------------ witnesses *)
(* a runtime: leaf 0 is `int` (atom 1 converts to itself, atom 9 -- the text "x" -- is a ValueError);
   atom 5 is None; scalars iterate to nothing *)
Definition rt0 : runtime := {|
  leaf_u := fun s v => match v with PAtom 9 => Raise EValue | PAtom _ => Ok v | _ => Raise EType end;
  leaf_m := fun s v => match v with PAtom 9 => Raise EValue | _ => Ok v end;
  none_u := fun v => match v with PAtom 5 => Ok v | _ => Raise EValue end;
  load_scalar := fun v => Ok v;
  values_scalar := fun _ => Raise EType;
  items_scalar := fun _ => Raise EType;
  pairlike_scalar := fun _ => false;
  unpack_scalar := fun _ => Raise EType;
  index := fun i => PAtom (100 + i);
  unhashable_class := fun _ => false;
  atom_eq := fun _ _ => false;
  none := PAtom 5;
  suppressed := fun _ => true |}.
Definition E0 : env := fun c =>
  match c with
  | 1 => Some (NClass {| cflavour := FTypedDict; cfields := []; crequired := [7] |})     (* ill-formed on purpose *)
  | 2 => Some (NClass {| cflavour := FDataclass;
                         cfields := [{| fname := 3; fty := TLeaf 0; fdefault := None |}]; crequired := [] |})
  | _ => None
  end.
Definition lst (l : list pv) := PSeq KList l.

(* THE MODELLING DIFFERENCE FOUND (earlier Core vs the code), witness for sets: set[list[int]] on [[1], ["x"]].
   The code (the program): `set(...)` hashes the first converted member [1] -> TypeError, the second member is never
   converted.  Core.unm does the same now; the earlier step converted both members first -> the ValueError of int("x").
   On /repo: unmarshal(set[list[int]], [[1], ["x"]]) raises TypeError("unhashable type: 'list'"). *)
Example RA_unm_set_late_refuted :
  let a := TSeq KList (TLeaf 0) in
  let x := lst [lst [PAtom 1]; lst [PAtom 9]] in
  seq_parts rt0 (unm rt0 E0 2) KSet a x = true /\
  run rt0 E0 (unm rt0 E0 2) (TSeq KSet a) (expected DU HIterable) x = Raise EType /\
  unm rt0 E0 3 (TSeq KSet a) x = Raise EType /\
  seq_late rt0 (unm rt0 E0 2) KSet a x = Raise EValue.
Proof. vm_compute. repeat split. Qed.
(* the same for mappings: dict[list[int], int] on [[[1], 2], [[2], "x"]] *)
Example RA_unm_mapping_late_refuted :
  let kt := TSeq KList (TLeaf 0) in
  let x := lst [lst [lst [PAtom 1]; PAtom 2]; lst [lst [PAtom 2]; PAtom 9]] in
  map_parts rt0 E0 (unm rt0 E0 2) kt (TLeaf 0) x = true /\
  run rt0 E0 (unm rt0 E0 2) (TMap KDict kt (TLeaf 0)) (expected DU HMapping) x = Raise EType /\
  unm rt0 E0 3 (TMap KDict kt (TLeaf 0)) x = Raise EType /\
  map_late rt0 E0 (unm rt0 E0 2) KDict kt (TLeaf 0) x = Raise EValue.
Proof. vm_compute. repeat split. Qed.
(* marshal: dict[tuple[int, ...], int] -- a tuple key marshals to a list -- on {(1,): 2, (2,): "x"} *)
Example RA_mar_mapping_late_refuted :
  let kt := TSeq KTuple (TLeaf 0) in
  let x := PDict KDict [(PSeq KTuple [PAtom 1], PAtom 2); (PSeq KTuple [PAtom 2], PAtom 9)] in
  mmap_parts rt0 E0 (mar rt0 E0 2) kt (TLeaf 0) x = true /\
  run rt0 E0 (mar rt0 E0 2) (TMap KDict kt (TLeaf 0)) (expected DM HMapping) x = Raise EType /\
  mar rt0 E0 3 (TMap KDict kt (TLeaf 0)) x = Raise EType /\
  mmap_late rt0 E0 (mar rt0 E0 2) kt (TLeaf 0) x = Raise EValue.
Proof. vm_compute. repeat split. Qed.
(* req_wf is needed: a required key that is no field is a TypeError of the code, invisible to Core *)
Example RA_unm_struct_refuted :
  req_wf {| cflavour := FTypedDict; cfields := []; crequired := [7] |} = false /\
  run rt0 E0 (unm rt0 E0 2) (TName 1) (expected DU HStruct) (PDict KDict []) = Raise EType /\
  unm rt0 E0 3 (TName 1) (PDict KDict []) = Ok (PDict KDict []).
Proof. vm_compute. repeat split. Qed.

(* non-vacuity: the guards hold and the programs compute *)
Example RA_unm_set_ok :
  let t := TSeq KSet (TLeaf 0) in
  guard_u E0 t = true /\
  run rt0 E0 (unm rt0 E0 2) t (expected DU HIterable) (lst [PAtom 1; PAtom 1; PAtom 2]) = Ok (PSeq KSet [PAtom 1; PAtom 2]).
Proof. vm_compute. repeat split. Qed.
Example RA_unm_struct_ok :
  run rt0 E0 (unm rt0 E0 2) (TName 2) (expected DU HStruct) (PDict KDict [(PKey 3, PAtom 1); (PKey 4, PAtom 9)])
  = Ok (PObj 2 [(3, PAtom 1)]).
Proof. vm_compute. reflexivity. Qed.
Example RA_unm_tuple_short :
  run rt0 E0 (unm rt0 E0 2) (TTuple [TLeaf 0; TLeaf 0]) (expected DU HTuple) (lst [PAtom 1]) = Raise EValue.
Proof. vm_compute. reflexivity. Qed.
Example RA_unm_union_none_first :
  run rt0 E0 (unm rt0 E0 2) (TUnion [TLeaf 0; TNone]) (expected DU HUnion) (PAtom 5) = Ok (PAtom 5) /\
  tl_eval (TUnion [TLeaf 0; TNone]) stack_none_first = [TNone; TLeaf 0].
Proof. vm_compute. repeat split. Qed.
Example RA_mar_union_none :
  run rt0 E0 (mar rt0 E0 2) (TUnion [TLeaf 0; TNone]) (expected DM HUnion) (PAtom 5) = Ok (PAtom 5).
Proof. vm_compute. reflexivity. Qed.
(* the per-run decision is not vacuous: a table with one program changed is refused, the expected table accepted *)
Definition expected_table : progtable :=
  map (fun h => (class_name DU h, expected DU h)) all_heads ++ map (fun h => (class_name DM h, expected DM h)) all_heads.
Example RA_agree_accepts : progs_agree expected_table = true.
Proof. vm_compute. reflexivity. Qed.
Example RA_agree_bites :
  progs_agree (("SubscriptedIterableUnmarshaller"%string, Construct COrigin (MapEach (SArg 0) (IterValues Input)))
               :: expected_table) = false.
Proof. vm_compute. reflexivity. Qed.
