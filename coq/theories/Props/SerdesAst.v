(* Source translator tie of typelib/serdes.py, part 1 (generic iteration) -- table-independent theorems.
   Model: Model/SerdesAst.v (ladders over Iter.cls), scripts: Proofs/SerdesAstLemmas.v.
   The theorems about the ladders translated from the source on a run are in dyn/SerdesAst/SerdesAstIter.v. *)
From Coq Require Import List Bool Arith ZArith String.
Import ListNotations.
Require Import TL.Model.Iter TL.Model.SerdesAst TL.Proofs.SerdesAstLemmas.

(* the enumeration of classes is complete, up to what a guard can see *)
Theorem SerdesAst_reps_complete : forall c,
  In (rep c) all_reps /\ (forall g, eval_guard g (rep c) = eval_guard g c).
Proof. exact (fun c => conj (rep_in c) (fun g => guard_rep g c)). Qed.

(* running the branch the model names IS the model's function *)
Theorem SerdesAst_model_branches : forall cf,
  (forall cl, run_gaction cf (model_gaction cl) cl = get_items_iter cf cl) /\
  (forall x, run_paction (model_paction (class_of x)) x = is_iterable_of_pairs repaired x).
Proof. exact (fun cf => conj (model_gaction_ok cf) model_paction_ok). Qed.

(* a ladder that passes the finite check computes get_items_iter on EVERY class, for both variants of the code *)
Theorem SerdesAst_gladder_sound : forall l d, gladder_ok l d = true ->
  forall cf cl, get_items_iter_src l d cf cl = get_items_iter cf cl.
Proof. exact gladder_sound. Qed.

(* ... and one that fails it does not: the check is exact *)
Theorem SerdesAst_gladder_complete : forall l d, gladder_ok l d = false ->
  exists cl, get_items_iter_src l d repaired cl <> get_items_iter repaired cl.
Proof. exact gladder_complete. Qed.

Theorem SerdesAst_pladder_sound : forall l d, pladder_ok l d = true ->
  forall x, is_iterable_of_pairs_src l d x = is_iterable_of_pairs repaired x.
Proof. exact pladder_sound. Qed.

Theorem SerdesAst_items_prog_sound : forall p, items_prog_eqb p canonical_items = true ->
  forall cf x, run_items p cf x = iteritems cf x.
Proof. exact items_prog_sound. Qed.

Theorem SerdesAst_values_prog_sound : forall p, values_prog_eqb p canonical_values = true ->
  forall cf x, run_values p cf x = itervalues cf x.
Proof. exact values_prog_sound. Qed.

(* the four translated pieces composed are the model's iteritems / itervalues *)
Theorem SerdesAst_iteritems_src_sound : forall pl pd gl gd p,
  pladder_ok pl pd = true -> gladder_ok gl gd = true -> items_prog_eqb p canonical_items = true ->
  forall x, iteritems_src pl pd gl gd p x = iteritems repaired x.
Proof. exact iteritems_src_sound. Qed.

Theorem SerdesAst_itervalues_src_sound : forall gl gd p,
  gladder_ok gl gd = true -> values_prog_eqb p canonical_values = true ->
  forall x, itervalues_src gl gd p x = itervalues repaired x.
Proof. exact itervalues_src_sound. Qed.

(* the checks bite *)
Theorem SerdesAst_refuted_enumerate_first :
  gladder_ok bad_gladder_enumerate_first AMakeFields = false /\
  get_items_iter_src bad_gladder_enumerate_first AMakeFields repaired (CDict MDict) = Ok SEnumerate /\
  get_items_iter repaired (CDict MDict) = Ok SItems.
Proof. exact enumerate_first_refuted. Qed.

Theorem SerdesAst_refuted_namedtuple_not_excluded :
  pladder_ok bad_pladder_namedtuple good_pdefault = false /\
  is_iterable_of_pairs_src bad_pladder_namedtuple good_pdefault nt_witness = Ok (true, ItVal nt_witness) /\
  is_iterable_of_pairs repaired nt_witness = Ok (false, ItVal nt_witness) /\
  fst (iteritems_src bad_pladder_namedtuple good_pdefault good_gladder AMakeFields canonical_items nt_witness)
    <> fst (iteritems repaired nt_witness).
Proof. exact namedtuple_not_excluded_refuted. Qed.

Theorem SerdesAst_refuted_apply_val :
  items_prog_eqb {| ip_pairs_ret := OIt; ip_apply := OVal |} canonical_items = false /\
  fst (run_items {| ip_pairs_ret := OIt; ip_apply := OVal |} repaired gen_witness) <> fst (iteritems repaired gen_witness).
Proof. exact apply_val_refuted. Qed.

Theorem SerdesAst_refuted_keys_for_values :
  fst (run_values {| vp_proj := PrKey |} repaired (VColl KList [VInt 7%Z]))
    <> fst (itervalues repaired (VColl KList [VInt 7%Z])).
Proof. exact keys_for_values_refuted. Qed.

(* non-vacuity: the ladders as the code is written today pass *)
Example SerdesAst_satisfiable :
  gladder_ok good_gladder AMakeFields = true /\ pladder_ok good_pladder good_pdefault = true.
Proof. exact good_ladders_ok. Qed.
Example SerdesAst_reps_count : List.length all_reps = 29.
Proof. reflexivity. Qed.

Print Assumptions SerdesAst_reps_complete.
Print Assumptions SerdesAst_model_branches.
Print Assumptions SerdesAst_gladder_sound.
Print Assumptions SerdesAst_gladder_complete.
Print Assumptions SerdesAst_pladder_sound.
Print Assumptions SerdesAst_items_prog_sound.
Print Assumptions SerdesAst_values_prog_sound.
Print Assumptions SerdesAst_iteritems_src_sound.
Print Assumptions SerdesAst_itervalues_src_sound.
Print Assumptions SerdesAst_refuted_enumerate_first.
Print Assumptions SerdesAst_refuted_namedtuple_not_excluded.
Print Assumptions SerdesAst_refuted_apply_val.
Print Assumptions SerdesAst_refuted_keys_for_values.
