(* Property C05 -- nested members are converted by their own type's rules.
   Only the property theorems; proofs are in Proofs/BuildLemmas.v (routing) and
   Proofs/BuildSemLemmas.v (the built routine computes the reference semantics). *)
From Coq Require Import List Arith Bool.
Import ListNotations.
Require Import TL.Model.Core TL.Model.Build TL.Proofs.CoreMono TL.Proofs.BuildLemmas TL.Proofs.BuildSemLemmas
  TL.Proofs.C05History TL.Proofs.BuildComplete.

(* For every class environment E, both directions (dir = true: unmarshal), every annotation T and
   every node order pre ++ [root] that graph.static_order may return for T -- any order in which the
   lookups of every constructor succeed (order_ok: the C09 contract, checked on every observed order
   in the tie) and whose last node is T's own -- the factory returns a routine that ROUTES T:
   at every depth each member slot holds a routine whose head is the one dispatch gives the member's
   own annotation (after unwrapping NewType / alias / Final / ClassVar and evaluating references), or
   a delayed proxy for exactly that annotation.  Field names are not part of any key.
   E may hold alias objects (E n = NType v: `type N = ...`, string-valued TypeAliasType objects, possibly recursive):
   inspection.unwrap goes through them (Build.unwrap E), `routes` is stated up to the equivalence "the name of an
   alias object stands for its value" (BuildLemmas.aeq, constructor Ro_alias), and a member annotated with a
   string-valued alias holds the lazy proxy for the reference to its text (example C05_alias_member below). *)
Theorem C05_build_routes :
  forall (E : env) (dir : bool) (noop_leaf : nat -> bool) (orders : ty -> option (list node)) (T : ty) (pre : list node) (root : node),
    orders (evaluate T) = Some (pre ++ [root]) ->
    order_ok E dir noop_leaf [] (pre ++ [root]) = true ->
    norm (ntype root) = norm T ->
    exists r, build_root E orders dir T = Ok r /\ routes E dir noop_leaf r T.
Proof. exact build_routes. Qed.

(* graph.static_order, as far as C05 needs it: for every annotation it returns an order accepted by
   order_ok whose last node is that annotation's own (proved of the graph model in C09, decided on
   every observed order in the tie) *)
Definition orders_contract (E : env) (dir : bool) (noop_leaf : nat -> bool) (orders : ty -> option (list node)) : Prop :=
  forall t ns, orders t = Some ns ->
    exists pre root, ns = pre ++ [root] /\ order_ok E dir noop_leaf [] ns = true /\ norm (ntype root) = norm t.

(* unmarshal(T, x) through the mechanism equals the composite rebuilt from each member converted by its
   own type's rules (the reference semantics unm), for every input x, including which exception is raised
   when a member fails: whatever terminal result the mechanism gives with some fuel is the result of unm
   for all sufficiently large fuel.  No bound on nesting depth, graph size or value size. *)
Theorem C05_unmarshal :
  forall (rt : runtime) (E : env) (noop_leaf : nat -> bool) (orders : ty -> option (list node)),
    orders_contract E true noop_leaf orders ->
    (forall s x, noop_leaf s = true -> leaf_u rt s x = Ok x) ->
    forall (T : ty) (fuel : nat) (x : pv),
      done (api_call rt E orders true fuel T x) = true ->
      exists m, forall m', m' >= m -> unm rt E m' T x = api_call rt E orders true fuel T x.
Proof. intros rt E noop_leaf orders Ho Hn T fuel x Hd. exact (api_u_sound rt E noop_leaf orders Ho Hn T fuel x Hd). Qed.

Theorem C05_marshal :
  forall (rt : runtime) (E : env) (noop_leaf : nat -> bool) (orders : ty -> option (list node)),
    orders_contract E false noop_leaf orders ->
    (forall s x, noop_leaf s = true -> leaf_m rt s x = Ok x) ->
    forall (T : ty) (fuel : nat) (x : pv),
      done (api_call rt E orders false fuel T x) = true ->
      exists m, forall m', m' >= m -> mar rt E m' T x = api_call rt E orders false fuel T x.
Proof. intros rt E noop_leaf orders Ho Hn T fuel x Hd. exact (api_m_sound rt E noop_leaf orders Ho Hn T fuel x Hd). Qed.

(* ---- the converse: the mechanism never falls short of the reference semantics ------------------------------------
   C05_unmarshal / C05_marshal start from a terminal result of the MECHANISM.  Conversely, whatever terminal result
   (value or exception) the reference semantics gives at some fuel, the mechanism gives for ALL sufficiently large
   fuel: it does not stay OutOfFuel and is never Unmodelled -- every lazy proxy is resolved through the factory after
   finitely many steps.  Beyond orders_contract this needs orders_strict (Proofs/BuildComplete.v): graph.static_order(t)
   ends in t's own EXPANDED node (ntype root = t, not cyclic; t an evaluated annotation), and whatever an order defers
   has an order (node_closed).  Both hold of the real function; computable per table: BuildTables.orders_strict_ok
   (orders_strict_ok_sound).  They are necessary: C05_complete_refuted_without_strict_roots.
   defd orders T: static_order answers for (what T evaluates to).  The fuel bound is existential; by api_call_mono_le
   (fuel monotonicity of run / api_call: C05_mechanism_fuel_monotone) one fuel that works bounds all larger ones. *)
Theorem C05_unmarshal_complete :
  forall (rt : runtime) (E : env) (noop_leaf : nat -> bool) (orders : ty -> option (list node)),
    orders_contract E true noop_leaf orders -> orders_strict orders ->
    (forall s x, noop_leaf s = true -> leaf_u rt s x = Ok x) ->
    forall (T : ty) (n : nat) (x : pv),
      defd orders T = true -> done (unm rt E n T x) = true ->
      exists N, forall fuel, fuel >= N -> api_call rt E orders true fuel T x = unm rt E n T x.
Proof. intros rt E noop_leaf orders Ho Hs Hn T n x Hdef Hd. exact (api_u_complete rt E noop_leaf orders Ho Hs Hn T n x Hdef Hd). Qed.

Theorem C05_marshal_complete :
  forall (rt : runtime) (E : env) (noop_leaf : nat -> bool) (orders : ty -> option (list node)),
    orders_contract E false noop_leaf orders -> orders_strict orders ->
    (forall s x, noop_leaf s = true -> leaf_m rt s x = Ok x) ->
    forall (T : ty) (n : nat) (x : pv),
      defd orders T = true -> done (mar rt E n T x) = true ->
      exists N, forall fuel, fuel >= N -> api_call rt E orders false fuel T x = mar rt E n T x.
Proof. intros rt E noop_leaf orders Ho Hs Hn T n x Hdef Hd. exact (api_m_complete rt E noop_leaf orders Ho Hs Hn T n x Hdef Hd). Qed.

(* both directions at once: mechanism and reference semantics have the same terminal results (ev f r: f m = r for all
   sufficiently large m; r a value or an exception) *)
Theorem C05_unmarshal_equiv :
  forall (rt : runtime) (E : env) (noop_leaf : nat -> bool) (orders : ty -> option (list node)),
    orders_contract E true noop_leaf orders -> orders_strict orders ->
    (forall s x, noop_leaf s = true -> leaf_u rt s x = Ok x) ->
    forall (T : ty) (x : pv) (r : res pv), defd orders T = true -> done r = true ->
      (ev (fun m => unm rt E m T x) r <-> ev (fun fuel => api_call rt E orders true fuel T x) r).
Proof. intros rt E noop_leaf orders Ho Hs Hn T x r Hdef Hd. exact (api_u_equiv rt E noop_leaf orders Ho Hs Hn T x r Hdef Hd). Qed.
Theorem C05_marshal_equiv :
  forall (rt : runtime) (E : env) (noop_leaf : nat -> bool) (orders : ty -> option (list node)),
    orders_contract E false noop_leaf orders -> orders_strict orders ->
    (forall s x, noop_leaf s = true -> leaf_m rt s x = Ok x) ->
    forall (T : ty) (x : pv) (r : res pv), defd orders T = true -> done r = true ->
      (ev (fun m => mar rt E m T x) r <-> ev (fun fuel => api_call rt E orders false fuel T x) r).
Proof. intros rt E noop_leaf orders Ho Hs Hn T x r Hdef Hd. exact (api_m_equiv rt E noop_leaf orders Ho Hs Hn T x r Hdef Hd). Qed.

(* fuel monotonicity of the mechanism (the analogue of CoreMono.unm_mono_le / mar_mono_le) *)
Theorem C05_mechanism_fuel_monotone :
  forall (rt : runtime) (E : env) (orders : ty -> option (list node)) (dir : bool) (n m : nat),
    n <= m ->
    (forall (r : routine) (x : pv), done (run rt E orders dir n r x) = true -> run rt E orders dir m r x = run rt E orders dir n r x) /\
    (forall (T : ty) (x : pv), done (api_call rt E orders dir n T x) = true ->
                               api_call rt E orders dir m T x = api_call rt E orders dir n T x).
Proof. intros rt E orders dir n m Hle. split; [intros r x; exact (run_mono_le rt E orders dir n m r x Hle)|
  intros T x; exact (api_call_mono_le rt E orders dir n m T x Hle)]. Qed.

(* orders_strict is necessary: an order that satisfies order_ok and ends in a node with the right normal form, but
   whose last node is a REFERENCE to the class instead of the class's own node, makes the factory answer a proxy that
   resolves to itself -- the mechanism is OutOfFuel at every fuel although the reference semantics terminates *)
Theorem C05_complete_refuted_without_strict_roots :
  (forall dir, orders_contract loop_E dir (fun _ => false) loop_orders) /\
  unm loop_rt loop_E 5 (TName 0) (PDict KDict []) = Ok (PObj 0 []) /\
  mar loop_rt loop_E 5 (TName 0) (PObj 0 []) = Ok (PDict KDict []) /\
  (forall dir fuel x, api_call loop_rt loop_E loop_orders dir fuel (TName 0) x = OutOfFuel).
Proof. exact complete_refuted_without_strict_roots. Qed.

(* Call histories (round 3).  api.unmarshaller / api.marshaller cache the routine they build for an annotation, so
   one routine converts a whole history of inputs xs, one call after the other (run_history = the built routine run
   on each input in order).  Every terminal result of the history is the composite rebuilt from the members of ITS
   OWN input, each converted by its own type's rules -- whatever the same routine converted earlier or later, and
   however the inputs of the history compare with each other (two inputs that are == in Python are two values here).
   The model's routines are terms without memory; that the implementation's are too is what the history stream of
   the tie checks (harness/c05_strata.py). *)
Theorem C05_unmarshal_history :
  forall (rt : runtime) (E : env) (noop_leaf : nat -> bool) (orders : ty -> option (list node)),
    orders_contract E true noop_leaf orders ->
    (forall s x, noop_leaf s = true -> leaf_u rt s x = Ok x) ->
    forall (T : ty) (r : routine), build_root E orders true T = Ok r ->
    forall (fuel : nat) (xs : list pv),
      Forall2 (fun x res => done res = true -> exists m, forall m', m' >= m -> unm rt E m' T x = res)
              xs (run_history rt E orders true fuel r xs).
Proof. intros rt E noop_leaf orders Ho Hn T r Hb fuel xs. exact (history_u_sound rt E noop_leaf orders Ho Hn T r Hb fuel xs). Qed.

Theorem C05_marshal_history :
  forall (rt : runtime) (E : env) (noop_leaf : nat -> bool) (orders : ty -> option (list node)),
    orders_contract E false noop_leaf orders ->
    (forall s x, noop_leaf s = true -> leaf_m rt s x = Ok x) ->
    forall (T : ty) (r : routine), build_root E orders false T = Ok r ->
    forall (fuel : nat) (xs : list pv),
      Forall2 (fun x res => done res = true -> exists m, forall m', m' >= m -> mar rt E m' T x = res)
              xs (run_history rt E orders false fuel r xs).
Proof. intros rt E noop_leaf orders Ho Hn T r Hb fuel xs. exact (history_m_sound rt E noop_leaf orders Ho Hn T r Hb fuel xs). Qed.

(* the result for an input does not depend on its position in the history or on the other inputs of the history *)
Theorem C05_history_position_independent :
  forall (rt : runtime) (E : env) (orders : ty -> option (list node)) (dir : bool) (fuel : nat) (r : routine)
         (xs ys : list pv) (i j : nat) (x : pv),
    nth_error xs i = Some x -> nth_error ys j = Some x ->
    nth_error (run_history rt E orders dir fuel r xs) i = nth_error (run_history rt E orders dir fuel r ys) j.
Proof. exact history_position_independent. Qed.

(* non-vacuity: a recursive class  class N0: kids: list[N0]; val: Optional[int]
   with the order observed on the implementation for root list[N0] *)
Definition exE : env := fun n => match n with
  | 0 => Some (NClass {| cflavour := FDataclass;
                          cfields := [ {| fname := 0; fty := TSeq KList (TName 0); fdefault := None |};
                                       {| fname := 1; fty := TUnion [TLeaf 0; TNone]; fdefault := None |} ]; crequired := [] |})
  | _ => None end.
Definition exOrder : list node :=
  [ {| ntype := TSeq KList (TName 0); nunw := TSeq KList (TName 0); ncyc := true |};
    {| ntype := TLeaf 0; nunw := TLeaf 0; ncyc := false |};
    {| ntype := TNone; nunw := TNone; ncyc := false |};
    {| ntype := TUnion [TLeaf 0; TNone]; nunw := TUnion [TLeaf 0; TNone]; ncyc := false |};
    {| ntype := TName 0; nunw := TName 0; ncyc := false |} ].
Definition exRoot : node := {| ntype := TSeq KList (TName 0); nunw := TSeq KList (TName 0); ncyc := false |}.
Example C05_hyps_satisfiable :
  order_ok exE true (fun _ => false) [] (exOrder ++ [exRoot]) = true /\
  norm (ntype exRoot) = norm (TSeq KList (TName 0)) /\
  build_root exE (fun _ => Some (exOrder ++ [exRoot])) true (TSeq KList (TName 0))
  = Ok (RSeq KList (RStruct 0 [(0, RDelayed (TSeq KList (TName 0)));
                               (1, RUnion true [RNone; RLeaf 0])])).
Proof. vm_compute. repeat split. Qed.

(* non-vacuity with an alias object as a member:  class N0: a: N6;  N6 = TypeAliasType("N6", "list[N0] | None")
   (orders as observed on /repo for the root N0); the routing theorem applies and the member slot is the proxy *)
Definition mBody : ty := TUnion [TSeq KList (TName 0); TNone].
Definition mE : env := fun n => match n with
  | 0 => Some (NClass {| cflavour := FDataclass; cfields := [ {| fname := 0; fty := TName 6; fdefault := None |} ]; crequired := [] |})
  | 6 => Some (NType (TRefTo mBody))
  | _ => None end.
Definition mPre : list node := [ {| ntype := TName 6; nunw := TRefTo mBody; ncyc := false |} ].
Definition mRoot : node := {| ntype := TName 0; nunw := TName 0; ncyc := false |}.
Example C05_alias_member :
  order_ok mE true (fun _ => false) [] (mPre ++ [mRoot]) = true /\
  build_root mE (fun _ => Some (mPre ++ [mRoot])) true (TName 0) = Ok (RStruct 0 [(0, RDelayed (TRefTo mBody))]) /\
  routes mE true (fun _ => false) (RStruct 0 [(0, RDelayed (TRefTo mBody))]) (TName 0).
Proof.
  assert (Ho : order_ok mE true (fun _ => false) [] (mPre ++ [mRoot]) = true) by (vm_compute; reflexivity).
  split; [exact Ho|].
  destruct (C05_build_routes mE true (fun _ => false) (fun _ => Some (mPre ++ [mRoot])) (TName 0) mPre mRoot eq_refl Ho eq_refl)
    as [r [Hb Hr]].
  assert (Hb' : build_root mE (fun _ => Some (mPre ++ [mRoot])) true (TName 0) = Ok (RStruct 0 [(0, RDelayed (TRefTo mBody))]))
    by (vm_compute; reflexivity).
  split; [exact Hb'|]. rewrite Hb' in Hb. injection Hb as <-. exact Hr.
Qed.

(* non-vacuity of the history theorems: the routine above, built once, on a history of three inputs two of which are
   distinct atoms (3 and 4) that the toy runtime declares == (atom_eq): each keeps its own conversion *)
Definition exRt : runtime :=
  {| leaf_u := fun s x => match x with PAtom a => Ok (PAtom (10 + a)) | _ => Raise EType end;
     leaf_m := fun s x => Ok x; none_u := fun x => match x with PAtom 0 => Ok x | _ => Raise EValue end;
     load_scalar := fun x => Ok x; values_scalar := fun _ => Raise EType; items_scalar := fun _ => Raise EType; unpack_scalar := fun _ => Raise EType;
     pairlike_scalar := fun _ => false; index := fun i => PAtom (100 + i); unhashable_class := fun _ => false;
     atom_eq := fun a b => (Nat.eqb a 3 && Nat.eqb b 4) || (Nat.eqb a 4 && Nat.eqb b 3);
     none := PAtom 0; suppressed := fun _ => true |}.
Definition exNode (v : nat) : pv := PDict KDict [(PKey 0, PSeq KList []); (PKey 1, PAtom v)].
Example C05_history_example :
  exists r, build_root exE (fun _ => Some (exOrder ++ [exRoot])) true (TSeq KList (TName 0)) = Ok r /\
    run_history exRt exE (fun _ => Some (exOrder ++ [exRoot])) true 20 r
      [PSeq KList [exNode 3]; PSeq KList [exNode 4]; PSeq KList [exNode 3; exNode 4]]
    = [Ok (PSeq KList [PObj 0 [(0, PSeq KList []); (1, PAtom 13)]]);
       Ok (PSeq KList [PObj 0 [(0, PSeq KList []); (1, PAtom 14)]]);
       Ok (PSeq KList [PObj 0 [(0, PSeq KList []); (1, PAtom 13)]; PObj 0 [(0, PSeq KList []); (1, PAtom 14)]])].
Proof. eexists. split; [vm_compute; reflexivity | vm_compute; reflexivity]. Qed.

Print Assumptions C05_build_routes.
Print Assumptions C05_unmarshal.
Print Assumptions C05_marshal.
Print Assumptions C05_unmarshal_history.
Print Assumptions C05_marshal_history.
Print Assumptions C05_history_position_independent.
Print Assumptions C05_unmarshal_complete.
Print Assumptions C05_marshal_complete.
Print Assumptions C05_unmarshal_equiv.
Print Assumptions C05_marshal_equiv.
Print Assumptions C05_mechanism_fuel_monotone.
Print Assumptions C05_complete_refuted_without_strict_roots.
