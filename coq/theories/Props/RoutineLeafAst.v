(* Leaf routine programs (WP routine-ast, part 3): the FIRST STEP of every leaf unmarshaller, as read off its __call__
   body, is the head Model/Serdes.v (C14) assigns to the class, and entry_gen at a leaf head is the interpretation of
   that reading; the per-kind descriptions (isinstance short-cuts, serdes functions, constructor calls, membership tests).
   Table-independent: about `lexpected k` / `mexpected k`, the programs harness/routasttie.py must translate the classes
   `class_name k` / `mclass_name k` to on every run (coq/dyn/RoutineAst/RoutineLeafXU.v, XM.v decide it).
   Theorems only (`exact lemma`) + non-vacuity examples. *)
From Coq Require Import List Arith Bool String ZArith NArith.
Import ListNotations.
Require Import TL.Model.Serdes TL.Model.RoutineLeafAst TL.Proofs.RoutineLeafAst.
Local Open Scope string_scope.

(* ---- (a) first step = head of the C14 model ---- *)
Theorem RL_first_model : forall k vals, Some (first_of (texty k) (lexpected k)) = model_first (head_of k vals).
Proof. exact first_model. Qed.
Theorem RL_decode_first_iff : forall k vals,
  decode_first (head_of k vals) = first_eqb (first_of (texty k) (lexpected k)) FDecode.
Proof. exact decode_first_iff. Qed.
Theorem RL_load_first_iff : forall k vals,
  load_first (head_of k vals) = first_eqb (first_of (texty k) (lexpected k)) FLoad.
Proof. exact load_first_iff. Qed.
(* for every runtime, remainder / whole-call functions, version of strload, leaf kind, literal values and input *)
Theorem RL_entry : forall rt rest whole sup fixd k vals v,
  lentry rt rest whole fixd (head_of k vals) (first_of (texty k) (lexpected k)) v
  = entry_gen rt rest whole sup fixd (head_of k vals) v.
Proof. exact entry_expected. Qed.
Theorem RL_entry_src : forall tb tal, leaves_agree expected_u expected_aliases_u tb tal = true ->
  forall rt rest whole sup fixd k vals v,
  lentry rt rest whole fixd (head_of k vals) (first_of (texty k) (src_leaf tb k)) v
  = entry_gen rt rest whole sup fixd (head_of k vals) v.
Proof. exact entry_src. Qed.

(* ---- (b) per-kind descriptions ---- *)
Theorem RL_steps_unm : forall k, steps (lcall (lexpected k)) = described_u k.
Proof. exact steps_unm. Qed.
Theorem RL_steps_mar : forall k, steps (lcall (mexpected k)) = described_m k.
Proof. exact steps_mar. Qed.
Theorem RL_first_of_steps : forall k,
  match first_of (texty k) (lexpected k) with
  | FDecode => first_serdes (described_u k) = Some "decode"
  | FLoad => first_serdes (described_u k) = Some "load"
  | FDecodeLoad _ | FLiteral => first_serdes (described_u k) = Some "decode"
  | FIdentity | FOpaque => first_serdes (described_u k) = None end.
Proof. exact first_of_steps. Qed.
Theorem RL_mar_not_identity : forall k, is_identity (mexpected k) = match k with MNoOp => true | _ => false end.
Proof. exact mar_identity. Qed.

(* ---- the per-run comparison is sound ---- *)
Theorem RL_leaf_eqb_sound : forall a b, leaf_eqb a b = true -> a = b.
Proof. exact leaf_eqb_sound. Qed.
Theorem RL_src_leaf : forall tb tal k,
  leaves_agree expected_u expected_aliases_u tb tal = true -> src_leaf tb k = lexpected k.
Proof. exact src_leaf_expected. Qed.

(* ---- non-vacuity: the readings distinguish the programs ---- *)
Example RL_ex_enum_swapped :     (* load before decode is not Enum's head *)
  scan false (SSeq (SSuppress (ECons (EName "ValueError") (ECons (EName "TypeError") ENil))
                      (SSeq (SReturn (ECall (EName "self.caster") (ECons (ECall (EName "serdes.load") (ECons EVal ENil)) ENil))) SSkip))
                   (SSeq (SReturn (ECall (EName "self.caster") (ECons (ECall (EName "serdes.decode") (ECons EVal ENil)) ENil))) SSkip))
  = FOpaque.
Proof. vm_compute. reflexivity. Qed.
Example RL_ex_texty_matters :    (* isinstance(val, self.t) is no raw test when self.t is a text class *)
  first_of true x_DateTimeUnmarshaller = FOpaque /\ first_of false x_DateTimeUnmarshaller = FDecode.
Proof. split; vm_compute; reflexivity. Qed.
Example RL_ex_all_firsts :
  map (fun k => first_of (texty k) (lexpected k)) all_lkinds
  = [FIdentity; FDecode; FOpaque; FDecode; FDecode; FDecode; FDecode; FDecode; FDecode; FLoad; FDecode; FLoad; FDecode;
     FDecodeLoad ["ValueError"; "TypeError"]; FLiteral].
Proof. vm_compute. reflexivity. Qed.

Print Assumptions RL_first_model.
Print Assumptions RL_decode_first_iff.
Print Assumptions RL_load_first_iff.
Print Assumptions RL_entry.
Print Assumptions RL_entry_src.
Print Assumptions RL_steps_unm.
Print Assumptions RL_steps_mar.
Print Assumptions RL_first_of_steps.
Print Assumptions RL_mar_not_identity.
Print Assumptions RL_leaf_eqb_sound.
Print Assumptions RL_src_leaf.
