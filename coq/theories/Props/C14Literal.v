(* Property C14, the Python-literal layer: "passing the Python-literal text of a wire value is equivalent to passing the
   decoded value" -- with repr and ast.literal_eval modelled character by character (Model/PyLiteral.v) instead of
   assumed (Model/Serdes.v keeps them as fields of the Runtime record with the hypothesis literal_eval (repr m) = m).
   Only theorems (closed by `exact`), non-vacuity Examples, Print Assumptions.

   py_repr pr w       the text repr(w) (pr = str.isprintable from 0x7f, a table re-read from the interpreter per run)
   literal_read       the reader: the subset of Python source ast.literal_eval accepts, whole-text checks included
   parse_text strict  the JSON reader of Model/Json.v on code points (strict = true: RFC 8259, what orjson.loads accepts)
   strload_text       serdes._strload on a str: JSON reader first, then literal_read, then the text itself
   pyv_ok w           strings are code points below 0x110000 (lone surrogates allowed), float literals are JSON numbers with
                      a fraction or an exponent (true of repr of every finite float), dict keys / set elements hashable.
                      No bound on nesting, lengths or integers.
   pyv_scalar w       no string of w has a surrogate code point (needed only where the JSON reader is compared)
   pr_law pr          a printable code point is a Unicode scalar value (true of pr_of tbl for every table) *)
From Coq Require Import List ZArith NArith Bool.
Import ListNotations.
Require Import TL.Model.Json TL.Model.PyLiteral TL.Proofs.PyLiteralLemmas.
Open Scope N_scope.

(* reader after writer: any nesting, any string, any integer; tuples, one-tuples, sets, dicts with any hashable key *)
Theorem C14Literal_read_repr : forall pr w, pr_law pr -> pyv_ok w = true -> literal_read (py_repr pr w) = Some w.
Proof. intros pr w Hpr Hok. exact (read_repr pr Hpr w Hok). Qed.

(* repr is injective on well-formed values *)
Theorem C14Literal_repr_injective : forall pr a b, pr_law pr -> pyv_ok a = true -> pyv_ok b = true ->
  py_repr pr a = py_repr pr b -> a = b.
Proof. intros pr a b Hpr. exact (repr_injective pr Hpr a b). Qed.

(* the text is source the parser takes as it is: no NUL, no surrogate, no carriage return, nothing for lstrip *)
Theorem C14Literal_repr_source_ok : forall pr w, pr_law pr -> pyv_ok w = true ->
  forallb src_ok (py_repr pr w) = true /\ norm_nl (py_repr pr w) = py_repr pr w /\ lstrip (py_repr pr w) = py_repr pr w.
Proof. intros pr w Hpr Hok. exact (repr_source_ok pr Hpr w Hok). Qed.

(* strload asks the JSON decoder FIRST: whatever a JSON reader (strict or lenient) makes of repr text is the value itself
   (e.g. [1, 2], "it's", {"it's": 1.5}) -- or it rejects the text *)
Theorem C14Literal_json_agrees_on_repr : forall pr strict w j, pyv_ok w = true -> pyv_scalar w = true ->
  parse_text strict (py_repr pr w) = Some j -> of_json j = w.
Proof. intros pr strict w j Hok Hsc H. exact (json_agrees_on_repr pr strict w j Hok Hsc H). Qed.

(* hence the composition "JSON first, then literal, then the text" returns the value on repr text *)
Theorem C14Literal_strload_repr : forall pr strict w, pr_law pr -> pyv_ok w = true -> pyv_scalar w = true ->
  strload_text strict (py_repr pr w) = LVal w.
Proof. intros pr strict w Hpr Hok Hsc. exact (strload_repr pr Hpr strict w Hok Hsc). Qed.
(* ... and in the bytes-like carriers (strload decodes first; the UTF-8 bytes of repr text decode to it) *)
Theorem C14Literal_strload_repr_bytes : forall pr strict w, pr_law pr -> pyv_ok w = true -> pyv_scalar w = true ->
  strload_bytes strict (utf8_enc (py_repr pr w)) = Some (LVal w).
Proof. intros pr strict w Hpr Hok Hsc. exact (strload_repr_bytes pr Hpr strict w Hok Hsc). Qed.

(* which repr texts are not JSON at all: everything that does not start like a JSON value (None, True, False, tuples,
   set(), str in apostrophes), and every tuple and set whatever it contains *)
Theorem C14Literal_not_json : forall pr strict w, pyv_ok w = true ->
  (json_head w = false -> parse_text strict (py_repr pr w) = None) /\
  (pyv_scalar w = true -> match w with YNone | YBool _ | YTuple _ | YSet _ => True | _ => False end ->
   parse_text strict (py_repr pr w) = None).
Proof.
  intros pr strict w Hok.
  exact (conj (not_json pr strict w Hok) (fun Hsc Hw => python_only_not_json pr strict w Hok Hsc Hw)).
Qed.

(* the unguarded statements, and why each part of the guards is there *)
Definition C14Literal_full (pr : N -> bool) : Prop := forall w, literal_read (py_repr pr w) = Some w.
Theorem C14Literal_full_refuted : forall pr, ~ C14Literal_full pr.
Proof. exact read_repr_full_refuted. Qed.
Theorem C14Literal_refuted_float_inf : literal_read (py_repr pr0 (YFloat [105; 110; 102])) = None.
Proof. exact refuted_float_inf. Qed.
Theorem C14Literal_refuted_float_token : literal_read (py_repr pr0 (YFloat [49])) = Some (YInt 1).
Proof. exact refuted_float_token. Qed.
Theorem C14Literal_refuted_unhashable :
  literal_read (py_repr pr0 (YSet [YList []])) = None /\ literal_read (py_repr pr0 (YDict [(YList [], YNone)])) = None.
Proof. exact refuted_unhashable. Qed.
Theorem C14Literal_refuted_codepoint : literal_read (py_repr pr0 (YStr [1114112])) = None.
Proof. exact refuted_codepoint. Qed.
Theorem C14Literal_refuted_pr_law : literal_read (py_repr (fun _ => true) (YStr [55296])) = None.
Proof. exact refuted_pr_law. Qed.

(* general texts: "if both readers accept a text the values agree" is FALSE, by exactly two escapes.
   the two characters backslash slash in double quotes: JSON reads a slash, Python keeps the backslash *)
Definition C14Literal_agree_full : Prop :=
  forall t j v, parse_text true t = Some j -> literal_read t = Some v -> of_json j = v.
Theorem C14Literal_general_agreement_refuted_slash :
  ~ C14Literal_agree_full /\
  parse_text true [34; 92; 47; 34] = Some (JStr [47]) /\ literal_read [34; 92; 47; 34] = Some (YStr [92; 47]).
Proof. exact (conj agree_full_refuted refuted_agree_slash). Qed.
(* a pair of surrogate escapes: JSON joins them into one astral character, Python keeps two code points; the same text is
   repr of a str holding an apostrophe and those two surrogates, so strload returns another str than was written:
   pyv_scalar is needed in C14Literal_json_agrees_on_repr / C14Literal_strload_repr *)
Theorem C14Literal_general_agreement_refuted_pair :
  (parse_text true [34; 92; 117; 100; 56; 51; 100; 92; 117; 100; 101; 48; 48; 34] = Some (JStr [128512]) /\
   literal_read [34; 92; 117; 100; 56; 51; 100; 92; 117; 100; 101; 48; 48; 34] = Some (YStr [55357; 56832])) /\
  (py_repr pr0 (YStr [39; 55357; 56832]) = [34; 39; 92; 117; 100; 56; 51; 100; 92; 117; 100; 101; 48; 48; 34] /\
   pyv_ok (YStr [39; 55357; 56832]) = true /\
   strload_text true (py_repr pr0 (YStr [39; 55357; 56832])) = LVal (YStr [39; 128512])).
Proof. exact (conj refuted_agree_pair refuted_agree_repr_surrogates). Qed.

(* non-vacuity: the law holds of every table-built printable predicate; a value with every escape class, both quote styles,
   lone surrogates, astral and non-printable characters, a 70-bit and a negative integer, floats, a one-tuple, empty
   containers, a set, a dict with tuple / int / None / str keys is inside the guard, its text computed, read back; a scalar
   value whose text is ALSO JSON with the same meaning *)
Example C14Literal_law_satisfiable : forall tbl, pr_law (pr_of tbl).
Proof. exact pr_of_law. Qed.
Definition exY : pyv :=
  YDict [(YStr [97; 39], YList [YInt 1; YInt (-20)%Z; YInt 1180591620717411303424%Z; YTuple [YNone]; YTuple []; YSet [];
                                 YSet [YInt 3; YStr []]; YFloat [49; 46; 53]; YFloat [45; 49; 101; 45; 48; 55]; YBool true; YDict []]);
         (YTuple [YInt 1; YStr [34; 39; 92; 9; 10; 13; 0; 31; 127; 128; 173; 233; 888; 8232; 55296; 65535; 128512; 917505; 1114111]], YBool false);
         (YNone, YStr [34]); (YInt 7, YTuple [YList []; YList [YTuple [YInt 2; YInt 3]]])].
Example C14Literal_hyps_satisfiable :
  pyv_ok exY = true /\ literal_read (py_repr pr0 exY) = Some exY /\
  py_repr pr0 (YTuple [YStr [34; 39; 0; 173; 128512; 917505]; YSet []; YTuple [YInt 1]]) =
    [40; 39; 34; 92; 39; 92; 120; 48; 48; 92; 120; 97; 100; 128512; 92; 85; 48; 48; 48; 101; 48; 48; 48; 49; 39; 44; 32;
     115; 101; 116; 40; 41; 44; 32; 40; 49; 44; 41; 41] /\
  pyv_scalar (YDict [(YStr [105; 116; 39; 115], YList [YFloat [49; 46; 53]; YInt 2])]) = true /\
  parse_text true (py_repr pr0 (YDict [(YStr [105; 116; 39; 115], YList [YFloat [49; 46; 53]; YInt 2])])) =
    Some (JDict [([105; 116; 39; 115], JList [JFloat [49; 46; 53]; JInt 2])]) /\
  json_head (YTuple [YInt 1]) = false.
Proof. vm_compute. repeat split; reflexivity. Qed.
Example C14Literal_both_accept_same :
  parse_text true [91; 49; 44; 32; 50; 93] = Some (JList [JInt 1; JInt 2]) /\
  literal_read [91; 49; 44; 32; 50; 93] = Some (YList [YInt 1; YInt 2]) /\
  py_repr pr0 (YStr [105; 116; 39; 115]) = [34; 105; 116; 39; 115; 34] /\
  parse_text true [34; 105; 116; 39; 115; 34] = Some (JStr [105; 116; 39; 115]) /\
  literal_read [34; 105; 116; 39; 115; 34] = Some (YStr [105; 116; 39; 115]).
Proof. exact both_accept_same. Qed.

Print Assumptions C14Literal_read_repr.
Print Assumptions C14Literal_repr_injective.
Print Assumptions C14Literal_repr_source_ok.
Print Assumptions C14Literal_json_agrees_on_repr.
Print Assumptions C14Literal_strload_repr.
Print Assumptions C14Literal_strload_repr_bytes.
Print Assumptions C14Literal_not_json.
Print Assumptions C14Literal_full_refuted.
Print Assumptions C14Literal_refuted_float_inf.
Print Assumptions C14Literal_refuted_float_token.
Print Assumptions C14Literal_refuted_unhashable.
Print Assumptions C14Literal_refuted_codepoint.
Print Assumptions C14Literal_refuted_pr_law.
Print Assumptions C14Literal_general_agreement_refuted_slash.
Print Assumptions C14Literal_general_agreement_refuted_pair.
