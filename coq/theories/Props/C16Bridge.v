(* Context bridge C16 -> C05/C07/C11/C15: the lookups of the mechanism model (Model/Build.v: getitem, ctx_get on an
   association list) are what C16's verified model of typelib.ctx.TypeContext (Model/Ctx.v: run, proved to refine
   spec_run, tied to the live class) says, at the key family of Core annotations.  Only the theorems (proofs:
   Proofs/CtxBridge.v; definitions: Model/CtxBridge.v), a non-vacuity example, and the one place where the two
   models differ (a stale memo entry after an overwrite) with what it means for the routing theorems. *)
From Coq Require Import List Arith Bool.
Import ListNotations.
Require Import TL.Model.Ctx TL.Proofs.CtxLemmas.
Require Import TL.Model.Core TL.Model.Build TL.Proofs.BuildLemmas.
Require Import TL.Model.CtxBridge TL.Proofs.CtxBridge.

(* Core annotations with Build's is_ref / unwrap / fref (made total: fref_tot), evaluate (names_ty r k = "r evaluates to
   k") and ty_eqb are a key family in the sense of C16: every law holds, none fails.
   inspection.unwrap goes through the alias objects of the environment (Build.unwrap E: `type N = ...` peeled,
   a string-valued alias replaced by the reference to its text), so there is one family per environment E; the laws
   hold for every E, recursive aliases included (unwrap is idempotent: BuildLemmas.unwrap_idem). *)
Theorem C16B_key_laws : forall E : env, key_laws ty ty_eqb is_ref (unwrap E) fref_tot names_ty.
Proof. exact ty_key_laws. Qed.

(* Build's pure lookup IS C16's specification lookup on the dict the context denotes (all contexts, overwrites
   included: ctx_set shadows, dict.__setitem__ replaces), for contexts whose reference keys are ones
   refs.forwardref can build (keys_wf, computable). *)
Theorem C16B_getitem_is_spec_lookup : forall (E : env) (cx : ctx) (k : ty),
  keys_wf cx = true ->
  getitem E cx k = match cspec_lookup E (state_of cx) k with Some r => Core.Ok r | None => Core.Raise EKey end.
Proof. exact getitem_spec. Qed.

(* What the scan of the repaired __missing__ (a stored reference that EVALUATES to the key, whatever module it was
   written in) means here: nothing new.  Build.v is module-blind -- TRef c stands for every ForwardRef naming class
   c -- so on a context whose reference keys are canonical (keys_wf) a stored reference evaluating to k is
   forwardref(k) itself, which the step before has just missed.  Build.getitem (unchanged: three routes) therefore
   still IS the specification lookup with its fourth route; before the repair it was the real class that was narrower
   than Build.v (it missed the reference written in an importing module, which Build.v cannot tell apart). *)
Theorem C16B_scan_adds_nothing : forall (E : env) (S : cst) (cx : ctx) (k : ty),
  (forall k', cfind S k' = find_key k' cx) -> keys_wf cx = true -> find_key (fref_tot k) cx = None ->
  Ctx.first_named ty routine is_ref names_ty S k = None.
Proof. exact no_foreign. Qed.

(* After ANY history allowed by C16's ops_ok (insertions of fresh keys, lookups, `in`; lookups of the real class
   write memo entries), context[k] on the real class's model shows exactly what Build's getitem computes on the
   context holding the history's insertions: the value, or KeyError. *)
Theorem C16B_item : forall (E : env) (fuel : nat) (ops : list cop) (k : ty),
  1 <= fuel -> cops_ok E [] ops = true -> keys_wf (ctx_of ops []) = true ->
  crun E fuel [] (ops ++ [OItem k]) = cspec_run E [] ops ++ [out_item (getitem E (ctx_of ops []) k)].
Proof. exact run_item_is_getitem. Qed.

(* context.get(k, d) likewise is Build's ctx_get with the default *)
Theorem C16B_get : forall (E : env) (fuel : nat) (ops : list cop) (k : ty) (d : routine),
  1 <= fuel -> cops_ok E [] ops = true -> keys_wf (ctx_of ops []) = true ->
  crun E fuel [] (ops ++ [OGet k d]) = cspec_run E [] ops ++ [out_get (ctx_get E (ctx_of ops []) k) d].
Proof. exact run_get_is_ctx_get. Qed.

(* the same as two equivalences, for a context given as the list of its ctx_sets (each ctx_set k r = OSet k r) *)
Theorem C16B_getitem_iff : forall (E : env) (fuel : nat) (cx : ctx) (k : ty) (r : routine),
  1 <= fuel -> cops_ok E [] (sets_of cx) = true -> keys_wf cx = true ->
  (getitem E cx k = Core.Ok r <-> last (crun E fuel [] (sets_of cx ++ [OItem k])) OOther = OVal r) /\
  ((exists e, getitem E cx k = Core.Raise e) <-> last (crun E fuel [] (sets_of cx ++ [OItem k])) OOther = OKeyError).
Proof. exact getitem_iff_run. Qed.

(* The factory DOES overwrite keys (context[node.type] = ... for a key a deferred node stored before), which C16's
   write-once guard excludes and where the real class can return a stale memo entry that Build's memo-free getitem
   does not model (C16B_stale_memo below).  The routing theorems do not depend on that: for EVERY history of the
   real class's model -- overwrites, memo writes, any fuel -- in which each inserted routine routes its key, every
   routine handed out by context[k] routes k, and context.get(k, d) hands out such a routine or d. *)
Theorem C16B_routes_any_history : forall (E : env) (dir : bool) (noop_leaf : nat -> bool)
    (fuel : nat) (ops : list cop) (c : cst),
  st_ok E dir noop_leaf c ->
  (forall k v, In (OSet k v) ops -> routes E dir noop_leaf v k) ->
  outs_route E dir noop_leaf ops (crun E fuel c ops).
Proof. exact run_routes. Qed.

(* ---- non-vacuity: a context with a NewType key, an alias key, a forward-reference key and a leaf ---- *)
Definition xE0 : env := fun _ => None.
Definition xNT : ty := TNewType 1 (TLeaf 0).
Definition xAL : ty := TAlias 2 (TSeq KList (TLeaf 0)).
Definition xcx : ctx :=
  [ (TRef 0, RDelayed (TRef 0)); (xAL, RSeq KList (RLeaf 0)); (xNT, RLeaf 0); (TLeaf 3, RLeaf 3) ].
Example C16B_hyps_satisfiable :
  cops_ok xE0 [] (sets_of xcx) = true /\ keys_wf xcx = true /\
  (* direct hits, the unwrap route (Final of a NewType of leaf 3), the reference route (the class named by TRef 0),
     a miss, a missed reference *)
  crun xE0 2 [] (sets_of xcx ++ [OItem xNT; OItem xAL; OItem (TRef 0); OItem (TFinal (TNewType 9 (TLeaf 3)));
                              OItem (TName 0); OItem (TName 5); OItem (TRef 5)])
  = [OUnit; OUnit; OUnit; OUnit; OVal (RLeaf 0); OVal (RSeq KList (RLeaf 0)); OVal (RDelayed (TRef 0));
     OVal (RLeaf 3); OVal (RDelayed (TRef 0)); OKeyError; OKeyError] /\
  map (getitem xE0 xcx) [xNT; xAL; TRef 0; TFinal (TNewType 9 (TLeaf 3)); TName 0; TName 5; TRef 5]
  = [Core.Ok (RLeaf 0); Core.Ok (RSeq KList (RLeaf 0)); Core.Ok (RDelayed (TRef 0)); Core.Ok (RLeaf 3);
     Core.Ok (RDelayed (TRef 0)); Core.Raise EKey; Core.Raise EKey].
Proof. vm_compute. repeat split. Qed.

(* ---- where the models differ: overwrite after a memo write -------------------------------------- *)
(* context[C] = proxy; context[NT]  (missing: found through unwrap, MEMOISED under NT); context[C] = real;
   context[NT]: the real class answers the stale proxy, Build's getitem (no memo) the real routine.
   Both route NT (C16B_routes_any_history); replayed on typelib.ctx.TypeContext: the class returns the proxy. *)
Definition sC : ty := TName 0.
Definition sNT : ty := TNewType 1 (TName 0).
Definition sProxy : routine := RDelayed (TName 0).
Definition sReal : routine := RStruct 0 [].
Definition sOps : list cop := [OSet sC sProxy; OItem sNT; OSet sC sReal].
Theorem C16B_stale_memo :
  cops_ok xE0 [] sOps = false /\
  crun xE0 2 [] (sOps ++ [OItem sNT]) = [OUnit; OVal sProxy; OUnit; OVal sProxy] /\
  getitem xE0 (ctx_of sOps []) sNT = Core.Ok sReal.
Proof. vm_compute. repeat split. Qed.

(* ---- what keys_wf excludes since the scan exists: a second spelling of a reference ------------------------ *)
(* TRefTo (TName 0) evaluates to the class TName 0 like TRef 0 does, but is not forwardref(TName 0) = TRef 0: the
   real class (scan) finds the value stored under it, Build's three-route getitem does not. *)
Theorem C16B_second_spelling :
  keys_wf [(TRefTo (TName 0), RLeaf 3)] = false /\
  crun xE0 1 [] [OSet (TRefTo (TName 0)) (RLeaf 3); OItem (TName 0)] = [OUnit; OVal (RLeaf 3)] /\
  getitem xE0 [(TRefTo (TName 0), RLeaf 3)] (TName 0) = Core.Raise EKey.
Proof. vm_compute. repeat split. Qed.

(* ---- alias objects of the environment in the key family ------------------------------------------------------ *)
(* N8 is a value alias (`type N8 = list[int]`), N7 a recursive string-valued alias (`N7 = TypeAliasType("N7",
   "list[N7] | None")`: its value is the reference to what the text evaluates to).  The context holds the entries
   the factory stores for the nodes list[int] and N7 (type and unwrapped form).  Asking for the alias N8, or for a
   NewType of it, goes the unwrap route THROUGH the alias object; asking for a NewType of N7 finds the proxy stored
   under the reference N7 unwraps to.  Both models agree -- although keys_wf does not hold of this context: the
   reference of a compound text is not one refs.forwardref builds from a NAMED object (fref = None), which is the
   only thing keys_wf knows; C16B_getitem_is_spec_lookup is therefore not applicable to contexts holding the node
   of a string-valued alias with a compound body, C16B_routes_any_history is (it has no such guard). *)
Definition aBody : ty := TUnion [TSeq KList (TName 7); TNone].
Definition aE : env := fun n => match n with
  | 7 => Some (NType (TRefTo aBody)) | 8 => Some (NType (TSeq KList (TLeaf 0))) | _ => None end.
Definition acx : ctx :=
  [ (TRefTo aBody, RDelayed (TRefTo aBody)); (TName 7, RDelayed (TRefTo aBody));
    (TSeq KList (TLeaf 0), RSeq KList (RLeaf 0)); (TLeaf 0, RLeaf 0) ].
Example C16B_alias_objects :
  unwrap aE (TName 8) = TSeq KList (TLeaf 0) /\ unwrap aE (TNewType 1 (TName 7)) = TRefTo aBody /\
  keys_wf acx = false /\ keys_wf (skipn 2 acx) = true /\
  crun aE 2 [] (sets_of acx ++ [OItem (TName 8); OItem (TNewType 3 (TName 8)); OItem (TNewType 1 (TName 7)); OItem (TName 9)])
  = [OUnit; OUnit; OUnit; OUnit; OVal (RSeq KList (RLeaf 0)); OVal (RSeq KList (RLeaf 0)); OVal (RDelayed (TRefTo aBody)); OKeyError] /\
  map (getitem aE acx) [TName 8; TNewType 3 (TName 8); TNewType 1 (TName 7); TName 9]
  = [Core.Ok (RSeq KList (RLeaf 0)); Core.Ok (RSeq KList (RLeaf 0)); Core.Ok (RDelayed (TRefTo aBody)); Core.Raise EKey] /\
  (* without the environment the alias name is opaque: the old, structural unwrap misses *)
  getitem xE0 acx (TName 8) = Core.Raise EKey.
Proof. vm_compute. repeat split. Qed.

Print Assumptions C16B_key_laws.
Print Assumptions C16B_scan_adds_nothing.
Print Assumptions C16B_second_spelling.
Print Assumptions C16B_getitem_is_spec_lookup.
Print Assumptions C16B_item.
Print Assumptions C16B_get.
Print Assumptions C16B_getitem_iff.
Print Assumptions C16B_routes_any_history.
Print Assumptions C16B_stale_memo.
