(* Source translator tie of typelib/serdes.py, part 2 (decode / load / strload / _strload vs Model/Serdes.v) --
   table-independent theorems.  Model: Model/SerdesAstLoad.v, scripts: Proofs/SerdesAstLoadLemmas.v.
   The theorems about the code translated on a run are in dyn/SerdesAst/SerdesAstLoad.v. *)
From Coq Require Import List Bool NArith ZArith.
Import ListNotations.
Require Import TL.Model.Serdes TL.Model.SerdesAstLoad TL.Proofs.SerdesAstLoadLemmas.

(* the six descriptors are all there is *)
Theorem SerdesAstLoad_desc_complete : forall v, In (desc_of v) all_tdesc.
Proof. exact desc_in. Qed.

Theorem SerdesAstLoad_load_sound : forall l d, lladder_ok l d = true -> forall rt v, load_src l d rt v = load rt v.
Proof. exact lladder_sound. Qed.

Theorem SerdesAstLoad_strload_sound : forall P, slprog_ok P = true ->
  forall rt k p, strload_src P (strload_body rt true) k p = strload rt k p.
Proof. exact slprog_sound. Qed.

(* attempt lists that agree step by step (suppressed sets compared as sets of exception kinds) run alike *)
Theorem SerdesAstLoad_equiv_run : forall P Q, sprog_equiv P Q = true ->
  forall rt k p, run_sprog rt P k p = run_sprog rt Q k p.
Proof. exact sprog_equiv_run. Qed.

(* decode, JSON on the text, literal_eval on the text, the text: the repaired memoised body *)
Theorem SerdesAstLoad_body_dec : forall P, sprog_equiv P canonical_dec = true ->
  forall rt k p, run_sprog rt P k p = strload_body rt true k p.
Proof. exact sprog_sound_dec. Qed.

(* JSON on the raw carrier first: the body before C14-strload-decode-first.diff *)
Theorem SerdesAstLoad_body_raw : forall P, sprog_equiv P canonical_raw = true ->
  forall rt k p, run_sprog rt P k p = strload_body_raw rt true k p.
Proof. exact sprog_sound_raw. Qed.

Theorem SerdesAstLoad_decode_sound : forall P, dprog_ok P = true -> forall rt v, decode_src P rt v = decode rt v.
Proof. exact dprog_sound. Qed.

Theorem SerdesAstLoad_refuted_raw_json :
  sprog_equiv canonical_raw canonical_dec = false /\
  run_sprog (toy_rt (Raise EValue)) canonical_raw CBytes [] = Ok (PInt 1%Z) /\
  strload_body (toy_rt (Raise EValue)) true CBytes [] = Ok (PStr []).
Proof. exact raw_json_refuted. Qed.

Theorem SerdesAstLoad_refuted_dropped_kind :
  sprog_equiv prog_no_recursion canonical_dec = false /\
  run_sprog (toy_rt (Raise ERecursion)) prog_no_recursion CStr [] = Raise ERecursion /\
  strload_body (toy_rt (Raise ERecursion)) true CStr [] = Ok (PStr []).
Proof. exact dropped_kind_refuted. Qed.

Theorem SerdesAstLoad_refuted_no_normalisation :
  slprog_ok {| sl_conv := []; sl_conv_d := NKeep; sl_memo := true |} = false /\
  strload_pre {| sl_conv := []; sl_conv_d := NKeep; sl_memo := true |} CBytearray = Raise EType.
Proof. exact no_normalisation_refuted. Qed.

Example SerdesAstLoad_satisfiable :
  lladder_ok good_lladder LIdentity = true /\ slprog_ok good_slprog = true /\ dprog_ok good_dprog = true /\
  sprog_equiv canonical_dec canonical_dec = true.
Proof. exact good_progs_ok. Qed.
Example SerdesAstLoad_sup_order_irrelevant :
  sup_equiv [XSyntaxError; XRecursionError; XUnicodeError; XTypeError; XValueError; XMemoryError] literal_errors = true.
Proof. exact sup_order_irrelevant. Qed.

Print Assumptions SerdesAstLoad_desc_complete.
Print Assumptions SerdesAstLoad_load_sound.
Print Assumptions SerdesAstLoad_strload_sound.
Print Assumptions SerdesAstLoad_equiv_run.
Print Assumptions SerdesAstLoad_body_dec.
Print Assumptions SerdesAstLoad_body_raw.
Print Assumptions SerdesAstLoad_decode_sound.
Print Assumptions SerdesAstLoad_refuted_raw_json.
Print Assumptions SerdesAstLoad_refuted_dropped_kind.
Print Assumptions SerdesAstLoad_refuted_no_normalisation.
