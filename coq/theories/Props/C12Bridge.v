(* Cache bridge C12 <-> core value model (WP-J).

   Every other value property (C01 C03 C05 C06 C07 C08 C11 C13 C14 C15) is proved of STATELESS functions --
   Core.unm / Core.mar and Build.build_root / Build.api_call -- as if typelib had no caches.  This file says that
   the stateless functions are a sound abstraction of the cached system: for every history of public operations
   (build a routine / a codec, unmarshal, marshal, encode, decode, codec encode / decode, the caller mutating what
   it was handed, cache_clear of everything or of one function), over ANY runtime, class environment and node-order
   function, the memoised system (Model/CacheBridge.v: six memo tables keyed as functools keys them, serdes.load
   through the strload memo, Delayed proxies through the factory memo) answers at every step what the stateless
   mechanism answers for that operation alone -- inside the computable guard clean_hist:

       no cache hit of the history returned an entry stored under a key that is == but not identical
       (both member orders of one union at any nesting level: KF-C12-union-order); no memo-owned object was
       changed by a caller (cannot happen when strload copies: alias_load = false, /repo HEAD).

   Outside the guard the statement is false of the faithful model (witnesses below; Props/C12.v's own witnesses are
   the same histories in Cache.v's universe).  Only theorems (exact <lemma>), examples, Print Assumptions. *)
From Coq Require Import List NArith Arith Bool.
Import ListNotations.
Require Import TL.Model.Core TL.Model.Build TL.Proofs.CoreMono TL.Proofs.BuildLemmas TL.Proofs.BuildSemLemmas.
Require TL.Model.Cache TL.Model.CacheToy TL.Proofs.CacheLemmas TL.Props.C05 TL.Props.C12.
Require TL.Model.CoreC01 TL.Model.CoreC03 TL.Proofs.CoreC03 TL.Model.CoreValid TL.Model.BuildTables.
Require Import TL.Model.CacheBridge TL.Proofs.CacheBridge.

(* ================================================================== the generic construction *)
(* a functools cache (any key comparison, any lru bound, entries evicted at will) in front of a body that itself runs
   in the state monad -- it may consult other caches -- and refines f under the invariant: the cached function
   refines f at k as long as no hit met a different key.  Inv is any invariant the table lens respects. *)
Theorem C12Bridge_cached_refines :
  forall (St K V : Type) (bad : St -> bool) (Inv : St -> Prop)
         (eqv same : K -> K -> bool) (max : option N)
         (get : St -> list (K * V)) (set : St -> list (K * V) -> St) (flag : St -> bool -> St)
         (f : K -> V) (body : K -> M St V) (k : K),
    (forall k k', same k k' = true -> k = k') ->
    (forall s t, bad (set s t) = bad s) -> (forall s b, bad (flag s b) = bad s || b) ->
    (forall s b, Inv s -> Inv (flag s b)) ->
    (forall s, Inv s -> Forall (fun e => snd e = f (fst e)) (get s)) ->
    (forall s t, Inv s -> Forall (fun e => snd e = f (fst e)) t -> Inv (set s t)) ->
    SoundM bad Inv (body k) (f k) ->
    SoundM bad Inv (mcached eqv same max get set flag body k) (f k).
Proof.
  intros St K V bad Inv eqv same max get set flag f body k Hs Hb1 Hb2 Hi1 Hi2 Hi3 Hbody.
  exact (Sound_mcached bad Inv eqv same max get set flag (fun e => snd e = f (fst e)) Hs Hb1 Hb2 Hi1 Hi2 Hi3 f body k
           (fun e => conj (fun H => H) (fun H => H)) Hbody).
Qed.

(* a memoised system whose clean steps keep an invariant and answer like the stateless family F answers like F on
   every clean history *)
Theorem C12Bridge_system_refines :
  forall (Op Out View : Type) (S : memo_system Op Out View) (F : View -> Op -> Out) (Inv : ms_state S -> Prop),
    (forall s o, Inv s -> ms_bad S (fst (ms_step S s o)) = false ->
       Inv (fst (ms_step S s o)) /\ snd (ms_step S s o) = F (ms_view S s) o) ->
    forall h s, Inv s -> ms_clean S s h = true -> ms_outs S s h = ms_spec_outs S F s h.
Proof. intros Op Out View S F Inv H h s. exact (refines_history S F Inv H h s). Qed.

(* ================================================================== the soundness theorem *)
(* Build.run with every cache in the way is Build.run *)
Theorem C12Bridge_run :
  forall rt E orders uw_fuel is_text max_load fuel d r x s,
    CInv rt E orders s ->
    c_bad (snd (runS rt E orders uw_fuel is_text max_load d fuel r x s)) = false ->
    CInv rt E orders (snd (runS rt E orders uw_fuel is_text max_load d fuel r x s)) /\
    fst (runS rt E orders uw_fuel is_text max_load d fuel r x s) = run rt E orders d fuel r x.
Proof. intros rt E orders uw_fuel is_text max_load fuel d r x. exact (runS_sound rt E orders uw_fuel is_text max_load fuel d r x). Qed.

(* one operation, from any state the invariant holds in (every reachable clean state) *)
Theorem C12Bridge_step :
  forall rt E orders uw_fuel is_text max_load alias_load enc dec byteslike fuel s o,
    CInv rt E orders s ->
    c_bad (fst (stepS rt E orders uw_fuel is_text max_load alias_load enc dec byteslike fuel s o)) = false ->
    CInv rt E orders (fst (stepS rt E orders uw_fuel is_text max_load alias_load enc dec byteslike fuel s o)) /\
    snd (stepS rt E orders uw_fuel is_text max_load alias_load enc dec byteslike fuel s o) =
    spec_op rt E orders enc dec byteslike fuel o.
Proof. exact stepS_ok. Qed.

(* THE theorem: every history inside the guard, every runtime / environment / node-order function / wire coder / lru
   bound / graph depth / fuel: the cached system's outputs are the stateless model's, operation by operation *)
Theorem C12Bridge_sound :
  forall rt E orders uw_fuel is_text max_load alias_load enc dec byteslike fuel h,
    clean_hist rt E orders uw_fuel is_text max_load alias_load enc dec byteslike fuel cinit h = true ->
    outsS rt E orders uw_fuel is_text max_load alias_load enc dec byteslike fuel cinit h =
    map (spec_op rt E orders enc dec byteslike fuel) h.
Proof. exact history_sound. Qed.

(* ... in particular the k-th call of a history is a function of that call alone *)
Theorem C12Bridge_kth_call :
  forall rt E orders uw_fuel is_text max_load alias_load enc dec byteslike fuel h k o,
    clean_hist rt E orders uw_fuel is_text max_load alias_load enc dec byteslike fuel cinit h = true ->
    nth_error h k = Some o ->
    nth_error (outsS rt E orders uw_fuel is_text max_load alias_load enc dec byteslike fuel cinit h) k =
    Some (spec_op rt E orders enc dec byteslike fuel o).
Proof. exact history_nth. Qed.

(* C12's own statement for the core system: the k-th call answers what the same call answers alone in a fresh process
   (warm = cold), and what it answers at any position of any other history inside the guard *)
Theorem C12Bridge_warm_is_cold :
  forall rt E orders uw_fuel is_text max_load alias_load enc dec byteslike fuel h k o,
    clean_hist rt E orders uw_fuel is_text max_load alias_load enc dec byteslike fuel cinit h = true ->
    nth_error h k = Some o ->
    clean_hist rt E orders uw_fuel is_text max_load alias_load enc dec byteslike fuel cinit [o] = true ->
    nth_error (outsS rt E orders uw_fuel is_text max_load alias_load enc dec byteslike fuel cinit h) k =
    nth_error (outsS rt E orders uw_fuel is_text max_load alias_load enc dec byteslike fuel cinit [o]) 0.
Proof. exact history_warm_is_cold. Qed.
Theorem C12Bridge_position_free :
  forall rt E orders uw_fuel is_text max_load alias_load enc dec byteslike fuel h h' i j o,
    clean_hist rt E orders uw_fuel is_text max_load alias_load enc dec byteslike fuel cinit h = true ->
    clean_hist rt E orders uw_fuel is_text max_load alias_load enc dec byteslike fuel cinit h' = true ->
    nth_error h i = Some o -> nth_error h' j = Some o ->
    nth_error (outsS rt E orders uw_fuel is_text max_load alias_load enc dec byteslike fuel cinit h) i =
    nth_error (outsS rt E orders uw_fuel is_text max_load alias_load enc dec byteslike fuel cinit h') j.
Proof. exact history_position_free. Qed.

(* ... and, the node orders satisfying C05's contract, it is the reference semantics "each member by its own type's
   rules" of that call: whatever terminal result the k-th unmarshal / marshal of the history handed out is Core.unm /
   Core.mar of its own (annotation, input), for all sufficiently large fuel *)
Theorem C12Bridge_unmarshal_is_reference :
  forall rt E orders uw_fuel is_text max_load alias_load enc dec byteslike noop_leaf,
    TL.Props.C05.orders_contract E true noop_leaf orders ->
    (forall s x, noop_leaf s = true -> leaf_u rt s x = Ok x) ->
    forall fuel h k t x r,
      clean_hist rt E orders uw_fuel is_text max_load alias_load enc dec byteslike fuel cinit h = true ->
      nth_error h k = Some (CUnmarshal t x) ->
      nth_error (outsS rt E orders uw_fuel is_text max_load alias_load enc dec byteslike fuel cinit h) k = Some (COVal r) ->
      done r = true ->
      exists m, forall m', m' >= m -> unm rt E m' t x = r.
Proof.
  intros rt E orders uw_fuel is_text max_load alias_load enc dec byteslike noop_leaf Ho Hn.
  exact (history_unm_obs rt E orders uw_fuel is_text max_load alias_load enc dec byteslike noop_leaf Ho Hn).
Qed.
Theorem C12Bridge_marshal_is_reference :
  forall rt E orders uw_fuel is_text max_load alias_load enc dec byteslike noop_leaf,
    TL.Props.C05.orders_contract E false noop_leaf orders ->
    (forall s x, noop_leaf s = true -> leaf_m rt s x = Ok x) ->
    forall fuel h k t x r,
      clean_hist rt E orders uw_fuel is_text max_load alias_load enc dec byteslike fuel cinit h = true ->
      nth_error h k = Some (CMarshal t x) ->
      nth_error (outsS rt E orders uw_fuel is_text max_load alias_load enc dec byteslike fuel cinit h) k = Some (COVal r) ->
      done r = true ->
      exists m, forall m', m' >= m -> mar rt E m' t x = r.
Proof.
  intros rt E orders uw_fuel is_text max_load alias_load enc dec byteslike noop_leaf Ho Hn.
  exact (history_mar_obs rt E orders uw_fuel is_text max_load alias_load enc dec byteslike noop_leaf Ho Hn).
Qed.

(* the contract itself is what the ties decide on every observed order table (BuildTables.orders_hyps_ok) *)
Theorem C12Bridge_contract_from_tables :
  forall E noops tbl dir, TL.Model.BuildTables.orders_hyps_ok E noops tbl = true ->
    TL.Props.C05.orders_contract E dir (fun s => existsb (Nat.eqb s) noops) (fun k => TL.Model.BuildTables.lookup_ty k tbl).
Proof. intros E noops tbl dir H t ns. exact (orders_hyps_ok_sound E noops tbl H dir t ns). Qed.

(* ================================================================== the stateless value theorems in any history *)
(* C01: what the i-th call of a history marshalled, the j-th call -- earlier or later, whatever ran in between,
   whichever caches were warm -- unmarshals back to the value *)
Theorem C01_roundtrip_in_any_history :
  forall rt E orders uw_fuel is_text max_load alias_load enc dec byteslike noop_leaf,
    TL.Props.C05.orders_contract E true noop_leaf orders -> TL.Props.C05.orders_contract E false noop_leaf orders ->
    (forall s x, noop_leaf s = true -> leaf_u rt s x = Ok x) -> (forall s x, noop_leaf s = true -> leaf_m rt s x = Ok x) ->
    forall lv, TL.Model.CoreC01.RoundLaws rt lv ->
    forall fuel h, clean_hist rt E orders uw_fuel is_text max_load alias_load enc dec byteslike fuel cinit h = true ->
    forall i j n T v w r,
      nth_error h i = Some (CMarshal T v) ->
      nth_error (outsS rt E orders uw_fuel is_text max_load alias_load enc dec byteslike fuel cinit h) i = Some (COVal (Ok w)) ->
      TL.Model.CoreC01.valid rt lv E n T v = true -> TL.Model.CoreC01.c01_guard rt E n T v = true ->
      TL.Model.CoreC01.union_unamb rt lv E n T v = true -> done (mar rt E n T v) = true ->
      nth_error h j = Some (CUnmarshal T w) ->
      nth_error (outsS rt E orders uw_fuel is_text max_load alias_load enc dec byteslike fuel cinit h) j = Some (COVal r) ->
      done r = true ->
      r = Ok v.
Proof.
  intros rt E orders uw_fuel is_text max_load alias_load enc dec byteslike noop_leaf Hu Hm Hnu Hnm.
  exact (C01_roundtrip_hist rt E orders uw_fuel is_text max_load alias_load enc dec byteslike noop_leaf Hu Hm Hnu Hnm).
Qed.

(* C03: whatever value any unmarshal call of any history hands out conforms to the annotation of that call *)
Theorem C03_conforms_in_any_history :
  forall rt E orders uw_fuel is_text max_load alias_load enc dec byteslike noop_leaf,
    TL.Props.C05.orders_contract E true noop_leaf orders ->
    (forall s x, noop_leaf s = true -> leaf_u rt s x = Ok x) ->
    forall leaf_ok, TL.Proofs.CoreC03.LeafLaws rt leaf_ok -> TL.Proofs.CoreC03.wf_env E ->
    forall fuel h, clean_hist rt E orders uw_fuel is_text max_load alias_load enc dec byteslike fuel cinit h = true ->
    forall k T x v,
      nth_error h k = Some (CUnmarshal T x) ->
      nth_error (outsS rt E orders uw_fuel is_text max_load alias_load enc dec byteslike fuel cinit h) k = Some (COVal (Ok v)) ->
      exists n, TL.Model.CoreC03.conforms rt E leaf_ok n T v = true.
Proof.
  intros rt E orders uw_fuel is_text max_load alias_load enc dec byteslike noop_leaf Hu Hnu.
  exact (C03_conforms_hist rt E orders uw_fuel is_text max_load alias_load enc dec byteslike noop_leaf Hu Hnu).
Qed.

(* C13: an already valid value passes through the k-th call of any history unchanged ... *)
Theorem C13_passthrough_in_any_history :
  forall rt E orders uw_fuel is_text max_load alias_load enc dec byteslike noop_leaf,
    TL.Props.C05.orders_contract E true noop_leaf orders ->
    (forall s x, noop_leaf s = true -> leaf_u rt s x = Ok x) ->
    forall lv, TL.Model.CoreValid.PassLaws rt lv -> TL.Model.CoreValid.wf_env E ->
    forall fuel h, clean_hist rt E orders uw_fuel is_text max_load alias_load enc dec byteslike fuel cinit h = true ->
    forall k n T v r,
      nth_error h k = Some (CUnmarshal T v) ->
      nth_error (outsS rt E orders uw_fuel is_text max_load alias_load enc dec byteslike fuel cinit h) k = Some (COVal r) ->
      done r = true ->
      TL.Model.CoreValid.optional_only E n T = true -> TL.Model.CoreValid.valid lv rt E n T v = true ->
      r = Ok v.
Proof.
  intros rt E orders uw_fuel is_text max_load alias_load enc dec byteslike noop_leaf Hu Hnu.
  exact (C13_passthrough_hist rt E orders uw_fuel is_text max_load alias_load enc dec byteslike noop_leaf Hu Hnu).
Qed.
(* ... and what call i returned, call j of the same history returns unchanged *)
Theorem C13_idempotent_in_any_history :
  forall rt E orders uw_fuel is_text max_load alias_load enc dec byteslike noop_leaf,
    TL.Props.C05.orders_contract E true noop_leaf orders ->
    (forall s x, noop_leaf s = true -> leaf_u rt s x = Ok x) ->
    TL.Model.CoreValid.IdemLaws rt -> TL.Model.CoreValid.wf_env E -> TL.Model.CoreValid.DefaultsConform rt E ->
    forall T, (forall k, TL.Model.CoreValid.optional_only E k T = true) ->
    forall fuel h, clean_hist rt E orders uw_fuel is_text max_load alias_load enc dec byteslike fuel cinit h = true ->
    forall i j x y r,
      nth_error h i = Some (CUnmarshal T x) ->
      nth_error (outsS rt E orders uw_fuel is_text max_load alias_load enc dec byteslike fuel cinit h) i = Some (COVal (Ok y)) ->
      nth_error h j = Some (CUnmarshal T y) ->
      nth_error (outsS rt E orders uw_fuel is_text max_load alias_load enc dec byteslike fuel cinit h) j = Some (COVal r) ->
      done r = true ->
      r = Ok y.
Proof.
  intros rt E orders uw_fuel is_text max_load alias_load enc dec byteslike noop_leaf Hu Hnu.
  exact (C13_idempotent_hist rt E orders uw_fuel is_text max_load alias_load enc dec byteslike noop_leaf Hu Hnu).
Qed.

(* ================================================================== Model/Cache.v is an instance *)
(* every cached function of C12's machine is the generic construction with its own lens ... *)
Theorem C12Bridge_cache_v_instances :
  (forall a s, KC.get_uw a s =
     match a with
     | KC.AS _ | KC.ABareList | KC.ABareDict => (a, s)
     | _ => mcached KC.key_eq KC.ann_eqb None KC.t_uw KC.set_uw KC.flag (fun a s => (a, s)) a s
     end) /\
  (forall a s, KC.get_so a s =
     mcached KC.key_eq KC.ann_eqb None KC.t_so KC.set_so KC.flag (fun a s => KC.resolve (KC.depth a) a s) a s) /\
  (forall kw a s, KC.get_um kw a s =
     mcached (KC.kw_eq KC.key_eq) (KC.kw_eq KC.ann_eqb) None KC.t_um KC.set_um KC.flag (fun k s => KC.get_so (snd k) s) (kw, a) s) /\
  (forall kw a s, KC.get_mm kw a s =
     mcached (KC.kw_eq KC.key_eq) (KC.kw_eq KC.ann_eqb) None KC.t_mm KC.set_mm KC.flag (fun k s => KC.get_so (snd k) s) (kw, a) s) /\
  (forall a s, KC.get_cd a s =
     mcached KC.key_eq KC.ann_eqb None KC.t_cd KC.set_cd KC.flag
       (fun a s => let (m, s1) := KC.get_mm true a s in let (u, s2) := KC.get_um true a s1 in ((m, u), s2)) a s) /\
  (forall W a s, KC.iso_w W a s =
     if negb (KC.w_isdelta W a) then (KC.w_iso W a, s)
     else mcached_opt (KC.atom_eqv W) N.eqb (KC.w_max_iso W) KC.t_iso KC.set_iso KC.flag kres_proj (@KC.Ok N)
                      (fun a s => (KC.w_iso W a, s)) a s) /\
  (forall W k s, KC.parse_w W k s =
     mcached_opt (KC.ps_eq W) KC.ps_same (KC.w_max_parse W) KC.t_parse KC.set_parse KC.flag kres_proj (@KC.Ok N)
                 (fun k s => (KC.w_parse W (fst k) (snd k), s)) k s) /\
  (forall W x s, KC.load_w W x s =
     match x with
     | KC.VA a =>
         if KC.w_text W a then
           let (cv, s') := mcached (KC.atom_eqv W) N.eqb (KC.w_max_load W) KC.t_load (fun s t => KC.set_load s t (KC.ncell s)) KC.flag
                                   (c12_load_body W) a s in
           (KC.erase (snd cv), s')
         else (x, s)
     | _ => (x, s)
     end).
Proof.
  exact (conj c12_get_uw_instance (conj c12_get_so_instance (conj c12_get_um_instance (conj c12_get_mm_instance
        (conj c12_get_cd_instance (conj c12_iso_instance (conj c12_parse_instance c12_load_instance))))))).
Qed.

(* ... and its machine refines its own stateless reading KC.spec by the same generic history theorem (the guard is
   C12's clean_from) *)
Theorem C12Bridge_cache_v_refines :
  forall W h, KC.clean_from W KC.init h = true ->
    ms_outs (c12_system W) KC.init h = ms_spec_outs (c12_system W) (KC.spec W) KC.init h.
Proof. exact c12_system_refines_guard. Qed.

(* ================================================================== the guard is necessary *)
Definition C12Bridge_full : Prop := bridge_full_stmt.

(* KF-C12-union-order in core terms (toy runtime: atoms 1 = int 5, 2 = str "5"): unmarshaller(Union[int, str]), then
   unmarshal(Union[str, int], "5"): the cached system answers 5, the stateless model "5"; and one level down
   (routine of list[int | str] built, then dict[str, str | int]): the factory memos miss, inspection.unwrap's memo
   serves the first member order *)
Theorem C12Bridge_refuted_union_order :
  bt_clean false bt_h_union = false /\ bt_outs false bt_h_union <> bt_spec bt_h_union /\
  nth_error (bt_outs false bt_h_union) 1 = Some (COVal (Ok (PAtom 1))) /\
  nth_error (bt_spec bt_h_union) 1 = Some (COVal (Ok (PAtom 2))) /\
  bt_clean false bt_h_union_nested = false /\ bt_outs false bt_h_union_nested <> bt_spec bt_h_union_nested /\
  nth_error (bt_outs false bt_h_union_nested) 1 = Some (COVal (Ok (PDict KDict [(PAtom 2, PAtom 1)]))) /\
  nth_error (bt_spec bt_h_union_nested) 1 = Some (COVal (Ok (PDict KDict [(PAtom 2, PAtom 2)]))).
Proof. exact refute_union_order. Qed.

(* the same two histories in Cache.v's universe are Props/C12.v's witnesses: outside C12's guard, warm <> cold *)
Theorem C12Bridge_refuted_union_order_c12 :
  exists W h o h' o',
    KC.c12_guard W h o = false /\ KC.warm W h o <> KC.cold W (KC.run_hist W KC.init h) o /\
    KC.c12_guard W h' o' = false /\ KC.warm W h' o' <> KC.cold W (KC.run_hist W KC.init h') o'.
Proof. exact TL.Props.C12.C12_refuted_union_order. Qed.

Theorem C12Bridge_full_refuted : ~ C12Bridge_full.
Proof. exact refute_full. Qed.

(* "results handed out are fresh": a strload that hands out the memoised list itself (alias_load = true, the tree
   before f57eb40) lets the caller's append reach the memo: the next read of "[1,2]" gives [1, 2, 777]; with the
   copy (alias_load = false, /repo HEAD) the same history is inside the guard and agrees with the stateless model *)
Theorem C12Bridge_refuted_result_alias :
  bt_clean true bt_h_alias = false /\ bt_outs true bt_h_alias <> bt_spec bt_h_alias /\
  nth_error (bt_outs true bt_h_alias) 2 = Some (COVal (Ok (PSeq KList [PAtom 3; PAtom 4; PAtom 6]))) /\
  nth_error (bt_spec bt_h_alias) 2 = Some (COVal (Ok (PSeq KList [PAtom 3; PAtom 4]))) /\
  bt_clean false bt_h_alias = true /\ bt_outs false bt_h_alias = bt_spec bt_h_alias.
Proof. exact refute_alias. Qed.

(* ================================================================== non-vacuity *)
(* a 15-operation history inside the guard: both member orders of one union separated by cache_clear(), a recursive
   class (Delayed proxy resolved through the factory memo at two depths), the same text loaded three times, a caller
   appending to a result, keyword and positional factory keys, the codec, one cache cleared alone, encode / decode *)
Example C12Bridge_guard_satisfiable :
  bt_clean false bt_h_good = true /\ bt_outs false bt_h_good = bt_spec bt_h_good /\
  nth_error (bt_outs false bt_h_good) 1 = Some (COVal (Ok (PAtom 1))) /\
  nth_error (bt_outs false bt_h_good) 3 = Some (COVal (Ok (PAtom 2))) /\
  nth_error (bt_outs false bt_h_good) 4 =
    Some (COVal (Ok (PSeq KList [PObj 0 [(0, PSeq KList [PObj 0 [(0, PSeq KList []); (1, PAtom 3)]]); (1, PAtom 1)]]))) /\
  nth_error (bt_outs false bt_h_good) 7 = Some (COVal (Ok (PSeq KList [PAtom 3; PAtom 4]))) /\
  nth_error (bt_outs false bt_h_good) 11 = Some (COVal (Ok (PSeq KList [PAtom 3; PAtom 4]))) /\
  bt_clean true [CUnmarshal L_int (PAtom 5); CMutate bt_id; CUnmarshal L_int (PAtom 5)] = true.
Proof. exact good_history. Qed.

(* lru eviction is covered by the theorem (any max_load): with room for one entry, two texts read in turn evict each
   other (one entry left, two without a bound) and every read is the stateless result *)
Example C12Bridge_eviction_example :
  clean_hist bt_rt bt_env bt_orders 6 bt_is_text (Some 1%N) false bt_id_wire bt_id_wire (fun _ => false) 20 cinit bt_h_evict = true /\
  outsS bt_rt bt_env bt_orders 6 bt_is_text (Some 1%N) false bt_id_wire bt_id_wire (fun _ => false) 20 cinit bt_h_evict = bt_spec bt_h_evict /\
  length (c_load (run_histS bt_rt bt_env bt_orders 6 bt_is_text (Some 1%N) false bt_id_wire bt_id_wire (fun _ => false) 20 cinit bt_h_evict)) = 1 /\
  length (c_load (run_histS bt_rt bt_env bt_orders 6 bt_is_text None false bt_id_wire bt_id_wire (fun _ => false) 20 cinit bt_h_evict)) = 2 /\
  nth_error (bt_spec bt_h_evict) 4 = Some (COVal (Ok (PSeq KList [PAtom 3; PAtom 4]))).
Proof. exact eviction_example. Qed.

(* the hypotheses of the reference theorems hold of the toy node orders (both directions) ... *)
Example C12Bridge_contract_satisfiable :
  TL.Props.C05.orders_contract bt_env true (fun _ => false) bt_orders /\
  TL.Props.C05.orders_contract bt_env false (fun _ => false) bt_orders.
Proof. split; intros t ns H; exact (bt_orders_contract _ t ns H). Qed.

(* ... so the 5th call of the history above (a recursive class through two Delayed resolutions, warm factory memo) is
   Core.unm of its own annotation and input *)
Example C12Bridge_reference_instance :
  exists m, forall m', m' >= m ->
    unm bt_rt bt_env m' L_N0 (PSeq KList [PDict KDict [(PKey 0, PSeq KList [bt_node 3]); (PKey 1, PAtom 2)]]) =
    Ok (PSeq KList [PObj 0 [(0, PSeq KList [PObj 0 [(0, PSeq KList []); (1, PAtom 3)]]); (1, PAtom 1)]]).
Proof.
  exact (C12Bridge_unmarshal_is_reference bt_rt bt_env bt_orders 6 bt_is_text (Some 100000%N) false bt_id_wire bt_id_wire
           (fun _ => false) (fun _ => false) (proj1 C12Bridge_contract_satisfiable) (fun s x H => False_ind _ (Bool.diff_false_true H))
           20 bt_h_good 4 L_N0 _ _ (proj1 good_history) eq_refl
           (proj1 (proj2 (proj2 (proj2 (proj2 good_history))))) eq_refl).
Qed.

Print Assumptions C12Bridge_cached_refines.
Print Assumptions C12Bridge_system_refines.
Print Assumptions C12Bridge_run.
Print Assumptions C12Bridge_step.
Print Assumptions C12Bridge_sound.
Print Assumptions C12Bridge_kth_call.
Print Assumptions C12Bridge_warm_is_cold.
Print Assumptions C12Bridge_position_free.
Print Assumptions C12Bridge_unmarshal_is_reference.
Print Assumptions C12Bridge_marshal_is_reference.
Print Assumptions C12Bridge_contract_from_tables.
Print Assumptions C01_roundtrip_in_any_history.
Print Assumptions C03_conforms_in_any_history.
Print Assumptions C13_passthrough_in_any_history.
Print Assumptions C13_idempotent_in_any_history.
Print Assumptions C12Bridge_cache_v_instances.
Print Assumptions C12Bridge_cache_v_refines.
Print Assumptions C12Bridge_refuted_union_order.
Print Assumptions C12Bridge_refuted_union_order_c12.
Print Assumptions C12Bridge_full_refuted.
Print Assumptions C12Bridge_refuted_result_alias.
