(* Property C11 -- aliases, NewTypes, qualifiers and string references are transparent.
   Only the property theorems (proofs: Proofs/TransparentLemmas.v, Proofs/BuildLemmas.v). *)
From Coq Require Import List Arith Bool.
Import ListNotations.
Require Import TL.Model.Core TL.Model.Build TL.Proofs.CoreMono TL.Proofs.BuildLemmas TL.Proofs.BuildSemLemmas
  TL.Proofs.TransparentLemmas.

(* norm t  : wrappers (NewType, TypeAliasType direct or string-valued, Final, ClassVar) peeled and references
             evaluated at the ROOT;
   dnorm t : the same at the root and at EVERY nested position (collection argument, mapping key/value, tuple
             member, union member); class fields are normalised in dnorm_env E.
   ev f r  : f m = r for all sufficiently large fuel m.
   "unm rt E n t x is done" = it returned a value or raised (neither out of fuel nor outside the tables). *)

(* a wrapper chain of any length around the root changes nothing: values and exceptions alike *)
Theorem C11_root_transparent_unm :
  forall (rt : runtime) (E : env) (t t' : ty) (n : nat) (x : pv),
    norm t = norm t' -> done (unm rt E n t x) = true ->
    ev (fun m => unm rt E m t' x) (unm rt E n t x).
Proof. exact root_transparent_unm. Qed.
Theorem C11_root_transparent_mar :
  forall (rt : runtime) (E : env) (t t' : ty) (n : nat) (x : pv),
    norm t = norm t' -> done (mar rt E n t x) = true ->
    ev (fun m => mar rt E m t' x) (mar rt E n t x).
Proof. exact root_transparent_mar. Qed.

(* ... nor does it at any nested position, to any depth, in any combination *)
Theorem C11_nested_transparent_unm :
  forall (rt : runtime) (E : env), ok_env E ->
  forall (t t' : ty) (n : nat) (x : pv),
    dnorm t = dnorm t' -> ok_ty t = true -> ok_ty t' = true ->
    done (unm rt E n t x) = true -> ev (fun m => unm rt E m t' x) (unm rt E n t x).
Proof. exact nested_transparent_unm. Qed.
Theorem C11_nested_transparent_mar :
  forall (rt : runtime) (E : env), ok_env E ->
  forall (t t' : ty) (n : nat) (x : pv),
    dnorm t = dnorm t' -> ok_ty t = true -> ok_ty t' = true ->
    done (mar rt E n t x) = true -> ev (fun m => mar rt E m t' x) (mar rt E n t x).
Proof. exact nested_transparent_mar. Qed.

(* the built routine does not depend on the spelling either: a routine that routes t routes every t' with
   the same normal form (member positions are compared through their normal forms by definition of routes),
   so by C05_unmarshal / C05_marshal the routines built for t and t' compute the same function *)
Theorem C11_routes_transparent :
  forall (E : env) (dir : bool) (noop_leaf : nat -> bool) (r : routine) (t t' : ty),
    norm t = norm t' -> routes E dir noop_leaf r t -> routes E dir noop_leaf r t'.
Proof. intros E dir noop_leaf r t t'. exact (routes_norm_eq E dir noop_leaf r t t'). Qed.

(* non-vacuity *)
Definition w3 : ty := TNewType 1 (TAlias 2 (TFinal (TSeq KList (TNewType 3 (TRef 0))))).
Example C11_hyps_satisfiable :
  dnorm w3 = dnorm (TSeq KList (TName 0)) /\ ok_ty w3 = true /\ norm w3 = TSeq KList (TNewType 3 (TRef 0)).
Proof. vm_compute. repeat split. Qed.

Print Assumptions C11_root_transparent_unm.
Print Assumptions C11_root_transparent_mar.
Print Assumptions C11_nested_transparent_unm.
Print Assumptions C11_nested_transparent_mar.
Print Assumptions C11_routes_transparent.
