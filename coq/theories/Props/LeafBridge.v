(* Props/LeafBridge.v -- the leaf bridge: the leaf hypotheses of the core theorems (C01 C13 C03 C06) are THEOREMS of
   the scalar model of C04.  Theorems only (each closed by [exact]), examples, Print Assumptions.

   bridged C kind_of rts ev rt0 base : Core.runtime
       leaf_u s / leaf_m s run the scalar routines of Model/Scalars.v / the scalar marshallers of Model/LeafBridge.v
       (table [leaf_table]) on the value the atom / key stands for, for ANY coding C with coding_law C,
       ANY numbering [kind_of] of leaf types, ANY interpreter [rts s] seen from leaf type s, ANY [base] runtime
       for what is not a leaf routine.
   lv strict s v : atom v stands for a value of the class of leaf type s inside its range
       (valid_date / valid_dt / valid_tm / td_in_range / enum_value_ok; strict: datetime / time with fold 0).
   C : coding = (enc, dec, key_text, key_of): atoms for scalar values, PKey f for the str that is field name f.
   What remains assumed is visible in each statement: Scalars.RuntimeLaws (interpreter: int(str(z)) = z, pendulum
   parses what isoformat prints, ...), FoldLaws (the parsers answer with fold 0), LoadLaws (serdes.load hands a UUID
   back), Utf8Total.  [res]/[Ok] unqualified are the scalar model's; the core model's are Core.xxx. *)
From Coq Require Import List ZArith Arith Ascii String Bool PeanoNat.
Import ListNotations.
Require Import TL.Model.Duration.
Require Import TL.Model.Temporal.
Require Import TL.Model.Scalars.
Require Import TL.Model.ScalarsToy.
Require Import TL.Proofs.ScalarsToyLemmas.
Require TL.Model.Core.
Require TL.Model.CoreC01.
Require TL.Model.CoreValid.
Require TL.Model.CoreC03.
Require TL.Model.CoreC06.
Require TL.Proofs.CoreC03.
Require TL.Props.C01.
Require TL.Props.C13.
Require TL.Props.C03.
Require TL.Props.C06.
Require TL.Model.SerdesToy.
Require Import TL.Model.LeafBridge.
Require Import TL.Proofs.LeafBridge.
Local Open Scope nat_scope.
Local Open Scope string_scope.

(* ================================================================== the scalar level (Scalars' own value type) *)
(* whatever a scalar unmarshaller returns is an instance of its class: every routine, every input, every runtime *)
Theorem LB_unm_results_of_class : forall rt k x y, unm_of rt k x = Ok y -> cls rt k y = true.
Proof. exact unm_shape. Qed.
(* ... an INSTANCE of it, given that E(v) is a member of E (the one kind where cls is weaker than inst: enums) *)
Theorem LB_unm_results_instances : forall rt k x y,
  (forall w m, enum_of_val rt w = Ok m -> is_member rt m = true) -> unm_of rt k x = Ok y -> inst rt k y = true.
Proof. exact unm_inst. Qed.
(* the isinstance short-circuit of every scalar unmarshaller (UUIDUnmarshaller loads first: LoadLaws): every instance
   -- True under int, a member of a mixin enum under str / int, a value == to a declared one under a Literal --
   comes back as it is *)
Theorem LB_unm_isinstance_pass : forall rt k x, inst rt k x = true -> (k = LUuid -> LoadLaws rt) -> unm_of rt k x = Ok x.
Proof. exact unm_pass. Qed.
Theorem LB_exact_is_instance : forall rt k x, exact rt k x = true -> inst rt k x = true.
Proof. exact exact_inst. Qed.
(* LiteralMarshaller: a declared (plain) value is answered with itself; anything that no declared value equals with
   the same class is rejected with ValueError *)
Theorem LB_literal_marshal : forall rt vs x,
  (lit_plain x = true -> existsb (val_eqb x) vs = true -> mar_literal rt vs x = Ok x) /\
  (existsb (lit_match rt x) vs = false -> mar_literal rt vs x = Raise EValue).
Proof. intros rt vs x. exact (conj (mar_literal_member rt vs x) (mar_literal_rejects rt vs x)). Qed.
(* marshal then unmarshal, every kind: exact equality inside the strict range *)
Theorem LB_scalar_round_exact : forall rt ev, RuntimeLaws rt -> forall k x w, FoldLaws rt ->
  in_kind rt ev true k x = true -> mar_of rt ev k x = Ok w -> unm_of rt k w = Ok x.
Proof. exact round_exact. Qed.
(* ... and on the whole range (folds 0 and 1) up to the fold of datetime / time, from RuntimeLaws alone *)
Theorem LB_scalar_round_sim : forall rt ev, RuntimeLaws rt -> forall k x w,
  in_kind rt ev false k x = true -> mar_of rt ev k x = Ok w -> exists x', unm_of rt k w = Ok x' /\ sim_val x x'.
Proof. exact round_sim. Qed.
(* the marshallers of every kind but Enum (m.value is anything), bytes (no-op), Pattern (bytes for a bytes pattern) and
   Literals declaring non-wire values return None / bool / int / float / str *)
Theorem LB_marshal_wire : forall rt ev k x w, robust_kind k = true -> mar_of rt ev k x = Ok w -> prim_val w = true.
Proof. exact mar_prim. Qed.
(* C04's guard for str-valued enum members gives this bridge's guard *)
Theorem LB_enum_guard_of_text : forall rt ev m,
  ev m = Ok (VText CStr (canon_text rt (VEnum m))) ->
  enum_of_val rt (VText CStr (canon_text rt (VEnum m))) = Ok m -> enum_value_ok rt ev m = true.
Proof. exact enum_value_ok_of_text. Qed.

(* ================================================================== the law records of the core theorems *)
(* RoundLaws (C01): exact equality of atoms *)
Theorem LB_round_laws : forall C kind_of rts ev rt0 base, coding_law C ->
  (forall s, RuntimeLaws (rts s)) -> (forall s, FoldLaws (rts s)) ->
  CoreC01.RoundLaws (bridged C kind_of rts ev rt0 base) (lv C kind_of rts ev true).
Proof. exact bridged_round_laws. Qed.
(* the same round trip on the lax range (fold 1 included), up to the fold, from RuntimeLaws alone *)
Theorem LB_leaf_round_sim : forall C kind_of rts ev rt0 base, coding_law C ->
  (forall s, RuntimeLaws (rts s)) ->
  forall s v w, lv C kind_of rts ev false s v = true ->
  Core.leaf_m (bridged C kind_of rts ev rt0 base) s v = Core.Ok w ->
  exists v', Core.leaf_u (bridged C kind_of rts ev rt0 base) s w = Core.Ok v' /\ sim_pv C v v'.
Proof. exact bridged_leaf_round_sim. Qed.
(* leaf_m_inj (C01_keys_of_leaf_law) *)
Theorem LB_leaf_m_inj : forall C kind_of rts ev rt0 base, coding_law C ->
  (forall s, RuntimeLaws (rts s)) -> (forall s, FoldLaws (rts s)) ->
  (forall a b, Core.atom_eq base a b = true -> a = b) ->
  CoreC01.leaf_m_inj (bridged C kind_of rts ev rt0 base) (lv C kind_of rts ev true).
Proof. exact bridged_leaf_m_inj. Qed.
(* NoneLaws: NoneTypeUnmarshaller *)
Theorem LB_none_laws : forall C kind_of rts ev rt0 base, coding_law C ->
  Utf8Total rt0 -> (forall e, Core.suppressed base (exn_map e) = true) ->
  CoreValid.NoneLaws (bridged C kind_of rts ev rt0 base).
Proof. exact bridged_none_laws. Qed.
(* PassLaws / IdemLaws (C13): case analysis over the routines; no interpreter law *)
Theorem LB_pass_laws : forall C kind_of rts ev rt0 base, coding_law C -> forall strict,
  Utf8Total rt0 -> (forall e, Core.suppressed base (exn_map e) = true) -> (forall s, LoadLaws (rts s)) ->
  CoreValid.PassLaws (bridged C kind_of rts ev rt0 base) (lv C kind_of rts ev strict).
Proof. exact bridged_pass_laws. Qed.
Theorem LB_pass_laws_instances : forall C kind_of rts ev rt0 base, coding_law C ->
  Utf8Total rt0 -> (forall e, Core.suppressed base (exn_map e) = true) -> (forall s, LoadLaws (rts s)) ->
  CoreValid.PassLaws (bridged C kind_of rts ev rt0 base) (lv_inst C kind_of rts).
Proof. exact bridged_pass_laws_inst. Qed.
Theorem LB_idem_laws : forall C kind_of rts ev rt0 base, coding_law C ->
  Utf8Total rt0 -> (forall e, Core.suppressed base (exn_map e) = true) -> (forall s, LoadLaws (rts s)) ->
  (forall s w m, enum_of_val (rts s) w = Ok m -> is_member (rts s) m = true) ->
  base_idem kind_of base ->
  CoreValid.IdemLaws (bridged C kind_of rts ev rt0 base).
Proof. exact bridged_idem_laws. Qed.
(* pass-through leaves (LAny: typing.Any / object / unresolvable): EVERY core value, both ways; every value is valid
   there; the wire law of C06 does not hold there (a set goes through) -- such a leaf is outside fully_annotated *)
Theorem LB_any_leaf_noop : forall C kind_of rts ev rt0 base s x, any_leaf kind_of s = true ->
  Core.leaf_u (bridged C kind_of rts ev rt0 base) s x = Core.Ok x /\
  Core.leaf_m (bridged C kind_of rts ev rt0 base) s x = Core.Ok x /\
  (forall strict, lv C kind_of rts ev strict s x = true).
Proof.
  intros C kind_of rts ev rt0 base s x H.
  exact (conj (any_leaf_u C kind_of rts ev rt0 base s x H) (conj (any_leaf_m C kind_of rts ev rt0 base s x H)
        (fun strict => any_leaf_lv C kind_of rts ev strict s x H))).
Qed.
Theorem LB_refuted_any_wire : forall C kind_of rts ev rt0 base s, any_leaf kind_of s = true ->
  robust_leaf kind_of s = false /\
  Core.leaf_m (bridged C kind_of rts ev rt0 base) s (Core.PSeq Core.KSet []) = Core.Ok (Core.PSeq Core.KSet []) /\
  CoreC06.is_wire (prim_atom C) (Core.PSeq Core.KSet []) = false.
Proof. exact any_leaf_not_wire. Qed.
(* uuid_text_not_loadable (the one field of Scalars.RuntimeLaws about load on TEXT) is C14_load_plain_text
   transported: from the shape of text carriers and the interpreter facts about the text of a UUID *)
Theorem LB_uuid_text_from_serdes : forall T srt rt cp, SLoadLaw T srt rt -> S.RuntimeLaws srt ->
  STextLaws T srt rt cp -> UuidTextFacts srt rt cp ->
  forall u c, hashable c = true ->
    load rt (text rt c (canon_text rt (VUuid u))) = Ok (VText CStr (canon_text rt (VUuid u))).
Proof. exact uuid_text_from_serdes. Qed.
Theorem LB_runtime_laws_with_serdes_load : forall T srt rt cp, RuntimeLaws rt -> S.RuntimeLaws srt ->
  STextLaws T srt rt cp -> UuidTextFacts srt rt cp -> RuntimeLaws (with_load rt (ind_load T srt)).
Proof. exact with_load_runtime_laws_from_serdes. Qed.
(* LoadLaws is C14's theorem (C14_load_nontext) for every runtime whose load IS Serdes.load through a shape T *)
Theorem LB_load_laws_from_serdes : forall T srt rt, SLoadLaw T srt rt -> SShapeLaws T rt -> LoadLaws rt.
Proof. exact load_laws_from_serdes. Qed.
Theorem LB_load_nontext_from_serdes : forall T srt rt v, SLoadLaw T srt rt -> SShapeLaws T rt ->
  textual rt v = false -> load rt v = Ok v.
Proof. exact sload_nontext. Qed.
Theorem LB_induced_load_law : forall T srt rt, SLoadLaw T srt (with_load rt (ind_load T srt)).
Proof. exact with_load_law. Qed.
(* LeafLaws (C03) and MarshalLaws (C06): nothing assumed but the coding law *)
Theorem LB_leaf_laws : forall C kind_of rts ev rt0 base, coding_law C ->
  CoreC03.LeafLaws (bridged C kind_of rts ev rt0 base) (leaf_class_ok C kind_of rts).
Proof. exact bridged_leaf_laws. Qed.
Theorem LB_marshal_laws : forall C kind_of rts ev rt0 base, coding_law C -> forall strict,
  CoreC06.MarshalLaws (bridged C kind_of rts ev rt0 base) (prim_atom C) (robust_leaf kind_of)
    (robust_leaf kind_of) (lv C kind_of rts ev strict) (lit_leaf kind_of) (lit_member C kind_of rts).
Proof. exact bridged_marshal_laws. Qed.

(* ================================================================== the composite theorems, leaf hypotheses discharged *)
Theorem C01_roundtrip_from_interpreter_laws : forall C kind_of rts ev rt0 base, coding_law C ->
  (forall s, RuntimeLaws (rts s)) -> (forall s, FoldLaws (rts s)) ->
  forall E n fuel T v w, fuel <= n ->
  CoreC01.valid (bridged C kind_of rts ev rt0 base) (lv C kind_of rts ev true) E n T v = true ->
  CoreC01.c01_guard (bridged C kind_of rts ev rt0 base) E n T v = true ->
  CoreC01.union_unamb (bridged C kind_of rts ev rt0 base) (lv C kind_of rts ev true) E n T v = true ->
  Core.mar (bridged C kind_of rts ev rt0 base) E fuel T v = Core.Ok w ->
  exists m, forall f, f >= m -> Core.unm (bridged C kind_of rts ev rt0 base) E f T w = Core.Ok v.
Proof.
  intros C kind_of rts ev rt0 base CL HL HF E. exact (C01.C01_roundtrip _ _ E (bridged_round_laws C kind_of rts ev rt0 base CL HL HF)).
Qed.

Theorem C01_union_fixpoint_from_interpreter_laws : forall C kind_of rts ev rt0 base, coding_law C ->
  (forall s, RuntimeLaws (rts s)) -> (forall s, FoldLaws (rts s)) ->
  forall E n fuel T v m, fuel <= n ->
  CoreC01.fix_ok (bridged C kind_of rts ev rt0 base) (lv C kind_of rts ev true) E n T v = true ->
  Core.mar (bridged C kind_of rts ev rt0 base) E fuel T v = Core.Ok m ->
  exists v', (forall f, f >= n -> Core.unm (bridged C kind_of rts ev rt0 base) E f T m = Core.Ok v') /\
             (forall f, f >= n -> Core.mar (bridged C kind_of rts ev rt0 base) E f T v' = Core.Ok m).
Proof.
  intros C kind_of rts ev rt0 base CL HL HF E. exact (C01.C01_union_fixpoint _ _ E (bridged_round_laws C kind_of rts ev rt0 base CL HL HF)).
Qed.

(* pass-through and idempotence need NO interpreter law: only that serdes.load hands a UUID back and that the UTF-8
   decoder answers *)
Theorem C13_passthrough_from_scalar_model : forall C kind_of rts ev rt0 base, coding_law C -> forall strict,
  Utf8Total rt0 -> (forall e, Core.suppressed base (exn_map e) = true) -> (forall s, LoadLaws (rts s)) ->
  forall E, CoreValid.wf_env E ->
  forall n T v, CoreValid.optional_only E n T = true ->
  CoreValid.valid (lv C kind_of rts ev strict) (bridged C kind_of rts ev rt0 base) E n T v = true ->
  exists m, forall fuel, m <= fuel -> Core.unm (bridged C kind_of rts ev rt0 base) E fuel T v = Core.Ok v.
Proof.
  intros C kind_of rts ev rt0 base CL strict Ht Hs HLd E. exact (C13.C13_passthrough _ E _ (bridged_pass_laws C kind_of rts ev rt0 base CL strict Ht Hs HLd)).
Qed.

Theorem C13_idempotent_from_scalar_model : forall C kind_of rts ev rt0 base, coding_law C ->
  Utf8Total rt0 -> (forall e, Core.suppressed base (exn_map e) = true) -> (forall s, LoadLaws (rts s)) ->
  (forall s w m, enum_of_val (rts s) w = Ok m -> is_member (rts s) m = true) -> base_idem kind_of base ->
  forall E, CoreValid.wf_env E -> CoreValid.DefaultsConform (bridged C kind_of rts ev rt0 base) E ->
  forall T, (forall k, CoreValid.optional_only E k T = true) ->
  forall n x y, Core.unm (bridged C kind_of rts ev rt0 base) E n T x = Core.Ok y ->
  exists m, forall fuel, m <= fuel -> Core.unm (bridged C kind_of rts ev rt0 base) E fuel T y = Core.Ok y.
Proof.
  intros C kind_of rts ev rt0 base CL Ht Hs HLd HE HB E. exact (C13.C13_idempotent _ E (bridged_idem_laws C kind_of rts ev rt0 base CL Ht Hs HLd HE HB)).
Qed.

(* pass-through for every INSTANCE at the leaves (True where int is annotated, members of mixin enums, values == to a
   declared Literal value), not only for values of the exact classes *)
Theorem C13_passthrough_instances_from_scalar_model : forall C kind_of rts ev rt0 base, coding_law C ->
  Utf8Total rt0 -> (forall e, Core.suppressed base (exn_map e) = true) -> (forall s, LoadLaws (rts s)) ->
  forall E, CoreValid.wf_env E ->
  forall n T v, CoreValid.optional_only E n T = true ->
  CoreValid.valid (lv_inst C kind_of rts) (bridged C kind_of rts ev rt0 base) E n T v = true ->
  exists m, forall fuel, m <= fuel -> Core.unm (bridged C kind_of rts ev rt0 base) E fuel T v = Core.Ok v.
Proof.
  intros C kind_of rts ev rt0 base CL Ht Hs HLd E. exact (C13.C13_passthrough _ E _ (bridged_pass_laws_inst C kind_of rts ev rt0 base CL Ht Hs HLd)).
Qed.

(* ... with serdes.load taken from C14's model: no LoadLaws hypothesis; what remains is the shape T (how the text
   model sees the scalars: SShapeLaws, provable for a concrete shape: LB_std_shape_laws), that load IS Serdes.load
   through it, and "E(v) is a member of E" (a field of Scalars.RuntimeLaws) *)
Theorem C13_passthrough_from_serdes_model : forall C kind_of rts ev rt0 base T srt, coding_law C ->
  Utf8Total rt0 -> (forall e, Core.suppressed base (exn_map e) = true) ->
  (forall s, SLoadLaw T srt (rts s)) -> (forall s, SShapeLaws T (rts s)) ->
  forall E, CoreValid.wf_env E ->
  forall n T' v, CoreValid.optional_only E n T' = true ->
  CoreValid.valid (lv_inst C kind_of rts) (bridged C kind_of rts ev rt0 base) E n T' v = true ->
  exists m, forall fuel, m <= fuel -> Core.unm (bridged C kind_of rts ev rt0 base) E fuel T' v = Core.Ok v.
Proof.
  intros C kind_of rts ev rt0 base T srt CL Ht Hs H1 H2 E. exact (C13.C13_passthrough _ E _ (bridged_pass_laws_inst C kind_of rts ev rt0 base CL Ht Hs (fun s => load_laws_from_serdes T srt (rts s) (H1 s) (H2 s)))).
Qed.
Theorem C13_idempotent_from_serdes_model : forall C kind_of rts ev rt0 base T srt, coding_law C ->
  Utf8Total rt0 -> (forall e, Core.suppressed base (exn_map e) = true) ->
  (forall s, SLoadLaw T srt (rts s)) -> (forall s, SShapeLaws T (rts s)) -> (forall s, RuntimeLaws (rts s)) ->
  base_idem kind_of base ->
  forall E, CoreValid.wf_env E -> CoreValid.DefaultsConform (bridged C kind_of rts ev rt0 base) E ->
  forall T', (forall k, CoreValid.optional_only E k T' = true) ->
  forall n x y, Core.unm (bridged C kind_of rts ev rt0 base) E n T' x = Core.Ok y ->
  exists m, forall fuel, m <= fuel -> Core.unm (bridged C kind_of rts ev rt0 base) E fuel T' y = Core.Ok y.
Proof.
  intros C kind_of rts ev rt0 base T srt CL Ht Hs H1 H2 HL HB E. exact (C13.C13_idempotent _ E (bridged_idem_laws C kind_of rts ev rt0 base CL Ht Hs (fun s => load_laws_from_serdes T srt (rts s) (H1 s) (H2 s)) (fun s => enum_result_member (rts s) (HL s)) HB)).
Qed.

(* conformance and wire output: nothing at all is assumed of the interpreter *)
Theorem C03_conforms_from_scalar_model : forall C kind_of rts ev rt0 base, coding_law C ->
  forall E, CoreC03.wf_env E ->
  forall fuel T x v, Core.unm (bridged C kind_of rts ev rt0 base) E fuel T x = Core.Ok v ->
  exists n, CoreC03.conforms (bridged C kind_of rts ev rt0 base) E (leaf_class_ok C kind_of rts) n T v = true.
Proof.
  intros C kind_of rts ev rt0 base CL E. exact (C03.C03_conforms _ E _ (bridged_leaf_laws C kind_of rts ev rt0 base CL)).
Qed.

Theorem C06_wire_from_scalar_model : forall C kind_of rts ev rt0 base, coding_law C -> forall strict E R F T,
  CoreC06.fully_annotated E (robust_leaf kind_of) (robust_leaf kind_of) true R F T ->
  forall m n v w,
  CoreC06.valid (bridged C kind_of rts ev rt0 base) E (lv C kind_of rts ev strict) n T v = true ->
  Core.mar (bridged C kind_of rts ev rt0 base) E m T v = Core.Ok w ->
  CoreC06.is_wire (prim_atom C) w = true.
Proof.
  intros C kind_of rts ev rt0 base CL strict E R F T. exact (C06.C06_wire _ E _ _ _ R F _ _ _ (bridged_marshal_laws C kind_of rts ev rt0 base CL strict) T).
Qed.

(* a Literal leaf rejects every value that no declared value equals with the same class: C06's law_literal is a theorem *)
Theorem C06_literal_rejects_from_scalar_model : forall C kind_of rts ev rt0 base, coding_law C ->
  forall E s x m, lit_leaf kind_of s = true -> lit_member C kind_of rts s x = false ->
  Core.mar (bridged C kind_of rts ev rt0 base) E (S m) (Core.TLeaf s) x = Core.Raise Core.EValue.
Proof.
  intros C kind_of rts ev rt0 base CL E. exact (C06.C06_literal_rejects _ E _ _ _ _ _ _ (bridged_marshal_laws C kind_of rts ev rt0 base CL true)).
Qed.

(* ================================================================== guards are necessary *)
(* RoundLaws with exact equality on the LAX range: false.  datetime(2020,1,1,17,0,0,999999,+05:30,fold=1) is written
   without its fold and read back with fold 0 (Python's == ignores the fold: the statement of C01 is not violated) *)
Definition LB_round_full : Prop := round_full_stmt.
Theorem LB_refuted_round_exact_with_fold : ~ LB_round_full.
Proof. exact refute_round_full. Qed.
Theorem LB_refuted_fold_scalar :
  in_kind toy_rt ex_ev false LDateTime (VDateTime ex_dt_fold1) = true /\
  in_kind toy_rt ex_ev true LDateTime (VDateTime ex_dt_fold1) = false /\
  mar_of toy_rt ex_ev LDateTime (VDateTime ex_dt_fold1) = Ok (VText CStr "2020-01-01T17:00:00.999999+05:30") /\
  unm_of toy_rt LDateTime (VText CStr "2020-01-01T17:00:00.999999+05:30") = Ok (VDateTime ex_dt) /\
  same_dt ex_dt_fold1 ex_dt = true /\ ex_dt <> ex_dt_fold1.
Proof. exact fold_round_fails_scalar. Qed.

(* the guard enum_value_ok: an enum member whose value is a bytes object does not come back (RuntimeLaws holds) *)
Theorem LB_refuted_enum_bytes_value :
  RuntimeLaws (with_enum toy_rt bytes_enum_of_val) /\
  exact (with_enum toy_rt bytes_enum_of_val) LEnum (VEnum "E.c") = true /\
  bytes_enum_value "E.c"%string = Ok (VText CBytes "yy") /\
  enum_of_val (with_enum toy_rt bytes_enum_of_val) (VText CBytes "yy") = Ok "E.c"%string /\
  enum_value_ok (with_enum toy_rt bytes_enum_of_val) bytes_enum_value "E.c" = false /\
  mar_of (with_enum toy_rt bytes_enum_of_val) bytes_enum_value LEnum (VEnum "E.c") = Ok (VText CBytes "yy") /\
  unm_of (with_enum toy_rt bytes_enum_of_val) LEnum (VText CBytes "yy") = Raise EValue.
Proof. exact enum_bytes_round_fails. Qed.

(* the guard pattern_ok: a compiled pattern is written without its flags (re.compile("a+", re.I) comes back as
   re.compile("a+")); a bytes pattern is written as bytes and read back as a str pattern *)
Theorem LB_refuted_pattern_flags :
  exact toy_rt LPattern (VPattern "a+/I") = true /\ pattern_ok toy_rt "a+/I" = false /\
  mar_of toy_rt ex_ev LPattern (VPattern "a+/I") = Ok (VText CStr "a+") /\
  unm_of toy_rt LPattern (VText CStr "a+") = Ok (VPattern "a+") /\
  pattern_ok toy_rt "b:a" = false /\ mar_of toy_rt ex_ev LPattern (VPattern "b:a") = Ok (VText CBytes "a") /\
  unm_of toy_rt LPattern (VText CBytes "a") = Ok (VPattern "a") /\
  pattern_ok toy_rt "a+" = true /\ unm_of toy_rt LPattern (VText CStr "(") = Raise EOther.
Proof. exact pattern_round_fails. Qed.

(* the round trip needs the EXACT class: instances of a subclass pass through unmarshal unchanged but are marshalled
   as the base class: True under int is written 1, SM.a under str 'SM.a', True under Literal[1, "a", None] is
   rejected by the marshaller although the unmarshaller hands it back; bool('false') is True *)
Theorem LB_refuted_round_for_instances :
  inst toy_rt LInt (VBool true) = true /\ exact toy_rt LInt (VBool true) = false /\
  unm_of toy_rt LInt (VBool true) = Ok (VBool true) /\ mar_of toy_rt ex_ev LInt (VBool true) = Ok (VInt 1) /\
  unm_of toy_rt LInt (VInt 1) = Ok (VInt 1) /\
  inst toy_rt LStr (VEnum "SM.a") = true /\ unm_of toy_rt LStr (VEnum "SM.a") = Ok (VEnum "SM.a") /\
  mar_of toy_rt ex_ev LStr (VEnum "SM.a") = Ok (VText CStr "SM.a") /\
  inst toy_rt (LLit ex_lit) (VBool true) = true /\ exact toy_rt (LLit ex_lit) (VBool true) = false /\
  unm_of toy_rt (LLit ex_lit) (VBool true) = Ok (VBool true) /\
  mar_of toy_rt ex_ev (LLit ex_lit) (VBool true) = Raise EValue /\
  unm_of toy_rt (LLit ex_lit) (VText CBytes "a") = Ok (VText CStr "a") /\
  unm_of toy_rt LBool (VText CStr "false") = Ok (VBool true) /\ unm_of toy_rt LBool (VText CBytes "") = Ok (VBool false) /\
  unm_of toy_rt LInt (VEnum "IE.one") = Ok (VEnum "IE.one") /\ mar_of toy_rt ex_ev LInt (VEnum "IE.one") = Ok (VInt 1).
Proof. exact instance_round_fails. Qed.

(* timedelta(0): the open finding KF-C04-dur-zero-PT is about the TEXT ('PT' is not well-formed ISO 8601); the round
   trip HOLDS at zero for every runtime satisfying RuntimeLaws (parse_dur_rt: pendulum reads 'PT' as zero) -- no guard
   is needed in leaf_round.  It depends on exactly that leniency: with a strict parser 'PT' is rejected *)
Theorem LB_zero_duration_roundtrips :
  (forall rt, RuntimeLaws rt ->
     mar_of rt ex_ev LTimeDelta (VTimeDelta 0 0 0) = Ok (VText CStr "PT") /\
     unm_of rt LTimeDelta (VText CStr "PT") = Ok (VTimeDelta 0 0 0)) /\
  iso8601_duration "PT" = false /\ read_iso_duration "PT" = None /\
  unm_of (with_parse toy_rt (strict_parse toy_parse)) LTimeDelta (VText CStr "PT") = Raise EValue /\
  unm_of (with_parse toy_rt (strict_parse toy_parse)) LTimeDelta (VText CStr "PT1S") = Ok (VTimeDelta 0 1 0).
Proof. exact zero_duration_facts. Qed.

(* ================================================================== non-vacuity *)
Example LB_coding_law_satisfiable : coding_law std_coding.
Proof. exact std_coding_law. Qed.
(* tuple[Any, int] with a set holding a tuple at the Any position: valid, marshalled and unmarshalled unchanged there *)
Example LB_any_instance :
  let brt := bridged std_coding ex_kinds (fun _ => toy_rt) ex_ev toy_rt ex_base in
  CoreC01.valid brt (lv std_coding ex_kinds (fun _ => toy_rt) ex_ev true) no_env 3 ex_any_T (ex_any_pv std_coding Core.KTuple) = true /\
  Core.mar brt no_env 3 ex_any_T (ex_any_pv std_coding Core.KTuple) = Core.Ok (ex_any_pv std_coding Core.KList) /\
  Core.unm brt no_env 3 ex_any_T (ex_any_pv std_coding Core.KList) = Core.Ok (ex_any_pv std_coding Core.KTuple) /\
  any_leaf ex_kinds 10 = true /\ robust_leaf ex_kinds 10 = false.
Proof. exact (ex_any std_enc std_dec std_dec_enc). Qed.
Example LB_std_text_laws : forall srt rt, (forall s, utf8_encode rt s = s) -> (forall p, S.utf8_encode srt p = p) ->
  STextLaws std_sshape srt rt codes.
Proof. exact std_text_laws. Qed.
Example LB_std_shape_laws : forall rt, SShapeLaws std_sshape rt.
Proof. exact std_sshape_laws. Qed.
(* serdes.load of the toy interpreter replaced by C14's model (its toy text runtime) through the concrete shape: the
   hypotheses of C13_passthrough_from_serdes_model hold *)
Example LB_serdes_load_satisfiable :
  let rt := with_load toy_rt (ind_load std_sshape TL.Model.SerdesToy.toy_rt) in
  SLoadLaw std_sshape TL.Model.SerdesToy.toy_rt rt /\ SShapeLaws std_sshape rt /\ LoadLaws rt /\ Utf8Total rt.
Proof.
  exact (conj (with_load_law std_sshape _ toy_rt) (conj (std_sshape_laws _)
        (conj (load_laws_from_serdes std_sshape _ _ (with_load_law std_sshape _ toy_rt) (std_sshape_laws _)) toy_utf8_total))).
Qed.
Example LB_laws_satisfiable :
  RuntimeLaws toy_rt /\ FoldLaws toy_rt /\ LoadLaws toy_rt /\ Utf8Total toy_rt /\
  (forall e, Core.suppressed ex_base (exn_map e) = true).
Proof. exact (conj toy_laws (conj toy_fold_laws (conj toy_load_laws (conj toy_utf8_total ex_base_suppresses)))). Qed.

(* list[tuple[int, date, timedelta, Decimal, E, datetime, str, str, bool, Literal[1, "a", None] x2, Pattern]] on the toy interpreter with the concrete coding (the
   str "kids" is a field name, hence PKey 0): the hypotheses of C01_roundtrip_from_interpreter_laws hold, the model
   computes the wire form shown, and the conclusion of the theorem is what the model computes *)
Example LB_C01_instance :
  let brt := bridged std_coding ex_kinds (fun _ => toy_rt) ex_ev toy_rt ex_base in
  let lvs := lv std_coding ex_kinds (fun _ => toy_rt) ex_ev true in
  CoreC01.valid brt lvs no_env 4 ex_T (ex_pv std_coding Core.KTuple ex_vals) = true /\
  CoreC01.c01_guard brt no_env 4 ex_T (ex_pv std_coding Core.KTuple ex_vals) = true /\
  CoreC01.union_unamb brt lvs no_env 4 ex_T (ex_pv std_coding Core.KTuple ex_vals) = true /\
  Core.mar brt no_env 4 ex_T (ex_pv std_coding Core.KTuple ex_vals) = Core.Ok (ex_pv std_coding Core.KList ex_wire) /\
  Core.unm brt no_env 4 ex_T (ex_pv std_coding Core.KList ex_wire) = Core.Ok (ex_pv std_coding Core.KTuple ex_vals) /\
  encp std_coding (VText CStr "kids") = Core.PKey 0 /\
  exists m, forall f, f >= m ->
    Core.unm brt no_env f ex_T (ex_pv std_coding Core.KList ex_wire) = Core.Ok (ex_pv std_coding Core.KTuple ex_vals).
Proof.
  exact (let H := ex_hyps std_enc std_dec std_dec_enc in
         conj (proj1 H) (conj (proj1 (proj2 H)) (conj (proj2 (proj2 H))
         (conj (ex_mar std_enc std_dec std_dec_enc) (conj (ex_unm std_enc std_dec std_dec_enc)
         (conj (proj1 (ex_key std_enc std_dec))
         (C01_roundtrip_from_interpreter_laws std_coding ex_kinds (fun _ => toy_rt) ex_ev toy_rt ex_base
            std_coding_law (fun _ => toy_laws) (fun _ => toy_fold_laws) no_env 4 4 ex_T _ _ (le_n 4)
            (proj1 H) (proj1 (proj2 H)) (proj2 (proj2 H)) (ex_mar std_enc std_dec std_dec_enc)))))))).
Qed.

Print Assumptions LB_unm_results_of_class.
Print Assumptions LB_unm_results_instances.
Print Assumptions LB_unm_isinstance_pass.
Print Assumptions LB_exact_is_instance.
Print Assumptions LB_literal_marshal.
Print Assumptions LB_scalar_round_exact.
Print Assumptions LB_scalar_round_sim.
Print Assumptions LB_marshal_wire.
Print Assumptions LB_enum_guard_of_text.
Print Assumptions LB_round_laws.
Print Assumptions LB_leaf_round_sim.
Print Assumptions LB_leaf_m_inj.
Print Assumptions LB_none_laws.
Print Assumptions LB_pass_laws.
Print Assumptions LB_pass_laws_instances.
Print Assumptions LB_idem_laws.
Print Assumptions LB_any_leaf_noop.
Print Assumptions LB_refuted_any_wire.
Print Assumptions LB_uuid_text_from_serdes.
Print Assumptions LB_runtime_laws_with_serdes_load.
Print Assumptions LB_load_laws_from_serdes.
Print Assumptions LB_load_nontext_from_serdes.
Print Assumptions LB_induced_load_law.
Print Assumptions LB_leaf_laws.
Print Assumptions LB_marshal_laws.
Print Assumptions C01_roundtrip_from_interpreter_laws.
Print Assumptions C01_union_fixpoint_from_interpreter_laws.
Print Assumptions C13_passthrough_from_scalar_model.
Print Assumptions C13_idempotent_from_scalar_model.
Print Assumptions C13_passthrough_instances_from_scalar_model.
Print Assumptions C13_passthrough_from_serdes_model.
Print Assumptions C13_idempotent_from_serdes_model.
Print Assumptions C06_literal_rejects_from_scalar_model.
Print Assumptions C03_conforms_from_scalar_model.
Print Assumptions C06_wire_from_scalar_model.
Print Assumptions LB_refuted_round_exact_with_fold.
Print Assumptions LB_refuted_fold_scalar.
Print Assumptions LB_refuted_enum_bytes_value.
Print Assumptions LB_refuted_pattern_flags.
Print Assumptions LB_refuted_round_for_instances.
Print Assumptions LB_zero_duration_roundtrips.
Print Assumptions LB_coding_law_satisfiable.
Print Assumptions LB_any_instance.
Print Assumptions LB_std_text_laws.
Print Assumptions LB_std_shape_laws.
Print Assumptions LB_serdes_load_satisfiable.
Print Assumptions LB_laws_satisfiable.
Print Assumptions LB_C01_instance.
