(* Source translator tie of typelib/serdes.py, part 3 (isoformat / unixtime ladders vs Model/Temporal.v) --
   table-independent theorems.  Model: Model/SerdesAstTime.v, scripts: Proofs/SerdesAstTimeLemmas.v. *)
From Coq Require Import List Bool ZArith String.
Import ListNotations.
Require Import TL.Model.Duration TL.Model.Temporal TL.Model.SerdesAstTime TL.Proofs.SerdesAstTimeLemmas.

Theorem SerdesAstTime_kinds_complete : forall v,
  In (kind_of v) all_kdesc /\ (is_temporal v = true -> In (kind_of v) temporal_kdesc).
Proof. exact (fun v => conj (kdesc_in v) (temporal_in v)). Qed.

Theorem SerdesAstTime_isoformat_sound : forall l d, iladder_ok l d = true ->
  forall rt v, is_temporal v = true -> isoformat_src l d rt v = Some (isoformat rt v).
Proof. exact iladder_sound. Qed.

Theorem SerdesAstTime_unixtime_equiv_run : forall rt a b, usteps_equiv a b = true ->
  forall v, run_usteps rt a v = run_usteps rt b v.
Proof. exact usteps_equiv_run. Qed.

Theorem SerdesAstTime_unixtime_sound : forall steps, usteps_equiv steps canonical_unixtime = true ->
  forall rt v, is_temporal v = true -> run_usteps rt steps v = unixtime rt v.
Proof. exact usteps_sound. Qed.

Theorem SerdesAstTime_refuted_date_eats_datetime : forall rt,
  usteps_equiv date_eats_datetime canonical_unixtime = false /\
  run_usteps rt date_eats_datetime (VDateTime some_dt) = Unmodelled /\
  unixtime rt (VDateTime some_dt) = timestamp rt some_dt.
Proof. exact date_eats_datetime_refuted. Qed.

Theorem SerdesAstTime_refuted_iso_date_missing : forall rt,
  iladder_ok [(QInst [DTime], IOwn)] IDuration = false /\
  isoformat_src [(QInst [DTime], IOwn)] IDuration rt (VDate 2020 1 2) = None.
Proof. exact iso_date_missing_refuted. Qed.

Example SerdesAstTime_satisfiable :
  iladder_ok good_iladder IDuration = true /\ usteps_equiv canonical_unixtime canonical_unixtime = true.
Proof. exact good_time_ok. Qed.

Print Assumptions SerdesAstTime_kinds_complete.
Print Assumptions SerdesAstTime_isoformat_sound.
Print Assumptions SerdesAstTime_unixtime_equiv_run.
Print Assumptions SerdesAstTime_unixtime_sound.
Print Assumptions SerdesAstTime_refuted_date_eats_datetime.
Print Assumptions SerdesAstTime_refuted_iso_date_missing.
