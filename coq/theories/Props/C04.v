(* Property C04 -- scalar values survive their text and numeric wire forms exactly.
   This file contains only the property theorems (each closed by [exact]), their non-vacuity examples,
   and Print Assumptions.  The model mirrors /repo with proposed_fixes/C04-*.diff applied. *)
From Coq Require Import List ZArith Ascii String Bool.
Import ListNotations.
Require Import TL.Model.Duration.
Require Import TL.Model.Temporal.
Require Import TL.Model.Scalars.
Require Import TL.Proofs.DurationLemmas.
Require Import TL.Proofs.ScalarsLemmas.
Open Scope Z_scope.

(* ------------------------------------------------------------------ durations: what typelib writes itself *)
(* The full statement: every timedelta in range is written as well-formed ISO-8601 text that an independent
   reader reads back as the same timedelta.  It is FALSE of the code at exactly one point, zero, whose text
   'PT' is pinned by the unedited test-suite (C04_refuted_zero_malformed). *)
Definition C04_full : Prop := forall td, td_in_range td = true ->
  iso8601_duration (iso_duration td) = true /\ read_iso_duration (iso_duration td) = Some td.

(* for ALL normalised timedeltas (no bound on days at all), zero excepted *)
Theorem C04_dur_wellformed : forall td, td_norm td = true -> td_nonzero td = true ->
  iso8601_duration (iso_duration td) = true.
Proof. exact dur_wellformed. Qed.
Theorem C04_dur_reader : forall td, td_norm td = true -> td_nonzero td = true ->
  read_iso_duration (iso_duration td) = Some td.
Proof. exact dur_reader. Qed.
Example C04_dur_guards_satisfiable :
  td_norm (-999999999, 0, 1) = true /\ td_nonzero (-999999999, 0, 1) = true /\ td_in_range (-999999999, 0, 1) = true /\
  iso_duration (-999999999, 0, 1) = "-P999999998DT23H59M59.999999S"%string /\
  td_norm (14, 59, 999999) = true /\ iso_duration (14, 59, 999999) = "P14DT59.999999S"%string /\
  read_iso_duration "P14DT59.999999S" = Some (14, 59, 999999).
Proof. vm_compute. repeat split. Qed.

Theorem C04_refuted_zero_malformed :
  td_in_range (0, 0, 0) = true /\ iso_duration (0, 0, 0) = "PT"%string /\
  iso8601_duration (iso_duration (0, 0, 0)) = false /\ read_iso_duration (iso_duration (0, 0, 0)) = None.
Proof. vm_compute. repeat split. Qed.
Theorem C04_not_full : ~ C04_full.
Proof. intros H. destruct (H (0, 0, 0) eq_refl) as [H1 _]. vm_compute in H1. discriminate. Qed.

(* the writer of the pinned tree (kept as a model for the record): weeks are dropped, so two different
   timedeltas get the same text; negative values are written per component and are not well-formed *)
Theorem C04_refuted_weeks : exists td td', td_in_range td = true /\ td_in_range td' = true /\ td <> td' /\
  iso_duration_pinned td = iso_duration_pinned td' /\ iso8601_duration (iso_duration_pinned td) = false.
Proof. exists (8, 0, 0), (1, 0, 0). vm_compute. repeat split; discriminate. Qed.
Theorem C04_refuted_negative : exists td, td_in_range td = true /\
  iso_duration_pinned td = "PT0.-00010S"%string /\
  iso8601_duration (iso_duration_pinned td) = false /\ read_iso_duration (iso_duration_pinned td) = None.
Proof. exists (-1, 86399, 999990). vm_compute. repeat split. Qed.

(* memoising the duration writer on timedelta equality changes nothing *)
Theorem C04_iso_cache_transparent : forall memo td,
  Forall (fun e => snd e = iso_duration (fst e)) memo -> cached_iso memo td = iso_duration td.
Proof. exact memo_transparent. Qed.
Example C04_iso_cache_example :
  Forall (fun e => snd e = iso_duration (fst e)) [((1, 0, 0), "P1D"%string)] /\ cached_iso [((1, 0, 0), "P1D"%string)] (1, 0, 0) = "P1D"%string.
Proof. split; [repeat constructor|reflexivity]. Qed.

(* ------------------------------------------------------------------ text round trips, from the stated laws *)
Theorem C04_dur_roundtrip : forall rt, RuntimeLaws rt -> forall c td, td_in_range td = true ->
  unm_timedelta rt (text rt c (isoformat rt (VTimeDelta (fst (fst td)) (snd (fst td)) (snd td))))
  = Ok (VTimeDelta (fst (fst td)) (snd (fst td)) (snd td)).
Proof. exact text_timedelta. Qed.
Theorem C04_text_int : forall rt, RuntimeLaws rt -> forall c z,
  unm_number rt KInt (text rt c (canon_text rt (VInt z))) = Ok (VInt z).
Proof. exact text_int. Qed.
Theorem C04_text_float : forall rt, RuntimeLaws rt -> forall c f,
  unm_number rt KFloat (text rt c (canon_text rt (VFloat f))) = Ok (VFloat f).
Proof. exact text_float. Qed.
Theorem C04_text_decimal : forall rt, RuntimeLaws rt -> forall c d,
  unm_number rt KDec (text rt c (canon_text rt (VDec d))) = Ok (VDec d).
Proof. exact text_dec. Qed.
Theorem C04_text_fraction : forall rt, RuntimeLaws rt -> forall c q,
  unm_number rt KFrac (text rt c (canon_text rt (VFrac q))) = Ok (VFrac q).
Proof. exact text_frac. Qed.
Theorem C04_text_uuid : forall rt, RuntimeLaws rt -> forall c u, hashable c = true ->
  unm_uuid rt (text rt c (canon_text rt (VUuid u))) = Ok (VUuid u).
Proof. exact text_uuid. Qed.
Theorem C04_text_path : forall rt, RuntimeLaws rt -> forall c p,
  unm_path rt (text rt c (canon_text rt (VPath p))) = Ok (VPath p).
Proof. exact text_path. Qed.
Theorem C04_text_enum : forall rt, RuntimeLaws rt -> forall c m, hashable c = true -> enum_member_ok rt m ->
  unm_enum rt (text rt c (canon_text rt (VEnum m))) = Ok (VEnum m).
Proof. exact text_enum. Qed.
Theorem C04_text_date : forall rt, RuntimeLaws rt -> forall c y m d, valid_date y m d = true ->
  unm_date rt (text rt c (canon_text rt (VDate y m d))) = Ok (VDate y m d).
Proof. exact text_date. Qed.
Theorem C04_text_datetime : forall rt, RuntimeLaws rt -> forall c d, valid_dt d = true ->
  exists d', unm_datetime rt (text rt c (canon_text rt (VDateTime d))) = Ok (VDateTime d') /\ same_dt d d' = true.
Proof. exact text_datetime. Qed.
Theorem C04_text_time : forall rt, RuntimeLaws rt -> forall c t, valid_tm t = true ->
  exists t', unm_time rt (text rt c (canon_text rt (VTime t))) = Ok (VTime t') /\ same_tm t t' = true.
Proof. exact text_time. Qed.
Example C04_ranges_satisfiable :
  valid_date 2024 2 29 = true /\ valid_date 1 1 1 = true /\ valid_date 9999 12 31 = true /\
  valid_dt {| dy := 2020; dmo := 1; dd := 1; dh := 17; dmi := 0; ds := 0; dus := 999999; doff := Some 19800; dfold := 1 |} = true /\
  valid_tm {| th := 3; tmi := 4; ts := 5; tus := 0; toff := Some (-86340); tfold := 0 |} = true /\
  hashable CMvBytes = true.
Proof. vm_compute. repeat split. Qed.

(* ------------------------------------------------------------------ numeric readings: typelib's plumbing *)
(* numbers to temporal types: epoch seconds read in UTC; seconds of duration for timedelta *)
Theorem C04_num_to_temporal : forall rt x, is_number x = true ->
  unm_datetime rt x = (fromtimestamp_utc rt x >>= fun d => Ok (VDateTime d)) /\
  unm_date rt x = (fromtimestamp_utc rt x >>= fun d => Ok (VDate (dy d) (dmo d) (dd d))) /\
  unm_time rt x = (fromtimestamp_utc rt x >>= fun d => Ok (VTime (time_of d))) /\
  unm_timedelta rt x = (td_of_seconds rt x >>= fun '(d, s, us) => Ok (VTimeDelta d s us)).
Proof. intros rt x H. exact (conj (num_to_datetime rt x H) (conj (num_to_date rt x H) (conj (num_to_time rt x H) (num_to_timedelta rt x H)))). Qed.
(* temporal to numeric: the inverse reading (a date is midnight UTC) *)
Theorem C04_temporal_to_num : forall rt v, is_instant v = true ->
  unm_number rt KFloat v = (unixtime rt v >>= fun f => Ok (VFloat f)) /\
  unm_number rt KInt v = (unixtime rt v >>= fun f => int_of_float rt f >>= fun z => Ok (VInt z)) /\
  (forall y m d, unixtime rt (VDate y m d) = timestamp rt (midnight_utc y m d)).
Proof. intros rt v H. exact (conj (temporal_to_float rt v H) (conj (temporal_to_int rt v H) (date_reads_midnight_utc rt))). Qed.
(* temporal to str/bytes: the ISO text *)
Theorem C04_temporal_to_text : forall rt v, is_temporal v = true ->
  unm_str rt v = Ok (VText CStr (isoformat rt v)) /\
  unm_bytes rt v = Ok (VText CBytes (utf8_encode rt (isoformat rt v))).
Proof. intros rt v H. exact (conj (temporal_to_str rt v H) (temporal_to_bytes rt v H)). Qed.
Example C04_numeric_hyps_satisfiable :
  is_number (VInt 1700000000) = true /\ is_number (VFloat "0x1.8p+0"%string) = true /\
  is_instant (VDate 1970 1 1) = true /\ is_temporal (VTimeDelta 0 1 500000) = true.
Proof. vm_compute. repeat split. Qed.

Print Assumptions C04_dur_wellformed.
Print Assumptions C04_dur_reader.
Print Assumptions C04_refuted_zero_malformed.
Print Assumptions C04_not_full.
Print Assumptions C04_refuted_weeks.
Print Assumptions C04_refuted_negative.
Print Assumptions C04_iso_cache_transparent.
Print Assumptions C04_dur_roundtrip.
Print Assumptions C04_text_int.
Print Assumptions C04_text_float.
Print Assumptions C04_text_decimal.
Print Assumptions C04_text_fraction.
Print Assumptions C04_text_uuid.
Print Assumptions C04_text_path.
Print Assumptions C04_text_enum.
Print Assumptions C04_text_date.
Print Assumptions C04_text_datetime.
Print Assumptions C04_text_time.
Print Assumptions C04_num_to_temporal.
Print Assumptions C04_temporal_to_num.
Print Assumptions C04_temporal_to_text.
