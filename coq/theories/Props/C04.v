(* Property C04 -- scalar values survive their text and numeric wire forms exactly.
   This file contains only the property theorems (each closed by [exact]), their non-vacuity examples,
   and Print Assumptions.  The model mirrors /repo with proposed_fixes/C04-*.diff applied. *)
From Coq Require Import List ZArith Ascii String Bool.
Import ListNotations.
Require Import TL.Model.Duration.
Require Import TL.Model.Temporal.
Require Import TL.Model.Scalars.
Require Import TL.Proofs.DurationLemmas.
Require Import TL.Proofs.ScalarsLemmas.
Require Import TL.Model.IsoText.
Require Import TL.Model.ScalarsToy.
Require Import TL.Proofs.IsoTextLemmas.
Require Import TL.Proofs.ScalarsToyLemmas.
Require Import TL.Model.IsoHistory.
Require Import TL.Proofs.IsoHistoryLemmas.
Open Scope Z_scope.

(* ------------------------------------------------------------------ durations: what typelib writes itself *)
(* The full statement: every timedelta in range is written as well-formed ISO-8601 text that an independent
   reader reads back as the same timedelta.  It is FALSE of the code at exactly one point, zero, whose text
   'PT' is pinned by the unedited test-suite (C04_refuted_zero_malformed). *)
Definition C04_full : Prop := forall td, td_in_range td = true ->
  iso8601_duration (iso_duration td) = true /\ read_iso_duration (iso_duration td) = Some td.

(* for ALL normalised timedeltas (no bound on days at all), zero excepted *)
Theorem C04_dur_wellformed : forall td, td_norm td = true -> td_nonzero td = true ->
  iso8601_duration (iso_duration td) = true.
Proof. exact dur_wellformed. Qed.
Theorem C04_dur_reader : forall td, td_norm td = true -> td_nonzero td = true ->
  read_iso_duration (iso_duration td) = Some td.
Proof. exact dur_reader. Qed.
Example C04_dur_guards_satisfiable :
  td_norm (-999999999, 0, 1) = true /\ td_nonzero (-999999999, 0, 1) = true /\ td_in_range (-999999999, 0, 1) = true /\
  iso_duration (-999999999, 0, 1) = "-P999999998DT23H59M59.999999S"%string /\
  td_norm (14, 59, 999999) = true /\ iso_duration (14, 59, 999999) = "P14DT59.999999S"%string /\
  read_iso_duration "P14DT59.999999S" = Some (14, 59, 999999).
Proof. vm_compute. repeat split. Qed.

Theorem C04_refuted_zero_malformed :
  td_in_range (0, 0, 0) = true /\ iso_duration (0, 0, 0) = "PT"%string /\
  iso8601_duration (iso_duration (0, 0, 0)) = false /\ read_iso_duration (iso_duration (0, 0, 0)) = None.
Proof. vm_compute. repeat split. Qed.
Theorem C04_not_full : ~ C04_full.
Proof. intros H. destruct (H (0, 0, 0) eq_refl) as [H1 _]. vm_compute in H1. discriminate. Qed.

(* the writer of the pinned tree (kept as a model for the record): weeks are dropped, so two different
   timedeltas get the same text; negative values are written per component and are not well-formed *)
Theorem C04_refuted_weeks : exists td td', td_in_range td = true /\ td_in_range td' = true /\ td <> td' /\
  iso_duration_pinned td = iso_duration_pinned td' /\ iso8601_duration (iso_duration_pinned td) = false.
Proof. exists (8, 0, 0), (1, 0, 0). vm_compute. repeat split; discriminate. Qed.
Theorem C04_refuted_negative : exists td, td_in_range td = true /\
  iso_duration_pinned td = "PT0.-00010S"%string /\
  iso8601_duration (iso_duration_pinned td) = false /\ read_iso_duration (iso_duration_pinned td) = None.
Proof. exists (-1, 86399, 999990). vm_compute. repeat split. Qed.

(* memoising the duration writer on timedelta equality changes nothing *)
Theorem C04_iso_cache_transparent : forall memo td,
  Forall (fun e => snd e = iso_duration (fst e)) memo -> cached_iso memo td = iso_duration td.
Proof. exact memo_transparent. Qed.
Example C04_iso_cache_example :
  Forall (fun e => snd e = iso_duration (fst e)) [((1, 0, 0), "P1D"%string)] /\ cached_iso [((1, 0, 0), "P1D"%string)] (1, 0, 0) = "P1D"%string.
Proof. split; [repeat constructor|reflexivity]. Qed.

(* ... along ANY history of the four text-emitting operations (serdes.isoformat, marshal, unmarshal into str / bytes),
   on any mix of dates, times, datetimes and timedeltas: each call returns what it returns on empty caches.  In
   particular a value formatted after an equal-but-differently-represented one (the same instant written with another
   UTC offset -- any two offsets, 24 h apart included --, the other fold, the same duration in another spelling) gets
   ITS OWN text: date/time/datetime text is never memoised, the duration memo is keyed on the normalised fields. *)
Theorem C04_history_transparent : forall rt m h, memo_ok m -> run_hist rt m h = run_cold rt h.
Proof. intros rt m h Hm. exact (hist_transparent rt h m Hm). Qed.
(* ... and the operations of a history are the routines of the model *)
Theorem C04_history_ops : forall rt v, is_temporal v = true ->
  unm_str rt v = Ok (emit rt HStr v (isoformat rt v)) /\ unm_bytes rt v = Ok (emit rt HBytes v (isoformat rt v)).
Proof. exact hop_is_routine. Qed.
(* ... on the non-temporal scalars too (None, bool, int, float, Decimal, Fraction, UUID, path): C04_history_transparent
   quantifies over every value, and for these [isoformat rt v] is [canon_text rt v] = str(v), written afresh on every call *)
Theorem C04_history_scalar_ops : forall rt v, plain_scalar v = true ->
  unm_str rt v = Ok (emit rt HStr v (isoformat rt v)) /\ unm_bytes rt v = Ok (emit rt HBytes v (isoformat rt v)).
Proof. exact scalar_is_routine. Qed.
(* Decimal('0.5') marshalled after the equal Fraction(1, 2), 1 after True: each gets its own wire form *)
Example C04_history_scalar_example :
  run_hist toy_rt [] [(HMarshal, VFrac "1/2"%string); (HMarshal, VDec "0.5"%string); (HBytes, VDec "0.5"%string); (HMarshal, VBool true); (HMarshal, VInt 1); (HStr, VInt 1)]
  = [VText CStr "1/2"; VText CStr "0.5"; VText CBytes "0.5"; VBool true; VInt 1; VText CStr "1"].
Proof. vm_compute. reflexivity. Qed.
(* 2020-01-01T00:00-01:00 and 2020-01-02T00:00+23:00 are one instant (offsets 24 h apart); P8D twice hits the memo *)
Example C04_history_example :
  memo_ok [] /\
  run_hist toy_rt []
    [(HIso, VDateTime {| dy := 2020; dmo := 1; dd := 1; dh := 0; dmi := 0; ds := 0; dus := 0; doff := Some (-3600); dfold := 0 |});
     (HBytes, VDateTime {| dy := 2020; dmo := 1; dd := 2; dh := 0; dmi := 0; ds := 0; dus := 0; doff := Some 82800; dfold := 0 |});
     (HMarshal, VTimeDelta 8 0 0); (HStr, VTimeDelta 8 0 0)]
  = [VText CStr "2020-01-01T00:00:00-01:00"; VText CBytes "2020-01-02T00:00:00+23:00"; VText CStr "P8D"; VText CStr "P8D"].
Proof. split; [constructor|vm_compute; reflexivity]. Qed.

(* ------------------------------------------------------------------ text round trips, from the stated laws *)
Theorem C04_dur_roundtrip : forall rt, RuntimeLaws rt -> forall c td, td_in_range td = true ->
  unm_timedelta rt (text rt c (isoformat rt (VTimeDelta (fst (fst td)) (snd (fst td)) (snd td))))
  = Ok (VTimeDelta (fst (fst td)) (snd (fst td)) (snd td)).
Proof. exact text_timedelta. Qed.
Theorem C04_text_int : forall rt, RuntimeLaws rt -> forall c z,
  unm_number rt KInt (text rt c (canon_text rt (VInt z))) = Ok (VInt z).
Proof. exact text_int. Qed.
Theorem C04_text_float : forall rt, RuntimeLaws rt -> forall c f,
  unm_number rt KFloat (text rt c (canon_text rt (VFloat f))) = Ok (VFloat f).
Proof. exact text_float. Qed.
Theorem C04_text_decimal : forall rt, RuntimeLaws rt -> forall c d,
  unm_number rt KDec (text rt c (canon_text rt (VDec d))) = Ok (VDec d).
Proof. exact text_dec. Qed.
Theorem C04_text_fraction : forall rt, RuntimeLaws rt -> forall c q,
  unm_number rt KFrac (text rt c (canon_text rt (VFrac q))) = Ok (VFrac q).
Proof. exact text_frac. Qed.
Theorem C04_text_uuid : forall rt, RuntimeLaws rt -> forall c u, hashable c = true ->
  unm_uuid rt (text rt c (canon_text rt (VUuid u))) = Ok (VUuid u).
Proof. exact text_uuid. Qed.
Theorem C04_text_path : forall rt, RuntimeLaws rt -> forall c p,
  unm_path rt (text rt c (canon_text rt (VPath p))) = Ok (VPath p).
Proof. exact text_path. Qed.
Theorem C04_text_enum : forall rt, RuntimeLaws rt -> forall c m, hashable c = true -> enum_member_ok rt m ->
  unm_enum rt (text rt c (canon_text rt (VEnum m))) = Ok (VEnum m).
Proof. exact text_enum. Qed.
Theorem C04_text_date : forall rt, RuntimeLaws rt -> forall c y m d, valid_date y m d = true ->
  unm_date rt (text rt c (canon_text rt (VDate y m d))) = Ok (VDate y m d).
Proof. exact text_date. Qed.
Theorem C04_text_datetime : forall rt, RuntimeLaws rt -> forall c d, valid_dt d = true ->
  exists d', unm_datetime rt (text rt c (canon_text rt (VDateTime d))) = Ok (VDateTime d') /\ same_dt d d' = true.
Proof. exact text_datetime. Qed.
Theorem C04_text_time : forall rt, RuntimeLaws rt -> forall c t, valid_tm t = true ->
  exists t', unm_time rt (text rt c (canon_text rt (VTime t))) = Ok (VTime t') /\ same_tm t t' = true.
Proof. exact text_time. Qed.
(* bool(text): "the text is not empty", in all five carriers -- bool('false') is True *)
Theorem C04_text_bool : forall rt, RuntimeLaws rt -> forall c s,
  unm_number rt KBool (text rt c s) = Ok (VBool (negb (is_empty s))).
Proof. exact text_bool. Qed.
(* subclass instances are handed back as they are: True where int is asked, members of int / str mixin enums where
   int / str is asked; a loaded True is the int 1 to UUIDUnmarshaller; a member of ANOTHER enum class is looked up *)
Theorem C04_subclass_instances : forall rt,
  (forall b, unm_number rt KInt (VBool b) = Ok (VBool b)) /\
  (forall m z, enum_base rt m = Some (VInt z) -> unm_number rt KInt (VEnum m) = Ok (VEnum m)) /\
  (forall m s, enum_base rt m = Some (VText CStr s) -> unm_str rt (VEnum m) = Ok (VEnum m)) /\
  (forall v b, load rt v = Ok (VBool b) -> unm_uuid rt v = uuid_of_int rt (b2z b) >>= fun u => Ok (VUuid u)).
Proof. intros rt. exact (conj (bool_is_int rt) (conj (int_member_is_int rt) (conj (str_member_is_str rt) (uuid_of_loaded_bool rt)))). Qed.
Example C04_subclass_on_toy :
  unm_number toy_rt KBool (text toy_rt CBytearray "false"%string) = Ok (VBool true) /\
  unm_number toy_rt KBool (VText CStr ""%string) = Ok (VBool false) /\
  unm_number toy_rt KInt (VEnum "IE.one"%string) = Ok (VEnum "IE.one"%string) /\ unm_str toy_rt (VEnum "SM.a"%string) = Ok (VEnum "SM.a"%string) /\
  unm_str toy_rt (VEnum "E.plain"%string) = Ok (VText CStr "E.plain"%string) /\
  unm_number toy_rt KDec (VBool true) = Ok (VDec "1"%string) /\ unm_number toy_rt KFloat (VEnum "IE.one"%string) = Ok (VFloat "1"%string).
Proof. vm_compute. repeat split. Qed.

Example C04_ranges_satisfiable :
  valid_date 2024 2 29 = true /\ valid_date 1 1 1 = true /\ valid_date 9999 12 31 = true /\
  valid_dt {| dy := 2020; dmo := 1; dd := 1; dh := 17; dmi := 0; ds := 0; dus := 999999; doff := Some 19800; dfold := 1 |} = true /\
  valid_tm {| th := 3; tmi := 4; ts := 5; tus := 0; toff := Some (-86340); tfold := 0 |} = true /\
  hashable CMvBytes = true.
Proof. vm_compute. repeat split. Qed.

(* ------------------------------------------------------------------ numeric readings: typelib's plumbing *)
(* numbers to temporal types: epoch seconds read in UTC; seconds of duration for timedelta *)
Theorem C04_num_to_temporal : forall rt x, is_number rt x = true ->
  unm_datetime rt x = (fromtimestamp_utc rt x >>= fun d => Ok (VDateTime d)) /\
  unm_date rt x = (fromtimestamp_utc rt x >>= fun d => Ok (VDate (dy d) (dmo d) (dd d))) /\
  unm_time rt x = (fromtimestamp_utc rt x >>= fun d => Ok (VTime (time_of d))) /\
  unm_timedelta rt x = (td_of_seconds rt x >>= fun '(d, s, us) => Ok (VTimeDelta d s us)).
Proof. intros rt x H. exact (conj (num_to_datetime rt x H) (conj (num_to_date rt x H) (conj (num_to_time rt x H) (num_to_timedelta rt x H)))). Qed.
(* temporal to numeric: the inverse reading (a date is midnight UTC) *)
Theorem C04_temporal_to_num : forall rt v, is_instant v = true ->
  unm_number rt KFloat v = (unixtime rt v >>= fun f => Ok (VFloat f)) /\
  unm_number rt KInt v = (unixtime rt v >>= fun f => int_of_float rt f >>= fun z => Ok (VInt z)) /\
  (forall y m d, unixtime rt (VDate y m d) = timestamp rt (midnight_utc y m d)).
Proof. intros rt v H. exact (conj (temporal_to_float rt v H) (conj (temporal_to_int rt v H) (date_reads_midnight_utc rt))). Qed.
(* temporal to str/bytes: the ISO text *)
Theorem C04_temporal_to_text : forall rt v, is_temporal v = true ->
  unm_str rt v = Ok (VText CStr (isoformat rt v)) /\
  unm_bytes rt v = Ok (VText CBytes (utf8_encode rt (isoformat rt v))).
Proof. intros rt v H. exact (conj (temporal_to_str rt v H) (temporal_to_bytes rt v H)). Qed.
Example C04_numeric_hyps_satisfiable :
  is_number toy_rt (VInt 1700000000) = true /\ is_number toy_rt (VFloat "0x1.8p+0"%string) = true /\
  is_number toy_rt (VBool true) = true /\ is_number toy_rt (VEnum "IE.one"%string) = true /\
  is_number toy_rt (VEnum "SM.a"%string) = false /\
  is_instant (VDate 1970 1 1) = true /\ is_temporal (VTimeDelta 0 1 500000) = true.
Proof. vm_compute. repeat split. Qed.

Print Assumptions C04_dur_wellformed.
Print Assumptions C04_dur_reader.
Print Assumptions C04_refuted_zero_malformed.
Print Assumptions C04_not_full.
Print Assumptions C04_refuted_weeks.
Print Assumptions C04_refuted_negative.
Print Assumptions C04_iso_cache_transparent.
Print Assumptions C04_history_transparent.
Print Assumptions C04_history_ops.
Print Assumptions C04_history_scalar_ops.
Print Assumptions C04_dur_roundtrip.
Print Assumptions C04_text_int.
Print Assumptions C04_text_float.
Print Assumptions C04_text_decimal.
Print Assumptions C04_text_fraction.
Print Assumptions C04_text_uuid.
Print Assumptions C04_text_path.
Print Assumptions C04_text_enum.
Print Assumptions C04_text_date.
Print Assumptions C04_text_datetime.
Print Assumptions C04_text_time.
Print Assumptions C04_text_bool.
Print Assumptions C04_subclass_instances.
Print Assumptions C04_subclass_on_toy.
Print Assumptions C04_num_to_temporal.
Print Assumptions C04_temporal_to_num.
Print Assumptions C04_temporal_to_text.

(* ------------------------------------------------------------------ date / time / datetime text, character by character *)
(* Model/IsoText.v writes date.isoformat(), time.isoformat(), datetime.isoformat() (tied to the interpreter by the
   iso-writer stream); independent field-validating readers give back exactly the value (the fold is not part of the
   text) -- for ALL values of the ranges: years 1..9999, every clock value, every whole-minute offset inside one day,
   naive values too. *)
Theorem C04_date_reader : forall y m d, valid_date y m d = true ->
  read_iso_date (iso_date (y, m, d)) = Some (y, m, d).
Proof. exact date_reader. Qed.
Theorem C04_time_reader : forall t, valid_tm_text t = true -> read_iso_time (iso_time t) = Some (tm_fold0 t).
Proof. exact time_reader. Qed.
Theorem C04_datetime_reader : forall d, valid_dt_text d = true ->
  read_iso_datetime (iso_datetime d) = Some (dt_fold0 d).
Proof. exact datetime_reader. Qed.
Example C04_iso_text_ranges_satisfiable :
  valid_date 2024 2 29 = true /\ iso_date (2024, 2, 29) = "2024-02-29"%string /\
  valid_tm_text {| th := 3; tmi := 4; ts := 5; tus := 6; toff := Some (-19800); tfold := 1 |} = true /\
  iso_time {| th := 3; tmi := 4; ts := 5; tus := 6; toff := Some (-19800); tfold := 1 |} = "03:04:05.000006-05:30"%string /\
  valid_dt_text {| dy := 1; dmo := 2; dd := 28; dh := 23; dmi := 59; ds := 59; dus := 0; doff := Some 86340; dfold := 0 |} = true /\
  iso_datetime {| dy := 1; dmo := 2; dd := 28; dh := 23; dmi := 59; ds := 59; dus := 0; doff := Some 86340; dfold := 0 |}
    = "0001-02-28T23:59:59+23:59"%string /\
  read_iso_date "2023-02-29" = None.
Proof. vm_compute. repeat split. Qed.

(* The three temporal laws of RuntimeLaws are consequences of two facts the correspondence measures:
   the interpreter writes what the model writers write, and its parser agrees with the independent reader wherever
   that reader assigns a value. *)
Theorem C04_date_law_from_reader : forall rt,
  (forall y m d, valid_date y m d = true -> canon_text rt (VDate y m d) = iso_date (y, m, d)) ->
  (forall s y m d, read_iso_date s = Some (y, m, d) -> pendulum_parse rt s = Ok (PDT (midnight_utc y m d))) ->
  forall y m d, valid_date y m d = true ->
    pendulum_parse rt (canon_text rt (VDate y m d)) = Ok (PDT (midnight_utc y m d)).
Proof. exact date_law_from_reader. Qed.
Theorem C04_datetime_law_from_reader : forall rt,
  (forall d, valid_dt d = true -> canon_text rt (VDateTime d) = iso_datetime d) ->
  (forall s d, read_iso_datetime s = Some d -> valid_dt d = true ->
     exists d', pendulum_parse rt s = Ok (PDT d') /\ same_dt d d' = true) ->
  forall d, valid_dt d = true ->
    exists d', pendulum_parse rt (canon_text rt (VDateTime d)) = Ok (PDT d') /\ same_dt d d' = true.
Proof. exact datetime_law_from_reader. Qed.
Theorem C04_time_law_from_reader : forall rt,
  (forall t, valid_tm t = true -> canon_text rt (VTime t) = iso_time t) ->
  (forall s t, read_iso_time s = Some t -> valid_tm t = true ->
     exists t', time_fromisoformat rt s = Ok t' /\ same_tm t t' = true) ->
  forall t, valid_tm t = true ->
    exists t', time_fromisoformat rt (canon_text rt (VTime t)) = Ok t' /\ same_tm t t' = true.
Proof. exact time_law_from_reader. Qed.

(* ------------------------------------------------------------------ non-vacuity: a concrete runtime satisfies every law *)
(* toy_rt (Model/ScalarsToy.v): ints in decimal, ISO text for date/time/datetime, the independent duration reader
   (plus pendulum's lenient 'PT'), tagged tokens for the values typelib never looks inside. *)
Example C04_runtime_laws_satisfiable : RuntimeLaws toy_rt.
Proof. exact toy_laws. Qed.
(* the hypotheses of the text theorems hold of it, and the conclusions are what the toy really computes *)
Example C04_text_int_on_toy :
  unm_number toy_rt KInt (text toy_rt CMvBytes (canon_text toy_rt (VInt (-12345)))) = Ok (VInt (-12345)).
Proof. exact (C04_text_int toy_rt C04_runtime_laws_satisfiable CMvBytes (-12345)). Qed.
Example C04_dur_roundtrip_on_toy :
  unm_timedelta toy_rt (text toy_rt CBytearray (isoformat toy_rt (VTimeDelta (-8) 3661 500))) = Ok (VTimeDelta (-8) 3661 500).
Proof. exact (C04_dur_roundtrip toy_rt C04_runtime_laws_satisfiable CBytearray (-8, 3661, 500) eq_refl). Qed.
Example C04_text_date_on_toy :
  unm_date toy_rt (text toy_rt CBytes (canon_text toy_rt (VDate 2024 2 29))) = Ok (VDate 2024 2 29).
Proof. exact (C04_text_date toy_rt C04_runtime_laws_satisfiable CBytes 2024 2 29 eq_refl). Qed.
Example C04_text_enum_on_toy :
  unm_enum toy_rt (text toy_rt CStr (canon_text toy_rt (VEnum "1"%string))) = Ok (VEnum "1"%string).
Proof. exact (C04_text_enum toy_rt C04_runtime_laws_satisfiable CStr "1"%string eq_refl (toy_enum_member_ok "1"%string)). Qed.
Example C04_toy_computes :
  canon_text toy_rt (VInt (-12345)) = "-12345"%string /\
  isoformat toy_rt (VTimeDelta (-8) 3661 500) = "-P7DT22H58M58.999500S"%string /\
  canon_text toy_rt (VDate 2024 2 29) = "2024-02-29"%string /\
  int_of_str toy_rt "12x" = Raise EValue /\
  pendulum_parse toy_rt "2023-02-29" = Raise EValue.
Proof. vm_compute. repeat split. Qed.

Print Assumptions C04_date_reader.
Print Assumptions C04_time_reader.
Print Assumptions C04_datetime_reader.
Print Assumptions C04_date_law_from_reader.
Print Assumptions C04_datetime_law_from_reader.
Print Assumptions C04_time_law_from_reader.
Print Assumptions C04_runtime_laws_satisfiable.
Print Assumptions C04_text_int_on_toy.
Print Assumptions C04_dur_roundtrip_on_toy.
Print Assumptions C04_text_date_on_toy.
Print Assumptions C04_text_enum_on_toy.
Print Assumptions C04_history_example.
Print Assumptions C04_history_scalar_example.
