(* Property C02 -- JSON wire round trip and agreement of all entry points.
   Only the property theorems, each closed by `exact`; non-vacuity Examples; Print Assumptions.

   Every theorem is universally quantified over the whole interface of the codec layer
   (Model/Codec.v): the types ty/obj, marshaller and unmarshaller factories (which may raise at
   construction and at call), isbytestype, the default JSON backend json_dumps/json_loads, and the
   encoder/decoder keyword arguments e d (None = not passed = default backend, Some f = any
   user-supplied callable).  api_encode/api_decode are api.py WITH proposed_fixes/C02-api-bytes-verbatim.diff;
   api_encode_pinned/api_decode_pinned are api.py as pinned. *)
From Coq Require Import List Bool Arith.
Import ListNotations.
Require Import TL.Model.Codec TL.Proofs.CodecLemmas.

Section Statements.
Variables ty obj : Type.
Variable mk_mar : ty -> res (routine obj).
Variable mk_unm : ty -> res (routine obj).
Variable isbytestype : ty -> bool.
Variable class_of : obj -> ty.
Variables json_dumps json_loads : routine obj.

Notation codec_encode' := (codec_encode ty obj mk_mar mk_unm isbytestype json_dumps json_loads).
Notation codec_decode' := (codec_decode ty obj mk_mar mk_unm isbytestype json_dumps json_loads).
Notation api_encode' := (api_encode ty obj mk_mar isbytestype class_of json_dumps).
Notation api_decode' := (api_decode ty obj mk_unm isbytestype json_loads).
Notation explicit_encode' := (explicit_encode ty obj mk_mar class_of json_dumps).
Notation explicit_decode' := (explicit_decode ty obj mk_unm json_loads).
Notation marshal_fn' := (marshal_fn ty obj mk_mar class_of).
Notation unmarshal_fn' := (unmarshal_fn ty obj mk_unm).
Notation c02_guard' := (c02_guard ty obj mk_mar mk_unm).

(* typelib.encode(v, t=T, encoder=e) = codec(T, encoder=e, decoder=d).encode(v) for every supported T
   and every pair (e, d); for a T that is not bytes-like both equal encoder(marshal(v, t=T)); for a
   bytes-like T both equal marshal(v, t=T). *)
Theorem C02_entry_points_encode : forall T v e d, c02_guard' T = true ->
  api_encode' v (Some T) e = codec_encode' T e d v /\
  (isbytestype T = false -> codec_encode' T e d v = explicit_encode' T e v) /\
  (isbytestype T = true -> codec_encode' T e d v = marshal_fn' v (Some T)).
Proof. exact (entry_points_encode ty obj mk_mar mk_unm isbytestype class_of json_dumps json_loads). Qed.

(* dually: typelib.decode(T, b, decoder=d) = codec(T, encoder=e, decoder=d).decode(b)
   (= unmarshal(T, decoder(b)) unless T is bytes-like, then = unmarshal(T, b)). *)
Theorem C02_entry_points_decode : forall T b e d, c02_guard' T = true ->
  api_decode' T b d = codec_decode' T e d b /\
  (isbytestype T = false -> codec_decode' T e d b = explicit_decode' T d b) /\
  (isbytestype T = true -> codec_decode' T e d b = unmarshal_fn' T b).
Proof. exact (entry_points_decode ty obj mk_mar mk_unm isbytestype json_dumps json_loads). Qed.

(* typelib.encode(v) without t is typelib.encode(v, t=v.__class__) *)
Theorem C02_encode_default_t : forall v e, api_encode' v None e = api_encode' v (Some (class_of v)) e.
Proof. exact (api_encode_default_t ty obj mk_mar isbytestype class_of json_dumps). Qed.

(* exception parity: when the marshaller raises x, all three entry points raise x whatever the
   encoder is; when it returns w, all three return exactly what the encoder does on w (value or
   exception).  Decode: the decoder's exception wins, else the unmarshaller's result. *)
Theorem C02_exception_parity_encode : forall T v e d m u, mk_mar T = Ok m -> mk_unm T = Ok u ->
  (forall x, m v = Raise x ->
     api_encode' v (Some T) e = Raise x /\ codec_encode' T e d v = Raise x /\ explicit_encode' T e v = Raise x) /\
  (forall w, m v = Ok w -> isbytestype T = false ->
     api_encode' v (Some T) e = dflt obj e json_dumps w /\ codec_encode' T e d v = dflt obj e json_dumps w /\
     explicit_encode' T e v = dflt obj e json_dumps w).
Proof. exact (exception_parity_encode ty obj mk_mar mk_unm isbytestype class_of json_dumps json_loads). Qed.

Theorem C02_exception_parity_decode : forall T b e d m u, mk_mar T = Ok m -> mk_unm T = Ok u ->
  isbytestype T = false ->
  (forall x, dflt obj d json_loads b = Raise x ->
     api_decode' T b d = Raise x /\ codec_decode' T e d b = Raise x /\ explicit_decode' T d b = Raise x) /\
  (forall w, dflt obj d json_loads b = Ok w ->
     api_decode' T b d = u w /\ codec_decode' T e d b = u w /\ explicit_decode' T d b = u w).
Proof. exact (exception_parity_decode ty obj mk_mar mk_unm isbytestype json_dumps json_loads). Qed.

(* bytes-like T is carried verbatim: no encoder or decoder, supplied or default, is ever applied *)
Theorem C02_bytes_verbatim : forall T m u, isbytestype T = true -> mk_mar T = Ok m -> mk_unm T = Ok u ->
  forall e d v b,
    codec_encode' T e d v = m v /\ codec_decode' T e d b = u b /\
    api_encode' v (Some T) e = m v /\ api_decode' T b d = u b.
Proof. exact (bytes_verbatim ty obj mk_mar mk_unm isbytestype class_of json_dumps json_loads). Qed.

(* codec(T).decode(codec(T).encode(v)) = v, from C01 for (T, v) and the wire law of the pair *)
Theorem C02_roundtrip : forall T v e d (dom : obj -> Prop),
  bind (marshal_fn' v (Some T)) (unmarshal_fn' T) = Ok v ->                         (* roundtrip_law: C01 *)
  (forall w, marshal_fn' v (Some T) = Ok w -> dom w) ->                             (* C06 + quantifier *)
  (forall w, dom w -> bind (dflt obj e json_dumps w) (dflt obj d json_loads) = Ok w) ->   (* encoder law *)
  bind (codec_encode' T e d v) (codec_decode' T e d) = Ok v.
Proof. exact (roundtrip ty obj mk_mar mk_unm isbytestype class_of json_dumps json_loads). Qed.

(* the encoded bytes parse, with the standard json module, to exactly marshal(v, t=T) *)
Theorem C02_valid_json : forall T v e d w (dom : obj -> Prop) (std_loads : routine obj),
  c02_guard' T = true -> isbytestype T = false ->
  marshal_fn' v (Some T) = Ok w -> dom w ->
  (forall w', dom w' -> exists b, dflt obj e json_dumps w' = Ok b) ->
  (forall w' b, dom w' -> dflt obj e json_dumps w' = Ok b -> std_loads b = Ok w') ->
  exists b, codec_encode' T e d v = Ok b /\ std_loads b = Ok w.
Proof. exact (valid_json ty obj mk_mar mk_unm isbytestype class_of json_dumps json_loads). Qed.

End Statements.

(* functools.cache around codec() returns, after any history of calls, what the undecorated
   function returns -- provided key equality is identity (two ==-equal spellings of one union are
   C12's subject, DESIGN section 9 #11) *)
Theorem C02_cache_transparent : forall (K V : Type) (keq : K -> K -> bool) (f : K -> res V),
  (forall a b, keq a b = true -> a = b) ->
  forall hist k, fst (memo_call K V keq f (memo_run K V keq f [] hist) k) = f k.
Proof. exact memo_transparent. Qed.

(* The agreement statement for api.py as pinned, and its refutation: with a bytes-like T
   typelib.encode sends the byte string through the JSON encoder (TypeError) and typelib.decode
   through the JSON decoder, while codec(T) is the identity coder. *)
Definition C02_full_pinned : Prop :=
  forall (ty obj : Type) (mk_mar mk_unm : ty -> res (routine obj)) (isb : ty -> bool) (class_of : obj -> ty)
         (dumps loads : routine obj) (T : ty) (v : obj) e d,
    c02_guard ty obj mk_mar mk_unm T = true ->
    api_encode_pinned ty obj mk_mar class_of dumps v (Some T) e = codec_encode ty obj mk_mar mk_unm isb dumps loads T e d v /\
    api_decode_pinned ty obj mk_unm loads T v d = codec_decode ty obj mk_mar mk_unm isb dumps loads T e d v.

Theorem C02_refuted_api_bytes :
  exists (ty obj : Type) (mk_mar mk_unm : ty -> res (routine obj)) (isb : ty -> bool) (class_of : obj -> ty)
         (dumps loads : routine obj) (T : ty) (v : obj),
    c02_guard ty obj mk_mar mk_unm T = true /\ isb T = true /\
    api_encode_pinned ty obj mk_mar class_of dumps v (Some T) None = Raise EType /\
    codec_encode ty obj mk_mar mk_unm isb dumps loads T None None v = Ok v /\
    api_decode_pinned ty obj mk_unm loads T v None = Raise EValue /\
    codec_decode ty obj mk_mar mk_unm isb dumps loads T None None v = Ok v.
Proof. exact refuted_api_bytes. Qed.

(* non-vacuity: toy2 = one bytes-like type (true) and one number type (false) whose wire form is
   n+1 and whose encoding is n+1+100; the guard, the C01 law, the encoder law on dom = everything,
   and the conclusions of the positive theorems all hold on it. *)
Example C02_hyps_satisfiable :
  c02_guard bool nat toy2_mk_mar toy2_mk_unm false = true /\
  c02_guard bool nat toy2_mk_mar toy2_mk_unm true = true /\
  bind (marshal_fn bool nat toy2_mk_mar toy_class 5 (Some false)) (unmarshal_fn bool nat toy2_mk_unm false) = Ok 5 /\
  (forall w, bind (toy2_dumps w) toy2_loads = Ok w) /\
  codec_encode bool nat toy2_mk_mar toy2_mk_unm toy_isb toy2_dumps toy2_loads false None None 5 = Ok 106 /\
  api_encode bool nat toy2_mk_mar toy_isb toy_class toy2_dumps 5 (Some false) None = Ok 106 /\
  codec_decode bool nat toy2_mk_mar toy2_mk_unm toy_isb toy2_dumps toy2_loads false None None 106 = Ok 5 /\
  codec_encode bool nat toy2_mk_mar toy2_mk_unm toy_isb toy2_dumps toy2_loads true None None 5 = Ok 5 /\
  codec_decode bool nat toy2_mk_mar toy2_mk_unm toy_isb toy2_dumps toy2_loads false None None 3 = Raise EValue.
Proof.
  repeat split; try (vm_compute; reflexivity).
  intro w. unfold toy2_dumps, toy2_loads. cbn [bind].
  replace (Nat.ltb (w + 100) 100) with false by (symmetry; apply Nat.ltb_ge; apply Nat.le_add_l).
  rewrite Nat.add_sub. reflexivity.
Qed.

Print Assumptions C02_entry_points_encode.
Print Assumptions C02_entry_points_decode.
Print Assumptions C02_encode_default_t.
Print Assumptions C02_exception_parity_encode.
Print Assumptions C02_exception_parity_decode.
Print Assumptions C02_bytes_verbatim.
Print Assumptions C02_roundtrip.
Print Assumptions C02_valid_json.
Print Assumptions C02_cache_transparent.
Print Assumptions C02_refuted_api_bytes.
