(* Property C03 -- unmarshal never returns a value outside the target type.
   Table-independent.  This file contains only the property theorems, their non-vacuity
   examples and the refutation witnesses.

   unm        = Core.unm, the reference semantics of the composite unmarshal routines at /repo HEAD
                (with the two C03 repairs: f089b75 fixed-tuple arity, 6b21d1e TypedDict required keys);
   unm_pinned = frozen copy of Core.unm before those repairs (Model/CoreC03.v), only for the witnesses;
   conforms   = the statement: structural type checker over Python values (Model/CoreC03.v);
   LeafLaws   = what is assumed of the scalar routines (sampled on the implementation on every run):
                a leaf routine returns an instance of its leaf type, the None routine returns None. *)
From Coq Require Import List Arith Bool.
Import ListNotations.
Require Import TL.Model.Core TL.Model.CoreTables TL.Model.CoreC03 TL.Proofs.CoreC03.

(* the full statement, for a given semantics u of unmarshal: every input x whatsoever *)
Definition C03_statement (u : runtime -> env -> nat -> ty -> pv -> res pv) : Prop :=
  forall rt E leaf_ok, LeafLaws rt leaf_ok -> wf_env E ->
  forall fuel T x v, u rt E fuel T x = Ok v -> exists n, conforms rt E leaf_ok n T v = true.

(* ---- the full statement, no guard ---- *)
Theorem C03_conforms : C03_statement unm.
Proof. intros rt E lo L WF fuel T x v H. exists fuel. exact (unm_conforms rt E lo L WF fuel T x v H). Qed.

(* same, with the fuel made explicit: the checker needs no more fuel than the conversion used,
   and stays true with more *)
Theorem C03_conforms_fuel : forall rt E leaf_ok, LeafLaws rt leaf_ok -> wf_env E ->
  forall fuel T x v m, unm rt E fuel T x = Ok v -> fuel <= m ->
  conforms rt E leaf_ok m T v = true.
Proof.
  intros rt E lo L WF fuel T x v m H Hle.
  exact (conforms_mono rt E lo fuel m T v Hle (unm_conforms rt E lo L WF fuel T x v H)).
Qed.

(* ---- a toy runtime: leaves are the identity on atoms, text is not parsed ---- *)
Definition toy_rt : runtime :=
  {| leaf_u := fun _ x => match x with PAtom _ => Ok x | _ => Raise EType end;
     leaf_m := fun _ x => Ok x;
     none_u := fun x => match x with PAtom 0 => Ok x | _ => Raise EValue end;
     load_scalar := fun x => Ok x;
     values_scalar := fun _ => Raise EType; unpack_scalar := fun _ => Raise EType;
     items_scalar := fun _ => Raise EType;
     pairlike_scalar := fun _ => false;
     index := fun i => PAtom (100 + i);
     unhashable_class := fun _ => false;
     atom_eq := fun _ _ => false;
     none := PAtom 0;
     suppressed := fun _ => true |}.
Definition toy_leaf_ok (s : nat) (v : pv) : bool := match v with PAtom _ => true | _ => false end.

Lemma toy_laws : LeafLaws toy_rt toy_leaf_ok.
Proof.
  split.
  - intros s x v H. cbn in H. destruct x; inversion H; subst; reflexivity.
  - intros x v H. cbn in H. destruct x as [[|a]| | | | |]; inversion H; subst; reflexivity.
Qed.

(* class 0: total TypedDict {a: leaf 0};  class 1: dataclass (a: leaf 0, b: tuple[leaf 0, leaf 1] | None = None) *)
Definition toy_env : env := fun n =>
  match n with
  | 0 => Some (NClass {| cflavour := FTypedDict; cfields := [ {| fname := 0; fty := TLeaf 0; fdefault := None |} ];
                         crequired := [0] |})
  | 1 => Some (NClass {| cflavour := FDataclass;
                         cfields := [ {| fname := 0; fty := TLeaf 0; fdefault := None |};
                                      {| fname := 1; fty := TUnion [TTuple [TLeaf 0; TLeaf 1]; TNone];
                                         fdefault := Some (PAtom 0) |} ];
                         crequired := [] |})
  | _ => None
  end.

Lemma toy_wf : wf_env toy_env.
Proof.
  intros c cd H. destruct c as [|[|c]]; cbn in H; inversion H; subst; cbn.
  - repeat constructor. intros [].
  - repeat constructor; cbn; intuition discriminate.
Qed.

(* non-vacuity: the hypotheses hold of a non-trivial instance (a list of dataclasses holding a fixed
   tuple inside a union and a defaulted field; a list of mappings with a union value) *)
Example C03_hyps_satisfiable :
  LeafLaws toy_rt toy_leaf_ok /\ wf_env toy_env /\
  unm toy_rt toy_env 6 (TSeq KList (TName 1))
      (PSeq KTuple [PDict KDict [(PKey 0, PAtom 7); (PKey 1, PSeq KList [PAtom 8; PAtom 9; PAtom 10])]; PDict KDict [(PKey 0, PAtom 3)]])
    = Ok (PSeq KList [PObj 1 [(0, PAtom 7); (1, PSeq KTuple [PAtom 8; PAtom 9])]; PObj 1 [(0, PAtom 3); (1, PAtom 0)]]) /\
  conforms toy_rt toy_env toy_leaf_ok 6 (TSeq KList (TName 1))
      (PSeq KList [PObj 1 [(0, PAtom 7); (1, PSeq KTuple [PAtom 8; PAtom 9])]; PObj 1 [(0, PAtom 3); (1, PAtom 0)]]) = true /\
  unm toy_rt toy_env 6 (TSeq KList (TMap KDict (TLeaf 0) (TUnion [TNone; TLeaf 1])))
      (PSeq KList [PDict KOrderedDict [(PAtom 1, PAtom 0); (PAtom 2, PAtom 5)]])
    = Ok (PSeq KList [PDict KDict [(PAtom 1, PAtom 0); (PAtom 2, PAtom 5)]]) /\
  unm toy_rt toy_env 6 (TName 0) (PDict KDict [(PKey 0, PAtom 4); (PKey 9, PAtom 1)]) = Ok (PDict KDict [(PKey 0, PAtom 4)]).
Proof. split; [exact toy_laws|]. split; [exact toy_wf|]. vm_compute. repeat split. Qed.

(* the checker is not trivially true: wrong class, wrong arity, undeclared key, missing required key,
   missing field, raw dict inside list[Class] *)
Example C03_conforms_rejects :
  conforms toy_rt toy_env toy_leaf_ok 6 (TSeq KList (TLeaf 0)) (PSeq KTuple [PAtom 1]) = false /\
  conforms toy_rt toy_env toy_leaf_ok 6 (TTuple [TLeaf 0; TLeaf 1]) (PSeq KTuple [PAtom 1; PAtom 2; PAtom 3]) = false /\
  conforms toy_rt toy_env toy_leaf_ok 6 (TName 0) (PDict KDict [(PKey 0, PAtom 1); (PKey 5, PAtom 1)]) = false /\
  conforms toy_rt toy_env toy_leaf_ok 6 (TName 0) (PDict KDict []) = false /\
  conforms toy_rt toy_env toy_leaf_ok 6 (TName 1) (PObj 1 [(0, PAtom 7)]) = false /\
  conforms toy_rt toy_env toy_leaf_ok 6 (TSeq KList (TName 1)) (PSeq KList [PDict KDict [(PKey 0, PAtom 7)]]) = false.
Proof. vm_compute. repeat split. Qed.

(* ---- on record: the routines BEFORE the repairs (unm_pinned) violated the statement ---- *)
(* #15a  unmarshal(tuple[A, B], [a]) returned the 1-tuple (a,): zip truncates *)
Theorem C03_refuted_short_tuple :
  exists rt E leaf_ok fuel T x v,
    LeafLaws rt leaf_ok /\ wf_env E /\ unm_pinned rt E fuel T x = Ok v /\
    forall n, conforms rt E leaf_ok n T v = false.
Proof.
  exists toy_rt, toy_env, toy_leaf_ok, 3, (TTuple [TLeaf 0; TLeaf 1]), (PSeq KList [PAtom 1]), (PSeq KTuple [PAtom 1]).
  split; [exact toy_laws|]. split; [exact toy_wf|]. split; [vm_compute; reflexivity|].
  intros [|n]; [reflexivity|]. cbn. apply andb_false_r.
Qed.

(* #15b  unmarshal(TD, {}) returned {} for a total TypedDict TD: required keys were not checked *)
Theorem C03_refuted_typeddict :
  exists rt E leaf_ok fuel T x v,
    LeafLaws rt leaf_ok /\ wf_env E /\ unm_pinned rt E fuel T x = Ok v /\
    forall n, conforms rt E leaf_ok n T v = false.
Proof.
  exists toy_rt, toy_env, toy_leaf_ok, 3, (TName 0), (PDict KDict []), (PDict KDict []).
  split; [exact toy_laws|]. split; [exact toy_wf|]. split; [vm_compute; reflexivity|].
  intros [|n]; reflexivity.
Qed.

Theorem C03_pinned_is_false : ~ C03_statement unm_pinned.
Proof.
  intros F. destruct C03_refuted_short_tuple as [rt [E [lo [fuel [T [x [v [L [WF [H Hn]]]]]]]]]].
  destruct (F rt E lo L WF fuel T x v H) as [n Hc]. rewrite (Hn n) in Hc. discriminate.
Qed.

(* the repaired semantics rejects both witnesses and still drops extra members *)
Example C03_unm_rejects_witnesses :
  unm toy_rt toy_env 3 (TTuple [TLeaf 0; TLeaf 1]) (PSeq KList [PAtom 1]) = Raise EValue /\
  unm toy_rt toy_env 3 (TName 0) (PDict KDict []) = Raise EType /\
  unm toy_rt toy_env 3 (TTuple [TLeaf 0; TLeaf 1]) (PSeq KList [PAtom 1; PAtom 2; PAtom 3])
    = Ok (PSeq KTuple [PAtom 1; PAtom 2]).
Proof. vm_compute. repeat split. Qed.

Print Assumptions C03_conforms.
Print Assumptions C03_conforms_fuel.
Print Assumptions C03_refuted_short_tuple.
Print Assumptions C03_refuted_typeddict.
Print Assumptions C03_pinned_is_false.
