(* Property C03 -- unmarshal never returns a value outside the target type.
   Table-independent.  This file contains only the property theorems, their non-vacuity
   examples and the refutation witnesses.

   unm        = Core.unm, the reference semantics of the composite unmarshal routines at /repo HEAD
                BEFORE the two C03 repairs (proposed_fixes/C03-*.diff);
   unm_fixed  = the same semantics with the two repairs (local copy in Model/CoreC03.v; it becomes
                Core.unm when Core.v receives the edit written down in notes/C03.md);
   conforms   = the statement: structural type checker over Python values (Model/CoreC03.v);
   LeafLaws   = what is assumed of the scalar routines (sampled on the implementation on every run):
                a leaf routine returns an instance of its leaf type, the None routine returns None. *)
From Coq Require Import List Arith Bool.
Import ListNotations.
Require Import TL.Model.Core TL.Model.CoreTables TL.Model.CoreC03 TL.Proofs.CoreC03.

(* the full statement, for a given semantics u of unmarshal: every input x whatsoever *)
Definition C03_statement (u : runtime -> env -> (nat -> nat -> bool) -> nat -> ty -> pv -> res pv) : Prop :=
  forall rt E leaf_ok required, LeafLaws rt leaf_ok -> wf_env E ->
  forall fuel T x v, u rt E required fuel T x = Ok v -> exists n, conforms rt E leaf_ok required n T v = true.

Definition C03_full : Prop := C03_statement (fun rt E _ => unm rt E).

(* ---- the repaired routines: the full statement, no guard ---- *)
Theorem C03_conforms_fixed : C03_statement unm_fixed.
Proof. intros rt E lo req L WF fuel T x v H. exists fuel. exact (conforms_fixed rt E lo req L WF fuel T x v H). Qed.

(* same, with the fuel made explicit: the checker needs no more fuel than the conversion used,
   and stays true with more *)
Theorem C03_conforms_fixed_fuel : forall rt E leaf_ok required, LeafLaws rt leaf_ok -> wf_env E ->
  forall fuel T x v m, unm_fixed rt E required fuel T x = Ok v -> fuel <= m ->
  conforms rt E leaf_ok required m T v = true.
Proof.
  intros rt E lo req L WF fuel T x v m H Hle.
  exact (conforms_mono rt E lo req fuel m T v Hle (conforms_fixed rt E lo req L WF fuel T x v H)).
Qed.

(* ---- the routines as they are at /repo HEAD: everywhere except fixed tuples and TypedDicts that
        have a required key (c03_guard) ---- *)
Theorem C03_conforms : forall rt E leaf_ok required, LeafLaws rt leaf_ok -> wf_env E ->
  forall fuel T x v, c03_guard E required fuel T = true -> unm rt E fuel T x = Ok v ->
  exists n, conforms rt E leaf_ok required n T v = true.
Proof. intros rt E lo req L WF fuel T x v G H. exists fuel. exact (conforms_guarded rt E lo req L WF fuel T x v G H). Qed.

(* under the guard the two semantics are the same function *)
Theorem C03_repairs_change_nothing_else : forall rt E required fuel T,
  c03_guard E required fuel T = true -> forall x, unm rt E fuel T x = unm_fixed rt E required fuel T x.
Proof. intros rt E req fuel T G x. exact (unm_agrees_under_guard rt E req fuel T G x). Qed.

(* ---- a toy runtime: leaves are the identity on atoms, text is not parsed ---- *)
Definition toy_rt : runtime :=
  {| leaf_u := fun _ x => match x with PAtom _ => Ok x | _ => Raise EType end;
     leaf_m := fun _ x => Ok x;
     none_u := fun x => match x with PAtom 0 => Ok x | _ => Raise EValue end;
     load_scalar := fun x => Ok x;
     values_scalar := fun _ => Raise EType;
     items_scalar := fun _ => Raise EType;
     pairlike_scalar := fun _ => false;
     index := fun i => PAtom (100 + i);
     unhashable_class := fun _ => false;
     atom_eq := fun _ _ => false;
     none := PAtom 0;
     suppressed := fun _ => true |}.
Definition toy_leaf_ok (s : nat) (v : pv) : bool := match v with PAtom _ => true | _ => false end.

Lemma toy_laws : LeafLaws toy_rt toy_leaf_ok.
Proof.
  split.
  - intros s x v H. cbn in H. destruct x; inversion H; subst; reflexivity.
  - intros x v H. cbn in H. destruct x as [[|a]| | | | |]; inversion H; subst; reflexivity.
Qed.

(* class 0: total TypedDict {a: leaf 0};  class 1: dataclass (a: leaf 0, b: tuple[leaf 0, leaf 1] | None = None) *)
Definition toy_env : env := fun n =>
  match n with
  | 0 => Some (NClass {| cflavour := FTypedDict; cfields := [ {| fname := 0; fty := TLeaf 0; fdefault := None |} ] |})
  | 1 => Some (NClass {| cflavour := FDataclass;
                         cfields := [ {| fname := 0; fty := TLeaf 0; fdefault := None |};
                                      {| fname := 1; fty := TUnion [TTuple [TLeaf 0; TLeaf 1]; TNone];
                                         fdefault := Some (PAtom 0) |} ] |})
  | _ => None
  end.
Definition all_required (c f : nat) : bool := true.

Lemma toy_wf : wf_env toy_env.
Proof.
  intros c cd H. destruct c as [|[|c]]; cbn in H; inversion H; subst; cbn.
  - repeat constructor. intros [].
  - repeat constructor; cbn; intuition discriminate.
Qed.

(* non-vacuity of C03_conforms_fixed / C03_conforms: the hypotheses hold of a non-trivial instance
   (a dataclass holding a fixed tuple inside a union; a list of mappings for the guarded form) *)
Example C03_hyps_satisfiable :
  LeafLaws toy_rt toy_leaf_ok /\ wf_env toy_env /\
  unm_fixed toy_rt toy_env all_required 6 (TSeq KList (TName 1))
      (PSeq KTuple [PDict KDict [(PKey 0, PAtom 7); (PKey 1, PSeq KList [PAtom 8; PAtom 9; PAtom 10])]; PDict KDict [(PKey 0, PAtom 3)]])
    = Ok (PSeq KList [PObj 1 [(0, PAtom 7); (1, PSeq KTuple [PAtom 8; PAtom 9])]; PObj 1 [(0, PAtom 3); (1, PAtom 0)]]) /\
  conforms toy_rt toy_env toy_leaf_ok all_required 6 (TSeq KList (TName 1))
      (PSeq KList [PObj 1 [(0, PAtom 7); (1, PSeq KTuple [PAtom 8; PAtom 9])]; PObj 1 [(0, PAtom 3); (1, PAtom 0)]]) = true /\
  c03_guard toy_env all_required 6 (TSeq KList (TMap KDict (TLeaf 0) (TUnion [TNone; TLeaf 1]))) = true /\
  unm toy_rt toy_env 6 (TSeq KList (TMap KDict (TLeaf 0) (TUnion [TNone; TLeaf 1])))
      (PSeq KList [PDict KOrderedDict [(PAtom 1, PAtom 0); (PAtom 2, PAtom 5)]])
    = Ok (PSeq KList [PDict KDict [(PAtom 1, PAtom 0); (PAtom 2, PAtom 5)]]).
Proof. split; [exact toy_laws|]. split; [exact toy_wf|]. vm_compute. repeat split. Qed.

(* the checker is not trivially true: wrong class, wrong arity, undeclared key, missing required key *)
Example C03_conforms_rejects :
  conforms toy_rt toy_env toy_leaf_ok all_required 6 (TSeq KList (TLeaf 0)) (PSeq KTuple [PAtom 1]) = false /\
  conforms toy_rt toy_env toy_leaf_ok all_required 6 (TTuple [TLeaf 0; TLeaf 1]) (PSeq KTuple [PAtom 1; PAtom 2; PAtom 3]) = false /\
  conforms toy_rt toy_env toy_leaf_ok all_required 6 (TName 0) (PDict KDict [(PKey 0, PAtom 1); (PKey 5, PAtom 1)]) = false /\
  conforms toy_rt toy_env toy_leaf_ok all_required 6 (TName 0) (PDict KDict []) = false /\
  conforms toy_rt toy_env toy_leaf_ok all_required 6 (TName 1) (PObj 1 [(0, PAtom 7)]) = false /\
  conforms toy_rt toy_env toy_leaf_ok all_required 6 (TSeq KList (TName 1)) (PSeq KList [PDict KDict [(PKey 0, PAtom 7)]]) = false.
Proof. vm_compute. repeat split. Qed.

(* ---- refutations of the full statement for the unrepaired routines ---- *)
(* #15a  unmarshal(tuple[A, B], [a]) returns the 1-tuple (a,): zip truncates *)
Theorem C03_refuted_short_tuple :
  exists rt E leaf_ok required fuel T x v,
    LeafLaws rt leaf_ok /\ wf_env E /\ unm rt E fuel T x = Ok v /\
    forall n, conforms rt E leaf_ok required n T v = false.
Proof.
  exists toy_rt, toy_env, toy_leaf_ok, all_required, 3, (TTuple [TLeaf 0; TLeaf 1]), (PSeq KList [PAtom 1]), (PSeq KTuple [PAtom 1]).
  split; [exact toy_laws|]. split; [exact toy_wf|]. split; [vm_compute; reflexivity|].
  intros [|n]; [reflexivity|]. cbn. apply andb_false_r.
Qed.

(* #15b  unmarshal(TD, {}) returns {} for a total TypedDict TD: required keys are not checked *)
Theorem C03_refuted_typeddict :
  exists rt E leaf_ok required fuel T x v,
    LeafLaws rt leaf_ok /\ wf_env E /\ unm rt E fuel T x = Ok v /\
    forall n, conforms rt E leaf_ok required n T v = false.
Proof.
  exists toy_rt, toy_env, toy_leaf_ok, all_required, 3, (TName 0), (PDict KDict []), (PDict KDict []).
  split; [exact toy_laws|]. split; [exact toy_wf|]. split; [vm_compute; reflexivity|].
  intros [|n]; reflexivity.
Qed.

Theorem C03_full_is_false : ~ C03_full.
Proof.
  intros F. destruct C03_refuted_short_tuple as [rt [E [lo [req [fuel [T [x [v [L [WF [H Hn]]]]]]]]]]].
  destruct (F rt E lo req L WF fuel T x v H) as [n Hc]. rewrite (Hn n) in Hc. discriminate.
Qed.

(* the repaired semantics rejects both witnesses *)
Example C03_fixed_rejects_witnesses :
  unm_fixed toy_rt toy_env all_required 3 (TTuple [TLeaf 0; TLeaf 1]) (PSeq KList [PAtom 1]) = Raise EValue /\
  unm_fixed toy_rt toy_env all_required 3 (TName 0) (PDict KDict []) = Raise EType /\
  unm_fixed toy_rt toy_env all_required 3 (TTuple [TLeaf 0; TLeaf 1]) (PSeq KList [PAtom 1; PAtom 2; PAtom 3])
    = Ok (PSeq KTuple [PAtom 1; PAtom 2]).
Proof. vm_compute. repeat split. Qed.

Print Assumptions C03_conforms_fixed.
Print Assumptions C03_conforms_fixed_fuel.
Print Assumptions C03_conforms.
Print Assumptions C03_repairs_change_nothing_else.
Print Assumptions C03_refuted_short_tuple.
Print Assumptions C03_refuted_typeddict.
Print Assumptions C03_full_is_false.
