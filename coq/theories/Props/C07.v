(* Property C07 -- recursive and mutually recursive types work at every depth.
   Only the property theorems (proofs: Proofs/BuildLemmas.v, Proofs/BuildSemLemmas.v). *)
From Coq Require Import List Arith Bool.
Import ListNotations.
Require Import TL.Model.Core TL.Model.CoreTables TL.Model.Build TL.Proofs.CoreMono TL.Proofs.BuildLemmas
  TL.Proofs.BuildSemLemmas TL.Props.C05.

(* Building terminates and succeeds for every class environment, cyclic or not: the factory loop is a
   structural fold over the node order (no fuel, no recursion into referenced types -- cycles are cut by
   delayed proxies), and along any order accepted by order_ok every constructor finds its members. *)
Theorem C07_build_total :
  forall (E : env) (dir : bool) (noop_leaf : nat -> bool) (orders : ty -> option (list node)) (T : ty),
    orders_contract E dir noop_leaf orders ->
    (exists ns, orders (evaluate T) = Some ns) ->
    exists r, build_root E orders dir T = Ok r /\ routes E dir noop_leaf r T.
Proof.
  intros E dir noop_leaf orders T Ho [ns Hns].
  destruct (Ho _ _ Hns) as [pre [root [-> [Hord Hroot]]]].
  apply (build_routes E dir noop_leaf orders T pre root Hns Hord). rewrite Hroot. apply norm_evaluate.
Qed.

(* Every level is converted, none is passed through raw: in a routine that routes an annotation the
   no-op routine occurs only where the annotation itself is a pass-through leaf (Any); every other
   member slot -- at any depth, also behind a delayed proxy (see C05_unmarshal, which resolves proxies
   through the factory) -- holds the routine of the member's own annotation. *)
Theorem C07_no_raw_level :
  forall (E : env) (dir : bool) (noop_leaf : nat -> bool) (a : ty),
    routes' E dir noop_leaf RNoOp a -> exists s, a = TLeaf s /\ noop_leaf s = true.
Proof. intros E dir noop_leaf a H. inversion H; subst. exists s. split; [reflexivity|assumption]. Qed.

(* Values of EVERY nesting depth: the conversion through the mechanism is the member-wise reference
   semantics for all inputs x (C05_unmarshal / C05_marshal quantify over all pv, hence all depths);
   restated here for a cyclic environment. *)
Theorem C07_all_depths :
  forall (rt : runtime) (E : env) (noop_leaf : nat -> bool) (orders : ty -> option (list node)),
    orders_contract E true noop_leaf orders -> orders_contract E false noop_leaf orders ->
    (forall s x, noop_leaf s = true -> leaf_u rt s x = Ok x) ->
    (forall s x, noop_leaf s = true -> leaf_m rt s x = Ok x) ->
    forall (T : ty) (fuel : nat) (x : pv),
      (done (api_call rt E orders true fuel T x) = true ->
         exists m, forall m', m' >= m -> unm rt E m' T x = api_call rt E orders true fuel T x) /\
      (done (api_call rt E orders false fuel T x) = true ->
         exists m, forall m', m' >= m -> mar rt E m' T x = api_call rt E orders false fuel T x).
Proof. intros rt E noop_leaf orders Hu Hm Lu Lm T fuel x. split.
  - exact (C05_unmarshal rt E noop_leaf orders Hu Lu T fuel x).
  - exact (C05_marshal rt E noop_leaf orders Hm Lm T fuel x). Qed.

(* non-vacuity: class N0 { kids: list[N0]; val: Optional[int] } with root list[N0], the order observed
   on the implementation, and a toy runtime; a value of depth 3 is converted at every level *)
Definition toy_rt : runtime := mk_runtime
  [ (0, PAtom 7, Ok (PAtom 70)) ] [ (0, PAtom 70, Ok (PAtom 7)) ]
  [ (PAtom 9, Ok (PAtom 9)); (PAtom 7, Raise EValue) ] [] [] [] [] [] [] [] [] (PAtom 9) [EValue; EType].
Definition exOrders (t : ty) : option (list node) :=
  match t with TSeq KList (TName 0) => Some (exOrder ++ [exRoot]) | _ => None end.
Definition wire (v : pv) (kids : list pv) : pv := PDict KDict [(PKey 0, PSeq KList kids); (PKey 1, v)].
Definition obj (v : pv) (kids : list pv) : pv := PObj 0 [(0, PSeq KList kids); (1, v)].
Example C07_depth3_converted :
  api_call toy_rt exE exOrders true 40 (TSeq KList (TName 0))
    (PSeq KList [wire (PAtom 7) [wire (PAtom 9) [wire (PAtom 7) []]]])
  = Ok (PSeq KList [obj (PAtom 70) [obj (PAtom 9) [obj (PAtom 70) []]]]).
Proof. vm_compute. reflexivity. Qed.
Example C07_contract_satisfiable :
  order_ok exE true (fun _ => false) [] (exOrder ++ [exRoot]) = true /\
  order_ok exE false (fun _ => false) [] (exOrder ++ [exRoot]) = true.
Proof. vm_compute. split; reflexivity. Qed.

Print Assumptions C07_build_total.
Print Assumptions C07_no_raw_level.
Print Assumptions C07_all_depths.
