(* Property C07 -- recursive and mutually recursive types work at every depth.
   Only the property theorems (proofs: Proofs/BuildLemmas.v, Proofs/BuildSemLemmas.v). *)
From Coq Require Import List Arith Bool.
Import ListNotations.
Require Import TL.Model.Core TL.Model.CoreTables TL.Model.Build TL.Proofs.CoreMono TL.Proofs.BuildLemmas
  TL.Proofs.BuildSemLemmas TL.Proofs.BuildComplete TL.Props.C05.

(* Building terminates and succeeds for every environment -- classes AND alias objects (E n = NType v: recursive
   `type N = ...` statements and string-valued TypeAliasType objects), cyclic or not: the factory loop is a
   structural fold over the node order (build_root has no fuel argument: no recursion into referenced types --
   cycles are cut by delayed proxies, see C07_string_alias_lazy for the alias case), and along any order accepted
   by order_ok every constructor finds its members. *)
Theorem C07_build_total :
  forall (E : env) (dir : bool) (noop_leaf : nat -> bool) (orders : ty -> option (list node)) (T : ty),
    orders_contract E dir noop_leaf orders ->
    (exists ns, orders (evaluate T) = Some ns) ->
    exists r, build_root E orders dir T = Ok r /\ routes E dir noop_leaf r T.
Proof.
  intros E dir noop_leaf orders T Ho [ns Hns].
  destruct (Ho _ _ Hns) as [pre [root [-> [Hord Hroot]]]].
  apply (build_routes E dir noop_leaf orders T pre root Hns Hord). rewrite Hroot. apply norm_evaluate.
Qed.

(* What makes construction terminate for a recursive STRING-VALUED alias is the lazy proxy, and only that.  Whatever
   the text of the alias says (v is the reference the text stands for; nothing is assumed about what it evaluates
   to -- it may mention the alias itself, other aliases, classes that mention the alias):
     - inspection.unwrap stops at the reference: unwrap E (TName n) = v, the body is not looked at;
     - the constructor chosen for that unwrapped form is the proxy, in every context (no member lookup at all);
     - hence the one-node order graph.static_order returns for the alias (type = the alias object, unwrapped = the
       reference) satisfies the contract trivially, and the routine built for the alias IS the proxy for v;
     - the body is built when the proxy is CALLED: run (S fuel) (RDelayed v) x = build_root v, then run with fuel
       -- through the public factory, static_order(ForwardRef) evaluating the root first (build_root: orders (evaluate v)).
   (A PEP 695 alias `type N = body` is different: its value is peeled by unwrap and its node is expanded like the
   body; there the revisit of N is what is deferred -- example C07_pep695_alias below.) *)
Theorem C07_string_alias_lazy :
  forall (E : env) (dir : bool) (noop_leaf : nat -> bool) (n : nat) (v : ty),
    E n = Some (NType v) -> is_ref v = true ->
    let nd := {| ntype := TName n; nunw := v; ncyc := false |} in
    unwrap E (TName n) = v /\
    (forall cx, construct E dir cx v = Ok (RDelayed v)) /\
    order_ok E dir noop_leaf [] [nd] = true /\
    (forall orders, orders (TName n) = Some [nd] -> build_root E orders dir (TName n) = Ok (RDelayed v)) /\
    (forall rt orders fuel x,
       run rt E orders dir (S fuel) (RDelayed v) x = bind (build_root E orders dir v) (fun r => run rt E orders dir fuel r x)).
Proof. exact string_alias_lazy. Qed.

(* Every level is converted, none is passed through raw: in a routine that routes an annotation the
   no-op routine occurs only where the annotation itself is a pass-through leaf (Any); every other
   member slot -- at any depth, also behind a delayed proxy (see C05_unmarshal, which resolves proxies
   through the factory) -- holds the routine of the member's own annotation. *)
Theorem C07_no_raw_level :
  forall (E : env) (dir : bool) (noop_leaf : nat -> bool) (a : ty),
    routes' E dir noop_leaf RNoOp a ->
    exists s, aeq E a (TLeaf s) /\ noop_leaf s = true /\ (noalias E -> a = TLeaf s).
Proof. intros E dir noop_leaf a H. destruct (routes'_noop E dir noop_leaf a H) as [s [Ha Hs]].
  exists s. split; [exact Ha|]. split; [exact Hs|]. intros Hna. exact (aeq_noalias E _ _ Hna Ha). Qed.

(* Values of EVERY nesting depth: the conversion through the mechanism is the member-wise reference
   semantics for all inputs x (C05_unmarshal / C05_marshal quantify over all pv, hence all depths);
   restated here for a cyclic environment. *)
Theorem C07_all_depths :
  forall (rt : runtime) (E : env) (noop_leaf : nat -> bool) (orders : ty -> option (list node)),
    orders_contract E true noop_leaf orders -> orders_contract E false noop_leaf orders ->
    (forall s x, noop_leaf s = true -> leaf_u rt s x = Ok x) ->
    (forall s x, noop_leaf s = true -> leaf_m rt s x = Ok x) ->
    forall (T : ty) (fuel : nat) (x : pv),
      (done (api_call rt E orders true fuel T x) = true ->
         exists m, forall m', m' >= m -> unm rt E m' T x = api_call rt E orders true fuel T x) /\
      (done (api_call rt E orders false fuel T x) = true ->
         exists m, forall m', m' >= m -> mar rt E m' T x = api_call rt E orders false fuel T x).
Proof. intros rt E noop_leaf orders Hu Hm Lu Lm T fuel x. split.
  - exact (C05_unmarshal rt E noop_leaf orders Hu Lu T fuel x).
  - exact (C05_marshal rt E noop_leaf orders Hm Lm T fuel x). Qed.

(* ... without any "the mechanism terminates" premise: whenever the REFERENCE semantics gives a value or an exception
   for a value of whatever depth, the mechanism gives the same for all sufficiently large fuel (C05_unmarshal_complete /
   C05_marshal_complete: every lazy proxy met on the way down is resolved through the factory in finitely many steps;
   orders_strict: static_order(t) ends in t's own expanded node and whatever it defers has an order) *)
Theorem C07_all_depths_complete :
  forall (rt : runtime) (E : env) (noop_leaf : nat -> bool) (orders : ty -> option (list node)),
    orders_contract E true noop_leaf orders -> orders_contract E false noop_leaf orders -> orders_strict orders ->
    (forall s x, noop_leaf s = true -> leaf_u rt s x = Ok x) ->
    (forall s x, noop_leaf s = true -> leaf_m rt s x = Ok x) ->
    forall (T : ty) (n : nat) (x : pv), defd orders T = true ->
      (done (unm rt E n T x) = true ->
         exists N, forall fuel, fuel >= N -> api_call rt E orders true fuel T x = unm rt E n T x) /\
      (done (mar rt E n T x) = true ->
         exists N, forall fuel, fuel >= N -> api_call rt E orders false fuel T x = mar rt E n T x).
Proof. intros rt E noop_leaf orders Hu Hm Hs Lu Lm T n x Hdef. split.
  - exact (C05_unmarshal_complete rt E noop_leaf orders Hu Hs Lu T n x Hdef).
  - exact (C05_marshal_complete rt E noop_leaf orders Hm Hs Lm T n x Hdef). Qed.

(* non-vacuity: class N0 { kids: list[N0]; val: Optional[int] } with root list[N0], the order observed
   on the implementation, and a toy runtime; a value of depth 3 is converted at every level *)
Definition toy_rt : runtime := mk_runtime
  [ (0, PAtom 7, Ok (PAtom 70)) ] [ (0, PAtom 70, Ok (PAtom 7)) ]
  [ (PAtom 9, Ok (PAtom 9)); (PAtom 7, Raise EValue) ] [] [] [] [] [] [] [] [] (PAtom 9) [EValue; EType].
Definition exOrders (t : ty) : option (list node) :=
  match t with TSeq KList (TName 0) => Some (exOrder ++ [exRoot]) | _ => None end.
Definition wire (v : pv) (kids : list pv) : pv := PDict KDict [(PKey 0, PSeq KList kids); (PKey 1, v)].
Definition obj (v : pv) (kids : list pv) : pv := PObj 0 [(0, PSeq KList kids); (1, v)].
Example C07_depth3_converted :
  api_call toy_rt exE exOrders true 40 (TSeq KList (TName 0))
    (PSeq KList [wire (PAtom 7) [wire (PAtom 9) [wire (PAtom 7) []]]])
  = Ok (PSeq KList [obj (PAtom 70) [obj (PAtom 9) [obj (PAtom 70) []]]]).
Proof. vm_compute. reflexivity. Qed.
Example C07_contract_satisfiable :
  order_ok exE true (fun _ => false) [] (exOrder ++ [exRoot]) = true /\
  order_ok exE false (fun _ => false) [] (exOrder ++ [exRoot]) = true.
Proof. vm_compute. split; reflexivity. Qed.

(* ---- non-vacuity for environments WITH recursive aliases -------------------------------------------------------- *)
(* a toy runtime: leaf 0 = int ("7" -> 7, written PAtom 7 -> PAtom 70), leaf 1 = str (the text "k" = PAtom 20),
   None = PAtom 9; scalars are not iterable; the unions swallow every exception kind *)
Definition aRt : runtime :=
  {| leaf_u := fun s x => match s, x with
                 | 0, PAtom 7 => Ok (PAtom 70) | 0, PAtom 70 => Ok (PAtom 70) | 1, PAtom 20 => Ok (PAtom 20)
                 | _, _ => Raise EValue end;
     leaf_m := fun s x => match s, x with 0, PAtom 70 => Ok (PAtom 70) | 1, PAtom 20 => Ok (PAtom 20) | _, _ => Raise EValue end;
     none_u := fun x => match x with PAtom 9 => Ok x | _ => Raise EValue end;
     load_scalar := fun x => Ok x; values_scalar := fun _ => Raise EType; items_scalar := fun _ => Raise EType;
     unpack_scalar := fun _ => Raise EType; pairlike_scalar := fun _ => false; index := fun i => PAtom (100 + i);
     unhashable_class := fun _ => false; atom_eq := fun _ _ => false; none := PAtom 9; suppressed := fun _ => true |}.
Definition plain (t : ty) : node := {| ntype := t; nunw := t; ncyc := false |}.

(* (1) Json = TypeAliasType("Json", "dict[str, Json] | list[Json] | int | str | None")        (N5; string-valued)
   The two node orders are the ones graph.static_order returns on /repo: for the alias object ONE node (unwrapped =
   the reference to the text), and for that reference -- evaluated first -- the union with the alias node met twice,
   once expanded (again a single proxy node) and once deferred. *)
Definition jBody : ty := TUnion [TMap KDict (TLeaf 1) (TName 5); TSeq KList (TName 5); TLeaf 0; TLeaf 1; TNone].
Definition jE : env := fun n => match n with 5 => Some (NType (TRefTo jBody)) | _ => None end.
Definition jNode (c : bool) : node := {| ntype := TName 5; nunw := TRefTo jBody; ncyc := c |}.
Definition jPre : list node :=
  [plain (TLeaf 0); plain (TLeaf 1); plain TNone; jNode false; jNode true;
   plain (TMap KDict (TLeaf 1) (TName 5)); plain (TSeq KList (TName 5))].
Definition jOrders (t : ty) : option (list node) :=
  if ty_eqb t (TName 5) then Some ([] ++ [jNode false]) else if ty_eqb t jBody then Some (jPre ++ [plain jBody]) else None.
(* the hypotheses of C07_build_total / C07_all_depths hold of this environment, both directions *)
Example C07_json_contract : forall dir, orders_contract jE dir (fun _ => false) jOrders.
Proof. intros dir t ns H. unfold jOrders in H.
  destruct (ty_eqb t (TName 5)) eqn:E1.
  - apply ty_eqb_eq in E1. subst t. injection H as <-. exists [], (jNode false).
    split; [reflexivity|]. split; [destruct dir; vm_compute; reflexivity|reflexivity].
  - destruct (ty_eqb t jBody) eqn:E2; [|discriminate H]. apply ty_eqb_eq in E2. subst t. injection H as <-.
    exists jPre, (plain jBody). split; [reflexivity|]. split; [destruct dir; vm_compute; reflexivity|reflexivity]. Qed.
(* what is built: a proxy for the alias; the union with a proxy at each recursive position when the proxy is resolved *)
Example C07_json_routines :
  build_root jE jOrders true (TName 5) = Ok (RDelayed (TRefTo jBody)) /\
  build_root jE jOrders true (TRefTo jBody)
  = Ok (RUnion true [RNone; RMap KDict (RLeaf 1) (RDelayed (TName 5)); RSeq KList (RDelayed (TName 5)); RLeaf 0; RLeaf 1]).
Proof. vm_compute. split; reflexivity. Qed.
(* a value nested to depth 3 ({"k": [{"k": "7"}, None]}) is converted at every level, both directions, and the
   mechanism agrees with the reference semantics *)
Definition jv (leaf : pv) : pv := PDict KDict [(PAtom 20, PSeq KList [PDict KDict [(PAtom 20, leaf)]; PAtom 9])].
Example C07_json_depth3 :
  api_call aRt jE jOrders true 40 (TName 5) (jv (PAtom 7)) = Ok (jv (PAtom 70)) /\
  unm aRt jE 40 (TName 5) (jv (PAtom 7)) = Ok (jv (PAtom 70)) /\
  api_call aRt jE jOrders false 40 (TName 5) (jv (PAtom 70)) = Ok (jv (PAtom 70)) /\
  mar aRt jE 40 (TName 5) (jv (PAtom 70)) = Ok (jv (PAtom 70)).
Proof. vm_compute. repeat split. Qed.
(* ... and C07_all_depths applies: for EVERY input and fuel the mechanism's terminal result is the reference semantics' *)
Example C07_json_all_depths : forall (fuel : nat) (x : pv),
  done (api_call aRt jE jOrders true fuel (TName 5) x) = true ->
  exists m, forall m', m' >= m -> unm aRt jE m' (TName 5) x = api_call aRt jE jOrders true fuel (TName 5) x.
Proof. intros fuel x. apply (C07_all_depths aRt jE (fun _ => false) jOrders (C07_json_contract true) (C07_json_contract false)); discriminate. Qed.

(* ... and C07_all_depths_complete: the two observed orders are strict and closed, so whenever the reference semantics
   terminates on a Json value the mechanism does, with the same result *)
Example C07_json_strict : orders_strict jOrders /\ defd jOrders (TName 5) = true.
Proof. split; [|reflexivity]. intros t ns H. unfold jOrders in H.
  destruct (ty_eqb t (TName 5)) eqn:E1.
  - apply ty_eqb_eq in E1. subst t. injection H as <-. exists [], (jNode false). repeat split; reflexivity.
  - destruct (ty_eqb t jBody) eqn:E2; [|discriminate H]. apply ty_eqb_eq in E2. subst t. injection H as <-.
    exists jPre, (plain jBody). repeat split; reflexivity. Qed.
Example C07_json_complete : forall (n : nat) (x : pv),
  done (unm aRt jE n (TName 5) x) = true ->
  exists N, forall fuel, fuel >= N -> api_call aRt jE jOrders true fuel (TName 5) x = unm aRt jE n (TName 5) x.
Proof. intros n x.
  apply (C07_all_depths_complete aRt jE (fun _ => false) jOrders (C07_json_contract true) (C07_json_contract false)
           (proj1 C07_json_strict)); [discriminate|discriminate|exact (proj2 C07_json_strict)]. Qed.

(* (2) class / alias mutual recursion:  A = TypeAliasType("A", "list[C] | None")  (N6);  class C: v: int; a: A  (N2) *)
Definition aBody : ty := TUnion [TSeq KList (TName 2); TNone].
Definition cE : env := fun n => match n with
  | 6 => Some (NType (TRefTo aBody))
  | 2 => Some (NClass {| cflavour := FDataclass; cfields := [ {| fname := 0; fty := TLeaf 0; fdefault := None |};
                                                              {| fname := 1; fty := TName 6; fdefault := None |} ]; crequired := [] |})
  | _ => None end.
Definition aNode : node := {| ntype := TName 6; nunw := TRefTo aBody; ncyc := false |}.
Definition cOrders (t : ty) : option (list node) :=
  if ty_eqb t (TName 2) then Some ([plain (TLeaf 0); aNode] ++ [plain (TName 2)])
  else if ty_eqb t aBody then Some ([plain TNone; plain (TLeaf 0); aNode; plain (TName 2); plain (TSeq KList (TName 2))] ++ [plain aBody])
  else if ty_eqb t (TName 6) then Some ([] ++ [aNode]) else None.
Example C07_class_alias_contract : forall dir, orders_contract cE dir (fun _ => false) cOrders.
Proof. intros dir t ns H. unfold cOrders in H.
  destruct (ty_eqb t (TName 2)) eqn:E1.
  { apply ty_eqb_eq in E1. subst t. injection H as <-. exists [plain (TLeaf 0); aNode], (plain (TName 2)).
    split; [reflexivity|]. split; [destruct dir; vm_compute; reflexivity|reflexivity]. }
  destruct (ty_eqb t aBody) eqn:E2.
  { apply ty_eqb_eq in E2. subst t. injection H as <-.
    exists [plain TNone; plain (TLeaf 0); aNode; plain (TName 2); plain (TSeq KList (TName 2))], (plain aBody).
    split; [reflexivity|]. split; [destruct dir; vm_compute; reflexivity|reflexivity]. }
  destruct (ty_eqb t (TName 6)) eqn:E3; [|discriminate H].
  apply ty_eqb_eq in E3. subst t. injection H as <-. exists [], aNode.
  split; [reflexivity|]. split; [destruct dir; vm_compute; reflexivity|reflexivity]. Qed.
Definition cw (v a : pv) : pv := PDict KDict [(PKey 0, v); (PKey 1, a)].
Definition co (v a : pv) : pv := PObj 2 [(0, v); (1, a)].
Example C07_class_alias_depth3 :
  build_root cE cOrders true (TName 2) = Ok (RStruct 2 [(0, RLeaf 0); (1, RDelayed (TRefTo aBody))]) /\
  api_call aRt cE cOrders true 40 (TName 2) (cw (PAtom 7) (PSeq KList [cw (PAtom 7) (PSeq KList [cw (PAtom 7) (PAtom 9)])]))
  = Ok (co (PAtom 70) (PSeq KList [co (PAtom 70) (PSeq KList [co (PAtom 70) (PAtom 9)])])) /\
  api_call aRt cE cOrders false 40 (TName 2) (co (PAtom 70) (PSeq KList [co (PAtom 70) (PSeq KList [co (PAtom 70) (PAtom 9)])]))
  = Ok (cw (PAtom 70) (PSeq KList [cw (PAtom 70) (PSeq KList [cw (PAtom 70) (PAtom 9)])])).
Proof. vm_compute. repeat split. Qed.

(* (3) a PEP 695 alias:  type PJ = dict[str, PJ] | list[PJ] | int | None  (N8; the value is the union itself).
   unwrap peels the alias object, its node is expanded like the union and the REVISIT of PJ is the deferred node
   (same type, same unwrapped form, cyclic); the order is the one observed on /repo. *)
Definition pBody : ty := TUnion [TMap KDict (TLeaf 1) (TName 8); TSeq KList (TName 8); TLeaf 0; TNone].
Definition pE : env := fun n => match n with 8 => Some (NType pBody) | _ => None end.
Definition pNode (c : bool) : node := {| ntype := TName 8; nunw := pBody; ncyc := c |}.
Definition pOrders (t : ty) : option (list node) :=
  if ty_eqb t (TName 8)
  then Some ([plain (TLeaf 0); plain TNone; plain (TLeaf 1); pNode true; plain (TMap KDict (TLeaf 1) (TName 8));
              plain (TSeq KList (TName 8))] ++ [pNode false])
  else None.
Example C07_pep695_contract : forall dir, orders_contract pE dir (fun _ => false) pOrders.
Proof. intros dir t ns H. unfold pOrders in H.
  destruct (ty_eqb t (TName 8)) eqn:E1; [|discriminate H].
  apply ty_eqb_eq in E1. subst t. injection H as <-.
  exists [plain (TLeaf 0); plain TNone; plain (TLeaf 1); pNode true; plain (TMap KDict (TLeaf 1) (TName 8));
          plain (TSeq KList (TName 8))], (pNode false).
  split; [reflexivity|]. split; [destruct dir; vm_compute; reflexivity|reflexivity]. Qed.
Example C07_pep695_alias :
  unwrap pE (TName 8) = pBody /\
  build_root pE pOrders true (TName 8)
  = Ok (RUnion true [RNone; RMap KDict (RLeaf 1) (RDelayed (TName 8)); RSeq KList (RDelayed (TName 8)); RLeaf 0]) /\
  api_call aRt pE pOrders true 40 (TName 8) (jv (PAtom 7)) = Ok (jv (PAtom 70)) /\
  unm aRt pE 40 (TName 8) (jv (PAtom 7)) = Ok (jv (PAtom 70)) /\
  api_call aRt pE pOrders false 40 (TName 8) (jv (PAtom 70)) = Ok (jv (PAtom 70)).
Proof. vm_compute. repeat split. Qed.

(* what the environment-aware unwrap is needed for: with the structural unwrap of the old model (unwrap_s: every named
   object is a class) the alias node is not acceptable -- the observed unwrapped form is not what the model unwraps to *)
Example C07_alias_needs_env :
  unwrap_s (TName 5) = TName 5 /\ unwrap jE (TName 5) = TRefTo jBody /\
  order_ok (fun _ => None) true (fun _ => false) [] [jNode false] = false /\
  (* a cycle of value aliases (`type A = B; type B = A`): the code's unwrap loop does not terminate; the model gives
     up after alias_hops alias objects and no order containing such a node is accepted *)
  (let loopE : env := fun n => match n with 0 => Some (NType (TName 1)) | 1 => Some (NType (TName 0)) | _ => None end in
   unwrap loopE (TName 0) = TName 0 /\
   order_ok loopE true (fun _ => false) [] [{| ntype := TName 0; nunw := TName 0; ncyc := false |}] = false).
Proof. vm_compute. repeat split. Qed.

(* the deferred (cyclic) node of an alias object, in the three shapes graph.py produces / could produce: deferred as
   itself (type = the alias, unwrapped = the reference to its text), deferred BY NAME (a string alias whose text has no
   '[' is not "generic" for graph.py: a revisit becomes (ForwardRef('N'), forwardref(unwrap N)) -- observed on /repo for
   N0 = TypeAliasType('N0', 'N1 | None') met twice in one class) -- both acceptable: the two keys have one head normal
   form through the alias objects; a second key that stands for something else is not *)
Example C07_deferred_alias_nodes :
  let ok n := node_ok jE true (fun _ => false) [] n in
  ok {| ntype := TName 5; nunw := TRefTo jBody; ncyc := true |} = true /\
  ok {| ntype := TRef 5; nunw := TRefTo jBody; ncyc := true |} = true /\
  ok {| ntype := TRef 5; nunw := TRefLeaf 3; ncyc := true |} = false /\
  node_ok pE true (fun _ => false) [] {| ntype := TName 8; nunw := pBody; ncyc := true |} = true.
Proof. vm_compute. repeat split. Qed.

Print Assumptions C07_build_total.
Print Assumptions C07_string_alias_lazy.
Print Assumptions C07_all_depths_complete.
Print Assumptions C07_no_raw_level.
Print Assumptions C07_all_depths.
