(* Property C18 -- generic item and value iteration is lossless and non-destructive.
   Only the property theorems (model: Model/Iter.v, scripts: Proofs/IterLemmas.v).

   [repaired] = serdes.py with the diffs in proposed_fixes applied (the tree the check is meant for);
   [pinned]   = serdes.py as pinned; the statement is false of it (see the C18_refuted theorems). *)
From Coq Require Import List ZArith NArith String Ascii Bool.
Import ListNotations.
Require Import TL.Model.Iter TL.Proofs.IterLemmas.
Local Open Scope string_scope.

(* The full statement, for a variant c of the code: for every object x of the quantifier,
   list(iteritems(x)) and list(itervalues(x)) are exactly what the statement prescribes, and x
   afterwards is x (a one-shot iterator: exhausted, nothing lost, nothing left). *)
Definition C18_full (c : cfg) : Prop :=
  forall x, guard x = true ->
    iteritems c x = (Ok (spec_items x), spec_after x) /\
    itervalues c x = (Ok (spec_values x), spec_after x).

Theorem C18_items : forall x, guard x = true ->
  iteritems repaired x = (Ok (spec_items x), spec_after x).
Proof. exact items_ok. Qed.

Theorem C18_values : forall x, guard x = true ->
  itervalues repaired x = (Ok (spec_values x), spec_after x).
Proof. exact values_ok. Qed.

Theorem C18_full_repaired : C18_full repaired.
Proof. intros x G. exact (conj (items_ok x G) (values_ok x G)). Qed.

(* A fresh one-shot iterator over l (any kind, any length): iteritems yields either l itself (when
   its first element is a pair) or (0, l0), (1, l1), ...; itervalues yields l; nothing for the empty
   one; afterwards the iterator is exhausted. *)
Theorem C18_once : forall k l,
  exists out,
    iteritems repaired (VIter k 0 l) = (Ok out, VIter k (List.length l) l) /\
    (out = l \/ out = map tup' (enumerate l)) /\
    (l = [] -> out = []) /\
    itervalues repaired (VIter k 0 l) = (Ok l, VIter k (List.length l) l).
Proof. exact once. Qed.

(* x is not modified -- in either variant, whatever the result (also when an exception is raised) *)
Theorem C18_nondestructive : forall c x, is_oneshot x = false ->
  snd (iteritems c x) = x /\ snd (itervalues c x) = x.
Proof. intros c x H. exact (conj (nondestructive_items c x H) (nondestructive_values c x H)). Qed.

(* the iteration strategy depends on the class only: the per-class cache of get_items_iter is unobservable *)
Theorem C18_strategy_per_class : forall c x y, class_of x = class_of y ->
  get_items_iter c (class_of x) = get_items_iter c (class_of y).
Proof. exact strategy_per_class. Qed.

(* The pinned tree already behaves as stated on non-empty iterables that are not named tuples *)
Theorem C18_pinned_peek_nonempty : forall x v r,
  isiterabletype (class_of x) = true -> ismappingtype (class_of x) = false ->
  isnamedtuple (class_of x) = false -> issequencetype (class_of x) = false ->
  elems x = v :: r ->
  iteritems pinned x = (Ok (iterable_result x), advance x (List.length (elems x))).
Proof. exact items_peek_path_pinned_nonempty. Qed.

(* ---- the pinned tree violates the statement: four witnesses ---- *)
Definition nt_ab : val := VNamed ["a"; "b"] [VStr "ab"; VInt 1].
(* DESIGN 9 #12: iteritems(NT('ab', 1)) yields 'ab', 1 instead of ('a', 'ab'), ('b', 1) *)
Theorem C18_refuted_namedtuple :
  guard nt_ab = true /\
  iteritems pinned nt_ab = (Ok [VStr "ab"; VInt 1], nt_ab) /\
  spec_items nt_ab = [tup (VStr "a") (VStr "ab"); tup (VStr "b") (VInt 1)].
Proof. vm_compute. repeat split. Qed.

(* DESIGN 9 #13: iteritems(iter([])) raises StopIteration (also dict views, generators, set subclasses) *)
Theorem C18_refuted_empty_iter :
  guard (VIter IGenerator 0 []) = true /\
  iteritems pinned (VIter IGenerator 0 []) = (Raise EStopIter, VIter IGenerator 0 []) /\
  iteritems pinned (VColl KKeysView []) = (Raise EStopIter, VColl KKeysView []) /\
  spec_items (VIter IGenerator 0 []) = [].
Proof. vm_compute. repeat split. Qed.

(* class V: def __init__(self, n): self.value = n   -- the field names come from the signature *)
Definition vars_cls : clsdesc :=
  {| c_flavour := FVars; c_dataclass := false; c_dc_fields := []; c_hints := []; c_sig := ["n"]; c_slots := None |}.
Definition vars_obj : val := VObj vars_cls [] (Some [("value", VInt 3)]) [].
Theorem C18_refuted_signature_fields :
  guard vars_obj = true /\
  iteritems pinned vars_obj = (Raise EAttribute, vars_obj) /\
  spec_items vars_obj = [tup (VStr "value") (VInt 3)].
Proof. vm_compute. repeat split. Qed.

(* class S: __slots__ = ("_b",)   -- vars() on an instance without __dict__ *)
Definition pslots_cls : clsdesc :=
  {| c_flavour := FSlots; c_dataclass := false; c_dc_fields := []; c_hints := []; c_sig := []; c_slots := Some ["_b"] |}.
Definition pslots_obj : val := VObj pslots_cls [("_b", VInt 2)] None [].
Theorem C18_refuted_private_slots :
  guard pslots_obj = true /\
  iteritems pinned pslots_obj = (Raise EType, pslots_obj) /\
  spec_items pslots_obj = [].
Proof. vm_compute. repeat split. Qed.

(* the repair is narrow: an object without __dict__ whose class does not declare __slots__ (the shape of int,
   float, None ... reaching the vars fallback) still raises TypeError in the repaired code, and is outside the guard *)
Example C18_nodict_noslots_still_raises :
  guard (VObj vars_cls [] None []) = false /\
  iteritems repaired (VObj vars_cls [] None []) = (Raise EType, VObj vars_cls [] None []) /\
  iteritems repaired pslots_obj = (Ok [], pslots_obj).
Proof. vm_compute. repeat split. Qed.

(* Derived classes.  class S: __slots__ = ("a", "b");  class Se(S): __slots__ = ()  -- no annotations anywhere.
   The attribute Se.__slots__ is (): a description that takes the slot names from that attribute alone (se_own: the
   code before serdes._all_slots, fix 84f4e26) satisfies the guard and yields nothing although the instance holds a
   and b; with the names collected over the MRO (se_mro: what c_slots stands for) every held field is yielded. *)
Definition se_cls (sl : list string) : clsdesc :=
  {| c_flavour := FSlots; c_dataclass := false; c_dc_fields := []; c_hints := []; c_sig := ["a"; "b"]; c_slots := Some sl |}.
Definition se_own : val := VObj (se_cls []) [("a", VStr "ab"); ("b", VInt 1)] None [].
Definition se_mro : val := VObj (se_cls ["a"; "b"]) [("a", VStr "ab"); ("b", VInt 1)] None [].
Theorem C18_inherited_slots_reading :
  guard se_own = true /\ iteritems repaired se_own = (Ok [], se_own) /\
  guard se_mro = true /\
  iteritems repaired se_mro = (Ok [tup (VStr "a") (VStr "ab"); tup (VStr "b") (VInt 1)], se_mro) /\
  itervalues repaired se_mro = (Ok [VStr "ab"; VInt 1], se_mro).
Proof. vm_compute. repeat split. Qed.

(* non-vacuity for derived shapes: an undecorated subclass of a dataclass(slots=True) (fields in inherited slots, an
   instance __dict__ with an ad-hoc attribute), a subclass that adds an annotated member to an annotated __slots__ class
   (hints merged over the MRO, pair-like first field), a subclass without __slots__ of a slots-only class *)
Definition dcs_sub : val :=
  VObj {| c_flavour := FDataclass; c_dataclass := true; c_dc_fields := ["a"; "_p"]; c_hints := ["a"; "_p"; "tag"];
          c_sig := ["a"; "_p"]; c_slots := Some ["a"; "_p"] |}
       [("a", VStr "ab"); ("_p", VInt 2)] (Some [("z", VInt 9)]) [("tag", VInt 7)].
Definition ann_add : val :=
  VObj {| c_flavour := FAnnotated; c_dataclass := false; c_dc_fields := []; c_hints := ["a"; "b"];
          c_sig := ["a"; "b"]; c_slots := Some ["a"; "b"] |}
       [("a", tup (VStr "k") (VInt 1)); ("b", VInt 2)] None [].
Definition sl_sub_dict : val :=
  VObj (se_cls ["a"; "b"]) [("a", VStr "ab"); ("b", VInt 1)] (Some [("z", VInt 9)]) [].
Example C18_guard_inhabited_derived :
  guard dcs_sub = true /\ spec_items dcs_sub = [tup (VStr "a") (VStr "ab")] /\
  guard ann_add = true /\ spec_items ann_add = [tup (VStr "a") (tup (VStr "k") (VInt 1)); tup (VStr "b") (VInt 2)] /\
  guard sl_sub_dict = true /\ spec_values sl_sub_dict = [VStr "ab"; VInt 1] /\
  guard (VIter IGenerator 0 [VNamed ["a"; "b"] [VStr "ab"; VInt 1]]) = true /\
  iteritems repaired (VIter IGenerator 0 [dcs_sub]) = (Ok [tup (VInt 0) dcs_sub], VIter IGenerator 1 [dcs_sub]).
Proof. vm_compute. repeat split. Qed.

Theorem C18_full_pinned_false : ~ C18_full pinned.
Proof.
  intros H. destruct (H nt_ab eq_refl) as [Hi _]. vm_compute in Hi. discriminate Hi.
Qed.

(* ---- non-vacuity: the guard is inhabited by every flavour, with non-trivial content ---- *)
Definition dc_cls : clsdesc :=
  {| c_flavour := FDataclass; c_dataclass := true; c_dc_fields := ["a"; "_p"; "b"];
     c_hints := ["a"; "_p"; "cv"; "b"]; c_sig := ["a"; "_p"; "b"]; c_slots := None |}.
Definition dc_obj : val :=
  VObj dc_cls [] (Some [("a", VInt 1); ("_p", VInt 2); ("b", VStr "x")]) [("cv", VInt 7)].
Definition plain_cls : clsdesc :=
  {| c_flavour := FAnnotated; c_dataclass := false; c_dc_fields := [];
     c_hints := ["a"; "_p"; "cv"]; c_sig := ["a"]; c_slots := None |}.
Definition plain_obj : val :=
  VObj plain_cls [] (Some [("a", VInt 1); ("_p", VInt 1); ("z", VInt 9)]) [("cv", VInt 7)].
Example C18_guard_inhabited :
  guard dc_obj = true /\ spec_items dc_obj = [tup (VStr "a") (VInt 1); tup (VStr "b") (VStr "x")] /\
  guard plain_obj = true /\ spec_items plain_obj = [tup (VStr "a") (VInt 1); tup (VStr "cv") (VInt 7)] /\
  guard vars_obj = true /\ guard pslots_obj = true /\ guard nt_ab = true /\
  guard (VIter IGenerator 0 [tup (VInt 5) (VInt 6); VInt 7]) = true /\
  spec_items (VIter IGenerator 0 [tup (VInt 5) (VInt 6); VInt 7]) = [tup (VInt 5) (VInt 6); VInt 7] /\
  spec_items (VColl KSet [VInt 5]) = [tup (VInt 0) (VInt 5)] /\
  spec_items (VDict MProxy [(VStr "k", VInt 1)]) = [tup (VStr "k") (VInt 1)] /\
  spec_values (VStr "ab") = [VStr "a"; VStr "b"] /\
  iteritems repaired nt_ab = (Ok [tup (VStr "a") (VStr "ab"); tup (VStr "b") (VInt 1)], nt_ab).
Proof. vm_compute. repeat split. Qed.

Print Assumptions C18_items.
Print Assumptions C18_values.
Print Assumptions C18_full_repaired.
Print Assumptions C18_once.
Print Assumptions C18_nondestructive.
Print Assumptions C18_strategy_per_class.
Print Assumptions C18_pinned_peek_nonempty.
Print Assumptions C18_refuted_namedtuple.
Print Assumptions C18_refuted_empty_iter.
Print Assumptions C18_refuted_signature_fields.
Print Assumptions C18_refuted_private_slots.
Print Assumptions C18_inherited_slots_reading.
Print Assumptions C18_full_pinned_false.
