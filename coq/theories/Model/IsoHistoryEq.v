(* Model/IsoHistoryEq.v -- C04: executable comparison function for the iso-history correspondence stream.
   DEFINITIONS ONLY.  The runtime is the concrete toy_rt (Model/ScalarsToy.v): its canon_text writes dates, times
   and datetimes with the writers of Model/IsoText.v (tied to the interpreter by the iso-writer stream). *)
From Coq Require Import List ZArith Ascii String Bool.
Import ListNotations.
Require Import TL.Model.Duration.
Require Import TL.Model.Temporal.
Require Import TL.Model.Scalars.
Require Import TL.Model.ScalarsEq.
Require Import TL.Model.IsoText.
Require Import TL.Model.ScalarsToy.
Require Import TL.Model.IsoHistory.
Open Scope Z_scope.

Fixpoint vals_eqb (a b : list val) : bool :=
  match a, b with
  | [], [] => true
  | x :: r, y :: r' => val_eqb x y && vals_eqb r r'
  | _, _ => false end.
(* (history, observations of the implementation along it, caches cleared before its first call only) *)
Definition hist_case_ok (c : list (hop * val) * list val) : bool :=
  vals_eqb (run_hist toy_rt [] (fst c)) (snd c).

(* compact spelling of the two-call histories in the cases files: the warming call, then the four operations on v *)
Definition two_call (ow : hop) (w v : val) : list (hop * val) :=
  [(ow, w); (HIso, v); (HMarshal, v); (HStr, v); (HBytes, v)].
Definition pair_case_ok (c : hop * val * val * list val) : bool :=
  let '(ow, w, v, obs) := c in vals_eqb (run_hist toy_rt [] (two_call ow w v)) obs.
Definition mkdt (y mo d h mi s us : Z) (off : option Z) (fold : Z) : val :=
  VDateTime {| dy := y; dmo := mo; dd := d; dh := h; dmi := mi; ds := s; dus := us; doff := off; dfold := fold |}.
Definition mktm (h mi s us : Z) (off : option Z) (fold : Z) : val :=
  VTime {| th := h; tmi := mi; ts := s; tus := us; toff := off; tfold := fold |}.
Definition oS (s : string) : val := VText CStr s.
Definition oB (s : string) : val := VText CBytes s.

(* ---- round 4: two-call histories over the non-temporal scalar kinds.  str(w) and str(v) are interpreter answers
   supplied by the harness (never through typelib): the runtime of a case writes [cw] for the warming value and [cv]
   for every other one; nothing else of the runtime is consulted by run_hist.  Only the observations on v are
   compared (a warming call on, say, an enum member is outside this model). *)
Definition pair_rt (w : val) (cw cv : string) : Runtime := {|
  utf8_decode := utf8_decode toy_rt; utf8_encode := utf8_encode toy_rt;
  canon_text := fun x => if val_eqb x w then cw else cv;
  int_of_str := int_of_str toy_rt; float_of_str := float_of_str toy_rt; dec_of_str := dec_of_str toy_rt;
  frac_of_str := frac_of_str toy_rt; uuid_of_str := uuid_of_str toy_rt; uuid_of_int := uuid_of_int toy_rt;
  path_of_str := path_of_str toy_rt; enum_of_val := enum_of_val toy_rt; int_of_float := int_of_float toy_rt;
  float_of_int := float_of_int toy_rt; load := load toy_rt; pendulum_parse := pendulum_parse toy_rt;
  time_fromisoformat := time_fromisoformat toy_rt; fromtimestamp_utc := fromtimestamp_utc toy_rt;
  timestamp := timestamp toy_rt; td_total_seconds := td_total_seconds toy_rt; td_of_seconds := td_of_seconds toy_rt;
  is_digit_str := is_digit_str toy_rt; is_member := is_member toy_rt; enum_base := enum_base toy_rt;
  py_eq := py_eq toy_rt; truthy := truthy toy_rt; re_compile := re_compile toy_rt; pattern_text := pattern_text toy_rt |}.
Definition scalar_call (ow : hop) (w v : val) : list (hop * val) := [(ow, w); (HMarshal, v); (HStr, v); (HBytes, v)].
Definition spair_case_ok (c : hop * val * val * string * string * list val) : bool :=
  let '(ow, w, v, cw, cv, obs) := c in
  vals_eqb (tl (run_hist (pair_rt w cw cv) [] (scalar_call ow w v))) obs.
