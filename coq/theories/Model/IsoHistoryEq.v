(* Model/IsoHistoryEq.v -- C04: executable comparison function for the iso-history correspondence stream.
   DEFINITIONS ONLY.  The runtime is the concrete toy_rt (Model/ScalarsToy.v): its canon_text writes dates, times
   and datetimes with the writers of Model/IsoText.v (tied to the interpreter by the iso-writer stream). *)
From Coq Require Import List ZArith Ascii String Bool.
Import ListNotations.
Require Import TL.Model.Duration.
Require Import TL.Model.Temporal.
Require Import TL.Model.Scalars.
Require Import TL.Model.ScalarsEq.
Require Import TL.Model.IsoText.
Require Import TL.Model.ScalarsToy.
Require Import TL.Model.IsoHistory.
Open Scope Z_scope.

Fixpoint vals_eqb (a b : list val) : bool :=
  match a, b with
  | [], [] => true
  | x :: r, y :: r' => val_eqb x y && vals_eqb r r'
  | _, _ => false end.
(* (history, observations of the implementation along it, caches cleared before its first call only) *)
Definition hist_case_ok (c : list (hop * val) * list val) : bool :=
  vals_eqb (run_hist toy_rt [] (fst c)) (snd c).

(* compact spelling of the two-call histories in the cases files: the warming call, then the four operations on v *)
Definition two_call (ow : hop) (w v : val) : list (hop * val) :=
  [(ow, w); (HIso, v); (HMarshal, v); (HStr, v); (HBytes, v)].
Definition pair_case_ok (c : hop * val * val * list val) : bool :=
  let '(ow, w, v, obs) := c in vals_eqb (run_hist toy_rt [] (two_call ow w v)) obs.
Definition mkdt (y mo d h mi s us : Z) (off : option Z) (fold : Z) : val :=
  VDateTime {| dy := y; dmo := mo; dd := d; dh := h; dmi := mi; ds := s; dus := us; doff := off; dfold := fold |}.
Definition mktm (h mi s us : Z) (off : option Z) (fold : Z) : val :=
  VTime {| th := h; tmi := mi; ts := s; tus := us; toff := off; tfold := fold |}.
Definition oS (s : string) : val := VText CStr s.
Definition oB (s : string) : val := VText CBytes s.
