(* Bridge between the core value model (Model/Core.v: load, itervalues, iteritems, pairlike, unpack2,
   enumerate_from and the five scalar fields of its runtime) and
     - the model of serdes.iteritems / itervalues / _is_iterable_of_pairs / get_items_iter /
       _make_fields_iterator (Model/Iter.v, property C18), and
     - the model of serdes.decode / load / strload (Model/Serdes.v, property C14).
   Definitions only.  Proofs: Proofs/IoBridge.v.  Theorems: Props/IoBridge.v.

   Core values carry opaque scalars (PAtom a, PKey f).  What the two detailed models must know about them is
   an explicit argument of everything below (never an axiom):
     shape  : how the iteration model sees a scalar (its Iter.val), the text of a field name, what the code
              reads from a structured class and whether its instances keep their fields in slots;
     tshape : how the text model sees a scalar (its Serdes.pv: a text carrier or not), and which core scalar a
              decoded scalar is.
   The three result types are joined in Core.res: Iter's and Serdes' exception kinds are kinds of the core
   model; "a table has no entry" is Unmodelled everywhere. *)
From Coq Require Import List ZArith NArith String Ascii Bool Arith.
Import ListNotations.
Require TL.Model.Core TL.Model.Iter TL.Model.Serdes.

Module C := TL.Model.Core.
Module I := TL.Model.Iter.
Module S := TL.Model.Serdes.

(* ------------------------------------------------------------------ results *)
Definition exn_dn (e : I.exn) : C.exn :=
  match e with
  | I.EStopIter => C.EStopIter | I.EAttribute => C.EAttribute | I.EType => C.EType
  | I.EValue => C.EValue | I.EOther => C.EOther
  end.
Definition down {A} (r : I.res A) : C.res A :=
  match r with I.Ok a => C.Ok a | I.Raise e => C.Raise (exn_dn e) | I.Unmodelled => C.Unmodelled end.

(* C.exn has no MemoryError: it is "any other exception" there (the harness maps it the same way) *)
Definition sexn_dn (e : S.exn) : option C.exn :=
  match e with
  | S.EValue => Some C.EValue | S.EUnicode => Some C.EUnicode | S.EType => Some C.EType
  | S.ESyntax => Some C.ESyntax | S.EAttribute => Some C.EAttribute | S.ERecursion => Some C.ERecursion
  | S.EMemory => Some C.EOther | S.EOther => Some C.EOther
  | S.EUnmodelled => None
  end.

Definition rmap {A B} (f : A -> B) (r : C.res A) : C.res B :=
  match r with
  | C.Ok a => C.Ok (f a) | C.Raise e => C.Raise e | C.OutOfFuel => C.OutOfFuel | C.Unmodelled => C.Unmodelled
  end.

Definition ibind {A B} (r : I.res A) (f : A -> I.res B) : I.res B :=
  match r with I.Ok a => f a | I.Raise e => I.Raise e | I.Unmodelled => I.Unmodelled end.
Fixpoint imapM {A B} (f : A -> I.res B) (l : list A) : I.res (list B) :=
  match l with
  | [] => I.Ok []
  | x :: r => ibind (f x) (fun y => ibind (imapM f r) (fun t => I.Ok (y :: t)))
  end.

Definition omap {A B} (f : A -> option B) : list A -> option (list B) :=
  fix go (l : list A) : option (list B) :=
    match l with
    | [] => Some []
    | y :: r => match f y, go r with Some v, Some t => Some (v :: t) | _, _ => None end
    end.
Definition opair {A B} (a : option A) (b : option B) : option (A * B) :=
  match a, b with Some x, Some y => Some (x, y) | _, _ => None end.

(* ------------------------------------------------------------------ the iteration model, made total *)
(* Iter.v leaves None and int outside its quantifier (Unmodelled).  The code gives them to the vars()
   fallback of _make_fields_iterator, which raises TypeError: they behave like every instance without
   __dict__ of a class without fields and without __slots__ (Proofs/IoBridge.v: scalar_shape_raises). *)
Definition xvalues (x : I.val) : I.res (list I.val) :=
  match x with
  | I.VNone | I.VInt _ => I.Raise I.EType
  | _ => fst (I.itervalues I.repaired x)
  end.
Definition xitems_raw (x : I.val) : I.res (list I.val) :=
  match x with
  | I.VNone | I.VInt _ => I.Raise I.EType
  | _ => fst (I.iteritems I.repaired x)
  end.
(* x after list(iteritems(x)) / list(itervalues(x)) *)
Definition xafter_items (x : I.val) : I.val := snd (I.iteritems I.repaired x).
Definition xafter_values (x : I.val) : I.val := snd (I.itervalues I.repaired x).

(* `for k, v in serdes.iteritems(x)`: the consumer unpacks each yielded element with the interpreter's
   iteration protocol (NOT with serdes.itervalues) *)
Definition unpackI (x : I.val) : I.res (I.val * I.val) :=
  if I.isiterabletype (I.class_of x)
  then match I.elems x with [a; b] => I.Ok (a, b) | _ => I.Raise I.EValue end
  else I.Raise I.EType.
Definition xitems (x : I.val) : I.res (list (I.val * I.val)) := ibind (xitems_raw x) (imapM unpackI).

(* ------------------------------------------------------------------ embedding into Iter.val *)
Record shape := {
  a_iter   : nat -> I.val;        (* the scalar PAtom a, as the iteration model sees it *)
  k_name   : nat -> string;       (* the text of field name f (PKey f is the str equal to it) *)
  cls_of   : nat -> I.clsdesc;    (* what the code reads from structured class c *)
  in_slots : nat -> bool          (* instances of c keep their fields in slots and have no __dict__ *)
}.

Definition seqk (k : C.seqkind) : I.collkind :=
  match k with
  | C.KList => I.KList | C.KTuple => I.KTuple | C.KSet => I.KSet | C.KFrozenset => I.KFrozenSet
  | C.KDeque => I.KDeque
  end.
Definition mapk (k : C.dictkind) : I.mapkind :=
  match k with C.KDict => I.MDict | C.KOrderedDict => I.MOrderedDict end.

Section Emb.
Variable P : shape.
Variable E : C.env.

Fixpoint emb (v : C.pv) : I.val :=
  match v with
  | C.PAtom a => a_iter P a
  | C.PKey f => I.VStr (k_name P f)
  | C.PSeq k l => I.VColl (seqk k) (map emb l)
  | C.PDict k l => I.VDict (mapk k) (map (fun kv => match kv with (a, b) => (emb a, emb b) end) l)
  | C.PObj c l =>
      let attrs := map (fun fv => match fv with (f, x) => (k_name P f, emb x) end) l in
      if in_slots P c then I.VObj (cls_of P c) attrs None [] else I.VObj (cls_of P c) [] (Some attrs) []
  | C.PNamed c l => I.VNamed (map (k_name P) (C.named_fields E c)) (map emb l)
  end.
Definition emb2 (kv : C.pv * C.pv) : I.val * I.val := (emb (fst kv), emb (snd kv)).

(* ---- guards (computable) ---- *)
Definition names_of (fs : list (nat * C.pv)) : list string := map (fun fv => k_name P (fst fv)) fs.
Fixpoint nodup_str (l : list string) : bool :=
  match l with [] => true | a :: r => negb (existsb (String.eqb a) r) && nodup_str r end.
Fixpoint strs_eqb (a b : list string) : bool :=
  match a, b with [], [] => true | x :: r, y :: t => String.eqb x y && strs_eqb r t | _, _ => false end.
(* the field names the class declares (none for a class whose fields are whatever vars() shows) *)
Definition declared (d : I.clsdesc) : option (list string) :=
  match I.c_flavour d with
  | I.FDataclass => Some (I.public (I.c_dc_fields d))
  | I.FAnnotated => Some (I.public (I.c_hints d))
  | I.FSlots => Some (I.public (match I.c_slots d with Some sl => sl | None => [] end))
  | I.FVars => None
  end.
(* PObj c fs lists exactly the public fields of c, each once, in declaration order *)
Definition obj_names_ok (c : nat) (fs : list (nat * C.pv)) : bool :=
  nodup_str (names_of fs) &&
  match declared (cls_of P c) with
  | Some names => strs_eqb names (names_of fs)
  | None => forallb (fun s => negb (I.is_private s)) (names_of fs) && negb (in_slots P c)
  end.

(* the value is a well-formed object of the quantifier of C18: a named tuple has one value per field, a
   structured instance is written in one of the four flavours and carries exactly its declared fields *)
Definition io_guard (v : C.pv) : bool :=
  match v with
  | C.PNamed c l => Nat.eqb (List.length (C.named_fields E c)) (List.length l)
  | C.PObj c fs => I.wf_obj (emb v) && obj_names_ok c fs
  | _ => true
  end.

(* ---- the laws that tie the scalar fields of a core runtime to the iteration model ---- *)
Record IterLaws (rt : C.runtime) : Prop := {
  il_values : forall v, C.is_scalar v = true ->
      rmap (map emb) (C.values_scalar rt v) = down (xvalues (emb v));
  il_items : forall v, C.is_scalar v = true ->
      rmap (map emb2) (C.items_scalar rt v) = down (xitems (emb v));
  il_pairlike : forall v, C.is_scalar v = true -> C.pairlike_scalar rt v = I.is_pair_elem (emb v);
  il_unpack : forall v, C.is_scalar v = true -> rmap emb2 (C.unpack_scalar rt v) = down (unpackI (emb v));
  il_index : forall i, emb (C.index rt i) = I.VInt (Z.of_nat i)
}.

(* ---- the PREVIOUS definition of Core.unpack2 (before the runtime field unpack_scalar existed): a scalar
   element was unpacked through serdes.itervalues (values_scalar); the code unpacks with iter().  Kept only to
   record where it was right (unpack_guard) and where it was refuted (the IoBridge_pinned theorems of Props/IoBridge.v):
   objects that are not iterable but have public fields (uuid.UUID: two slots), and mappings (values vs keys). ---- *)
Section Pinned.
Variable rt : C.runtime.
Definition unpack2_pinned (v : C.pv) : C.res (C.pv * C.pv) :=
  match v with
  | C.PAtom _ | C.PKey _ =>
      C.bind (C.values_scalar rt v) (fun l => match l with [a; b] => C.Ok (a, b) | _ => C.Raise C.EValue end)
  | _ => C.unpack2 rt v
  end.
Definition iteritems_pinned (v : C.pv) : C.res (list (C.pv * C.pv)) :=
  match v with
  | C.PSeq _ (x :: r) =>
      if C.pairlike rt x then C.mapM unpack2_pinned (x :: r) else C.Ok (C.enumerate_from rt 0 (x :: r))
  | _ => C.iteritems rt E v
  end.
End Pinned.
(* where the previous definition was right about a scalar element: non-mapping iterables (str, bytes, ...) and
   objects on which itervalues raises TypeError (int, None, float, ...) *)
Definition is_type_error (e : I.exn) : bool := match e with I.EType => true | _ => false end.
Definition scalar_unpack_ok (x : I.val) : bool :=
  let cl := I.class_of x in
  match xvalues x with
  | I.Ok _ => I.isiterabletype cl && negb (I.ismappingtype cl) && negb (I.isnamedtuple cl)
  | I.Raise e => negb (I.isiterabletype cl) && is_type_error e
  | I.Unmodelled => false
  end.
Definition unpack_guard (v : C.pv) : bool :=
  match v with
  | C.PSeq _ (x :: r) =>
      negb (I.is_pair_elem (emb x)) ||
      forallb (fun y => negb (C.is_scalar y) || scalar_unpack_ok (emb y)) (x :: r)
  | _ => true
  end.

(* ---- the scalar fields DEFINED from the iteration model ---- *)
(* i_back x: the core value that stands for the object x produced by iterating a scalar (a character, a
   byte value, an attribute value) or used as an enumerate index *)
Section Induced.
Variable i_back : I.val -> option C.pv.
Definition back1 (x : I.val) : C.res C.pv := match i_back x with Some v => C.Ok v | None => C.Unmodelled end.
Definition back2 (kv : I.val * I.val) : C.res (C.pv * C.pv) :=
  C.bind (back1 (fst kv)) (fun k => C.bind (back1 (snd kv)) (fun v => C.Ok (k, v))).
Definition ind_values (v : C.pv) : C.res (list C.pv) := C.bind (down (xvalues (emb v))) (C.mapM back1).
Definition ind_items (v : C.pv) : C.res (list (C.pv * C.pv)) := C.bind (down (xitems (emb v))) (C.mapM back2).
Definition ind_pairlike (v : C.pv) : bool := I.is_pair_elem (emb v).
Definition ind_index (i : nat) : C.pv :=
  match i_back (I.VInt (Z.of_nat i)) with Some v => v | None => C.PAtom 0 end.
Definition ind_unpack (v : C.pv) : C.res (C.pv * C.pv) := C.bind (down (unpackI (emb v))) back2.

Definition defined (x : I.val) : Prop := exists v, i_back x = Some v.
Record BackLaws : Prop := {
  bl_sound : forall x v, i_back x = Some v -> emb v = x;
  bl_values : forall v l, C.is_scalar v = true -> xvalues (emb v) = I.Ok l -> Forall defined l;
  bl_items : forall v l, C.is_scalar v = true -> xitems (emb v) = I.Ok l ->
      Forall (fun kv => defined (fst kv) /\ defined (snd kv)) l;
  bl_unpack : forall v a b, C.is_scalar v = true -> unpackI (emb v) = I.Ok (a, b) -> defined a /\ defined b;
  bl_index : forall i, defined (I.VInt (Z.of_nat i))
}.
End Induced.
End Emb.

(* ------------------------------------------------------------------ the text model *)
Record tshape := {
  a_ser  : nat -> S.pv;              (* the scalar PAtom a, as the text model sees it *)
  k_text : nat -> S.str;             (* the code points of field name f *)
  s_back : S.pv -> option C.pv       (* the core scalar that stands for a scalar the decoders produce *)
}.

Section Ser.
Variable T : tshape.
Variable srt : S.Runtime.

(* a core scalar as input of serdes.load *)
Definition sc (v : C.pv) : S.pv :=
  match v with C.PAtom a => a_ser T a | C.PKey f => S.PText S.CStr (k_text T f) | _ => S.POther 0 end.

Definition s_scalar (x : S.pv) : bool :=
  match x with S.PList _ | S.PTuple _ | S.PSet _ | S.PDict _ => false | _ => true end.

(* reading a decoded value as a core value: JSON arrays / objects and Python literals are list, dict,
   tuple, set objects; scalars through s_back *)
Fixpoint unS (x : S.pv) : option C.pv :=
  match x with
  | S.PList l => option_map (C.PSeq C.KList) (omap unS l)
  | S.PTuple l => option_map (C.PSeq C.KTuple) (omap unS l)
  | S.PSet l => option_map (C.PSeq C.KSet) (omap unS l)
  | S.PDict l =>
      option_map (C.PDict C.KDict)
        (omap (fun ab => match ab with (a, b) => opair (unS a) (unS b) end) l)
  | _ => s_back T x
  end.

(* the partial inverse: the core values the text model can speak about (no structured instances, named
   tuples, frozensets, deques, OrderedDicts: the decoders never produce them) *)
Fixpoint embS (v : C.pv) : option S.pv :=
  match v with
  | C.PAtom _ | C.PKey _ => Some (sc v)
  | C.PSeq C.KList l => option_map S.PList (omap embS l)
  | C.PSeq C.KTuple l => option_map S.PTuple (omap embS l)
  | C.PSeq C.KSet l => option_map S.PSet (omap embS l)
  | C.PDict C.KDict l =>
      option_map S.PDict (omap (fun ab => match ab with (a, b) => opair (embS a) (embS b) end) l)
  | _ => None
  end.

Definition undown (r : S.res S.pv) : C.res C.pv :=
  match r with
  | S.Ok x => match unS x with Some v => C.Ok v | None => C.Unmodelled end
  | S.Raise e => match sexn_dn e with Some e' => C.Raise e' | None => C.Unmodelled end
  end.

(* load_scalar DEFINED from the text model *)
Definition ind_load (v : C.pv) : C.res C.pv := undown (S.load srt (sc v)).

(* the law that ties the load_scalar field of a core runtime to the text model *)
Definition LoadLaw (rt : C.runtime) : Prop :=
  forall v, C.is_scalar v = true -> C.load_scalar rt v = ind_load v.

Record SBackLaws : Prop := {
  sb_scalar : forall x v, s_scalar x = true -> s_back T x = Some v -> C.is_scalar v = true /\ sc v = x;
  sb_text : forall v, C.is_scalar v = true -> s_scalar (sc v) = true
}.
End Ser.

(* ------------------------------------------------------------------ the induced runtime *)
(* every field that is serdes' business is taken from the two models; the rest (leaf routines, None, ==,
   hashability, the kinds a union swallows) from a base runtime *)
Definition io_runtime (P : shape) (E : C.env) (i_back : I.val -> option C.pv)
                      (T : tshape) (srt : S.Runtime) (base : C.runtime) : C.runtime :=
  {| C.leaf_u := C.leaf_u base; C.leaf_m := C.leaf_m base; C.none_u := C.none_u base;
     C.load_scalar := ind_load T srt;
     C.values_scalar := ind_values P E i_back;
     C.items_scalar := ind_items P E i_back;
     C.pairlike_scalar := ind_pairlike P E;
     C.unpack_scalar := ind_unpack P E i_back;
     C.index := ind_index i_back;
     C.unhashable_class := C.unhashable_class base; C.atom_eq := C.atom_eq base; C.none := C.none base;
     C.suppressed := C.suppressed base |}.

(* annotations whose routine starts with serdes.load and never looks at the raw input again *)
Definition load_first_ty (E : C.env) (t : C.ty) : bool :=
  match t with
  | C.TSeq _ _ | C.TMap _ _ _ | C.TTuple _ => true
  | C.TName c | C.TRef c | C.TAliasStr _ c => match E c with Some (C.NClass _) => true | _ => false end
  | _ => false
  end.
