(* Evaluation of the codec model on finite tables, used only by correspondence runs.
   obj := N (numbers of interned Python objects, one numbering per case), ty := N.
   The four things the glue calls -- marshaller(T) and its result, unmarshaller(T) and its result,
   encoder, decoder -- and isbytestype / __class__ are tables filled by calling exactly those
   callables directly; a lookup miss is Raise EMiss, which no observation contains, so a case on
   which the model asks for something that was not recorded always shows up as a mismatch. *)
From Coq Require Import List Bool NArith.
Import ListNotations.
Require Import TL.Model.Codec.

Definition tbl := list (N * res N).
Fixpoint tlookup {A} (t : list (N * A)) (x : N) : option A :=
  match t with [] => None | (k, r) :: rest => if N.eqb k x then Some r else tlookup rest x end.
Definition tfun (t : tbl) : routine N :=
  fun x => match tlookup t x with Some r => r | None => Raise EMiss end.
Definition mk_of (t : list (N * res tbl)) (T : N) : res (routine N) :=
  match tlookup t T with
  | Some (Ok tb) => Ok (tfun tb) | Some (Raise e) => Raise e | None => Raise EMiss end.

Record world := {
  w_mar : list (N * res tbl);      (* T -> marshals.marshaller(T) raised | table of routine(v) *)
  w_unm : list (N * res tbl);      (* T -> unmarshals.unmarshaller(T) raised | table of routine(x) *)
  w_bytes : list (N * bool);       (* inspection.isbytestype(T) *)
  w_class : list (N * N);          (* v -> number of v.__class__ *)
  w_dumps : tbl;                   (* compat.json.dumps *)
  w_loads : tbl;                   (* compat.json.loads *)
  w_user : list tbl                (* user-supplied encoders / decoders *)
}.
Definition w_isb (w : world) (T : N) : bool := match tlookup (w_bytes w) T with Some b => b | None => false end.
Definition w_cls (w : world) (v : N) : N := match tlookup (w_class w) v with Some c => c | None => 4000000%N end.
Definition user (w : world) (i : option nat) : option (routine N) :=
  match i with None => None | Some n => Some (tfun (nth n (w_user w) [])) end.

Inductive call :=
| ApiEnc (v : N) (t : option N) (e : option nat)      (* typelib.encode(v, t=t, encoder=e) *)
| CodecEnc (T : N) (e d : option nat) (v : N)         (* typelib.codec(T, encoder=e, decoder=d).encode(v) *)
| ExplEnc (T : N) (e : option nat) (v : N)            (* e(typelib.marshal(v, t=T)) *)
| ApiDec (T : N) (b : N) (d : option nat)             (* typelib.decode(T, b, decoder=d) *)
| CodecDec (T : N) (e d : option nat) (b : N)         (* typelib.codec(T, encoder=e, decoder=d).decode(b) *)
| ExplDec (T : N) (d : option nat) (b : N)            (* typelib.unmarshal(T, d(b)) *)
(* typelib.codec(T, marshaller=m, unmarshaller=u, encoder=e, decoder=d).encode(v) / .decode(b) *)
| CodecEncM (T : N) (m u : nat) (e d : option nat) (v : N)
| CodecDecM (T : N) (m u : nat) (e d : option nat) (b : N).

Definition run_call (w : world) (c : call) : res N :=
  let mm := mk_of (w_mar w) in let mu := mk_of (w_unm w) in
  let isb := w_isb w in let dumps := tfun (w_dumps w) in let loads := tfun (w_loads w) in
  match c with
  | ApiEnc v t e => api_encode N N mm isb (w_cls w) dumps v t (user w e)
  | CodecEnc T e d v => codec_encode N N mm mu isb dumps loads T (user w e) (user w d) v
  | ExplEnc T e v => explicit_encode N N mm (w_cls w) dumps T (user w e) v
  | ApiDec T b d => api_decode N N mu isb loads T b (user w d)
  | CodecDec T e d b => codec_decode N N mm mu isb dumps loads T (user w e) (user w d) b
  | ExplDec T d b => explicit_decode N N mu loads T (user w d) b
  | CodecEncM T m u e d v =>
      bind (codec N N mm mu isb dumps loads T (user w (Some m)) (user w (Some u)) (user w e) (user w d))
           (fun c => Codec_encode N c v)
  | CodecDecM T m u e d b =>
      bind (codec N N mm mu isb dumps loads T (user w (Some m)) (user w (Some u)) (user w e) (user w d))
           (fun c => Codec_decode N c b)
  end.
(* the same with api.py as pinned (used to show what the unrepaired tree is expected to do) *)
Definition run_call_pinned (w : world) (c : call) : res N :=
  match c with
  | ApiEnc v t e => api_encode_pinned N N (mk_of (w_mar w)) (w_cls w) (tfun (w_dumps w)) v t (user w e)
  | ApiDec T b d => api_decode_pinned N N (mk_of (w_unm w)) (tfun (w_loads w)) T b (user w d)
  | _ => run_call w c
  end.

Definition exn_eqb (a b : exn) : bool :=
  match a, b with
  | EValue, EValue | EType, EType | ESyntax, ESyntax | EAttribute, EAttribute | EKey, EKey
  | EArith, EArith | EStopIter, EStopIter | EUnicode, EUnicode | ERecursion, ERecursion
  | EOther, EOther | EMiss, EMiss => true
  | _, _ => false
  end.
Definition res_eqb (a b : res N) : bool :=
  match a, b with Ok x, Ok y => N.eqb x y | Raise x, Raise y => exn_eqb x y | _, _ => false end.

Definition case := (world * list (call * res N))%type.
Definition case_ok_with (run : world -> call -> res N) (c : case) : bool :=
  forallb (fun p => res_eqb (run (fst c) (fst p)) (snd p)) (snd c).
Definition case_ok := case_ok_with run_call.
Definition case_ok_pinned := case_ok_with run_call_pinned.

Fixpoint mismatches_from {A} (ok : A -> bool) (l : list A) (i : nat) : list nat :=
  match l with [] => [] | x :: r => (if ok x then [] else [i]) ++ mismatches_from ok r (S i) end.
Definition mismatches {A} (ok : A -> bool) (l : list A) := mismatches_from ok l 0.
(* number of model results that are Raise EMiss (must be 0: the tables were complete) *)
Definition misses (l : list case) : nat :=
  length (filter (fun c => existsb (fun p => res_eqb (run_call (fst c) (fst p)) (Raise EMiss)) (snd c)) l).
