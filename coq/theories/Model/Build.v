(* The mechanism: how marshaller()/unmarshaller() build a routine for an annotation
   (marshals/api.py, unmarshals/api.py, ctx.py, the routine constructors, the Delayed proxies)
   and how the built routines run.  Mirrors the code: a TypeContext filled edges-to-root
   along the node order of graph.static_order, first-match dispatch on the unwrapped
   annotation, member routines fetched from the context by annotation (with the
   __missing__ fallbacks), cyclic nodes as delayed proxies resolved through the public
   factory at call time.  Definitions only. *)
From Coq Require Import List Arith Bool PeanoNat.
Import ListNotations.
Require Import TL.Model.Core.

(* ---------------------------------------------------------------- equality of annotations *)
Fixpoint ty_eqb (a b : ty) {struct a} : bool :=
  match a, b with
  | TLeaf x, TLeaf y => Nat.eqb x y
  | TNone, TNone => true
  | TSeq k x, TSeq k' y => seqkind_eqb k k' && ty_eqb x y
  | TMap k x1 x2, TMap k' y1 y2 => dictkind_eqb k k' && ty_eqb x1 y1 && ty_eqb x2 y2
  | TTuple l, TTuple l' =>
      (fix go (l l' : list ty) : bool :=
         match l, l' with [], [] => true | x :: r, y :: t => ty_eqb x y && go r t | _, _ => false end) l l'
  | TUnion l, TUnion l' =>
      (fix go (l l' : list ty) : bool :=
         match l, l' with [], [] => true | x :: r, y :: t => ty_eqb x y && go r t | _, _ => false end) l l'
  | TName x, TName y => Nat.eqb x y
  | TRef x, TRef y => Nat.eqb x y
  | TRefLeaf x, TRefLeaf y => Nat.eqb x y
  | TRefTo x, TRefTo y => ty_eqb x y
  | TNewType i x, TNewType j y => Nat.eqb i j && ty_eqb x y
  | TAlias i x, TAlias j y => Nat.eqb i j && ty_eqb x y
  | TAliasStr i x, TAliasStr j y => Nat.eqb i j && Nat.eqb x y
  | TFinal x, TFinal y => ty_eqb x y
  | TClassVar x, TClassVar y => ty_eqb x y
  | _, _ => false
  end.

(* ---------------------------------------------------------------- routines *)
Inductive routine :=
| RLeaf (s : nat)                 (* the routine class dispatch gives leaf type s *)
| RNone                           (* NoneTypeUnmarshaller / NoOpMarshaller *)
| RNoOp                           (* fallback for a field whose routine was not found *)
| RSeq (k : seqkind) (r : routine)
| RMap (k : dictkind) (rk rv : routine)
| RTuple (rs : list routine)
| RUnion (nullable : bool) (rs : list routine)
| RStruct (c : nat) (fields : list (nat * routine))
| RDelayed (t : ty).

Definition is_delayed (r : routine) : bool := match r with RDelayed _ => true | _ => false end.

(* a node of graph.static_order *)
Record node := { ntype : ty; nunw : ty; ncyc : bool }.

Section Mech.
Variable rt : runtime.
Variable E : env.
(* graph.static_order as a function of the (evaluated) annotation: supplied by the graph layer (C09);
   in correspondence runs it is the order observed on the implementation *)
Variable orders : ty -> option (list node).
(* true = unmarshal side, false = marshal side *)
Variable dir : bool.

(* inspection.unwrap, the part that needs no environment: qualifiers, NewTypes and alias objects that are written
   structurally (TAlias i <value>; string-valued: TAliasStr i c, whose value is the text naming c). *)
Fixpoint unwrap_s (t : ty) : ty :=
  match t with
  | TFinal t' | TClassVar t' | TAlias _ t' | TNewType _ t' => unwrap_s t'
  | TAliasStr _ c => TRef c
  | _ => t
  end.
Definition is_ref (t : ty) : bool := match t with TRef _ | TRefLeaf _ | TRefTo _ => true | _ => false end.
(* inspection.unwrap.  A NAMED object of the environment may be an alias object (E n = NType v: `type N = ...`,
   `N = TypeAliasType("N", ...)`), possibly recursive.  `istypealiastype(t)`: its value is looked at --
     * a string-valued alias (v is a reference: the text, or for a compound text TRefTo <what the text evaluates to>)
       unwraps to `refs.forwardref(tv, module=t.__module__)`, i.e. to that reference, and unwrapping STOPS there:
       nothing of the body is looked at (this is what keeps a recursive string alias finite: its graph node is
       dispatched to a Delayed* proxy, resolved through the public factory at call time);
     * any other value is peeled and the loop goes on (`t = tv; continue`).
   The loop `while lt is not t` of the code does not terminate on a cycle of value aliases (`type A = B; type B = A`);
   the model follows at most alias_hops alias objects (unwrap_o = None beyond) and then leaves the annotation at the
   name of the first alias object, for which no routine can be constructed (construct: EOther) -- so such
   environments are outside every theorem through order_ok. *)
Definition alias_hops : nat := 16.
Fixpoint unwrap_o (h : nat) (t : ty) : option ty :=
  match unwrap_s t with
  | TName n =>
      match E n with
      | Some (NType v) =>
          if is_ref v then Some v
          else match h with 0 => None | S h' => unwrap_o h' v end
      | _ => Some (TName n)
      end
  | u => Some u
  end.
Definition unwrap (t : ty) : ty := match unwrap_o alias_hops t with Some u => u | None => unwrap_s t end.
(* refs.forwardref(annotation): only named objects have a reference that can be found *)
Definition fref (t : ty) : option ty :=
  match t with TName c => Some (TRef c) | TLeaf s => Some (TRefLeaf s)
  | TNewType _ _ | TAlias _ _ | TAliasStr _ _ => Some (TRefTo t) | _ => None end.
(* refs.evaluate *)
Definition evaluate (t : ty) : ty := match t with TRef c => TName c | TRefLeaf s => TLeaf s | TRefTo t' => t' | _ => t end.

(* ---- TypeContext ---- *)
Definition ctx := list (ty * routine).
Fixpoint find_key (k : ty) (cx : ctx) : option routine :=
  match cx with [] => None | (k', r) :: rest => if ty_eqb k k' then Some r else find_key k rest end.
Definition ctx_set (k : ty) (r : routine) (cx : ctx) : ctx := (k, r) :: cx.
(* context[key], including __missing__ *)
Definition getitem (cx : ctx) (k : ty) : res routine :=
  match find_key k cx with
  | Some r => Ok r
  | None =>
      if is_ref k then Raise EKey
      else match find_key (unwrap k) cx with
           | Some r => Ok r
           | None => match fref k with
                     | Some rf => match find_key rf cx with Some r => Ok r | None => Raise EKey end
                     | None => Raise EKey
                     end
           end
  end.
Definition ctx_get (cx : ctx) (k : ty) : option routine :=
  match getitem cx k with Ok r => Some r | _ => None end.

(* ---- routine constructors (the __init__ bodies) ---- *)
Definition members_u (ts : list ty) : list ty := map evaluate (if dir then union_stack_u ts else ts).
Definition construct (cx : ctx) (u : ty) : res routine :=
  match u with
  | TRef _ | TRefLeaf _ | TRefTo _ | TAliasStr _ _ => Ok (RDelayed u)
  | TLeaf s => Ok (RLeaf s)
  | TNone => Ok RNone
  | TSeq k a => bind (getitem cx (evaluate a)) (fun r => Ok (RSeq k r))
  | TMap k kt vt => bind (getitem cx (evaluate kt)) (fun rk => bind (getitem cx (evaluate vt)) (fun rv => Ok (RMap k rk rv)))
  | TTuple ts => bind (mapM (fun t => getitem cx (evaluate t)) ts) (fun rs => Ok (RTuple rs))
  | TUnion ts => bind (mapM (getitem cx) (members_u ts)) (fun rs => Ok (RUnion (isoptional ts) rs))
  | TName c =>
      match E c with
      | Some (NClass cd) =>
          Ok (RStruct c (map (fun fd =>
                (fname fd,
                 match ctx_get cx (fty fd) with
                 | Some r => r
                 | None => match ctx_get cx (evaluate (fty fd)) with Some r => r | None => RNoOp end
                 end)) (cfields cd)))
      | _ => Raise EOther      (* an alias object never reaches a constructor either: unwrap goes through it *)
      end
  | _ => Raise EOther        (* wrappers never reach a constructor: dispatch is on the unwrapped annotation *)
  end.

(* _get_unmarshaller / the loop body of unmarshaller() *)
Definition build_node (cx : ctx) (n : node) : res routine :=
  if ncyc n then Ok (RDelayed (ntype n))
  else match find_key (ntype n) cx with
       | Some r => if is_delayed r then construct cx (nunw n) else Ok r
       | None => construct cx (nunw n)
       end.
Fixpoint build_loop (cx : ctx) (ns : list node) : res ctx :=
  match ns with
  | [] => Ok cx
  | n :: rest => bind (build_node cx n) (fun r => build_loop (ctx_set (nunw n) r (ctx_set (ntype n) r cx)) rest)
  end.
Definition build_root (t : ty) : res routine :=
  match orders (evaluate t) with
  | None => Unmodelled
  | Some ns =>
      match rev ns with
      | [] => Ok RNoOp
      | root :: _ => bind (build_loop [] ns) (fun cx => getitem cx (ntype root))
      end
  end.

(* ---- running a built routine ---- *)
Definition struct_kw (run : routine -> pv -> res pv) (fields : list (nat * routine)) (kvs : list (pv * pv))
  : res (list (nat * pv)) :=
  fold_left (fun acc kv =>
     bind acc (fun kw =>
       match fst kv with
       | PKey f => match find (fun fr => Nat.eqb (fst fr) f) fields with
                   | Some fr => bind (run (snd fr) (snd kv)) (fun v' => Ok (kw_set f v' kw))
                   | None => Ok kw end
       | k => if unhashable rt k then Raise EType else Ok kw
       end)) kvs (Ok []).

Fixpoint run (fuel : nat) (r : routine) (x : pv) {struct fuel} : res pv :=
  match fuel with
  | 0 => OutOfFuel
  | S n =>
    if dir then
      match r with
      | RLeaf s => leaf_u rt s x
      | RNone => none_u rt x
      | RNoOp => Ok x
      | RSeq k r' =>
          bind (load rt x) (fun d => bind (itervalues rt d) (fun vs =>
          bind (mapM (elem_conv rt k (run n r')) vs) (fun rs => construct_seq rt k rs)))
      | RMap k rk rv =>
          bind (load rt x) (fun d => bind (iteritems rt E d) (fun kvs =>
          bind (mapM (hashing rt fst (fun kv => bind (run n rk (fst kv)) (fun k' =>
                                bind (run n rv (snd kv)) (fun v' => Ok (k', v'))))) kvs)
               (fun rs => construct_map rt k rs)))
      | RTuple rs =>
          bind (load rt x) (fun d => bind (itervalues rt d) (fun vs =>
          if Nat.ltb (length vs) (length rs) then Raise EValue
          else
          bind (mapM (fun rv => run n (fst rv) (snd rv)) (zip_trunc rs vs)) (fun out => Ok (PSeq KTuple out))))
      | RUnion _ rs => first_ok rt (map (run n) rs) x
      | RStruct c fields =>
          match E c with
          | Some (NClass cd) =>
              bind (load rt x) (fun d => bind (iteritems rt E d) (fun kvs =>
              bind (struct_kw (run n) fields kvs) (fun kw => construct_class c cd kw)))
          | _ => Raise EOther
          end
      | RDelayed t => bind (build_root t) (fun r' => run n r' x)
      end
    else
      match r with
      | RLeaf s => leaf_m rt s x
      | RNone => if is_none_val rt x then Ok x else Raise EValue
      | RNoOp => Ok x
      | RSeq k r' => bind (itervalues rt x) (fun vs => bind (mapM (run n r') vs) (fun rs => Ok (PSeq KList rs)))
      | RMap k rk rv =>
          bind (iteritems rt E x) (fun kvs =>
          bind (mapM (hashing rt fst (fun kv => bind (run n rk (fst kv)) (fun k' =>
                                bind (run n rv (snd kv)) (fun v' => Ok (k', v'))))) kvs)
               (fun rs => construct_map rt KDict rs))
      | RTuple rs =>
          bind (itervalues rt x) (fun vs =>
          bind (mapM (fun rv => run n (fst rv) (snd rv)) (zip_trunc rs vs)) (fun out => Ok (PSeq KList out)))
      | RUnion nullable rs =>
          if nullable && is_none_val rt x then Ok x else first_ok rt (map (run n) rs) x
      | RStruct c fields =>
          bind (iteritems rt E x) (fun kvs =>
          bind (struct_kw (run n) fields kvs)
               (fun kw => Ok (PDict KDict (map (fun fv => (PKey (fst fv), snd fv)) kw))))
      | RDelayed t => bind (build_root t) (fun r' => run n r' x)
      end
  end.

(* unmarshal(t, x) / marshal(x, t=t) through the mechanism *)
Definition api_call (fuel : nat) (t : ty) (x : pv) : res pv :=
  bind (build_root t) (fun r => run fuel r x).

End Mech.
