(* C01 layer on the core value model (Model/Core.v).  Definitions only.

   valid        : v is a valid instance of T made of exactly the annotated classes (DESIGN 3.2):
                  member-wise, sets / dict keys hashable and duplicate-free under Python ==,
                  fixed tuples of exact arity, class instances with exactly the declared fields.
                  Leaves are judged by the law predicate `lv s v` (v is an instance of leaf type s
                  as the generator draws them: exact class, declared member for Enum / Literal).
   c01_guard    : at every mapping position the marshalled keys are pairwise distinct under Python ==
                  (U restricts mapping keys to scalars; for a leaf key type this is the leaf law
                  `leaf_m_inj`, see Proofs/CoreC01.v guard_of_leaf_keys).
   union_unamb  : the "unambiguous union" clause of the statement, decided on the model exactly as
                  the routines run: at every union position the member whose marshaller is the first
                  to accept the value is a member the value is valid for, and every member the
                  unmarshaller tries before it rejects the wire form.
   RoundLaws    : the leaf laws (sampled on the implementation on every run).
   fix_ok       : side condition of the weak (fixpoint) form, see C01_union_fixpoint. *)
From Coq Require Import List Arith Bool PeanoNat.
Import ListNotations.
Require Import TL.Model.Core TL.Model.CoreTables.

Fixpoint forallb2 {A B} (p : A -> B -> bool) (a : list A) (b : list B) : bool :=
  match a, b with
  | [], [] => true
  | x :: r, y :: t => p x y && forallb2 p r t
  | _, _ => false
  end.

Fixpoint nodup_nat (l : list nat) : bool :=
  match l with [] => true | x :: r => negb (existsb (Nat.eqb x) r) && nodup_nat r end.

(* keys of a TypedDict value: every key is the str of a field name *)
Fixpoint td_fields (kvs : list (pv * pv)) : option (list (nat * pv)) :=
  match kvs with
  | [] => Some []
  | (PKey f, v) :: r => match td_fields r with Some t => Some ((f, v) :: t) | None => None end
  | _ :: _ => None
  end.

Definition tokv (fv : nat * pv) : pv * pv := (PKey (fst fv), snd fv).

(* every required key of a TypedDict is present (the very test of Core.construct_class) *)
Definition req_ok (cd : classdef) (fs : list (nat * pv)) : bool :=
  forallb (fun fd => negb (existsb (Nat.eqb (fname fd)) (crequired cd)) || has_kw (fname fd) fs) (cfields cd).

(* the (field, value) list of an instance of structured class c, when v is such an instance
   with exactly the declared fields (TypedDict: any duplicate-free subset of the declared keys that contains the required ones) *)
Definition class_fields (c : nat) (cd : classdef) (v : pv) : option (list (nat * pv)) :=
  match cflavour cd, v with
  | FDataclass, PObj c' fs | FPlain, PObj c' fs =>
      if Nat.eqb c c' && list_eqb Nat.eqb (map fst fs) (map fname (cfields cd)) then Some fs else None
  | FNamedTuple, PNamed c' l =>
      if Nat.eqb c c' && Nat.eqb (length l) (length (cfields cd))
      then Some (combine (map fname (cfields cd)) l) else None
  | FTypedDict, PDict KDict kvs =>
      match td_fields kvs with
      | Some fs => if req_ok cd fs then Some fs else None
      | None => None
      end
  | _, _ => None
  end.

Fixpoint exists_split {A} (p : list A -> A -> bool) (pre ts : list A) : bool :=
  match ts with [] => false | t :: r => p pre t || exists_split p (pre ++ [t]) r end.

Definition res_is_reject {A} (sup : exn -> bool) (r : res A) : bool :=
  match r with Raise e => sup e | _ => false end.

Section C01.
Variable rt : runtime.
Variable lv : nat -> pv -> bool.
Variable E : env.

(* no element is == to an element seen before (argument order of pv_pyeq as in Core.dedupe / dict_set) *)
Fixpoint nodup_from (seen l : list pv) : bool :=
  match l with
  | [] => true
  | x :: r => negb (mem_pv rt x seen) && nodup_from (x :: seen) r
  end.

Fixpoint valid (fuel : nat) (t : ty) (v : pv) {struct fuel} : bool :=
  match fuel with
  | 0 => false
  | S n =>
    match t with
    | TLeaf s | TRefLeaf s => lv s v
    | TNone => is_none_val rt v
    | TSeq k a =>
        match v with
        | PSeq k' l =>
            seqkind_eqb k k' && forallb (valid n a) l &&
            match k with
            | KSet | KFrozenset => negb (existsb (unhashable rt) l) && nodup_from [] l
            | _ => true
            end
        | _ => false
        end
    | TMap k kt vt =>
        match v with
        | PDict k' kvs =>
            dictkind_eqb k k' &&
            forallb (fun kv => valid n kt (fst kv) && valid n vt (snd kv)) kvs &&
            negb (existsb (fun kv => unhashable rt (fst kv)) kvs) && nodup_from [] (map fst kvs)
        | _ => false
        end
    | TTuple ts =>
        match v with PSeq KTuple l => forallb2 (valid n) ts l | _ => false end
    | TUnion ts => existsb (fun t' => valid n t' v) ts
    | TName c | TRef c | TAliasStr _ c =>
        match E c with
        | None => false
        | Some (NType t') => valid n t' v
        | Some (NClass cd) =>
            match class_fields c cd v with
            | Some fs =>
                nodup_nat (map fst fs) &&
                forallb (fun fv => match field_ty cd (fst fv) with
                                   | Some ft => valid n ft (snd fv) | None => false end) fs
            | None => false
            end
        end
    | TNewType _ t' | TAlias _ t' | TFinal t' | TClassVar t' | TRefTo t' => valid n t' v
    end
  end.

(* marshalled mapping keys stay pairwise distinct *)
Fixpoint c01_guard (fuel : nat) (t : ty) (v : pv) {struct fuel} : bool :=
  match fuel with
  | 0 => false
  | S n =>
    match t with
    | TLeaf _ | TRefLeaf _ | TNone => true
    | TSeq _ a => match v with PSeq _ l => forallb (c01_guard n a) l | _ => true end
    | TMap _ kt vt =>
        match v with
        | PDict _ kvs =>
            forallb (fun kv => c01_guard n kt (fst kv) && c01_guard n vt (snd kv)) kvs &&
            match mapM (mar rt E n kt) (map fst kvs) with Ok ws => nodup_from [] ws | _ => true end
        | _ => true
        end
    | TTuple ts => match v with PSeq _ l => forallb2 (c01_guard n) ts l | _ => true end
    | TUnion _ => true                       (* the chosen member is judged by union_unamb *)
    | TName c | TRef c | TAliasStr _ c =>
        match E c with
        | None => true
        | Some (NType t') => c01_guard n t' v
        | Some (NClass cd) =>
            match class_fields c cd v with
            | Some fs => forallb (fun fv => match field_ty cd (fst fv) with
                                            | Some ft => c01_guard n ft (snd fv) | None => true end) fs
            | None => true
            end
        end
    | TNewType _ t' | TAlias _ t' | TFinal t' | TClassVar t' | TRefTo t' => c01_guard n t' v
    end
  end.

(* UnionMarshaller: the first member whose marshaller accepts v, with the members declared before it *)
Fixpoint first_acceptor (f : ty -> pv -> res pv) (pre ts : list ty) (v : pv) : option (list ty * ty * pv) :=
  match ts with
  | [] => None
  | t :: r =>
      match f t v with
      | Ok w => Some (pre, t, w)
      | Raise e => if suppressed rt e then first_acceptor f (pre ++ [t]) r v else None
      | _ => None
      end
  end.

(* the members UnionUnmarshaller tries before member t, when `pre` are the members declared before t *)
Definition stack_before (ts pre : list ty) : list ty :=
  if isoptional ts then filter is_none_ty ts ++ filter (fun t => negb (is_none_ty t)) pre else pre.

Fixpoint union_unamb (fuel : nat) (t : ty) (v : pv) {struct fuel} : bool :=
  match fuel with
  | 0 => false
  | S n =>
    match t with
    | TLeaf _ | TRefLeaf _ | TNone => true
    | TSeq _ a => match v with PSeq _ l => forallb (union_unamb n a) l | _ => true end
    | TMap _ kt vt =>
        match v with
        | PDict _ kvs => forallb (fun kv => union_unamb n kt (fst kv) && union_unamb n vt (snd kv)) kvs
        | _ => true
        end
    | TTuple ts => match v with PSeq _ l => forallb2 (union_unamb n) ts l | _ => true end
    | TUnion ts =>
        if isoptional ts && is_none_val rt v then true
        else match first_acceptor (mar rt E n) [] ts v with
             | Some (pre, t', w) =>
                 valid n t' v && c01_guard n t' v && union_unamb n t' v &&
                 forallb (fun u => res_is_reject (suppressed rt) (unm rt E n u w)) (stack_before ts pre)
             | None => false
             end
    | TName c | TRef c | TAliasStr _ c =>
        match E c with
        | None => true
        | Some (NType t') => union_unamb n t' v
        | Some (NClass cd) =>
            match class_fields c cd v with
            | Some fs => forallb (fun fv => match field_ty cd (fst fv) with
                                            | Some ft => union_unamb n ft (snd fv) | None => true end) fs
            | None => true
            end
        end
    | TNewType _ t' | TAlias _ t' | TFinal t' | TClassVar t' | TRefTo t' => union_unamb n t' v
    end
  end.

(* "Unambiguous" read literally from the statement: v is a valid instance of some member whose OWN wire
   form no earlier member's unmarshaller accepts.  It says nothing about which member's MARSHALLER
   answers first; C01_full with this reading is refuted (C01_refuted_union_foreign_marshaller). *)
Fixpoint stmt_unamb (fuel : nat) (t : ty) (v : pv) {struct fuel} : bool :=
  match fuel with
  | 0 => false
  | S n =>
    match t with
    | TLeaf _ | TRefLeaf _ | TNone => true
    | TSeq _ a => match v with PSeq _ l => forallb (stmt_unamb n a) l | _ => true end
    | TMap _ kt vt =>
        match v with
        | PDict _ kvs => forallb (fun kv => stmt_unamb n kt (fst kv) && stmt_unamb n vt (snd kv)) kvs
        | _ => true
        end
    | TTuple ts => match v with PSeq _ l => forallb2 (stmt_unamb n) ts l | _ => true end
    | TUnion ts =>
        if isoptional ts && is_none_val rt v then true
        else exists_split (fun pre t' =>
               valid n t' v && stmt_unamb n t' v &&
               match mar rt E n t' v with
               | Ok w => forallb (fun u => res_is_reject (suppressed rt) (unm rt E n u w)) (stack_before ts pre)
               | _ => false
               end) [] ts
    | TName c | TRef c | TAliasStr _ c =>
        match E c with
        | None => true
        | Some (NType t') => stmt_unamb n t' v
        | Some (NClass cd) =>
            match class_fields c cd v with
            | Some fs => forallb (fun fv => match field_ty cd (fst fv) with
                                            | Some ft => stmt_unamb n ft (snd fv) | None => true end) fs
            | None => true
            end
        end
    | TNewType _ t' | TAlias _ t' | TFinal t' | TClassVar t' | TRefTo t' => stmt_unamb n t' v
    end
  end.

(* Side condition of the weak (fixpoint) form.  No unambiguity is asked.  At a union position the local
   fixpoint marshal(unmarshal(m)) = m for m = marshal(v) is CHECKED by evaluation (this is where the
   implementation's open finding C01-union-fixpoint-noncanonical lives); around and above union positions
   nothing is checked but the shape of the value, plus: sets / mapping keys that contain such positions must
   not collapse after the (possibly different) members come back. *)
Fixpoint fix_ok (fuel : nat) (t : ty) (v : pv) {struct fuel} : bool :=
  match fuel with
  | 0 => false
  | S n =>
    match t with
    | TLeaf s | TRefLeaf s => lv s v
    | TNone => is_none_val rt v
    | TSeq k a =>
        match v with
        | PSeq k' l =>
            seqkind_eqb k k' && forallb (fix_ok n a) l &&
            match k with
            | KSet | KFrozenset =>
                match mapM (mar rt E n a) l with
                | Ok ws => match mapM (unm rt E n a) ws with
                           | Ok vs' => negb (existsb (unhashable rt) vs') && nodup_from [] vs'
                           | _ => false end
                | _ => true
                end
            | _ => true
            end
        | _ => false
        end
    | TMap k kt vt =>
        match v with
        | PDict k' kvs =>
            dictkind_eqb k k' &&
            forallb (fun kv => fix_ok n kt (fst kv) && fix_ok n vt (snd kv)) kvs &&
            match mapM (mar rt E n kt) (map fst kvs) with
            | Ok ws => nodup_from [] ws &&
                       match mapM (unm rt E n kt) ws with
                       | Ok ks' => negb (existsb (unhashable rt) ks') && nodup_from [] ks'
                       | _ => false end
            | _ => true
            end
        | _ => false
        end
    | TTuple ts =>
        match v with PSeq KTuple l => forallb2 (fix_ok n) ts l | _ => false end
    | TUnion ts =>
        match mar rt E (S n) (TUnion ts) v with
        | Ok m => match unm rt E (S n) (TUnion ts) m with
                  | Ok v' => match mar rt E (S n) (TUnion ts) v' with Ok m' => pv_eqb m' m | _ => false end
                  | _ => false end
        | _ => true
        end
    | TName c | TRef c | TAliasStr _ c =>
        match E c with
        | None => false
        | Some (NType t') => fix_ok n t' v
        | Some (NClass cd) =>
            match class_fields c cd v with
            | Some fs =>
                nodup_nat (map fst fs) &&
                forallb (fun fv => match field_ty cd (fst fv) with
                                   | Some ft => fix_ok n ft (snd fv) | None => false end) fs
            | None => false
            end
        end
    | TNewType _ t' | TAlias _ t' | TFinal t' | TClassVar t' | TRefTo t' => fix_ok n t' v
    end
  end.

(* a mapping key type that is a leaf behind transparent wrappers *)
Fixpoint key_leaf (fuel : nat) (t : ty) {struct fuel} : option nat :=
  match fuel with
  | 0 => None
  | S n =>
    match t with
    | TLeaf s | TRefLeaf s => Some s
    | TNewType _ t' | TAlias _ t' | TFinal t' | TClassVar t' | TRefTo t' => key_leaf n t'
    | TName c | TRef c | TAliasStr _ c =>
        match E c with Some (NType t') => key_leaf n t' | _ => None end
    | _ => None
    end
  end.

End C01.

(* The leaf laws.  Every one is sampled against the implementation's own leaf routines on every run. *)
Record RoundLaws (rt : runtime) (lv : nat -> pv -> bool) : Prop := {
  (* the scalar round trip (C04 owns the scalar text laws; here it is the leaf hypothesis) *)
  leaf_round : forall s v w, lv s v = true -> leaf_m rt s v = Ok w -> leaf_u rt s w = Ok v;
  (* NoneTypeUnmarshaller accepts None *)
  none_round : forall v, is_none_val rt v = true -> none_u rt v = Ok v
}.

(* marshalling a leaf is injective up to Python == (needed for mapping keys only) *)
Definition leaf_m_inj (rt : runtime) (lv : nat -> pv -> bool) : Prop :=
  forall s v1 v2 w1 w2, lv s v1 = true -> lv s v2 = true ->
    leaf_m rt s v1 = Ok w1 -> leaf_m rt s v2 = Ok w2 ->
    pv_pyeq rt w1 w2 = true -> pv_pyeq rt v1 v2 = true.

(* ------------------------------------------------------------------ a toy runtime (non-vacuity, witnesses)
   atoms: 0 None, 1 int 5, 2 str "5", 3 PurePath("5"), 4 str "a", 5 int 7, 6 date(2020,1,1),
          7 str "2020-01-01T00:00:00", 8 str "2020-01-01"
   leaves: 0 PurePath (marshaller str(), unmarshaller rejects int), 1 int, 2 str, 3 date *)
Definition toy_all_exn : list exn :=
  [EValue; EType; ESyntax; EAttribute; EKey; EArith; EStopIter; EUnicode; ERecursion; EOther].
Definition toy_rt : runtime := mk_runtime
  (* leaf_u *)
  [ (0, PAtom 2, Ok (PAtom 3)); (0, PAtom 1, Raise EType); (0, PAtom 3, Ok (PAtom 3));
    (1, PAtom 1, Ok (PAtom 1)); (1, PAtom 2, Ok (PAtom 1)); (1, PAtom 5, Ok (PAtom 5)); (1, PAtom 4, Raise EValue);
    (2, PAtom 4, Ok (PAtom 4)); (2, PAtom 2, Ok (PAtom 2)); (2, PAtom 1, Ok (PAtom 2));
    (2, PAtom 7, Ok (PAtom 7)); (2, PAtom 8, Ok (PAtom 8));
    (3, PAtom 7, Ok (PAtom 6)); (3, PAtom 8, Ok (PAtom 6)); (3, PAtom 4, Raise EValue) ]
  (* leaf_m *)
  [ (0, PAtom 3, Ok (PAtom 2)); (0, PAtom 1, Ok (PAtom 2)); (0, PAtom 4, Ok (PAtom 4));
    (1, PAtom 1, Ok (PAtom 1)); (1, PAtom 5, Ok (PAtom 5)); (1, PAtom 3, Raise EType); (1, PAtom 4, Raise EValue);
    (1, PAtom 2, Ok (PAtom 1));
    (2, PAtom 4, Ok (PAtom 4)); (2, PAtom 2, Ok (PAtom 2)); (2, PAtom 7, Ok (PAtom 7)); (2, PAtom 8, Ok (PAtom 8));
    (3, PAtom 6, Ok (PAtom 8)); (3, PAtom 7, Raise EAttribute); (3, PAtom 4, Raise EAttribute) ]
  (* none_u *)
  [ (PAtom 0, Ok (PAtom 0)); (PAtom 1, Raise EValue); (PAtom 2, Raise EValue); (PAtom 4, Raise EValue);
    (PAtom 5, Raise EValue) ]
  [] [] [] [] [] [] [] [] (PAtom 0) toy_all_exn.
Definition toy_lv (s : nat) (v : pv) : bool :=
  match v with
  | PAtom a => existsb (fun p => Nat.eqb s (fst p) && Nat.eqb a (snd p))
                       [(0, 3); (1, 1); (1, 5); (2, 4); (2, 2); (2, 7); (2, 8); (3, 6)]
  | _ => false
  end.
(* class 0: dataclass(f0: list[int], f1: Optional[str]); class 1: NamedTuple(f0: dict[str, int]);
   class 2: TypedDict(f0: tuple[int, str], f1: set[int]) *)
Definition toy_env : env := fun c =>
  match c with
  | 0 => Some (NClass {| cflavour := FDataclass;
                         cfields := [ {| fname := 0; fty := TSeq KList (TLeaf 1); fdefault := None |};
                                      {| fname := 1; fty := TUnion [TLeaf 2; TNone]; fdefault := Some (PAtom 0) |} ]; crequired := [] |})
  | 1 => Some (NClass {| cflavour := FNamedTuple;
                         cfields := [ {| fname := 0; fty := TMap KDict (TLeaf 2) (TLeaf 1); fdefault := None |} ]; crequired := [] |})
  | 2 => Some (NClass {| cflavour := FTypedDict;
                         cfields := [ {| fname := 0; fty := TTuple [TLeaf 1; TLeaf 2]; fdefault := None |};
                                      {| fname := 1; fty := TSeq KSet (TNewType 0 (TLeaf 1)); fdefault := None |} ]; crequired := [0] |})
  | 3 => Some (NType (TTuple [TName 0; TRef 1; TAlias 1 (TName 2)]))
  | _ => None
  end.
Definition toy_value : pv :=
  PSeq KTuple [ PObj 0 [(0, PSeq KList [PAtom 1; PAtom 5; PAtom 1]); (1, PAtom 4)];
                PNamed 1 [PDict KDict [(PAtom 4, PAtom 5); (PAtom 2, PAtom 1)]];
                PDict KDict [(PKey 1, PSeq KSet [PAtom 5; PAtom 1]); (PKey 0, PSeq KTuple [PAtom 1; PAtom 2])] ].
