(* Model/SerdesJson.v -- C14's runtime (Model/Serdes.v: Runtime) instantiated with the concrete UTF-8 codec and
   JSON reader / writer of Model/Json.v.  DEFINITIONS ONLY.

   serdes._strload calls compat.json.loads(val) on the str / bytes it is given.  Which reader that is depends on the
   backend (py/compat.py), hence the parameter [strict]:
     strict = true    orjson.loads (the configured backend when orjson is importable): RFC 8259-strict grammar, strict
                      UTF-8 on bytes, no byte-order mark, no NaN / Infinity, no lone surrogates;
     strict = false   json.loads: the lenient grammar; on bytes json.detect_encoding + the optional UTF-8 signature
                      ([std_loads]; its UTF-16/32 branches are not modelled).
   What stays abstract (Section variables): ast.literal_eval and repr ([lit_eval], [py_repr_f]), and the float
   conversion between a literal and a float value ([float_of], [float_tok]).

   pv_of   JSON value -> the Python value the decoder builds (dicts through Python's dict construction, jv_norm)
   jv_of   Python value -> JSON value, for values json.dumps writes as plain JSON data with str keys *)
From Coq Require Import List ZArith NArith Bool.
Import ListNotations.
Require Import TL.Model.Serdes TL.Model.SerdesEq TL.Model.Json TL.Model.JsonEq.

Definition omapj {A B} (f : A -> option B) : list A -> option (list B) :=
  fix go (l : list A) : option (list B) :=
    match l with
    | [] => Some []
    | x :: r => match f x, go r with Some y, Some t => Some (y :: t) | _, _ => None end
    end.

Section Inst.
Variable strict : bool.
Variable float_of : list N -> pv.            (* the float a float literal denotes *)
Variable float_tok : pv -> list N.           (* the literal json.dumps prints for a float value *)
Variable lit_eval : str -> res pv.           (* ast.literal_eval *)
Variable py_repr_f : pv -> str.              (* repr *)

Fixpoint pv_of (j : jv) : pv :=
  match j with
  | JNull => PNone
  | JBool b => PBool b
  | JInt z => PInt z
  | JFloat t => float_of t
  | JStr s => PStr s
  | JList l => PList (map pv_of l)
  | JDict d => PDict (map (fun kx => match kx with (k, x) => (PStr k, pv_of x) end) d)
  end.

Fixpoint jv_of (v : pv) : option jv :=
  match v with
  | PNone => Some JNull
  | PBool b => Some (JBool b)
  | PInt z => Some (JInt z)
  | PFloat _ _ | PFloatS _ => Some (JFloat (float_tok v))
  | PText CStr s => Some (JStr s)
  | PList l => option_map JList (omapj jv_of l)
  | PDict d =>
      option_map JDict
        (omapj (fun kx => match kx with
                          | (PText CStr k, x) => match jv_of x with Some y => Some (k, y) | None => None end
                          | _ => None
                          end) d)
  | _ => None
  end.

Definition of_read (o : option jv) : res pv :=
  match o with Some j => Ok (pv_of (jv_norm j)) | None => Raise EValue end.

(* compat.json.loads on a str / on bytes *)
Definition sj_loads_str (s : str) : res pv := of_read (parse_text strict s).
Definition sj_loads_bin (b : bytes) : res pv := of_read (if strict then json_read_strict b else std_loads b).

(* bytes.decode("utf-8") *)
Definition sj_utf8_decode (b : bytes) : res str :=
  match utf8_dec false b with Some s => Ok s | None => Raise EUnicode end.

(* json.dumps(m): the text (json.dumps returns a str) *)
Definition sj_dumps (v : pv) : str := match jv_of v with Some j => wr stdlib_style j | None => [] end.

Definition serdes_rt : Runtime := {|
  utf8_encode := utf8_enc;
  utf8_decode := sj_utf8_decode;
  json_loads_str := sj_loads_str;
  json_loads_bin := sj_loads_bin;
  literal_eval := lit_eval;
  json_dumps := sj_dumps;
  py_repr := py_repr_f
|}.
End Inst.

(* ---------------------------------------------------------------- evaluation helpers for harness/serdesjsontie.py *)
(* floats cannot be observed as literals through serdes.load: every float is the token PFloatS 3 on both sides *)
Definition tie_float_of (_ : list N) : pv := PFloatS 3.
(* one case: (backend strict?, carrier kind, payload, what ast.literal_eval answers on the decoded text, observed) *)
Definition sjcase := (bool * ckind * list N * res pv * res pv)%type.
Definition sj_run (c : sjcase) : res pv :=
  let '(strict, k, p, lit, _) := c in
  load (serdes_rt strict tie_float_of (fun _ => []) (fun _ => lit) (fun _ => [])) (PText k p).
Definition sjcase_ok (c : sjcase) : bool := let '(_, _, _, _, obs) := c in res_eqb (sj_run c) obs.
(* did the model's JSON reader accept the payload *)
Definition sj_json_accepts (c : sjcase) : bool :=
  let '(strict, k, p, _, _) := c in
  match (match k with CStr => sj_loads_str strict tie_float_of p | _ => sj_loads_bin strict tie_float_of p end) with
  | Ok _ => true | Raise _ => false end.
Definition sj_mismatches (cs : list sjcase) : list nat := SerdesEq.mismatches sjcase_ok cs.
Definition sj_accepted (cs : list sjcase) : nat := length (filter sj_json_accepts cs).
