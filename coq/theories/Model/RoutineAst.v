(* Routine programs (WP routine-ast): a small combinator language for the `__call__` bodies of the COMPOSITE
   routine classes of unmarshals/routines.py and marshals/routines.py, with an interpreter over the values
   of Model/Core.v.

   harness/routasttie.py parses the two source files with `ast` on every run and translates, fail closed,
     - the part of `__init__` that decides what `__call__` uses (which context entries are stored in which
       attribute: `sub` / `subs` / `tlist`), and
     - the body of `__call__`
   into a `prog`; coq/dyn/RoutineAst/RoutineAstX.v decides per run that the translated program of every class
   is `expected` below, and Proofs/RoutineAst.v proves, table-independently, that running `expected d h` with
   the members' semantics `unm n` / `mar n` IS the step `unm (S n)` / `mar (S n)` of Core at a type with head h.

   The interpreter follows Python's order of evaluation:
     - a generator expression is a list of PENDING member results (`DGen`, `DGenKV`): nothing is run when it is
       created, except its outermost iterable (`serdes.itervalues(..)` / `iteritems(..)`, all-or-nothing as in Core);
     - the CONSTRUCTOR consumes it: `list` / `tuple` / `deque` / a list display take the results in order, the first
       raise wins; `set` / `frozenset` / `dict` / a dict display HASH every element (key) as soon as it is produced,
       so the TypeError of an unhashable element comes BEFORE the conversion of the next element is attempted
       (`consume_hashing`).  Core's steps do the same (`Core.hashing`, `Core.elem_conv`); converting all members first
       and hashing afterwards (`Proofs/RoutineAst.eager`, the earlier formulation of Core, Model/CoreLate.v) agrees
       except on the inputs `late_hash` describes (RA_hash_order, Props/CoreHash.v).
   Definitions only. *)
From Coq Require Import List Arith Bool PeanoNat String.
Import ListNotations.
Require Import TL.Model.Core.

(* ------------------------------------------------------------------ what __init__ stored *)
(* a tuple of member annotations computed by __init__ from `inspection.args(t, evaluate=True)` *)
Inductive tlist :=
| LArgs                                  (* inspection.args(t, evaluate=True) *)
| LNones (l : tlist)                     (* (a for a in l if inspection.isnonetype(a)) *)
| LNotNones (l : tlist)                  (* (a for a in l if not inspection.isnonetype(a)) *)
| LApp (a b : tlist)                     (* the tuple display of a's then b's members *)
| LIfOptional (a b : tlist).             (* a if inspection.isoptionaltype(t) else b *)
(* one stored sub-routine / a stored list of sub-routines *)
Inductive sub := SArg (i : nat).         (* context[args(t)[i]] *)
Inductive subs := SEach (l : tlist).     (* [context[a] for a in l] *)

(* the callable a generator is handed to *)
Inductive ctor :=
| COrigin                                (* self.origin *)
| CFactory                               (* _factory(self.origin): the origin, except for defaultdict (outside Core) *)
| CList                                  (* list(..), [.. for ..], [*..] *)
| CDict.                                 (* dict(..), {..: .. for ..} *)

Inductive prog :=
| Input                                  (* val *)
| Load (p : prog)                        (* serdes.load(p) *)
| IterValues (p : prog)                  (* serdes.itervalues(p) *)
| IterItems (p : prog)                   (* serdes.iteritems(p) *)
| MapEach (s : sub) (p : prog)           (* (s(v) for v in p) *)
| MapKV (ks vs : sub) (p : prog)         (* ((ks(k), vs(v)) for k, v in p)   /  ks(k): vs(v) in a dict display *)
| TakeLen (ss : subs) (p : prog)         (* tuple(itertools.islice(p, len(ss))) *)
| GuardLen (ss : subs) (p : prog)        (* if len(p) < len(ss): raise ValueError;  p *)
| ZipApply (ss : subs) (p : prog)        (* (r(v) for r, v in zip(ss, p)) *)
| Construct (c : ctor) (p : prog)        (* c(p) *)
| KwargsIn (p : prog)                    (* {f: fields[f](v) for f, v in p if f in fields}, fields = fields_by_var *)
| RequireKeys (p : prog)                 (* if not self.required_keys <= p.keys(): raise TypeError;  p *)
| CallT (p : prog)                       (* self.t( **p ) *)
| FirstAccepting (ss : subs) (p : prog)  (* for r in ss: with suppress(Exception): return r(p) ;  raise ValueError *)
| IfNullableNone (p : prog).             (* if self.nullable and val is None: return val ;  p *)

(* ------------------------------------------------------------------ decidable equality *)
Fixpoint tlist_eqb (a b : tlist) : bool :=
  match a, b with
  | LArgs, LArgs => true
  | LNones x, LNones y | LNotNones x, LNotNones y => tlist_eqb x y
  | LApp x1 x2, LApp y1 y2 | LIfOptional x1 x2, LIfOptional y1 y2 => tlist_eqb x1 y1 && tlist_eqb x2 y2
  | _, _ => false
  end.
Definition sub_eqb (a b : sub) : bool := match a, b with SArg i, SArg j => Nat.eqb i j end.
Definition subs_eqb (a b : subs) : bool := match a, b with SEach x, SEach y => tlist_eqb x y end.
Definition ctor_eqb (a b : ctor) : bool :=
  match a, b with COrigin, COrigin | CFactory, CFactory | CList, CList | CDict, CDict => true | _, _ => false end.
Fixpoint prog_eqb (a b : prog) : bool :=
  match a, b with
  | Input, Input => true
  | Load p, Load q | IterValues p, IterValues q | IterItems p, IterItems q | KwargsIn p, KwargsIn q
  | RequireKeys p, RequireKeys q | CallT p, CallT q | IfNullableNone p, IfNullableNone q => prog_eqb p q
  | MapEach s p, MapEach s' q => sub_eqb s s' && prog_eqb p q
  | MapKV k v p, MapKV k' v' q => sub_eqb k k' && sub_eqb v v' && prog_eqb p q
  | TakeLen s p, TakeLen s' q | GuardLen s p, GuardLen s' q | ZipApply s p, ZipApply s' q
  | FirstAccepting s p, FirstAccepting s' q => subs_eqb s s' && prog_eqb p q
  | Construct c p, Construct c' q => ctor_eqb c c' && prog_eqb p q
  | _, _ => false
  end.

(* ------------------------------------------------------------------ the interpreter *)
(* what an expression of a body evaluates to *)
Inductive dv :=
| DVal (v : pv)                          (* an object *)
| DList (l : list pv)                    (* the members serdes.itervalues yields / a materialised tuple *)
| DPairs (l : list (pv * pv))            (* the pairs serdes.iteritems yields *)
| DGen (g : list (res pv))               (* a generator: one pending result per member *)
| DGenKV (g : list (res (pv * pv)))      (* a generator of pairs *)
| DKw (kw : list (nat * pv)).            (* a dict with field-name keys, in insertion order *)

(* list / tuple / deque / list display: take the pending results in order, first raise wins *)
Fixpoint sequence {A} (l : list (res A)) : res (list A) :=
  match l with
  | [] => Ok []
  | r :: rest => bind r (fun a => bind (sequence rest) (fun t => Ok (a :: t)))
  end.

(* inspection.args on the annotations of Core *)
Definition args_of (t : ty) : list ty :=
  match t with
  | TSeq _ a => [a]
  | TMap _ k v => [k; v]
  | TTuple ts | TUnion ts => ts
  | _ => []
  end.
(* a structured class: the class object the annotation is / names *)
Definition class_of (E : env) (t : ty) : option (nat * classdef) :=
  match t with
  | TName c | TRef c | TAliasStr _ c => match E c with Some (NClass cd) => Some (c, cd) | _ => None end
  | _ => None
  end.
(* StructuredTypeUnmarshaller._required_keys: frozenset() unless the class is a TypedDict *)
Definition required_keys (cd : classdef) : list nat :=
  match cflavour cd with FTypedDict => crequired cd | _ => [] end.

Section Interp.
Variable rt : runtime.
Variable E : env.
Variable sem : ty -> pv -> res pv.       (* what the routine context[a] does: unm n a / mar n a *)
Variable t : ty.                         (* the annotation the routine was built for *)

Fixpoint tl_eval (l : tlist) : list ty :=
  match l with
  | LArgs => args_of t
  | LNones l => filter is_none_ty (tl_eval l)
  | LNotNones l => filter (fun a => negb (is_none_ty a)) (tl_eval l)
  | LApp a b => tl_eval a ++ tl_eval b
  | LIfOptional a b => if isoptional (args_of t) then tl_eval a else tl_eval b
  end.
Definition sub_ty (s : sub) : option ty := match s with SArg i => nth_error (args_of t) i end.
Definition subs_tys (ss : subs) : list ty := match ss with SEach l => tl_eval l end.

(* set / frozenset / dict: every element (key) is hashed as soon as it is produced *)
Fixpoint consume_hashing {A} (key : A -> pv) (l : list (res A)) : res (list A) :=
  match l with
  | [] => Ok []
  | r :: rest =>
      bind r (fun a => if unhashable rt (key a) then Raise EType
                       else bind (consume_hashing key rest) (fun t => Ok (a :: t)))
  end.

Definition construct (c : ctor) (d : dv) : res dv :=
  match c, d with
  | (COrigin | CFactory), DGen g =>
      match t with
      | TSeq (KSet as k) _ | TSeq (KFrozenset as k) _ =>
          bind (consume_hashing (fun v => v) g) (fun l => Ok (DVal (PSeq k (dedupe rt l []))))
      | TSeq k _ => bind (sequence g) (fun l => Ok (DVal (PSeq k l)))
      | TTuple _ => bind (sequence g) (fun l => Ok (DVal (PSeq KTuple l)))
      | _ => Unmodelled
      end
  | (COrigin | CFactory), DGenKV g =>
      match t with
      | TMap k _ _ => bind (consume_hashing fst g) (fun l => Ok (DVal (PDict k (dict_of rt l))))
      | _ => Unmodelled
      end
  | CList, DGen g => bind (sequence g) (fun l => Ok (DVal (PSeq KList l)))
  | CDict, DGenKV g => bind (consume_hashing fst g) (fun l => Ok (DVal (PDict KDict (dict_of rt l))))
  | _, _ => Unmodelled
  end.

(* {f: fields[f](v) for f, v in kvs if f in fields}: `f in fields` hashes f, then the field's routine runs,
   then the result is stored under f *)
Definition kwargs_in (cd : classdef) (kvs : list (pv * pv)) : res (list (nat * pv)) :=
  fold_left (fun acc kv =>
    bind acc (fun kw =>
      match fst kv with
      | PKey f => match field_ty cd f with
                  | Some ft => bind (sem ft (snd kv)) (fun v' => Ok (kw_set f v' kw))
                  | None => Ok kw
                  end
      | k => if unhashable rt k then Raise EType else Ok kw
      end)) kvs (Ok []).

(* self.t( **kwargs ): the class called with keyword arguments; a TypedDict is a plain dict *)
Definition call_class (c : nat) (cd : classdef) (kw : list (nat * pv)) : res pv :=
  match cflavour cd with
  | FTypedDict => Ok (PDict KDict (map (fun fv => (PKey (fst fv), snd fv)) kw))
  | FNamedTuple => bind (fill_fields (cfields cd) kw) (fun l => Ok (PNamed c (map snd l)))
  | FDataclass | FPlain => bind (fill_fields (cfields cd) kw) (fun l => Ok (PObj c l))
  end.

Definition kv_apply (kt vt : ty) (kv : pv * pv) : res (pv * pv) :=
  bind (sem kt (fst kv)) (fun k' => bind (sem vt (snd kv)) (fun v' => Ok (k', v'))).

Fixpoint interp (p : prog) (x : pv) : res dv :=
  match p with
  | Input => Ok (DVal x)
  | Load p => bind (interp p x) (fun d => match d with DVal v => bind (load rt v) (fun r => Ok (DVal r)) | _ => Unmodelled end)
  | IterValues p =>
      bind (interp p x) (fun d => match d with DVal v => bind (itervalues rt v) (fun l => Ok (DList l)) | _ => Unmodelled end)
  | IterItems p =>
      bind (interp p x) (fun d => match d with DVal v => bind (iteritems rt E v) (fun l => Ok (DPairs l)) | _ => Unmodelled end)
  | MapEach s p =>
      bind (interp p x) (fun d =>
        match d, sub_ty s with
        | DList l, Some a => Ok (DGen (map (sem a) l))
        | _, _ => Unmodelled
        end)
  | MapKV ks vs p =>
      bind (interp p x) (fun d =>
        match d, sub_ty ks, sub_ty vs with
        | DPairs l, Some kt, Some vt => Ok (DGenKV (map (kv_apply kt vt) l))
        | _, _, _ => Unmodelled
        end)
  | TakeLen ss p =>
      bind (interp p x) (fun d => match d with DList l => Ok (DList (firstn (List.length (subs_tys ss)) l)) | _ => Unmodelled end)
  | GuardLen ss p =>
      bind (interp p x) (fun d =>
        match d with
        | DList l => if Nat.ltb (List.length l) (List.length (subs_tys ss)) then Raise EValue else Ok (DList l)
        | _ => Unmodelled
        end)
  | ZipApply ss p =>
      bind (interp p x) (fun d =>
        match d with
        | DList l => Ok (DGen (map (fun tv => sem (fst tv) (snd tv)) (zip_trunc (subs_tys ss) l)))
        | _ => Unmodelled
        end)
  | Construct c p => bind (interp p x) (construct c)
  | KwargsIn p =>
      bind (interp p x) (fun d =>
        match d, class_of E t with
        | DPairs l, Some (_, cd) => bind (kwargs_in cd l) (fun kw => Ok (DKw kw))
        | _, _ => Unmodelled
        end)
  | RequireKeys p =>
      bind (interp p x) (fun d =>
        match d, class_of E t with
        | DKw kw, Some (_, cd) => if forallb (fun r => has_kw r kw) (required_keys cd) then Ok (DKw kw) else Raise EType
        | _, _ => Unmodelled
        end)
  | CallT p =>
      bind (interp p x) (fun d =>
        match d, class_of E t with
        | DKw kw, Some (c, cd) => bind (call_class c cd kw) (fun r => Ok (DVal r))
        | _, _ => Unmodelled
        end)
  | FirstAccepting ss p =>
      bind (interp p x) (fun d =>
        match d with
        | DVal v => bind (first_ok rt (map sem (subs_tys ss)) v) (fun r => Ok (DVal r))
        | _ => Unmodelled
        end)
  | IfNullableNone p =>
      if isoptional (args_of t) && is_none_val rt x then Ok (DVal x) else interp p x
  end.

(* what `return e` hands back: an object; a dict display with field-name keys is a plain dict *)
Definition dv_out (d : dv) : res pv :=
  match d with
  | DVal v => Ok v
  | DKw kw => Ok (PDict KDict (map (fun fv => (PKey (fst fv), snd fv)) kw))
  | _ => Unmodelled
  end.
Definition run (p : prog) (x : pv) : res pv := bind (interp p x) dv_out.

(* ---- where "convert everything, then hash" (the earlier Core) and "hash as produced" (the code, Core) part ways:
        an element that converted to an unhashable object, followed by a member whose conversion fails with
        something else than TypeError (hash-as-produced raises the TypeError, the other reports the later failure) ---- *)
Fixpoint late_hash {A} (key : A -> pv) (seen : bool) (l : list (res A)) : bool :=
  match l with
  | [] => false
  | Ok a :: r => late_hash key (seen || unhashable rt (key a)) r
  | Raise EType :: _ => false
  | _ :: _ => seen
  end.

End Interp.

(* ------------------------------------------------------------------ heads and expected programs *)
Inductive dir := DU | DM.
Inductive head := HIterable | HMapping | HTuple | HStruct | HUnion.
Definition all_heads : list head := [HIterable; HMapping; HTuple; HStruct; HUnion].

Definition head_of (E : env) (t : ty) : option head :=
  match t with
  | TSeq _ _ => Some HIterable
  | TMap _ _ _ => Some HMapping
  | TTuple _ => Some HTuple
  | TUnion _ => Some HUnion
  | TName c | TRef c | TAliasStr _ c => match E c with Some (NClass _) => Some HStruct | _ => None end
  | _ => None
  end.

(* the member routines of a union in the order UnionUnmarshaller.__init__ stores them *)
Definition stack_none_first : tlist := LIfOptional (LApp (LNones LArgs) (LNotNones LArgs)) LArgs.

Definition expected (d : dir) (h : head) : prog :=
  match d, h with
  | DU, HIterable => Construct COrigin (MapEach (SArg 0) (IterValues (Load Input)))
  | DU, HMapping => Construct CFactory (MapKV (SArg 0) (SArg 1) (IterItems (Load Input)))
  | DU, HTuple =>
      Construct COrigin (ZipApply (SEach LArgs) (GuardLen (SEach LArgs) (TakeLen (SEach LArgs) (IterValues (Load Input)))))
  | DU, HStruct => CallT (RequireKeys (KwargsIn (IterItems (Load Input))))
  | DU, HUnion => FirstAccepting (SEach stack_none_first) Input
  | DM, HIterable => Construct CList (MapEach (SArg 0) (IterValues Input))
  | DM, HMapping => Construct CDict (MapKV (SArg 0) (SArg 1) (IterItems Input))
  | DM, HTuple => Construct CList (ZipApply (SEach LArgs) (IterValues Input))
  | DM, HStruct => KwargsIn (IterItems Input)
  | DM, HUnion => IfNullableNone (FirstAccepting (SEach LArgs) Input)
  end.

Definition class_name (d : dir) (h : head) : string :=
  match d, h with
  | DU, HIterable => "SubscriptedIterableUnmarshaller"
  | DU, HMapping => "SubscriptedMappingUnmarshaller"
  | DU, HTuple => "FixedTupleUnmarshaller"
  | DU, HStruct => "StructuredTypeUnmarshaller"
  | DU, HUnion => "UnionUnmarshaller"
  | DM, HIterable => "SubscriptedIterableMarshaller"
  | DM, HMapping => "SubscriptedMappingMarshaller"
  | DM, HTuple => "FixedTupleMarshaller"
  | DM, HStruct => "StructuredTypeMarshaller"
  | DM, HUnion => "UnionMarshaller"
  end%string.

(* the table the translator emits: (routine class, translated program) *)
Definition progtable := list (string * prog).
Fixpoint lookup (n : string) (tb : progtable) : option prog :=
  match tb with
  | [] => None
  | (m, p) :: r => if String.eqb n m then Some p else lookup n r
  end.
Definition agrees (tb : progtable) (d : dir) (h : head) : bool :=
  match lookup (class_name d h) tb with Some p => prog_eqb p (expected d h) | None => false end.
Definition progs_agree_dir (d : dir) (tb : progtable) : bool := forallb (agrees tb d) all_heads.
Definition progs_agree (tb : progtable) : bool := progs_agree_dir DU tb && progs_agree_dir DM tb.
(* the program of the source; `Input` (the identity) when the class is missing: never equal to an expected program *)
Definition src_prog (tb : progtable) (d : dir) (h : head) : prog :=
  match lookup (class_name d h) tb with Some p => p | None => Input end.
(* for the harness' message: class, expected, translated *)
Definition disagreements_dir (d : dir) (tb : progtable) : list (string * prog * option prog) :=
  map (fun h => (class_name d h, expected d h, lookup (class_name d h) tb))
      (filter (fun h => negb (agrees tb d h)) all_heads).

(* ------------------------------------------------------------------ guards of the step theorems *)
Section Guards.
Variable rt : runtime.
Variable E : env.

(* the TypedDict well-formedness the class environment of the harness has by construction:
   every required key is a declared field (`__required_keys__` is a subset of the annotations) *)
Definition req_wf (cd : classdef) : bool :=
  match cflavour cd with
  | FTypedDict => forallb (fun r => existsb (Nat.eqb r) (map fname (cfields cd))) (crequired cd)
  | _ => true
  end.

(* inputs on which Core's unmarshal step at t is the code's: the TypedDict is well-formed (structured classes).
   (Sets and mappings needed a hashing guard while Core converted every member before hashing any; Core now hashes
   as produced -- `Core.hashing` -- and the steps agree on every input.) *)
Definition guard_u (t : ty) : bool :=
  match t with
  | TName _ | TRef _ | TAliasStr _ _ =>
      match class_of E t with Some (_, cd) => req_wf cd | None => true end
  | _ => true
  end.
End Guards.
