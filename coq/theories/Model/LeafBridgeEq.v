(* Model/LeafBridgeEq.v -- leaf bridge: executable comparison functions for the per-run tie (cases_*.v of
   harness/leaftie.py).  DEFINITIONS ONLY.  As in Model/ScalarsEq.v the runtime of a case is a finite table of answers
   obtained from the interpreter (never through typelib); a missing answer makes the model return [Unmodelled], which
   never equals an observation. *)
From Coq Require Import List ZArith Ascii String Bool.
Import ListNotations.
Require Import TL.Model.Duration.
Require Import TL.Model.Temporal.
Require Import TL.Model.Scalars.
Require Import TL.Model.ScalarsEq.
Require Import TL.Model.LeafBridge.

(* ---- marshal side: kind, interpreter answers, the answer to m.value, input, observed typelib.marshal(v, t=T) *)
Definition mcase := (leafkind * answers * res val * val * res val)%type.
Definition run_marshal (c : mcase) : res val :=
  let '(k, a, e, v, _) := c in mar_of (rt_of a) (fun _ => e) k v.
Definition marshal_case_ok (c : mcase) : bool := let '(_, _, _, _, obs) := c in res_eqb (run_marshal c) obs.
Definition marshal_unmodelled (c : mcase) : bool := match run_marshal c with Unmodelled => true | _ => false end.
(* the exception kind too (counted, not an obligation: the scalar model has four kinds) *)
Definition exn_eqb (a b : exn) : bool :=
  match a, b with EValue, EValue | EType, EType | EOverflow, EOverflow | EOther, EOther => true | _, _ => false end.
Definition marshal_kind_ok (c : mcase) : bool :=
  let '(_, _, _, _, obs) := c in
  match run_marshal c, obs with Raise e, Raise e' => exn_eqb e e' | _, _ => true end.

(* ---- the round trip through the MODEL on interpreter answers: kind, answers for the marshal side, m.value,
        the value, answers for the unmarshal side (computed for the wire form the implementation produced) *)
Definition rcase := (leafkind * answers * res val * val * answers)%type.
Definition val_simb (a b : val) : bool :=
  match a, b with VDateTime x, VDateTime y => same_dt x y | VTime x, VTime y => same_tm x y | _, _ => val_eqb a b end.
Definition round_in_range (strict : bool) (c : rcase) : bool :=
  let '(k, _, e, v, au) := c in in_kind (rt_of au) (fun _ => e) strict k v.
(* LB_scalar_round_exact on this case: inside the strict range the value comes back exactly (fold included) *)
Definition round_exact_ok (c : rcase) : bool :=
  let '(k, am, e, v, au) := c in
  negb (round_in_range true c) ||
  match mar_of (rt_of am) (fun _ => e) k v with
  | Ok w => match unm_of (rt_of au) k w with Ok v' => val_eqb v' v | _ => false end
  | _ => false end.
(* LB_scalar_round_sim: inside the lax range it comes back up to the fold *)
Definition round_sim_ok (c : rcase) : bool :=
  let '(k, am, e, v, au) := c in
  negb (round_in_range false c) ||
  match mar_of (rt_of am) (fun _ => e) k v with
  | Ok w => match unm_of (rt_of au) k w with Ok v' => val_simb v v' | _ => false end
  | _ => false end.

(* ---- the leaf tables of a core-model run (harness/coremodel.py fills them by calling the implementation) are the
        bridged runtime: unmarshal side = C04's routine_case_ok / routine_unmodelled (Model/ScalarsEq.v), marshal side =
        marshal_case_ok above, NoneTypeUnmarshaller: *)
Definition ncase := (answers * val * res val)%type.
Definition none_case_ok (c : ncase) : bool := let '(a, v, obs) := c in res_eqb (unm_none (rt_of a) v) obs.
