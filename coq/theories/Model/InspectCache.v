(* C17, clause "stable across calls": functools.cache keyed by == / hash of the annotation.
   Python's == on annotations is NOT syntactic: unions compare as sets of members, whatever the
   spelling (Optional[int] == int | None, None | A == A | None).  Definitions only. *)
From Coq Require Import List NArith ZArith String Bool.
Import ListNotations.
Require Import TL.Model.Inspect.

Fixpoint key_eq (a b : ity) {struct a} : bool :=
  let fix l_eq (x y : list ity) {struct x} : bool :=
    match x, y with
    | [], [] => true
    | p :: r, q :: s => key_eq p q && l_eq r s
    | _, _ => false
    end in
  let fix sub (x y : list ity) {struct x} : bool :=       (* every member of x is == some member of y *)
    match x with [] => true | p :: r => existsb (key_eq p) y && sub r y end in
  let fix sup (x y : list ity) {struct x} : bool :=       (* every member of y is == some member of x *)
    (fix over (ys : list ity) : bool :=
       match ys with
       | [] => true
       | q :: s => (fix any (xs : list ity) : bool :=
                      match xs with [] => false | p :: r => key_eq p q || any r end) x && over s
       end) y in
  match a, b with
  | IUnion _ l, IUnion _ l' => sub l l' && sup l l'
  | ITypingSub x l, ITypingSub y l' => N.eqb x y && l_eq l l'
  | IClassSub x l, IClassSub y l' => N.eqb x y && l_eq l l'
  | IUserSub x l, IUserSub y l' => N.eqb x y && l_eq l l'
  | IFinal x, IFinal y => key_eq x y
  | IClassVar x, IClassVar y => key_eq x y
  | _, _ => ity_eqb a b
  end.

(* which public predicates carry @compat.cache *)
Definition is_cached (p : pred) : bool :=
  match p with
  | P_isforwardref | P_isabstract | P_ishashable | P_isproperty | P_isdescriptor | P_issimpleattribute
  | P_isbuiltininstance | P_isstdlibinstance => false
  | _ => true
  end.

Section Memo.
Variable f : ity -> res bool.          (* the cold-cache function *)
Definition cache := list (ity * res bool).
Fixpoint lookup (k : ity) (c : cache) : option (res bool) :=
  match c with [] => None | (k', v) :: r => if key_eq k k' then Some v else lookup k r end.
(* functools.cache stores results, not exceptions *)
Definition call (c : cache) (t : ity) : res bool * cache :=
  match lookup t c with
  | Some v => (v, c)
  | None => let v := f t in (v, match v with Ok _ => c ++ [(t, v)] | Raise _ => c end)
  end.
Fixpoint run_hist (c : cache) (h : list ity) : list (res bool) :=
  match h with
  | [] => []
  | t :: r => let vc := call c t in fst vc :: run_hist (snd vc) r
  end.
End Memo.

(* a history of calls of one public predicate, starting cold *)
Definition pred_history (T : tables) (p : pred) (h : list ity) : list (res bool) :=
  if is_cached p then run_hist (run_pred T p) [] h else map (run_pred T p) h.
