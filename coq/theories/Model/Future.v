(* Model of src/typelib/py/future.py: `transform` = TransformAnnotation(union).generic_visit(parsed)
   on the Expression root, with visit_BinOp / visit_Name / visit_Subscript / visit_Tuple and
   NodeTransformer.generic_visit for every other node class; `reparse` = ast.parse (ast.unparse t);
   and the specification side: `nf` (structural meaning of an annotation expression), the
   syntactic classes used by the property (arith_free, bitor_free_outside_consts, has_constructs ...).
   Definitions only; proofs live in Proofs/FutureLemmas.v.

   The generics table `g` (future._GENERICS) and the union name `u` (the `union=` argument, default
   "typing.Union") are parameters: they are re-read from the live module on every run. *)
From Coq Require Import List String Ascii Bool.
Import ListNotations.
Local Open Scope string_scope.
Local Open Scope list_scope.

(* ---------------------------------------------------------------------------------- *)
(* Python expression trees                                                              *)
(* ---------------------------------------------------------------------------------- *)

(* ast.Constant payloads.  Strings / bytes / numbers are carried as their ascii() / repr() text:
   the transformer never looks inside a constant. *)
Inductive const :=
| CStr (s : string) | CBytes (s : string) | CNum (s : string) | CEllipsis | CNone | CBool (b : bool).

(* ast.operator *)
Inductive binop :=
| Add | Sub | Mult | MatMult | Div | Mod | Pow | LShift | RShift | BitOr | BitXor | BitAnd | FloorDiv.

(* ast.expr.  The node classes that the transformer (visit_X) or the meaning function distinguish have
   their own constructor.  Every other expression class (UnaryOp, Call, Starred, IfExp, Lambda, BoolOp,
   Compare, Dict, Set, comprehensions, Slice, NamedExpr, JoinedStr ...) is `Other tag children`:
   `children` are all sub-expressions of the node in the order NodeTransformer.generic_visit reaches them
   (through keyword / comprehension / arguments helper nodes as well), `tag` is everything else of the
   node (class name, operators, identifiers, shape).  ctx fields are dropped (unparse ignores them). *)
Inductive expr :=
| Name (id : string)
| Attribute (value : expr) (attr : string)
| Constant (c : const)
| Subscript (value : expr) (slice : expr)
| Tuple (elts : list expr)
| List_ (elts : list expr)
| BinOp (op : binop) (left right : expr)
| Other (tag : string) (children : list expr).

(* induction principle with the nested lists *)
Section ExprInd.
Variable P : expr -> Prop.
Hypothesis HName : forall id, P (Name id).
Hypothesis HAttr : forall v a, P v -> P (Attribute v a).
Hypothesis HConst : forall c, P (Constant c).
Hypothesis HSub : forall v s, P v -> P s -> P (Subscript v s).
Hypothesis HTuple : forall l, Forall P l -> P (Tuple l).
Hypothesis HList : forall l, Forall P l -> P (List_ l).
Hypothesis HBin : forall op l r, P l -> P r -> P (BinOp op l r).
Hypothesis HOther : forall t l, Forall P l -> P (Other t l).
Fixpoint expr_ind' (e : expr) : P e :=
  let fix go (l : list expr) : Forall P l :=
    match l with [] => Forall_nil P | x :: r => Forall_cons x (expr_ind' x) (go r) end in
  match e with
  | Name id => HName id
  | Attribute v a => HAttr v a (expr_ind' v)
  | Constant c => HConst c
  | Subscript v s => HSub v s (expr_ind' v) (expr_ind' s)
  | Tuple l => HTuple l (go l)
  | List_ l => HList l (go l)
  | BinOp op l r => HBin op l r (expr_ind' l) (expr_ind' r)
  | Other t l => HOther t l (go l)
  end.
End ExprInd.

Definition is_bitor (op : binop) : bool := match op with BitOr => true | _ => false end.

(* ---------------------------------------------------------------------------------- *)
(* strings: dotted names                                                                *)
(* ---------------------------------------------------------------------------------- *)

Definition dot : ascii := "."%char.

(* "a.b.c" -> ["a"; "b"; "c"];  a dot-free s -> [s] *)
Fixpoint split_dot (s : string) : list string :=
  match s with
  | EmptyString => [EmptyString]
  | String c r =>
      if Ascii.eqb c dot then EmptyString :: split_dot r
      else match split_dot r with
           | h :: t => String c h :: t
           | [] => [String c EmptyString]
           end
  end.

Fixpoint no_dot (s : string) : bool :=
  match s with EmptyString => true | String c r => negb (Ascii.eqb c dot) && no_dot r end.

Definition is_alpha_ (c : ascii) : bool :=
  let n := nat_of_ascii c in
  (Nat.leb 65 n && Nat.leb n 90) || (Nat.leb 97 n && Nat.leb n 122) || Nat.eqb n 95.
Definition is_digit (c : ascii) : bool :=
  let n := nat_of_ascii c in Nat.leb 48 n && Nat.leb n 57.
Fixpoint all_chars (f : ascii -> bool) (s : string) : bool :=
  match s with EmptyString => true | String c r => f c && all_chars f r end.

Definition keywords : list string :=
  ["False"; "None"; "True"; "and"; "as"; "assert"; "async"; "await"; "break"; "class"; "continue"; "def";
   "del"; "elif"; "else"; "except"; "finally"; "for"; "from"; "global"; "if"; "import"; "in"; "is";
   "lambda"; "nonlocal"; "not"; "or"; "pass"; "raise"; "return"; "try"; "while"; "with"; "yield"].

Definition str_mem (s : string) (l : list string) : bool := existsb (String.eqb s) l.

(* an (ASCII) identifier that ast.unparse prints as itself and ast.parse reads back as a Name *)
Definition ident_ok (s : string) : bool :=
  match s with
  | EmptyString => false
  | String c r => is_alpha_ c && all_chars (fun x => is_alpha_ x || is_digit x) r && negb (str_mem s keywords)
  end.

(* a dotted path of identifiers: what unparse prints for Name(id) re-parses as a Name/Attribute chain *)
Definition dotted_ok (s : string) : bool := forallb ident_ok (split_dot s).

Definition head_of (s : string) : string :=
  match split_dot s with h :: _ => h | [] => s end.

(* ---------------------------------------------------------------------------------- *)
(* the transformer                                                                      *)
(* ---------------------------------------------------------------------------------- *)

Fixpoint lookup (k : string) (l : list (string * string)) : option string :=
  match l with [] => None | (a, b) :: r => if String.eqb k a then Some b else lookup k r end.

Section Transform.
Variable g : list (string * string).      (* future._GENERICS, in dict order *)
Variable u : string.                      (* TransformAnnotation.union *)

(* visit_Name: `if node.id not in _GENERICS: return node` else Name(id=_GENERICS[node.id]) *)
Definition rename (id : string) : string :=
  match lookup id g with Some v => v | None => id end.

(* tr2 e = (self.visit(e),  the visited operand stack that visit_BinOp builds when e is the
   `left` of a BinOp).

   visit_BinOp(node):  if node.op is not BitOr: return node            -- children NOT visited
                       args = deque([node.right]); left = node.left
                       while isinstance(left, BinOp):                  -- ANY operator, not only BitOr
                           args.appendleft(left.right); left = left.left
                       args.appendleft(left)
                       elts = [self.visit(n) for n in args]
                       return Subscript(Name(self.union), Tuple(elts))  -- ast.Index is the identity
   so the stack for `left` is: (stack of left.left) ++ [visit(left.right)] when left is a BinOp,
   and [visit(left)] otherwise.  Computing both results together keeps the recursion structural.

   visit_Subscript, visit_Tuple: rebuild the node from the visited children.
   Every other class: NodeTransformer.generic_visit = visit every child expression in place. *)
Fixpoint tr2 (e : expr) : expr * list expr :=
  match e with
  | Name id => let t := Name (rename id) in (t, [t])
  | Attribute v a => let t := Attribute (fst (tr2 v)) a in (t, [t])
  | Constant c => (Constant c, [Constant c])
  | Subscript v s => let t := Subscript (fst (tr2 v)) (fst (tr2 s)) in (t, [t])
  | Tuple l => let t := Tuple (map (fun x => fst (tr2 x)) l) in (t, [t])
  | List_ l => let t := List_ (map (fun x => fst (tr2 x)) l) in (t, [t])
  | BinOp op l r =>
      let sp := snd (tr2 l) ++ [fst (tr2 r)] in
      (if is_bitor op then Subscript (Name u) (Tuple sp) else BinOp op l r, sp)
  | Other tag l => let t := Other tag (map (fun x => fst (tr2 x)) l) in (t, [t])
  end.

Definition transform (e : expr) : expr := fst (tr2 e).
Definition tspine (e : expr) : list expr := snd (tr2 e).

(* the operand stack of the while loop, before visiting (used only to state tspine_spec) *)
Fixpoint spine (e : expr) : list expr :=
  match e with BinOp _ l r => spine l ++ [r] | _ => [e] end.

(* ---------------------------------------------------------------------------------- *)
(* the structural meaning                                                               *)
(* ---------------------------------------------------------------------------------- *)

Inductive texpr :=
| TPath (p : list string)                 (* a dotted name *)
| TAttr (v : texpr) (a : string)          (* attribute of something that is not a dotted name *)
| TConst (c : const)
| TSub (v s : texpr)                      (* origin[arguments] *)
| TTuple (l : list texpr)
| TList (l : list texpr)
| TUnion (l : list texpr)                 (* a union: a | b  and  <u>[a, b]; members flattened *)
| TBin (op : binop) (l r : texpr)
| TOther (tag : string) (l : list texpr).

Definition splice (t : texpr) : list texpr := match t with TUnion l => l | _ => [t] end.

Fixpoint path_eqb (a b : list string) : bool :=
  match a, b with
  | [], [] => true
  | x :: r, y :: t => String.eqb x y && path_eqb r t
  | _, _ => false
  end.

Definition is_union_path (t : texpr) : bool :=
  match t with TPath p => path_eqb p (split_dot u) | _ => false end.

(* - a name that the table documents means its typing spelling (dict ~ typing.Dict), a Name whose id is
     dotted (only the transformer creates those) means the dotted path;
   - `a | b` and `<u>[a, b]` are unions, nested unions are flattened (as both spellings do when evaluated);
   - everything else is kept as it is: same origins, same arguments, recursively. *)
Fixpoint nf (e : expr) : texpr :=
  match e with
  | Name id => TPath (split_dot (rename id))
  | Attribute v a => match nf v with TPath p => TPath (p ++ [a]) | t => TAttr t a end
  | Constant c => TConst c
  | Subscript v s =>
      let tv := nf v in
      if is_union_path tv
      then TUnion (flat_map splice (match s with Tuple l => map nf l | _ => [nf s] end))
      else TSub tv (nf s)
  | Tuple l => TTuple (map nf l)
  | List_ l => TList (map nf l)
  | BinOp op l r =>
      if is_bitor op then TUnion (splice (nf l) ++ splice (nf r)) else TBin op (nf l) (nf r)
  | Other tag l => TOther tag (map nf l)
  end.

(* ---------------------------------------------------------------------------------- *)
(* syntactic classes                                                                    *)
(* ---------------------------------------------------------------------------------- *)

(* any `|` or any name of the table, anywhere *)
Fixpoint has_constructs (e : expr) : bool :=
  match e with
  | Name id => match lookup id g with Some _ => true | None => false end
  | Attribute v _ => has_constructs v
  | Constant _ => false
  | Subscript v s => has_constructs v || has_constructs s
  | Tuple l | List_ l | Other _ l => existsb has_constructs l
  | BinOp op l r => is_bitor op || has_constructs l || has_constructs r
  end.

(* the table and the union name are usable: values and the union name are dotted identifier paths, and
   neither a value, nor the first component of a value or of the union name, is itself a key *)
Definition is_key (s : string) : bool := match lookup s g with Some _ => true | None => false end.
Definition table_wf : bool :=
  forallb (fun kv => dotted_ok (snd kv) && negb (is_key (snd kv)) && negb (is_key (head_of (snd kv)))) g
  && dotted_ok u && negb (is_key u) && negb (is_key (head_of u)).

End Transform.

(* no arithmetic: every BinOp is a `|` (the annotation grammar; calls, displays ... are allowed) *)
Fixpoint arith_free (e : expr) : bool :=
  match e with
  | Name _ | Constant _ => true
  | Attribute v _ => arith_free v
  | Subscript v s => arith_free v && arith_free s
  | Tuple l | List_ l | Other _ l => forallb arith_free l
  | BinOp op l r => is_bitor op && arith_free l && arith_free r
  end.

(* no BinOp(BitOr) anywhere; constants are leaves, so `|` characters inside string constants
   (forward references, Literal["a|b"]) are not looked at *)
Fixpoint bitor_free_outside_consts (e : expr) : bool :=
  match e with
  | Name _ | Constant _ => true
  | Attribute v _ => bitor_free_outside_consts v
  | Subscript v s => bitor_free_outside_consts v && bitor_free_outside_consts s
  | Tuple l | List_ l | Other _ l => forallb bitor_free_outside_consts l
  | BinOp op l r => negb (is_bitor op) && bitor_free_outside_consts l && bitor_free_outside_consts r
  end.

(* every Name satisfies f *)
Fixpoint names_all (f : string -> bool) (e : expr) : bool :=
  match e with
  | Name id => f id
  | Constant _ => true
  | Attribute v _ => names_all f v
  | Subscript v s => names_all f v && names_all f s
  | Tuple l | List_ l | Other _ l => forallb (names_all f) l
  | BinOp _ l r => names_all f l && names_all f r
  end.

(* what ast.parse produces: every Name is an identifier *)
Definition parsed (e : expr) : bool := names_all ident_ok e.
(* what ast.unparse can print back as a Name / Attribute chain *)
Definition printable (e : expr) : bool := names_all dotted_ok e.

(* ---------------------------------------------------------------------------------- *)
(* ast.parse (ast.unparse t)                                                            *)
(* ---------------------------------------------------------------------------------- *)

(* Name("typing.Union") prints as `typing.Union` and is read back as Attribute(Name("typing"), "Union").
   Nothing else changes on trees that come from the parser (tuples in subscripts lose / keep their
   parentheses without changing the tree; constants are printed by repr). *)
Definition chain (p : list string) (dflt : string) : expr :=
  match p with h :: t => fold_left Attribute t (Name h) | [] => Name dflt end.

Fixpoint reparse (e : expr) : expr :=
  match e with
  | Name id => chain (split_dot id) id
  | Attribute v a => Attribute (reparse v) a
  | Constant c => Constant c
  | Subscript v s => Subscript (reparse v) (reparse s)
  | Tuple l => Tuple (map reparse l)
  | List_ l => List_ (map reparse l)
  | BinOp op l r => BinOp op (reparse l) (reparse r)
  | Other tag l => Other tag (map reparse l)
  end.

(* the mapping the library documents (module docstring of future.py and the property statement) *)
Definition documented : list (string * string) :=
  [("dict", "typing.Dict"); ("list", "typing.List"); ("set", "typing.Set"); ("tuple", "typing.Tuple");
   ("Pattern", "typing.Pattern")].
Definition documented_union : string := "typing.Union".

(* Interpreter side of the table (measured on every run, not read from typelib): `origins` maps a typing
   spelling v to the __name__ of typing.get_origin(eval v).  The table is sound when every entry k -> v
   sends a builtin name to the typing alias whose origin is the class called k. *)
Definition table_sound (g origins : list (string * string)) : bool :=
  forallb (fun kv => match lookup (snd kv) origins with Some o => String.eqb o (fst kv) | None => false end) g.
