(* graphlib.TopologicalSorter as used by graph.get_type_graph / itertypes:
   - is_topo_order: the documented contract of static_order() (every node once, each node after all of
     its predecessors) -- the property theorems are stated for ANY order satisfying it;
   - kahn: a concrete sorter that mirrors CPython's implementation (insertion-ordered node table,
     ready list, rounds of get_ready()/done()), so that the sequence itself can be compared too;
   - static_order: graph.static_order / itertypes for every input form.
   Definitions only. *)
From Coq Require Import List Arith Bool PeanoNat String.
Import ListNotations.
Require Import TL.Model.Graph.

(* ---------------- the contract ---------------- *)
Fixpoint pos (n : node) (l : list node) : option nat :=
  match l with
  | [] => None
  | x :: r => if node_eqb n x then Some 0 else match pos n r with Some i => Some (S i) | None => None end
  end.
Definition inb (n : node) (l : list node) : bool := existsb (node_eqb n) l.

(* a strictly earlier than b *)
Definition before (a b : node) (l : list node) : Prop :=
  exists i j, pos a l = Some i /\ pos b l = Some j /\ i < j.

Fixpoint nodupb (l : list node) : bool :=
  match l with [] => true | x :: r => negb (inb x r) && nodupb r end.

Definition is_topo_order (g : adjacency) (order : list node) : Prop :=
  nodupb order = true /\
  (forall n, In n (adj_nodes g) -> inb n order = true) /\
  (forall n, In n order -> inb n (adj_nodes g) = true) /\
  (forall p preds c, In (p, preds) g -> In c preds -> before c p order).

(* boolean version, used by the tie on observed sequences *)
Definition beforeb (a b : node) (l : list node) : bool :=
  match pos a l, pos b l with Some i, Some j => Nat.ltb i j | _, _ => false end.
Definition is_topo_orderb (g : adjacency) (order : list node) : bool :=
  nodupb order &&
  forallb (fun n => inb n order) (adj_nodes g) &&
  forallb (fun n => inb n (adj_nodes g)) order &&
  forallb (fun e => forallb (fun c => beforeb c (fst e) order) (snd e)) g.

(* ---------------- CPython's graphlib ---------------- *)
(* _node2info: insertion ordered; npredecessors counts with multiplicity, successors is a list *)
Record info := { inode : node; npred : nat; succs : list node }.

Fixpoint has_info (n : node) (t : list info) : bool :=
  match t with [] => false | i :: r => node_eqb n (inode i) || has_info n r end.
(* _get_nodeinfo: create at the end when missing (the first key object stays the key) *)
Definition touch (n : node) (t : list info) : list info :=
  if has_info n t then t else t ++ [{| inode := n; npred := 0; succs := [] |}].
Fixpoint update (n : node) (f : info -> info) (t : list info) : list info :=
  match t with
  | [] => []
  | i :: r => if node_eqb n (inode i) then f i :: r else i :: update n f r
  end.
(* add(node, *predecessors) *)
Definition add_entry (t : list info) (e : node * list node) : list info :=
  let (p, preds) := e in
  let t1 := update p (fun i => {| inode := inode i; npred := npred i + List.length preds; succs := succs i |}) (touch p t) in
  fold_left (fun t c => update c (fun i => {| inode := inode i; npred := npred i; succs := succs i ++ [p] |}) (touch c t))
            preds t1.
Definition build (g : adjacency) : list info := fold_left add_entry g [].

(* done(n): every successor loses one predecessor; those reaching 0 become ready, in order *)
Fixpoint find_info (n : node) (t : list info) : option info :=
  match t with [] => None | i :: r => if node_eqb n (inode i) then Some i else find_info n r end.
Definition dec_succ (st : list info * list node) (s : node) : list info * list node :=
  let (t, ready) := st in
  match find_info s t with
  | Some i =>
      match npred i with
      | 0 => st
      | S k =>
          (update s (fun i => {| inode := inode i; npred := k; succs := succs i |}) t,
           if Nat.eqb k 0 then ready ++ [inode i] else ready)
      end
  | None => st
  end.
Definition done_node (st : list info * list node) (n : node) : list info * list node :=
  match find_info n (fst st) with
  | Some i => fold_left dec_succ (succs i) st
  | None => st
  end.

(* one get_ready()/done(group) round per unit of fuel *)
Fixpoint rounds (fuel : nat) (t : list info) (ready : list node) : list node :=
  match fuel with
  | 0 => []
  | S f =>
      match ready with
      | [] => []
      | _ => let (t', next) := fold_left done_node ready (t, []) in ready ++ rounds f t' next
      end
  end.

(* prepare() raises CycleError exactly when some node can never become ready *)
Definition kahn (g : adjacency) : option (list node) :=
  let t := build g in
  let ready := map inode (filter (fun i => Nat.eqb (npred i) 0) t) in
  let order := rounds (S (List.length t)) t ready in
  if Nat.eqb (List.length order) (List.length t) then Some order else None.

(* ---------------- static_order ---------------- *)
(* str / ForwardRef inputs are evaluated first (refs.evaluate is the interpreter's eval of the text in
   the namespace of the module: an explicit argument, never an axiom), then the graph of the
   evaluated annotation is ordered.  None = NameError or CycleError. *)
Definition static_order (evalref : str -> option str -> option gty) (fuel : nat) (E : env) (t : gty)
  : res (option (list node)) :=
  let t' := match t with GRef a m => evalref a m | _ => Some t end in
  match t' with
  | None => Ok None
  | Some t'' =>
      match type_graph fuel E t'' with
      | Ok g => Ok (kahn g)
      | OutOfFuel => OutOfFuel
      | Unmodelled => Unmodelled
      end
  end.
