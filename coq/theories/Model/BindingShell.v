(* Extension of Model/Binding.v (property C10), definitions only.

   Part 1 -- the source tie.  The harness (harness/bindtie.py) parses binding.py with `ast`
   on every run and TRANSLATES the body of every concrete binder class into an idiom pair;
   the table it writes (class name -> modes) is a `mode_table`.  `bound_call_src` is
   Binding.bound_call with the idioms taken from such a table instead of the hand-written
   posmode_of / kwmode_of.  The max_pos / startpos computation of _get_binding is translated
   into a list of `mp_rule`s (one per `if param.kind == K:` statement of the loop).

   Part 2 -- the shell around the binders: evaluation of the conversions in the order the
   code performs them (unmarshallers may raise), bind / BoundRoutine.__call__ / wrap's
   closure, the interpreter's own call rule (defaults, *args, **kwargs), methods and
   classes (the self parameter), wrap(cls) on a class hierarchy, functools.wraps metadata. *)
From Coq Require Import String List Arith Bool PeanoNat ZArith.
Import ListNotations.
Require Import TL.Model.Binding TL.Model.BindingEq.

(* ====================================================================== *)
(* Part 1: translated tables                                               *)
(* ====================================================================== *)

Definition bcls_name (c : bcls) : string :=
  match c with
  | AnyParamKindBinding => "AnyParamKindBinding" | PosArgsKwargsBinding => "PosArgsKwargsBinding"
  | PosKwdKwargsBinding => "PosKwdKwargsBinding" | PosKwdArgsBinding => "PosKwdArgsBinding"
  | PosKwargsBinding => "PosKwargsBinding" | PosKwdBinding => "PosKwdBinding"
  | PosArgsBinding => "PosArgsBinding" | PosBinding => "PosBinding"
  | KwdArgsKwargsBinding => "KwdArgsKwargsBinding" | KwdArgsBinding => "KwdArgsBinding"
  | KwdKwargsBinding => "KwdKwargsBinding" | KwdBinding => "KwdBinding"
  | ArgsKwargsBinding => "ArgsKwargsBinding" | KwargsBinding => "KwargsBinding"
  | ArgsBinding => "ArgsBinding" | PosOrKwdBinding => "PosOrKwdBinding"
  end%string.

Definition all_bcls : list bcls :=
  [AnyParamKindBinding; PosArgsKwargsBinding; PosKwdKwargsBinding; PosKwdArgsBinding;
   PosKwargsBinding; PosKwdBinding; PosArgsBinding; PosBinding; KwdArgsKwargsBinding;
   KwdArgsBinding; KwdKwargsBinding; KwdBinding; ArgsKwargsBinding; KwargsBinding;
   ArgsBinding; PosOrKwdBinding].

Definition mode_table := list (string * (posmode * kwmode)).
Fixpoint tbl_lookup (n : string) (t : mode_table) : option (posmode * kwmode) :=
  match t with [] => None | (m, x) :: r => if String.eqb n m then Some x else tbl_lookup n r end.

Definition posmode_eqb (a b : posmode) : bool :=
  match a, b with PosSplit, PosSplit | PosIndex, PosIndex | PosVar, PosVar | PosUntouched, PosUntouched => true
  | _, _ => false end.
Definition kwmode_eqb (a b : kwmode) : bool :=
  match a, b with KwGet, KwGet | KwVar, KwVar | KwElseV, KwElseV | KwElseK, KwElseK | KwUntouched, KwUntouched => true
  | _, _ => false end.

(* the translated entry of class c is the hand-written pair *)
Definition modes_agree (t : mode_table) (c : bcls) : bool :=
  match tbl_lookup (bcls_name c) t with
  | Some (p, k) => posmode_eqb p (posmode_of c) && kwmode_eqb k (kwmode_of c)
  | None => false end.
(* ... for every class the dispatch matrix names *)
Definition modes_tied (t : mode_table) (rows : list row) : bool :=
  forallb (fun r => modes_agree t (snd r)) rows.

Section Src.
Variable val : Type.
(* binder.__call__ with the idioms the translator read off the source *)
Definition run_binder_src (t : mode_table) (c : bcls) (b : bstate) (args : list val) (kw : list (nat * val))
  : res (list (cv val) * list (nat * cv val)) :=
  match tbl_lookup (bcls_name c) t with
  | None => RaiseType
  | Some (pm, km) =>
    match run_pos val pm b args with
    | RaiseType => RaiseType
    | Ok ua => match run_kw val km b kw with RaiseType => RaiseType | Ok uk => Ok (ua, uk) end
    end
  end.
Definition bound_call_src (t : mode_table) (rows : list row) (s : sig) (args : list val) (kw : list (nat * val)) :=
  match matrix_lookup rows (truth_of s) with
  | None => RaiseType
  | Some c => run_binder_src t c (get_binding s) args kw
  end.
End Src.

(* ---- _get_binding: max_pos / startpos ----
   One rule per statement `if param.kind == K: [max_pos = i + off] ... [continue]` of the loop
   `for i, (name, param) in enumerate(params.items())`, in source order.
   mr_off = None: the statement does not assign max_pos.  mr_cont: it ends with `continue`. *)
Record mp_rule := { mr_kind : kind; mr_off : option Z; mr_cont : bool }.

(* one iteration of the loop body on parameter p at index i *)
Fixpoint mp_step (rules : list mp_rule) (i : Z) (p : param) (acc : option Z) : option Z :=
  match rules with
  | [] => acc
  | r :: rest =>
    if is_k (mr_kind r) p then
      let acc' := match mr_off r with Some off => Some (i + off)%Z | None => acc end in
      if mr_cont r then acc' else mp_step rest i p acc'
    else mp_step rest i p acc
  end.
Fixpoint mp_loop (rules : list mp_rule) (s : sig) (i : Z) (acc : option Z) : option Z :=
  match s with [] => acc | p :: r => mp_loop rules r (i + 1)%Z (mp_step rules i p acc) end.
(* startpos = max_pos + fin if max_pos is not None else None *)
Definition startpos_src (rules : list mp_rule) (fin : Z) (s : sig) : option Z :=
  match mp_loop rules s 0%Z None with Some m => Some (m + fin)%Z | None => None end.

(* what one iteration does to max_pos for a parameter of kind k: Some off = "max_pos = i + off" *)
Fixpoint mp_effect (rules : list mp_rule) (k : kind) (cur : option Z) : option Z :=
  match rules with
  | [] => cur
  | r :: rest =>
    if kind_eqb k (mr_kind r) then
      let cur' := match mr_off r with Some off => Some off | None => cur end in
      if mr_cont r then cur' else mp_effect rest k cur'
    else mp_effect rest k cur
  end.
Definition optZ_eqb (a b : option Z) : bool :=
  match a, b with Some x, Some y => Z.eqb x y | None, None => true | _, _ => false end.
(* the only facts about the rules the model depends on *)
Definition mp_rules_ok (rules : list mp_rule) (fin : Z) : bool :=
  optZ_eqb (mp_effect rules PO None) (Some 0%Z) && optZ_eqb (mp_effect rules VP None) (Some (-1)%Z) &&
  optZ_eqb (mp_effect rules PK None) None && optZ_eqb (mp_effect rules KO None) None &&
  optZ_eqb (mp_effect rules VK None) None && Z.eqb fin 1.

(* registration: `if param.kind in (K1, K2): binding[i] = unmarshaller` / `binding[name] = ...` *)
Definition kind_in (ks : list kind) (p : param) : bool := existsb (fun k => is_k k p) ks.
Fixpoint idx_map_src (ks : list kind) (s : sig) (i : nat) : list nat :=
  match s with [] => [] | p :: r => (if kind_in ks p then [i] else []) ++ idx_map_src ks r (S i) end.
Fixpoint name_map_src (ks : list kind) (s : sig) (i : nat) : list (nat * nat) :=
  match s with [] => [] | p :: r => (if kind_in ks p then [(pname p, i)] else []) ++ name_map_src ks r (S i) end.
Definition all_kinds : list kind := [PO; PK; VP; KO; VK].
Definition kinds_same (ks : list kind) (f : kind -> bool) : bool :=
  forallb (fun k => Bool.eqb (existsb (kind_eqb k) ks) (f k)) all_kinds.
Definition reg_kinds_ok (idx_kinds name_kinds : list kind) : bool :=
  kinds_same idx_kinds (fun k => match k with PO | PK => true | _ => false end) &&
  kinds_same name_kinds (fun k => match k with PK | KO => true | _ => false end).

(* ====================================================================== *)
(* Part 2: the shell around the binders                                    *)
(* ====================================================================== *)

(* ---- 2a. the conversions in the order the code performs them ----
   Binding.run_pos / run_kw say WHICH unmarshaller meets which argument.  The code calls
   them one by one, left to right, positional before keyword; an unmarshaller may raise, and
   calling an absent varpos / varkwd (None) raises TypeError at that element.  A trace is
   that sequence: None = "None(v)". *)
Fixpoint sequence {A : Type} (l : list (option A)) : res (list A) :=
  match l with
  | [] => Ok []
  | None :: _ => RaiseType
  | Some a :: r => match sequence r with Ok t => Ok (a :: t) | RaiseType => RaiseType end
  end.
Fixpoint sequence_kw {A : Type} (l : list (nat * option A)) : res (list (nat * A)) :=
  match l with
  | [] => Ok []
  | (k, Some a) :: r => match sequence_kw r with Ok t => Ok ((k, a) :: t) | RaiseType => RaiseType end
  | (_, None) :: _ => RaiseType
  end.

Section Trace.
Variable val : Type.
Notation cv := (cv val).
Definition var_trace (vp : option nat) (l : list val) : list (option cv) :=
  map (fun v => match vp with Some p => Some (Conv p v) | None => None end) l.
Definition trace_pos (m : posmode) (b : bstate) (args : list val) : list (option cv) :=
  match m with
  | PosIndex => map Some (by_index val (idxs b) 0 args)
  | PosUntouched => map Some (map Raw args)
  | PosVar => var_trace (varpos b) args
  | PosSplit => map Some (by_index val (idxs b) 0 (slice_to val (startpos b) args))
                ++ var_trace (varpos b) (slice_from val (startpos b) args)
  end.
Definition trace_kw1 (m : kwmode) (b : bstate) (k : nat) (v : val) : option cv :=
  match run_kw1 val m b k v with Ok c => Some c | RaiseType => None end.
Definition trace_kw (m : kwmode) (b : bstate) (kw : list (nat * val)) : list (nat * option cv) :=
  map (fun kv => (fst kv, trace_kw1 m b (fst kv) (snd kv))) kw.
End Trace.

Section Shell.
Variable val : Type.            (* Python values *)
Variable E : Type.              (* exception values *)
Variable type_error : E.        (* TypeError, as raised by the interpreter's argument binding and by None(v) *)
Variable um : nat -> val -> val + E.    (* the unmarshaller built for parameter #p (NoOp when unannotated) *)
Variable key_val : nat -> val.  (* the str object that is keyword name k (the `else k` idiom passes it on) *)
Notation cv := (cv val).

Definition eval_cv (c : option cv) : val + E :=
  match c with
  | None => inr type_error
  | Some (Conv p v) => um p v
  | Some (Raw v) => inl v
  | Some (KeyAs k) => inl (key_val k)
  end.
Fixpoint eval_seq (l : list (option cv)) : list val + E :=
  match l with
  | [] => inl []
  | c :: r => match eval_cv c with
              | inr e => inr e
              | inl v => match eval_seq r with inr e => inr e | inl t => inl (v :: t) end
              end
  end.
Fixpoint eval_kws (l : list (nat * option cv)) : list (nat * val) + E :=
  match l with
  | [] => inl []
  | (k, c) :: r => match eval_cv c with
                   | inr e => inr e
                   | inl v => match eval_kws r with inr e => inr e | inl t => inl ((k, v) :: t) end
                   end
  end.
(* binder(args, kwargs) as executed: positional conversions, then keyword conversions; first exception wins *)
Definition binder_eval (pm : posmode) (km : kwmode) (b : bstate) (args : list val) (kw : list (nat * val))
  : (list val * list (nat * val)) + E :=
  match eval_seq (trace_pos val pm b args) with
  | inr e => inr e
  | inl ua => match eval_kws (trace_kw val km b kw) with inr e => inr e | inl uk => inl (ua, uk) end
  end.

(* ---- 2b. bind / BoundRoutine.__call__ / wrap's closure ---- *)
(* Hijacked x a k is produced only by the PINNED closure of wrap (before proposed_fixes/C10-reserved-keywords.diff):
   it had a keyword-only parameter `__binding`, and a caller's keyword of that name REPLACED the binder:
   x(a, k) was called in its place (what happens then is x's business) *)
Inductive outcome (R : Type) :=
| Ret (r : R) | Raise (e : E) | Hijacked (x : val) (args : list val) (kw : list (nat * val)).
Arguments Ret {R}. Arguments Raise {R}. Arguments Hijacked {R}.
Definition callable (R : Type) := list val -> list (nat * val) -> outcome R.

Fixpoint kw_find (k : nat) (kw : list (nat * val)) : option val :=
  match kw with [] => None | (k', v) :: r => if Nat.eqb k k' then Some v else kw_find k r end.
Definition kw_remove (k : nat) (kw : list (nat * val)) : list (nat * val) :=
  filter (fun kv => negb (Nat.eqb k (fst kv))) kw.

Section Call.
Variable R : Type.
(* bargs, bkwargs = binding(args, kwargs); return obj( *bargs, **bkwargs )
   This is BoundRoutine.__call__(self, /, *args, **kwargs) and binding_wrapper( *args, **kwargs ) with the
   binder as a closure variable: every keyword of the caller reaches the binder. *)
Definition shell_call (c : bcls) (b : bstate) (f : callable R) : callable R := fun args kw =>
  match binder_eval (posmode_of c) (kwmode_of c) b args kw with
  | inr e => Raise e
  | inl (ua, uk) => f ua uk
  end.
(* bind(obj) / wrap(obj) for a non-class obj whose signature is s.  None: KeyError when decorating
   (the matrix has no row for the signature's kind-presence tuple) *)
Definition bind (rows : list row) (s : sig) (f : callable R) : option (callable R) :=
  match matrix_lookup rows (truth_of s) with
  | None => None | Some c => Some (shell_call c (get_binding s) f) end.
Definition wrap_fn (rows : list row) (s : sig) (f : callable R) : option (callable R) :=
  match matrix_lookup rows (truth_of s) with
  | None => None | Some c => Some (shell_call c (get_binding s) f) end.
(* api = true: wrap; api = false: bind *)
Definition api_apply (api : bool) (rows : list row) (s : sig) (f : callable R) : option (callable R) :=
  if api then wrap_fn rows s f else bind rows s f.

(* the code as PINNED (before the repair), kept for the refutations:
   BoundRoutine.__call__(self, *args, **kwargs): a keyword named like its own first parameter was refused by
   the interpreter before anything ran *)
Definition bound_routine_call_pinned (self_name : nat) (c : bcls) (b : bstate) (f : callable R) : callable R :=
  fun args kw => match kw_find self_name kw with Some _ => Raise type_error | None => shell_call c b f args kw end.
(* binding_wrapper( *args, __binding=binding, **kwargs ) *)
Definition wrapper_call_pinned (reserved : nat) (c : bcls) (b : bstate) (f : callable R) : callable R :=
  fun args kw => match kw_find reserved kw with
                 | Some x => Hijacked x args (kw_remove reserved kw)
                 | None => shell_call c b f args kw end.
Definition bind_pinned (self_name : nat) (rows : list row) (s : sig) (f : callable R) : option (callable R) :=
  match matrix_lookup rows (truth_of s) with
  | None => None | Some c => Some (bound_routine_call_pinned self_name c (get_binding s) f) end.
Definition wrap_fn_pinned (reserved : nat) (rows : list row) (s : sig) (f : callable R) : option (callable R) :=
  match matrix_lookup rows (truth_of s) with
  | None => None | Some c => Some (wrapper_call_pinned reserved c (get_binding s) f) end.
End Call.

(* ---- 2c. the interpreter's own call rule: obj( *a, **k ) for a Python-level function ----
   One slot per parameter, in signature order.  SDefault: the parameter was not passed and took
   its default (filled in by the interpreter INSIDE the call of obj: the binder never sees it). *)
Inductive slot := SArg (v : val) | SDefault (d : val) | SVarPos (l : list val) | SVarKw (l : list (nat * val)).
Definition frame := list slot.
Definition named (s : sig) (k : nat) : bool := existsb (fun p => kw_capable p && Nat.eqb (pname p) k) s.

Definition kw_or_default (def : nat -> option val) (p : param) (i : nat) (kw : list (nat * val)) : option slot :=
  match kw_find (pname p) kw with
  | Some v => Some (SArg v)
  | None => match def i with Some d => Some (SDefault d) | None => None end
  end.
Definition ocons {A : Type} (a : option A) (r : option (list A)) : option (list A) :=
  match a, r with Some x, Some t => Some (x :: t) | _, _ => None end.

Fixpoint bind_params (def : nat -> option val) (sall s : sig) (i : nat) (args : list val) (kw : list (nat * val))
  : option frame :=
  match s with
  | [] => match args with [] => Some [] | _ :: _ => None end     (* too many positional arguments *)
  | p :: r =>
    match pkind p with
    | PO => match args with
            | a :: args' => ocons (Some (SArg a)) (bind_params def sall r (S i) args' kw)
            | [] => ocons (match def i with Some d => Some (SDefault d) | None => None end)
                          (bind_params def sall r (S i) [] kw)
            end
    | PK => match args with
            | a :: args' => match kw_find (pname p) kw with
                            | Some _ => None                        (* multiple values for the parameter *)
                            | None => ocons (Some (SArg a)) (bind_params def sall r (S i) args' kw) end
            | [] => ocons (kw_or_default def p i kw) (bind_params def sall r (S i) [] kw)
            end
    | VP => ocons (Some (SVarPos args)) (bind_params def sall r (S i) [] kw)
    | KO => match args with
            | _ :: _ => None
            | [] => ocons (kw_or_default def p i kw) (bind_params def sall r (S i) [] kw)
            end
    | VK => match args with
            | _ :: _ => None
            | [] => ocons (Some (SVarKw (filter (fun kv => negb (named sall (fst kv))) kw)))
                          (bind_params def sall r (S i) [] kw)
            end
    end
  end.
(* an unexpected keyword is refused unless there is a var-keyword parameter *)
Definition kw_accepted (s : sig) (kw : list (nat * val)) : bool :=
  has VK s || forallb (fun kv => named s (fst kv)) kw.
Definition py_bind (def : nat -> option val) (s : sig) (args : list val) (kw : list (nat * val)) : option frame :=
  if kw_accepted s kw then bind_params def s s 0 args kw else None.

(* a Python function: signature, defaults, body *)
Record pyfun (R : Type) := { f_sig : sig; f_def : nat -> option val; f_body : frame -> outcome R }.
Arguments f_sig {R}. Arguments f_def {R}. Arguments f_body {R}.
Definition call_fn {R : Type} (pf : pyfun R) : callable R := fun args kw =>
  match py_bind (f_def pf) (f_sig pf) args kw with
  | None => Raise type_error
  | Some fr => f_body pf fr
  end.

(* the property's right-hand side: every PASSED value converted by its own parameter's unmarshaller,
   defaults as they are, each element of *args / each value of **kwargs by that parameter's *)
Fixpoint conv_list (p : nat) (l : list val) : list val + E :=
  match l with
  | [] => inl []
  | v :: r => match um p v with
              | inr e => inr e
              | inl u => match conv_list p r with inr e => inr e | inl t => inl (u :: t) end end
  end.
Fixpoint conv_kwlist (p : nat) (l : list (nat * val)) : list (nat * val) + E :=
  match l with
  | [] => inl []
  | (k, v) :: r => match um p v with
                   | inr e => inr e
                   | inl u => match conv_kwlist p r with inr e => inr e | inl t => inl ((k, u) :: t) end end
  end.
Definition conv_slot (i : nat) (sl : slot) : slot + E :=
  match sl with
  | SArg v => match um i v with inl u => inl (SArg u) | inr e => inr e end
  | SDefault d => inl (SDefault d)
  | SVarPos l => match conv_list i l with inl t => inl (SVarPos t) | inr e => inr e end
  | SVarKw l => match conv_kwlist i l with inl t => inl (SVarKw t) | inr e => inr e end
  end.
Fixpoint conv_frame (i : nat) (fr : frame) : frame + E :=
  match fr with
  | [] => inl []
  | sl :: r => match conv_slot i sl with
               | inr e => inr e
               | inl u => match conv_frame (S i) r with inr e => inr e | inl t => inl (u :: t) end end
  end.

(* the conversions the specification (Binding.expected_pos / expected_kw) asks for, in call order *)
Definition conv_call (s : sig) (args : list val) (kw : list (nat * val)) : option ((list val * list (nat * val)) + E) :=
  match expected_pos val s args, expected_kw val s kw with
  | Some ea, Some ek =>
    Some match eval_seq (map Some ea) with
         | inr e => inr e
         | inl ua => match eval_kws (map (fun kc => (fst kc, Some (snd kc))) ek) with
                     | inr e => inr e | inl uk => inl (ua, uk) end
         end
  | _, _ => None
  end.

(* positional binding read recursively (equals expected_pos on well-formed signatures) *)
Fixpoint exp_pos_suffix (r : sig) (i : nat) (args : list val) {struct args} : option (list cv) :=
  match args with
  | [] => Some []
  | a :: args' =>
    match r with
    | [] => None
    | p :: r' => match pkind p with
                 | PO | PK => match exp_pos_suffix r' (S i) args' with Some t => Some (Conv i a :: t) | None => None end
                 | VP => Some (map (Conv i) args)
                 | _ => None
                 end
    end
  end.

(* parameter names are pairwise distinct (the compiler refuses anything else) *)
Fixpoint distinct_names (s : sig) : bool :=
  match s with [] => true | p :: r => negb (existsb (fun q => Nat.eqb (pname q) (pname p)) r) && distinct_names r end.

(* ---- 2d. methods and classes: the self parameter ----
   A bound method / callable instance is a callable whose signature has no self: the cases above.
   wrap(cls) replaces cls.__init__ by wrap(cls.__init__): a plain function whose first parameter is
   self -- positional-only when the signature has a `/`, positional-or-keyword otherwise, unannotated. *)
Definition self_param (self_name : nat) (s : sig) : param :=
  {| pname := self_name; pkind := if has PO s then PO else PK; pann := false |}.
Definition init_sig (self_name : nat) (s : sig) : sig := self_param self_name s :: s.

End Shell.

Arguments Ret {val E R}. Arguments Raise {val E R}. Arguments Hijacked {val E R}.
Arguments SArg {val}. Arguments SDefault {val}. Arguments SVarPos {val}. Arguments SVarKw {val}.
Arguments f_sig {val E R}. Arguments f_def {val E R}. Arguments f_body {val E R}.

(* ---- 2e. wrap(cls) on a class hierarchy ----
   Function objects: object.__init__, an original function (by id), or a binding_wrapper around
   another function object.  A class has a base (None: object) and possibly an __init__ of its own. *)
Inductive fnobj := FObjectInit | FOrig (id : nat) | FWrap (inner : fnobj).
Record pyclass := { c_base : option nat; c_init : option fnobj }.
Definition cenv := nat -> option pyclass.
Definition cenv_set (Ev : cenv) (c : nat) (k : pyclass) : cenv := fun d => if Nat.eqb d c then Some k else Ev d.
(* attribute lookup of __init__ along the MRO (single inheritance); fuel = length of the chain *)
Fixpoint resolve_init (fuel : nat) (Ev : cenv) (c : nat) : option fnobj :=
  match fuel with
  | 0 => None
  | S n => match Ev c with
           | None => None
           | Some k => match c_init k with
                       | Some f => Some f
                       | None => match c_base k with Some b => resolve_init n Ev b | None => Some FObjectInit end
                       end
           end
  end.
(* wrap(cls): obj.__init__ = wrap(obj.__init__)  -- whatever the lookup finds, stored in cls's own dict *)
Definition wrap_class (fuel : nat) (Ev : cenv) (c : nat) : cenv :=
  match Ev c, resolve_init fuel Ev c with
  | Some k, Some f => cenv_set Ev c {| c_base := c_base k; c_init := Some (FWrap f) |}
  | _, _ => Ev
  end.
Fixpoint wrap_classes (fuel : nat) (Ev : cenv) (cs : list nat) : cenv :=
  match cs with [] => Ev | c :: r => wrap_classes fuel (wrap_class fuel Ev c) r end.
Fixpoint layers (f : fnobj) : nat := match f with FWrap g => S (layers g) | _ => 0 end.
Fixpoint innermost (f : fnobj) : fnobj := match f with FWrap g => innermost g | _ => f end.

Section Apply.
Variables (val E : Type) (type_error : E) (um : nat -> val -> val + E) (key_val : nat -> val) (R : Type).
Variable rows : list row.
Variable sig_of : nat -> sig.                    (* signature of original function #id (self included) *)
Variable body_of : nat -> callable val E R.      (* what original function #id does *)
Variable object_init : callable val E R.
(* inspect.signature follows __wrapped__: every wrapper has the signature of the innermost function *)
Definition fn_sig (f : fnobj) : option sig :=
  match innermost f with FOrig i => Some (sig_of i) | _ => None end.
Fixpoint apply_fn (f : fnobj) : option (callable val E R) :=
  match f with
  | FObjectInit => Some object_init
  | FOrig i => Some (body_of i)
  | FWrap g => match apply_fn g, fn_sig g with
               | Some h, Some s => wrap_fn val E type_error um key_val R rows s h
               | _, _ => None end
  end.
End Apply.

(* ---- 2f. functools.wraps: metadata as data ----
   WRAPPER_ASSIGNMENTS are copied when the wrapped object HAS the attribute (a callable instance has
   no __name__ / __qualname__: the wrapper keeps its own), __dict__ is merged, __wrapped__ is set. *)
Record meta := { m_name : option nat; m_qualname : option nat; m_doc : option nat; m_module : option nat;
                 m_dict : list (nat * nat); m_wrapped : option nat }.
Definition or_own (src own : option nat) : option nat := match src with Some x => Some x | None => own end.
Fixpoint dict_set (k v : nat) (d : list (nat * nat)) : list (nat * nat) :=
  match d with [] => [(k, v)] | (k', v') :: r => if Nat.eqb k k' then (k, v) :: r else (k', v') :: dict_set k v r end.
Fixpoint dict_update (d upd : list (nat * nat)) : list (nat * nat) :=
  match upd with [] => d | (k, v) :: r => dict_update (dict_set k v d) r end.
Definition wraps (src_id : nat) (src own : meta) : meta :=
  {| m_name := or_own (m_name src) (m_name own); m_qualname := or_own (m_qualname src) (m_qualname own);
     m_doc := or_own (m_doc src) (m_doc own); m_module := or_own (m_module src) (m_module own);
     m_dict := dict_update (m_dict own) (m_dict src); m_wrapped := Some src_id |}.

(* ====================================================================== *)
(* Part 3: the executable instance the per-run tie evaluates (vm_compute)  *)
(* ====================================================================== *)
(* values as the harness observes them: a raw argument, the result of the tagging unmarshaller of
   parameter p, a keyword name passed as value, the instance under construction *)
Inductive tval := TRaw (n : nat) | TConv (p : nat) (v : tval) | TKey (k : nat) | TInst.
Inductive texn := XType | XConv (p : nat) (v : tval).
Fixpoint tval_eqb (a b : tval) : bool :=
  match a, b with
  | TRaw n, TRaw m => Nat.eqb n m
  | TConv p v, TConv q w => Nat.eqb p q && tval_eqb v w
  | TKey k, TKey l => Nat.eqb k l
  | TInst, TInst => true
  | _, _ => false
  end.
(* the tagging unmarshallers of the harness refuse raw values 500..799 *)
Definition poisoned (v : tval) : bool := match v with TRaw n => (500 <=? n) && (n <? 800) | _ => false end.
Definition um_tie (s : sig) (p : nat) (v : tval) : tval + texn :=
  if annotated s p then (if poisoned v then inr (XConv p v) else inl (TConv p v)) else inl v.

Inductive oslot := OVal (v : tval) | OVarPos (l : list tval) | OVarKw (l : list (nat * tval)).
Inductive tobs :=
| ORet (fr : list oslot) | ORaiseType | ORaiseConv (p : nat) (v : tval)
| OHijack (x : tval) (args : list tval) (kw : list (nat * tval))   (* only the pinned closure of wrap does this *)
| ODecorError.
Definition obs_slot (sl : slot tval) : oslot :=
  match sl with SArg v => OVal v | SDefault d => OVal d | SVarPos l => OVarPos l | SVarKw l => OVarKw l end.
Definition obs_outcome (o : outcome tval texn (frame tval)) : tobs :=
  match o with
  | Ret fr => ORet (map obs_slot fr)
  | Raise XType => ORaiseType
  | Raise (XConv p v) => ORaiseConv p v
  | Hijacked x a k => OHijack x a k
  end.
Fixpoint tlist_eqb {A : Type} (e : A -> A -> bool) (a b : list A) : bool :=
  match a, b with [], [] => true | x :: r, y :: t => e x y && tlist_eqb e r t | _, _ => false end.
Definition tkw_eqb (a b : nat * tval) : bool := Nat.eqb (fst a) (fst b) && tval_eqb (snd a) (snd b).
Definition oslot_eqb (a b : oslot) : bool :=
  match a, b with
  | OVal v, OVal w => tval_eqb v w
  | OVarPos l, OVarPos m => tlist_eqb tval_eqb l m
  | OVarKw l, OVarKw m => tlist_eqb tkw_eqb l m
  | _, _ => false
  end.
Definition tobs_eqb (a b : tobs) : bool :=
  match a, b with
  | ORet f, ORet g => tlist_eqb oslot_eqb f g
  | ORaiseType, ORaiseType => true
  | ORaiseConv p v, ORaiseConv q w => Nat.eqb p q && tval_eqb v w
  | OHijack x a k, OHijack y b l => tval_eqb x y && tlist_eqb tval_eqb a b && tlist_eqb tkw_eqb k l
  | ODecorError, ODecorError => true
  | _, _ => false
  end.

Definition tie_reserved : nat := 999.     (* the keyword name __binding (reserved by wrap's closure as pinned) *)
Definition tie_self : nat := 998.         (* the name self (parameter of __init__; reserved by bind as pinned) *)
Definition tie_def (ds : list (option nat)) (i : nat) : option tval :=
  match nth_error ds i with Some (Some n) => Some (TRaw n) | _ => None end.
Definition tie_fun (s : sig) (ds : list (option nat)) : pyfun tval texn (frame tval) :=
  {| f_sig := s; f_def := tie_def ds; f_body := fun fr => Ret fr |}.

(* (i) a function / bound method / callable instance / class under bind, of signature s:
   wrapped `nwrap` times, then (top_bind) handed to bind; called with args, kw *)
Fixpoint wrap_n (rows : list row) (s : sig) (n : nat) (f : callable tval texn (frame tval))
  : option (callable tval texn (frame tval)) :=
  match n with
  | 0 => Some f
  | S m => match wrap_n rows s m f with
           | Some g => wrap_fn tval texn XType (um_tie s) TKey (frame tval) rows s g
           | None => None end
  end.
Definition fn_case := (sig * list (option nat) * nat * bool * list tval * list (nat * tval) * tobs)%type.
Definition fn_case_model (rows : list row) (c : fn_case) : tobs :=
  match c with (s, ds, nwrap, top_bind, args, kw, _) =>
    match wrap_n rows s nwrap (call_fn tval texn XType (tie_fun s ds)) with
    | None => ODecorError
    | Some g => if top_bind
                then match bind tval texn XType (um_tie s) TKey (frame tval) rows s g with
                     | None => ODecorError | Some h => obs_outcome (h args kw) end
                else obs_outcome (g args kw)
    end
  end.
Definition fn_case_ok (rows : list row) (c : fn_case) : bool :=
  match c with (_, _, _, _, _, _, obs) => tobs_eqb (fn_case_model rows c) obs end.

(* (ii) a class hierarchy: classes (id, base, own __init__ id), original __init__ functions
   (id, signature with self, defaults), the classes handed to wrap in that order, then a call of class c *)
Definition cls_case := (list (nat * option nat * option nat) * list (nat * sig * list (option nat)) * list nat
                        * nat * list tval * list (nat * tval) * tobs)%type.
Fixpoint cenv_of (l : list (nat * option nat * option nat)) : cenv :=
  match l with
  | [] => fun _ => None
  | (c, b, i) :: r => cenv_set (cenv_of r) c {| c_base := b; c_init := match i with Some n => Some (FOrig n) | None => None end |}
  end.
Fixpoint fun_lookup (fs : list (nat * sig * list (option nat))) (i : nat) : sig * list (option nat) :=
  match fs with [] => ([], []) | (j, s, ds) :: r => if Nat.eqb i j then (s, ds) else fun_lookup r i end.
Definition cls_case_model (rows : list row) (c : cls_case) : tobs :=
  match c with (cl, fs, ops, target, args, kw, _) =>
    let fuel := S (length cl) in
    let Ev := wrap_classes fuel (cenv_of cl) ops in
    match resolve_init fuel Ev target with
    | None => ODecorError
    | Some f =>
      let s := match innermost f with FOrig i => fst (fun_lookup fs i) | _ => [] end in
      match apply_fn tval texn XType (um_tie s) TKey (frame tval) rows
                     (fun i => fst (fun_lookup fs i))
                     (fun i => call_fn tval texn XType (tie_fun (fst (fun_lookup fs i)) (snd (fun_lookup fs i))))
                     (fun _ _ => Raise XType) f with
      | None => ODecorError
      | Some g => obs_outcome (g (TInst :: args) kw)
      end
    end
  end.
Definition cls_case_ok (rows : list row) (c : cls_case) : bool :=
  match c with (_, _, _, _, _, _, obs) => tobs_eqb (cls_case_model rows c) obs end.

(* (iii) metadata *)
Definition onat_eqb (a b : option nat) : bool :=
  match a, b with Some x, Some y => Nat.eqb x y | None, None => true | _, _ => false end.
Definition pair_eqb (a b : nat * nat) : bool := Nat.eqb (fst a) (fst b) && Nat.eqb (snd a) (snd b).
Fixpoint dict_sub (a b : list (nat * nat)) : bool :=    (* every binding of a is in b *)
  match a with [] => true | x :: r => existsb (pair_eqb x) b && dict_sub r b end.
Definition meta_eqb (a b : meta) : bool :=
  onat_eqb (m_name a) (m_name b) && onat_eqb (m_qualname a) (m_qualname b) && onat_eqb (m_doc a) (m_doc b) &&
  onat_eqb (m_module a) (m_module b) && onat_eqb (m_wrapped a) (m_wrapped b) &&
  dict_sub (m_dict a) (m_dict b) && dict_sub (m_dict b) (m_dict a).
Definition meta_case := (nat * meta * meta * meta)%type.     (* id of src, src, the bare wrapper, observed wrapper *)
Definition meta_case_ok (c : meta_case) : bool :=
  match c with (i, src, own, obs) => meta_eqb (wraps i src own) obs end.

(* indexes of the cases on which model and observation differ *)
Fixpoint bad_from {A : Type} (ok : A -> bool) (l : list A) (i : nat) : list nat :=
  match l with [] => [] | x :: r => (if ok x then [] else [i]) ++ bad_from ok r (S i) end.
Definition bad_cases {A : Type} (ok : A -> bool) (l : list A) : list nat := bad_from ok l 0.

(* ====================================================================== *)
(* Part 4: the _get_binding cache (compat.cache, keyed by the callable)    *)
(* ====================================================================== *)
(* bind(obj) / wrap(obj) take the binding of obj from a memo table.  `key_of` is what the table is keyed by
   (the callable itself, compared with ==), `sig_of` the signature inspection.signature computes for it,
   `build` what _get_binding computes from a signature. *)
Section Cache.
Variables (obj key B : Type) (key_eqb : key -> key -> bool) (key_of : obj -> key) (sig_of : obj -> sig) (build : sig -> B).
Definition bcache := list (key * B).
Fixpoint cache_find (k : key) (c : bcache) : option B :=
  match c with [] => None | (k', b) :: r => if key_eqb k k' then Some b else cache_find k r end.
Definition get_binding_cached (c : bcache) (o : obj) : B * bcache :=
  match cache_find (key_of o) c with
  | Some b => (b, c)
  | None => let b := build (sig_of o) in (b, (key_of o, b) :: c)
  end.
(* a history of bind / wrap calls, no cache clearing in between *)
Fixpoint run_history (c : bcache) (h : list obj) : bcache :=
  match h with [] => c | o :: r => run_history (snd (get_binding_cached c o)) r end.
Definition binding_after (h : list obj) (o : obj) : B := fst (get_binding_cached (run_history [] h) o).
End Cache.

(* tie: callables = (key class under ==, own signature); the history; the callable asked; the observed table *)
Definition cache_case := (list (nat * sig) * list nat * nat * bstate)%type.
Definition cache_case_model (c : cache_case) : bstate :=
  match c with (objs, h, q, _) =>
    binding_after nat nat bstate Nat.eqb (fun o => fst (nth o objs (0, []))) (fun o => snd (nth o objs (0, [])))
                  get_binding h q
  end.
Definition cache_case_ok (c : cache_case) : bool :=
  match c with (_, _, _, obs) => bstate_eqb (cache_case_model c) obs end.
