(* Extension of Model/Binding.v (property C10), definitions only.

   Part 1 -- the source tie.  The harness (harness/bindtie.py) parses binding.py with `ast`
   on every run and TRANSLATES the body of every concrete binder class into an idiom pair;
   the table it writes (class name -> modes) is a `mode_table`.  `bound_call_src` is
   Binding.bound_call with the idioms taken from such a table instead of the hand-written
   posmode_of / kwmode_of.  The max_pos / startpos computation of _get_binding is translated
   into a list of `mp_rule`s (one per `if param.kind == K:` statement of the loop).

   Part 2 -- the shell around the binders: evaluation of the conversions in the order the
   code performs them (unmarshallers may raise), bind / BoundRoutine.__call__ / wrap's
   closure, the interpreter's own call rule (defaults, *args, **kwargs), methods and
   classes (the self parameter), wrap(cls) on a class hierarchy, functools.wraps metadata. *)
From Coq Require Import String List Arith Bool PeanoNat ZArith.
Import ListNotations.
Require Import TL.Model.Binding.

(* ====================================================================== *)
(* Part 1: translated tables                                               *)
(* ====================================================================== *)

Definition bcls_name (c : bcls) : string :=
  match c with
  | AnyParamKindBinding => "AnyParamKindBinding" | PosArgsKwargsBinding => "PosArgsKwargsBinding"
  | PosKwdKwargsBinding => "PosKwdKwargsBinding" | PosKwdArgsBinding => "PosKwdArgsBinding"
  | PosKwargsBinding => "PosKwargsBinding" | PosKwdBinding => "PosKwdBinding"
  | PosArgsBinding => "PosArgsBinding" | PosBinding => "PosBinding"
  | KwdArgsKwargsBinding => "KwdArgsKwargsBinding" | KwdArgsBinding => "KwdArgsBinding"
  | KwdKwargsBinding => "KwdKwargsBinding" | KwdBinding => "KwdBinding"
  | ArgsKwargsBinding => "ArgsKwargsBinding" | KwargsBinding => "KwargsBinding"
  | ArgsBinding => "ArgsBinding" | PosOrKwdBinding => "PosOrKwdBinding"
  end%string.

Definition all_bcls : list bcls :=
  [AnyParamKindBinding; PosArgsKwargsBinding; PosKwdKwargsBinding; PosKwdArgsBinding;
   PosKwargsBinding; PosKwdBinding; PosArgsBinding; PosBinding; KwdArgsKwargsBinding;
   KwdArgsBinding; KwdKwargsBinding; KwdBinding; ArgsKwargsBinding; KwargsBinding;
   ArgsBinding; PosOrKwdBinding].

Definition mode_table := list (string * (posmode * kwmode)).
Fixpoint tbl_lookup (n : string) (t : mode_table) : option (posmode * kwmode) :=
  match t with [] => None | (m, x) :: r => if String.eqb n m then Some x else tbl_lookup n r end.

Definition posmode_eqb (a b : posmode) : bool :=
  match a, b with PosSplit, PosSplit | PosIndex, PosIndex | PosVar, PosVar | PosUntouched, PosUntouched => true
  | _, _ => false end.
Definition kwmode_eqb (a b : kwmode) : bool :=
  match a, b with KwGet, KwGet | KwVar, KwVar | KwElseV, KwElseV | KwElseK, KwElseK | KwUntouched, KwUntouched => true
  | _, _ => false end.

(* the translated entry of class c is the hand-written pair *)
Definition modes_agree (t : mode_table) (c : bcls) : bool :=
  match tbl_lookup (bcls_name c) t with
  | Some (p, k) => posmode_eqb p (posmode_of c) && kwmode_eqb k (kwmode_of c)
  | None => false end.
(* ... for every class the dispatch matrix names *)
Definition modes_tied (t : mode_table) (rows : list row) : bool :=
  forallb (fun r => modes_agree t (snd r)) rows.

Section Src.
Variable val : Type.
(* binder.__call__ with the idioms the translator read off the source *)
Definition run_binder_src (t : mode_table) (c : bcls) (b : bstate) (args : list val) (kw : list (nat * val))
  : res (list (cv val) * list (nat * cv val)) :=
  match tbl_lookup (bcls_name c) t with
  | None => RaiseType
  | Some (pm, km) =>
    match run_pos val pm b args with
    | RaiseType => RaiseType
    | Ok ua => match run_kw val km b kw with RaiseType => RaiseType | Ok uk => Ok (ua, uk) end
    end
  end.
Definition bound_call_src (t : mode_table) (rows : list row) (s : sig) (args : list val) (kw : list (nat * val)) :=
  match matrix_lookup rows (truth_of s) with
  | None => RaiseType
  | Some c => run_binder_src t c (get_binding s) args kw
  end.
End Src.

(* ---- _get_binding: max_pos / startpos ----
   One rule per statement `if param.kind == K: [max_pos = i + off] ... [continue]` of the loop
   `for i, (name, param) in enumerate(params.items())`, in source order.
   mr_off = None: the statement does not assign max_pos.  mr_cont: it ends with `continue`. *)
Record mp_rule := { mr_kind : kind; mr_off : option Z; mr_cont : bool }.

(* one iteration of the loop body on parameter p at index i *)
Fixpoint mp_step (rules : list mp_rule) (i : Z) (p : param) (acc : option Z) : option Z :=
  match rules with
  | [] => acc
  | r :: rest =>
    if is_k (mr_kind r) p then
      let acc' := match mr_off r with Some off => Some (i + off)%Z | None => acc end in
      if mr_cont r then acc' else mp_step rest i p acc'
    else mp_step rest i p acc
  end.
Fixpoint mp_loop (rules : list mp_rule) (s : sig) (i : Z) (acc : option Z) : option Z :=
  match s with [] => acc | p :: r => mp_loop rules r (i + 1)%Z (mp_step rules i p acc) end.
(* startpos = max_pos + fin if max_pos is not None else None *)
Definition startpos_src (rules : list mp_rule) (fin : Z) (s : sig) : option Z :=
  match mp_loop rules s 0%Z None with Some m => Some (m + fin)%Z | None => None end.

(* what one iteration does to max_pos for a parameter of kind k: Some off = "max_pos = i + off" *)
Fixpoint mp_effect (rules : list mp_rule) (k : kind) (cur : option Z) : option Z :=
  match rules with
  | [] => cur
  | r :: rest =>
    if kind_eqb k (mr_kind r) then
      let cur' := match mr_off r with Some off => Some off | None => cur end in
      if mr_cont r then cur' else mp_effect rest k cur'
    else mp_effect rest k cur
  end.
Definition optZ_eqb (a b : option Z) : bool :=
  match a, b with Some x, Some y => Z.eqb x y | None, None => true | _, _ => false end.
(* the only facts about the rules the model depends on *)
Definition mp_rules_ok (rules : list mp_rule) (fin : Z) : bool :=
  optZ_eqb (mp_effect rules PO None) (Some 0%Z) && optZ_eqb (mp_effect rules VP None) (Some (-1)%Z) &&
  optZ_eqb (mp_effect rules PK None) None && optZ_eqb (mp_effect rules KO None) None &&
  optZ_eqb (mp_effect rules VK None) None && Z.eqb fin 1.

(* registration: `if param.kind in (K1, K2): binding[i] = unmarshaller` / `binding[name] = ...` *)
Definition kind_in (ks : list kind) (p : param) : bool := existsb (fun k => is_k k p) ks.
Fixpoint idx_map_src (ks : list kind) (s : sig) (i : nat) : list nat :=
  match s with [] => [] | p :: r => (if kind_in ks p then [i] else []) ++ idx_map_src ks r (S i) end.
Fixpoint name_map_src (ks : list kind) (s : sig) (i : nat) : list (nat * nat) :=
  match s with [] => [] | p :: r => (if kind_in ks p then [(pname p, i)] else []) ++ name_map_src ks r (S i) end.
Definition all_kinds : list kind := [PO; PK; VP; KO; VK].
Definition kinds_same (ks : list kind) (f : kind -> bool) : bool :=
  forallb (fun k => Bool.eqb (existsb (kind_eqb k) ks) (f k)) all_kinds.
Definition reg_kinds_ok (idx_kinds name_kinds : list kind) : bool :=
  kinds_same idx_kinds (fun k => match k with PO | PK => true | _ => false end) &&
  kinds_same name_kinds (fun k => match k with PK | KO => true | _ => false end).
