(* Bridge between the core value model (Model/Core.v: the TUnion cases of unm / mar) and the model of the
   two Union routines (Model/Union.v, property C08).  Definitions only.

   Core.res has four outcomes (Ok, Raise, OutOfFuel, Unmodelled) and ten exception kinds; Union.res has two
   outcomes and twenty-two kinds.  The embedding sends the two non-results of the core model to kinds that
   no try-loop swallows, so that "stop at the first member that does not reject" means the same on both sides. *)
From Coq Require Import List Bool Arith.
Import ListNotations.
Require TL.Model.Core TL.Model.Union.

Module C := TL.Model.Core.
Module U := TL.Model.Union.

Definition emb (e : C.exn) : U.exn :=
  match e with
  | C.EValue => U.EValue | C.EType => U.EType | C.ESyntax => U.ESyntax | C.EAttribute => U.EAttribute
  | C.EKey => U.EKey | C.EArith => U.EArith | C.EStopIter => U.EStopIter | C.EUnicode => U.EUnicode
  | C.ERecursion => U.ERecursion | C.EOther => U.EOther
  end.

Definition unemb (e : U.exn) : option C.exn :=
  match e with
  | U.EValue => Some C.EValue | U.EType => Some C.EType | U.ESyntax => Some C.ESyntax
  | U.EAttribute => Some C.EAttribute | U.EKey => Some C.EKey | U.EArith => Some C.EArith
  | U.EStopIter => Some C.EStopIter | U.EUnicode => Some C.EUnicode | U.ERecursion => Some C.ERecursion
  | U.EOther => Some C.EOther
  | _ => None
  end.

(* OutOfFuel / Unmodelled are no results of the code: they are carried as kinds outside Exception *)
Definition oof : U.exn := U.EKeyboard.
Definition unmodelled : U.exn := U.ESysExit.

Definition lift_res {A} (r : C.res A) : U.res A :=
  match r with
  | C.Ok a => U.Ok a
  | C.Raise e => U.Raise (emb e)
  | C.OutOfFuel => U.Raise oof
  | C.Unmodelled => U.Raise unmodelled
  end.

Definition lift (r : C.pv -> C.res C.pv) : U.routine C.pv := fun x => lift_res (r x).

(* the suppressed set of the core runtime, read over the larger kind universe *)
Definition sup_of (rt : C.runtime) (e : U.exn) : bool :=
  match unemb e with Some c => C.suppressed rt c | None => false end.

(* a declared member of Union[..], run with the fuel the core model gives its members *)
Definition member_u (rt : C.runtime) (E : C.env) (n : nat) (t : C.ty) : U.member C.pv :=
  {| U.m_none := C.is_none_ty t; U.m_run := lift (C.unm rt E n t) |}.
Definition member_m (rt : C.runtime) (E : C.env) (n : nat) (t : C.ty) : U.member C.pv :=
  {| U.m_none := C.is_none_ty t; U.m_run := lift (C.mar rt E n t) |}.
