(* C03 layer on the core value model (Model/Core.v).  Definitions only.

   conforms   : the statement of C03 as a structural type checker over pv, written without
                looking at unm: runtime class at every position, members by their own
                annotation, fixed tuples of exactly the declared arity, TypedDicts made of
                declared keys with every required key present.
   c03_guard  : the positions of an annotation at which Core.unm (= the code at /repo HEAD
                before the two C03 repairs) is NOT claimed to conform: fixed tuples and
                TypedDicts that have a required key.
   unm_fixed  : ******** LOCAL COPY of Core.unm with the two proposed repairs ********
                (FixedTupleUnmarshaller raises on too few members; StructuredTypeUnmarshaller
                raises on a missing required TypedDict key).  It differs from Core.unm in the
                TTuple arm and in construct_class_fixed only.  When Core.v gets the edit
                described in notes/C03.md this copy is replaced by Core.unm.

   `required c f` : key f of TypedDict class c is required (Core.classdef carries no
   totality flag; total=False / NotRequired are described by this function). *)
From Coq Require Import List Arith Bool PeanoNat.
Import ListNotations.
Require Import TL.Model.Core TL.Model.CoreTables.

Fixpoint all2 {A B} (p : A -> B -> bool) (a : list A) (b : list B) : bool :=
  match a, b with
  | [], [] => true
  | x :: r, y :: t => p x y && all2 p r t
  | _, _ => false
  end.

Definition has_key (f : nat) (l : list (pv * pv)) : bool :=
  existsb (fun kv => match fst kv with PKey g => Nat.eqb f g | _ => false end) l.

Section C03.
Variable rt : runtime.
Variable E : env.
Variable leaf_ok : nat -> pv -> bool.       (* v is an instance of leaf type s (declared member for Enum / Literal) *)
Variable required : nat -> nat -> bool.

(* a field value: conforms to the field's annotation, or is the default the class itself declares
   for that field (the class author's business, not typelib's) *)
Definition is_default (fd : field) (v : pv) : bool :=
  match fdefault fd with Some d => pv_eqb v d | None => false end.

Fixpoint conforms (fuel : nat) (t : ty) (v : pv) {struct fuel} : bool :=
  match fuel with
  | 0 => false
  | S n =>
    match t with
    | TLeaf s | TRefLeaf s => leaf_ok s v
    | TNone => pv_eqb v (none rt)
    | TSeq k a =>
        match v with PSeq k' l => seqkind_eqb k k' && forallb (conforms n a) l | _ => false end
    | TMap k kt vt =>
        match v with
        | PDict k' l => dictkind_eqb k k' && forallb (fun kv => conforms n kt (fst kv) && conforms n vt (snd kv)) l
        | _ => false
        end
    | TTuple ts =>
        match v with PSeq KTuple l => all2 (conforms n) ts l | _ => false end
    | TUnion ts => existsb (fun t' => conforms n t' v) ts
    | TName c | TRef c | TAliasStr _ c =>
        match E c with
        | None => false
        | Some (NType t') => conforms n t' v
        | Some (NClass cd) =>
            match cflavour cd, v with
            | (FDataclass | FPlain), PObj c' fs =>
                Nat.eqb c c' &&
                all2 (fun fd fv => Nat.eqb (fname fd) (fst fv) &&
                                   (conforms n (fty fd) (snd fv) || is_default fd (snd fv))) (cfields cd) fs
            | FNamedTuple, PNamed c' l =>
                Nat.eqb c c' &&
                all2 (fun fd x => conforms n (fty fd) x || is_default fd x) (cfields cd) l
            | FTypedDict, PDict KDict l =>
                forallb (fun kv => match fst kv with
                                   | PKey f => match field_ty cd f with
                                               | Some ft => conforms n ft (snd kv)
                                               | None => false end
                                   | _ => false end) l &&
                forallb (fun fd => negb (required c (fname fd)) || has_key (fname fd) l) (cfields cd)
            | _, _ => false
            end
        end
    | TNewType _ t' | TAlias _ t' | TFinal t' | TClassVar t' | TRefTo t' => conforms n t' v
    end
  end.

(* positions where the unrepaired routines are not claimed to conform *)
Fixpoint c03_guard (fuel : nat) (t : ty) {struct fuel} : bool :=
  match fuel with
  | 0 => true
  | S n =>
    match t with
    | TLeaf _ | TRefLeaf _ | TNone => true
    | TSeq _ a => c03_guard n a
    | TMap _ kt vt => c03_guard n kt && c03_guard n vt
    | TTuple _ => false
    | TUnion ts => forallb (c03_guard n) ts
    | TName c | TRef c | TAliasStr _ c =>
        match E c with
        | None => true
        | Some (NType t') => c03_guard n t'
        | Some (NClass cd) =>
            forallb (fun fd => c03_guard n (fty fd)) (cfields cd) &&
            match cflavour cd with
            | FTypedDict => negb (existsb (fun fd => required c (fname fd)) (cfields cd))
            | _ => true
            end
        end
    | TNewType _ t' | TAlias _ t' | TFinal t' | TClassVar t' | TRefTo t' => c03_guard n t'
    end
  end.

(* ------------------------------------------------------------------------------------
   LOCAL COPY of Core.unm with the two repairs (see header).
   ------------------------------------------------------------------------------------ *)
Definition has_kw (f : nat) (kw : list (nat * pv)) : bool :=
  match kw_lookup f kw with Some _ => true | None => false end.

Definition construct_class_fixed (c : nat) (cd : classdef) (kw : list (nat * pv)) : res pv :=
  match cflavour cd with
  | FTypedDict =>
      if forallb (fun fd => negb (required c (fname fd)) || has_kw (fname fd) kw) (cfields cd)
      then Ok (PDict KDict (map (fun fv => (PKey (fst fv), snd fv)) kw))
      else Raise EType                            (* a required key is missing *)
  | FNamedTuple => bind (fill_fields (cfields cd) kw) (fun l => Ok (PNamed c (map snd l)))
  | FDataclass | FPlain => bind (fill_fields (cfields cd) kw) (fun l => Ok (PObj c l))
  end.

Fixpoint unm_fixed (fuel : nat) (t : ty) (x : pv) {struct fuel} : res pv :=
  match fuel with
  | 0 => OutOfFuel
  | S n =>
    match t with
    | TLeaf s | TRefLeaf s => leaf_u rt s x
    | TNone => none_u rt x
    | TSeq k a =>
        bind (load rt x) (fun d => bind (itervalues rt d) (fun vs =>
        bind (mapM (unm_fixed n a) vs) (fun rs => construct_seq rt k rs)))
    | TMap k kt vt =>
        bind (load rt x) (fun d => bind (iteritems rt E d) (fun kvs =>
        bind (mapM (fun kv => bind (unm_fixed n kt (fst kv)) (fun k' =>
                              bind (unm_fixed n vt (snd kv)) (fun v' => Ok (k', v')))) kvs)
             (fun rs => construct_map rt k rs)))
    | TTuple ts =>
        bind (load rt x) (fun d => bind (itervalues rt d) (fun vs =>
        if Nat.ltb (length vs) (length ts) then Raise EValue          (* REPAIR 1: too few members *)
        else
        bind (mapM (fun tv => unm_fixed n (fst tv) (snd tv)) (zip_trunc ts vs)) (fun rs => Ok (PSeq KTuple rs))))
    | TUnion ts => first_ok rt (map (unm_fixed n) (union_stack_u ts)) x
    | TName c | TRef c | TAliasStr _ c =>
        match E c with
        | None => Raise EOther
        | Some (NType t') => unm_fixed n t' x
        | Some (NClass cd) =>
            bind (load rt x) (fun d => bind (iteritems rt E d) (fun kvs =>
            bind (fold_left (fun acc kv =>
                    bind acc (fun kw =>
                      match fst kv with
                      | PKey f => match field_ty cd f with
                                  | Some ft => bind (unm_fixed n ft (snd kv)) (fun v' => Ok (kw_set f v' kw))
                                  | None => Ok kw end
                      | k => if unhashable rt k then Raise EType else Ok kw
                      end)) kvs (Ok []))
                 (fun kw => construct_class_fixed c cd kw)))       (* REPAIR 2: required keys *)
        end
    | TNewType _ t' | TAlias _ t' | TFinal t' | TClassVar t' | TRefTo t' => unm_fixed n t' x
    end
  end.

End C03.

(* ---- correspondence helpers (used by generated cases files) ---- *)
(* unmarshal cases are evaluated with the repaired semantics, marshal cases with Core.mar *)
Definition case_ok_fixed (rt : runtime) (E : env) (required : nat -> nat -> bool)
           (fuel : nat) (strict : bool) (c : case) : bool :=
  match c with (dir, t, x, obs) =>
    res_sim strict (if dir then unm_fixed rt E required fuel t x else mar rt E fuel t x) obs end.

(* finite leaf_ok table; a missing entry counts as "not ok" *)
Definition mk_leaf_ok (tbl : list (nat * pv * bool)) : nat -> pv -> bool :=
  fun s v => match lookup_leaf s v tbl with Some b => b | None => false end.

(* verdict of the Coq checker on one (annotation, value) compared with an expected verdict *)
Definition verdict_ok (rt : runtime) (E : env) (lo : nat -> pv -> bool) (required : nat -> nat -> bool)
           (fuel : nat) (c : ty * pv * bool) : bool :=
  match c with (t, v, expected) => Bool.eqb (conforms rt E lo required fuel t v) expected end.
