(* C03 layer on the core value model (Model/Core.v).  Definitions only.

   conforms   : the statement of C03 as a structural type checker over pv, written without
                looking at unm: runtime class at every position, members by their own
                annotation, fixed tuples of exactly the declared arity, TypedDicts made of
                declared keys with every required key (classdef.crequired) present.
   unm_pinned : FROZEN COPY of Core.unm as it was before the two C03 repairs (f089b75 fixed-tuple
                arity, 6b21d1e TypedDict required keys), kept only so that the refutation
                witnesses of Props/C03.v stay on record.  Nothing else uses it. *)
From Coq Require Import List Arith Bool PeanoNat.
Import ListNotations.
Require Import TL.Model.Core TL.Model.CoreTables.

Fixpoint all2 {A B} (p : A -> B -> bool) (a : list A) (b : list B) : bool :=
  match a, b with
  | [], [] => true
  | x :: r, y :: t => p x y && all2 p r t
  | _, _ => false
  end.

Definition has_key (f : nat) (l : list (pv * pv)) : bool :=
  existsb (fun kv => match fst kv with PKey g => Nat.eqb f g | _ => false end) l.

Section C03.
Variable rt : runtime.
Variable E : env.
Variable leaf_ok : nat -> pv -> bool.       (* v is an instance of leaf type s (declared member for Enum / Literal) *)

(* a field value: conforms to the field's annotation, or is the default the class itself declares
   for that field (the class author's business, not typelib's) *)
Definition is_default (fd : field) (v : pv) : bool :=
  match fdefault fd with Some d => pv_eqb v d | None => false end.

Fixpoint conforms (fuel : nat) (t : ty) (v : pv) {struct fuel} : bool :=
  match fuel with
  | 0 => false
  | S n =>
    match t with
    | TLeaf s | TRefLeaf s => leaf_ok s v
    | TNone => pv_eqb v (none rt)
    | TSeq k a =>
        match v with PSeq k' l => seqkind_eqb k k' && forallb (conforms n a) l | _ => false end
    | TMap k kt vt =>
        match v with
        | PDict k' l => dictkind_eqb k k' && forallb (fun kv => conforms n kt (fst kv) && conforms n vt (snd kv)) l
        | _ => false
        end
    | TTuple ts =>
        match v with PSeq KTuple l => all2 (conforms n) ts l | _ => false end
    | TUnion ts => existsb (fun t' => conforms n t' v) ts
    | TName c | TRef c | TAliasStr _ c =>
        match E c with
        | None => false
        | Some (NType t') => conforms n t' v
        | Some (NClass cd) =>
            match cflavour cd, v with
            | (FDataclass | FPlain), PObj c' fs =>
                Nat.eqb c c' &&
                all2 (fun fd fv => Nat.eqb (fname fd) (fst fv) &&
                                   (conforms n (fty fd) (snd fv) || is_default fd (snd fv))) (cfields cd) fs
            | FNamedTuple, PNamed c' l =>
                Nat.eqb c c' &&
                all2 (fun fd x => conforms n (fty fd) x || is_default fd x) (cfields cd) l
            | FTypedDict, PDict KDict l =>
                forallb (fun kv => match fst kv with
                                   | PKey f => match field_ty cd f with
                                               | Some ft => conforms n ft (snd kv)
                                               | None => false end
                                   | _ => false end) l &&
                forallb (fun fd => negb (existsb (Nat.eqb (fname fd)) (crequired cd)) || has_key (fname fd) l) (cfields cd)
            | _, _ => false
            end
        end
    | TNewType _ t' | TAlias _ t' | TFinal t' | TClassVar t' | TRefTo t' => conforms n t' v
    end
  end.

(* ------------------------------------------------------------------------------------
   FROZEN COPY of Core.unm before the repairs (see header): zip truncation in the TTuple arm,
   no required-key check for TypedDicts.
   ------------------------------------------------------------------------------------ *)
Definition construct_class_pinned (c : nat) (cd : classdef) (kw : list (nat * pv)) : res pv :=
  match cflavour cd with
  | FTypedDict => Ok (PDict KDict (map (fun fv => (PKey (fst fv), snd fv)) kw))
  | FNamedTuple => bind (fill_fields (cfields cd) kw) (fun l => Ok (PNamed c (map snd l)))
  | FDataclass | FPlain => bind (fill_fields (cfields cd) kw) (fun l => Ok (PObj c l))
  end.

Fixpoint unm_pinned (fuel : nat) (t : ty) (x : pv) {struct fuel} : res pv :=
  match fuel with
  | 0 => OutOfFuel
  | S n =>
    match t with
    | TLeaf s | TRefLeaf s => leaf_u rt s x
    | TNone => none_u rt x
    | TSeq k a =>
        bind (load rt x) (fun d => bind (itervalues rt d) (fun vs =>
        bind (mapM (elem_conv rt k (unm_pinned n a)) vs) (fun rs => construct_seq rt k rs)))
    | TMap k kt vt =>
        bind (load rt x) (fun d => bind (iteritems rt E d) (fun kvs =>
        bind (mapM (hashing rt fst (fun kv => bind (unm_pinned n kt (fst kv)) (fun k' =>
                              bind (unm_pinned n vt (snd kv)) (fun v' => Ok (k', v'))))) kvs)
             (fun rs => construct_map rt k rs)))
    | TTuple ts =>
        bind (load rt x) (fun d => bind (itervalues rt d) (fun vs =>
        bind (mapM (fun tv => unm_pinned n (fst tv) (snd tv)) (zip_trunc ts vs)) (fun rs => Ok (PSeq KTuple rs))))
    | TUnion ts => first_ok rt (map (unm_pinned n) (union_stack_u ts)) x
    | TName c | TRef c | TAliasStr _ c =>
        match E c with
        | None => Raise EOther
        | Some (NType t') => unm_pinned n t' x
        | Some (NClass cd) =>
            bind (load rt x) (fun d => bind (iteritems rt E d) (fun kvs =>
            bind (fold_left (fun acc kv =>
                    bind acc (fun kw =>
                      match fst kv with
                      | PKey f => match field_ty cd f with
                                  | Some ft => bind (unm_pinned n ft (snd kv)) (fun v' => Ok (kw_set f v' kw))
                                  | None => Ok kw end
                      | k => if unhashable rt k then Raise EType else Ok kw
                      end)) kvs (Ok []))
                 (fun kw => construct_class_pinned c cd kw)))
        end
    | TNewType _ t' | TAlias _ t' | TFinal t' | TClassVar t' | TRefTo t' => unm_pinned n t' x
    end
  end.

End C03.

(* ---- correspondence helpers (used by generated cases files) ---- *)
(* finite leaf_ok table; a missing entry counts as "not ok" *)
Definition mk_leaf_ok (tbl : list (nat * pv * bool)) : nat -> pv -> bool :=
  fun s v => match lookup_leaf s v tbl with Some b => b | None => false end.

(* verdict of the Coq checker on one (annotation, value) compared with an expected verdict *)
Definition verdict_ok (rt : runtime) (E : env) (lo : nat -> pv -> bool)
           (fuel : nat) (c : ty * pv * bool) : bool :=
  match c with (t, v, expected) => Bool.eqb (conforms rt E lo fuel t v) expected end.
