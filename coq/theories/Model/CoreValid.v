(* C13: "v is an instance of T made of exactly the annotated classes" on the core value model,
   the restriction "union-free or only Optional", and the leaf laws the theorems assume.
   Definitions only (proofs: Proofs/CoreC13.v, theorems: Props/C13.v). *)
From Coq Require Import List Arith Bool PeanoNat.
Import ListNotations.
Require Import TL.Model.Core.

Section Valid.
Variable lv : nat -> pv -> bool.      (* leaf_valid s v: v is an instance of leaf type s (law predicate) *)
Variable rt : runtime.
Variable E : env.

(* no member is == (with equal hash) to an earlier one: exactly what `dedupe` / `dict_of` keep *)
Fixpoint fresh_from (l seen : list pv) : bool :=
  match l with [] => true | x :: r => negb (mem_pv rt x seen) && fresh_from r (x :: seen) end.
Definition hashable_all (l : list pv) : bool := negb (existsb (unhashable rt) l).
(* a Python set object: hashable, pairwise distinct members *)
Definition set_ok (k : seqkind) (l : list pv) : bool :=
  match k with KSet | KFrozenset => hashable_all l && fresh_from l [] | _ => true end.
(* a Python dict object: hashable, pairwise distinct keys *)
Definition keys_ok (ks : list pv) : bool := hashable_all ks && fresh_from ks [].

(* position-wise check; `exact` = same length, otherwise the value may stop early but is never longer
   (fixed tuples are exact since FixedTupleUnmarshaller rejects short inputs) *)
Fixpoint all2 {A B} (exact : bool) (f : A -> B -> bool) (ts : list A) (l : list B) : bool :=
  match ts, l with
  | [], [] => true
  | t :: ts', x :: l' => f t x && all2 exact f ts' l'
  | _ :: _, [] => negb exact
  | [], _ :: _ => false
  end.

(* a TypedDict instance: a dict whose keys are pairwise distinct declared field names, in any order
   (td_ok), with every required key present (req_ok) *)
Fixpoint td_ok (chk : nat -> pv -> bool) (kvs : list (pv * pv)) (seen : list nat) : bool :=
  match kvs with
  | [] => true
  | (PKey f, x) :: r => negb (existsb (Nat.eqb f) seen) && chk f x && td_ok chk r (f :: seen)
  | _ => false
  end.

Definition has_key (f : nat) (kvs : list (pv * pv)) : bool :=
  existsb (fun kv => match fst kv with PKey g => Nat.eqb f g | _ => false end) kvs.
Definition req_ok (cd : classdef) (kvs : list (pv * pv)) : bool :=
  forallb (fun fd => negb (existsb (Nat.eqb (fname fd)) (crequired cd)) || has_key (fname fd) kvs) (cfields cd).

Fixpoint vgen (fuel : nat) (t : ty) (v : pv) {struct fuel} : bool :=
  match fuel with
  | 0 => false
  | S n =>
    match t with
    | TLeaf s | TRefLeaf s => lv s v
    | TNone => pv_eqb v (none rt)
    | TSeq k a =>
        match v with
        | PSeq k' l => seqkind_eqb k k' && forallb (vgen n a) l && set_ok k l
        | _ => false
        end
    | TMap k kt vt =>
        match v with
        | PDict k' kvs =>
            dictkind_eqb k k' && forallb (fun kv => vgen n kt (fst kv) && vgen n vt (snd kv)) kvs
            && keys_ok (map fst kvs)
        | _ => false
        end
    | TTuple ts =>
        match v with
        | PSeq KTuple l => all2 true (vgen n) ts l
        | _ => false
        end
    | TUnion ts => existsb (fun t' => vgen n t' v) ts
    | TName c | TRef c | TAliasStr _ c =>
        match E c with
        | None => false
        | Some (NType t') => vgen n t' v
        | Some (NClass cd) =>
            match cflavour cd, v with
            | FTypedDict, PDict KDict kvs =>
                td_ok (fun f x => match field_ty cd f with Some ft => vgen n ft x | None => false end) kvs []
                && req_ok cd kvs
            | FNamedTuple, PNamed c' l =>
                Nat.eqb c c' && all2 true (fun fd x => vgen n (fty fd) x) (cfields cd) l
            | FDataclass, PObj c' fs | FPlain, PObj c' fs =>
                Nat.eqb c c' &&
                all2 true (fun fd gv => Nat.eqb (fname fd) (fst gv) && vgen n (fty fd) (snd gv)) (cfields cd) fs
            | _, _ => false
            end
        end
    | TNewType _ t' | TAlias _ t' | TFinal t' | TClassVar t' | TRefTo t' => vgen n t' v
    end
  end.

(* ---- "union-free or only Optional", as deep as the fuel looks ---- *)
Definition optional_pair (ts : list ty) : option ty :=
  match ts with
  | [a; b] => if is_none_ty b then Some a else if is_none_ty a then Some b else None
  | _ => None
  end.

Fixpoint optional_only (fuel : nat) (t : ty) {struct fuel} : bool :=
  match fuel with
  | 0 => true
  | S n =>
    match t with
    | TLeaf _ | TRefLeaf _ | TNone => true
    | TSeq _ a => optional_only n a
    | TMap _ kt vt => optional_only n kt && optional_only n vt
    | TTuple ts => forallb (optional_only n) ts
    | TUnion ts => match optional_pair ts with Some a => optional_only n a | None => false end
    | TName c | TRef c | TAliasStr _ c =>
        match E c with
        | None => true
        | Some (NType t') => optional_only n t'
        | Some (NClass cd) => forallb (fun fd => optional_only n (fty fd)) (cfields cd)
        end
    | TNewType _ t' | TAlias _ t' | TFinal t' | TClassVar t' | TRefTo t' => optional_only n t'
    end
  end.

End Valid.

(* valid: exactly the annotated classes and arities, required keys present *)
Definition valid (lv : nat -> pv -> bool) (rt : runtime) (E : env) := vgen lv rt E.

(* the leaf predicate used for idempotence: v is a fixed point of its leaf routine *)
Definition fixlv (rt : runtime) (s : nat) (v : pv) : bool :=
  match leaf_u rt s v with Ok y => pv_eqb y v | _ => false end.

(* field names of a class are pairwise distinct (Python cannot say otherwise) *)
Definition wf_env (E : env) : Prop :=
  forall c cd, E c = Some (NClass cd) -> NoDup (map fname (cfields cd)).

(* ---- laws about the runtime (sampled against the implementation on every run) ---- *)
Record NoneLaws (rt : runtime) : Prop := {
  (* NoneTypeUnmarshaller(None) is None *)
  none_pass : none_u rt (none rt) = Ok (none rt);
  (* NoneTypeUnmarshaller rejects everything else with an exception kind the Union routine swallows *)
  none_rejects : forall v, pv_eqb v (none rt) = false ->
                 exists e, none_u rt v = Raise e /\ suppressed rt e = true
}.

Record PassLaws (rt : runtime) (lv : nat -> pv -> bool) : Prop := {
  pl_none : NoneLaws rt;
  (* the isinstance short-circuit of every scalar routine *)
  lv_pass : forall s v, lv s v = true -> leaf_u rt s v = Ok v
}.

Record IdemLaws (rt : runtime) : Prop := {
  il_none : NoneLaws rt;
  (* what a scalar routine returns, it returns unchanged when given it again *)
  leaf_idem : forall s x y, leaf_u rt s x = Ok y -> leaf_u rt s y = Ok y
}.

(* every default of every class conforms to its own annotation (guard of the idempotence form) *)
Definition DefaultsConform (rt : runtime) (E : env) : Prop :=
  forall c cd fd d, E c = Some (NClass cd) -> In fd (cfields cd) -> fdefault fd = Some d ->
  exists k, valid (fixlv rt) rt E k (fty fd) d = true.

(* computable form over a finite list of class names *)
Definition defaults_okb (rt : runtime) (E : env) (k : nat) (cs : list nat) : bool :=
  forallb (fun c => match E c with
                    | Some (NClass cd) =>
                        forallb (fun fd => match fdefault fd with
                                           | Some d => valid (fixlv rt) rt E k (fty fd) d
                                           | None => true end) (cfields cd)
                    | _ => true end) cs.
Definition env_dom (E : env) (cs : list nat) : Prop := forall c, E c <> None -> In c cs.
Definition nodup_namesb (E : env) (cs : list nat) : bool :=
  forallb (fun c => match E c with
                    | Some (NClass cd) =>
                        (fix nd (l : list nat) : bool :=
                           match l with [] => true | x :: r => negb (existsb (Nat.eqb x) r) && nd r end)
                          (map fname (cfields cd))
                    | _ => true end) cs.
