(* Model of src/typelib/ctx.py (TypeContext: a dict subclass with __missing__ and get),
   and the specification of property C16 (a write-once dict whose lookups see through
   aliases and references).  Definitions only; proofs live in Proofs/CtxLemmas.v.

   The model is parametric in the key family:
     key_eqb   Python ==/hash on keys (dict membership),
     is_ref    isinstance(key, refs.ForwardRef),
     unwrap    inspection.unwrap,
     fref      refs.forwardref (one positional argument),
     names     names r k = "the stored reference key r evaluates to the requested key k":
               ctx._refers_to(r, k), i.e. refs.evaluate(r) is k, False when the evaluation raises
               (a reference that cannot be resolved names nothing).  The module a reference was
               written in is part of r: ForwardRef('C', module='defining') and
               ForwardRef('C', module='importer') are different keys that both name C.
   Nothing is assumed about them here; the laws the theorems need are the record
   key_laws below and appear as an explicit hypothesis of every theorem. *)
From Coq Require Import List Bool Arith.
Import ListNotations.

(* result of a subscription: value, KeyError, or the model ran out of fuel
   (Python: RecursionError; one unit of fuel = one __missing__ frame) *)
Inductive res (val : Type) := Ok (v : val) | RaiseKey | NoFuel.
Arguments Ok {val}. Arguments RaiseKey {val}. Arguments NoFuel {val}.

(* what one operation shows to the caller.  OOther never comes out of the model or the
   specification: the harness uses it for anything else the implementation did. *)
Inductive out (val : Type) := OVal (v : val) | OKeyError | OBool (b : bool) | OUnit | ONoFuel | OOther.
Arguments OVal {val}. Arguments OKeyError {val}. Arguments OBool {val}. Arguments OUnit {val}.
Arguments ONoFuel {val}. Arguments OOther {val}.

Definition orelse {A} (a b : option A) : option A := match a with Some _ => a | None => b end.
Definition is_some {A} (a : option A) : bool := match a with Some _ => true | None => false end.

Section Ctx.
Variables key val : Type.
Variable key_eqb : key -> key -> bool.
Variable is_ref : key -> bool.
Variables unwrap fref : key -> key.
Variable names : key -> key -> bool.

(* ---------------- the dict ---------------- *)
(* insertion-ordered association list; at most one entry per ==-class *)
Definition st := list (key * val).

(* dict.__getitem__ without __missing__ / dict.__contains__ *)
Fixpoint find (c : st) (k : key) : option val :=
  match c with
  | [] => None
  | (k', v) :: r => if key_eqb k k' then Some v else find r k
  end.
Definition contains (c : st) (k : key) : bool := is_some (find c k).

(* dict.__setitem__: an equal key keeps the stored key object and its position *)
Fixpoint set (c : st) (k : key) (v : val) : st :=
  match c with
  | [] => [(k, v)]
  | (k', v') :: r => if key_eqb k k' then (k', v) :: r else (k', v') :: set r k v
  end.

(* for other in self: if isinstance(other, refs.ForwardRef) and _refers_to(other, key): ...
   Iteration over a dict is in insertion order: the FIRST stored reference naming the key.
   The loop walks every key of the dict (memo keys included; they are never references). *)
Fixpoint scan (c : st) (k : key) : option key :=
  match c with
  | [] => None
  | (r, _) :: rest => if is_ref r && names r k then Some r else scan rest k
  end.

(* ---------------- TypeContext.__getitem__ = dict lookup, then __missing__ ----------------
   def __missing__(self, key):
       if isinstance(key, refs.ForwardRef): raise KeyError(key)
       unwrapped = inspection.unwrap(key)
       if unwrapped in self:                 # plain dict membership
           val = self[unwrapped]             # subscription again (a direct hit)
           self[key] = val                   # the memo write
           return val
       ref = refs.forwardref(key)
       if ref in self:                       # plain dict membership
           return self[ref]                  # subscription again (a direct hit)
       for other in self:                    # insertion order
           if isinstance(other, refs.ForwardRef) and _refers_to(other, key):
               return self[other]            # subscription again (a direct hit)
       raise KeyError(ref)
   Neither hit through a reference (the canonical one, a scanned one) is written back. *)
Fixpoint getitem (fuel : nat) (c : st) (k : key) : res val * st :=
  match find c k with
  | Some v => (Ok v, c)
  | None =>
    match fuel with
    | 0 => (NoFuel, c)
    | S f =>
      if is_ref k then (RaiseKey, c)
      else
        let u := unwrap k in
        if contains c u then
          match getitem f c u with
          | (Ok v, c1) => (Ok v, set c1 k v)
          | (r, c1) => (r, c1)
          end
        else
          let r := fref k in
          if contains c r then getitem f c r
          else match scan c k with
               | Some other => getitem f c other
               | None => (RaiseKey, c)
               end
    end
  end.

(* def get(self, key, default=None):
       with contextlib.suppress(KeyError): return self[key]
       return default *)
Definition get (fuel : nat) (c : st) (k : key) (d : val) : res val * st :=
  match getitem fuel c k with
  | (Ok v, c') => (Ok v, c')
  | (RaiseKey, c') => (Ok d, c')
  | (NoFuel, c') => (NoFuel, c')
  end.

(* ---------------- operations ---------------- *)
Inductive op := OSet (k : key) (v : val) | OItem (k : key) | OGet (k : key) (d : val) | OIn (k : key).

Definition out_of_res (r : res val) : out val :=
  match r with Ok v => OVal v | RaiseKey => OKeyError | NoFuel => ONoFuel end.

Definition step (fuel : nat) (c : st) (o : op) : out val * st :=
  match o with
  | OSet k v => (OUnit, set c k v)
  | OItem k => let (r, c') := getitem fuel c k in (out_of_res r, c')
  | OGet k d => let (r, c') := get fuel c k d in (out_of_res r, c')
  | OIn k => (OBool (contains c k), c)
  end.

Fixpoint run (fuel : nat) (c : st) (ops : list op) : list (out val) :=
  match ops with
  | [] => []
  | o :: r => let (x, c') := step fuel c o in x :: run fuel c' r
  end.

(* ---------------- the specification ----------------
   State: the inserted pairs only, in insertion order.  A lookup is a pure function of that
   state: the key itself; else, unless the key is a forward reference, its unwrapped form,
   else a forward reference naming it.  WHICH one when several are stored: the reference
   refs.forwardref builds for the key (through the module that defines it) if that one is
   stored, otherwise the naming reference that was inserted FIRST. *)
Fixpoint first_named (S : st) (k : key) : option val :=
  match S with
  | [] => None
  | (r, v) :: rest => if is_ref r && names r k then Some v else first_named rest k
  end.

Definition spec_lookup (S : st) (k : key) : option val :=
  orelse (find S k)
         (if is_ref k then None
          else orelse (find S (unwrap k)) (orelse (find S (fref k)) (first_named S k))).

(* is some stored key a forward reference naming k?  (for the order-free reading of the property) *)
Definition named_stored (S : st) (k : key) : bool :=
  existsb (fun p => is_ref (fst p) && names (fst p) k) S.

Definition spec_step (S : st) (o : op) : out val * st :=
  match o with
  | OSet k v => (OUnit, set S k v)
  | OItem k => (match spec_lookup S k with Some v => OVal v | None => OKeyError end, S)
  | OGet k d => (OVal (match spec_lookup S k with Some v => v | None => d end), S)
  | OIn k => (OBool (contains S k), S)
  end.

Fixpoint spec_run (S : st) (ops : list op) : list (out val) :=
  match ops with
  | [] => []
  | o :: r => let (x, S') := spec_step S o in x :: spec_run S' r
  end.

Fixpoint spec_final (S : st) (ops : list op) : st :=
  match ops with
  | [] => S
  | o :: r => spec_final (snd (spec_step S o)) r
  end.

(* The histories of the property (computable guard):
   - insertions use fresh keys (write-once),
   - `in` is asked for stored keys, or for keys no lookup would find
     (for a key reachable only through a fallback the answer depends on whether the
      alias has been memoised: deliberately not observed). *)
Definition op_ok (S : st) (o : op) : bool :=
  match o with
  | OSet k _ => negb (contains S k)
  | OIn k => contains S k || negb (is_some (spec_lookup S k))
  | _ => true
  end.
Fixpoint ops_ok (S : st) (ops : list op) : bool :=
  match ops with
  | [] => true
  | o :: r => op_ok S o && ops_ok (snd (spec_step S o)) r
  end.

Definition is_lookup (o : op) : bool :=
  match o with OItem _ | OGet _ _ => true | _ => false end.

(* What the theorems need of the key family. *)
Record key_laws : Prop := {
  kl_refl : forall a, key_eqb a a = true;
  kl_sym : forall a b, key_eqb a b = true -> key_eqb b a = true;
  kl_trans : forall a b c, key_eqb a b = true -> key_eqb b c = true -> key_eqb a c = true;
  kl_ref_compat : forall a b, key_eqb a b = true -> is_ref a = is_ref b;
  kl_unwrap_compat : forall a b, key_eqb a b = true -> key_eqb (unwrap a) (unwrap b) = true;
  (* unwrap is idempotent on the keys __missing__ applies it to *)
  kl_unwrap_idem : forall a, is_ref a = false -> key_eqb (unwrap (unwrap a)) (unwrap a) = true;
  (* forwardref builds a ForwardRef *)
  kl_fref_ref : forall a, is_ref a = false -> is_ref (fref a) = true;
  (* equal references evaluate alike *)
  kl_names_compat : forall a b k, key_eqb a b = true -> names a k = names b k
}.

(* NOT part of key_laws (the refinement does not need it, and refs.forwardref does not satisfy it
   on every key: forwardref(Final[C]) is ForwardRef('Final', module='typing')): the reference
   forwardref builds for k is one of the references naming k.  It is a hypothesis, per key, of the
   order-free characterisation (CtxLemmas.found_iff) and is decided on the live tables. *)
Definition fref_names (k : key) : Prop := names (fref k) k = true.

End Ctx.

Arguments OSet {key val}. Arguments OItem {key val}. Arguments OGet {key val}. Arguments OIn {key val}.
