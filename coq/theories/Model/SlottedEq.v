(* Boolean comparison of the Slotted model with observations of the implementation
   (correspondence runs only).  One case = one decoration history, run against a fresh
   _stack; each step carries the class as reflected from the live object just before
   slotted() was applied, the flags, and what was observed afterwards. *)
From Coq Require Import List String Bool Arith PeanoNat.
Import ListNotations.
Require Import TL.Model.Slotted TL.Model.SlottedState TL.Model.SlottedInst.

Fixpoint list_eqb {A} (e : A -> A -> bool) (a b : list A) : bool :=
  match a, b with [] , [] => true | x :: r, y :: t => e x y && list_eqb e r t | _, _ => false end.

Definition obj_eqb (a b : obj) : bool :=
  match a, b with
  | OId n, OId m => Nat.eqb n m
  | OSlots l, OSlots k => list_eqb String.eqb l k
  | OSetstateFix, OSetstateFix => true
  | OMember x, OMember y => String.eqb x y
  | OGetSet x, OGetSet y => String.eqb x y
  | ONone, ONone => true
  | _, _ => false
  end.
Definition entry_eqb (p q : attr * obj) : bool := String.eqb (fst p) (fst q) && obj_eqb (snd p) (snd q).
Definition subset {A} (e : A -> A -> bool) (a b : list A) : bool := forallb (fun x => existsb (e x) b) a.
(* equal as finite maps / sets (the observation is sorted by the harness, the model is in dict order) *)
Definition same_set {A} (e : A -> A -> bool) (a b : list A) : bool :=
  Nat.eqb (List.length a) (List.length b) && subset e a b && subset e b a.

Inductive okind := KOk | KType | KValue | KOther.
Definition okind_eqb (a b : okind) : bool :=
  match a, b with KOk, KOk | KType, KType | KValue, KValue | KOther, KOther => true | _, _ => false end.

Record obs := {
  ob_kind : okind;
  ob_slots : list attr;          (* new_cls.__slots__, in order *)
  ob_dict : cdict;               (* new_cls.__dict__ : key -> identity class of the value *)
  ob_name : string; ob_qualname : string; ob_module : string;
  ob_has_dict : bool;            (* new_cls.__dictoffset__ != 0 *)
  ob_has_weakref : bool;         (* new_cls.__weakrefoffset__ != 0 *)
  ob_stale : list attr;          (* functions whose __class__ cell is outside new_cls.__mro__ *)
  ob_frozen : bool;              (* new_cls.__dataclass_params__.frozen *)
  ob_stack : list string         (* classes._stack afterwards *)
}.

Definition frozen_of (c : cls) : bool := match c_dc c with Some d => d_frozen d | None => false end.

Definition result_ok (r : res cls) (o : obs) : bool :=
  match r with
  | Ok n =>
      okind_eqb (ob_kind o) KOk
      && list_eqb String.eqb (slots_of_obj (match assoc k_slots (c_dict n) with Some x => x | None => ONone end)) (ob_slots o)
      && same_set entry_eqb (c_dict n) (ob_dict o)
      && String.eqb (c_name n) (ob_name o) && String.eqb (c_qualname n) (ob_qualname o)
      && String.eqb (c_module n) (ob_module o)
      && Bool.eqb (layout_has k_dict (full_mro n)) (ob_has_dict o)
      && Bool.eqb (layout_has k_weakref (full_mro n)) (ob_has_weakref o)
      && same_set String.eqb (c_stale n) (ob_stale o)
      && Bool.eqb (frozen_of n) (ob_frozen o)
  | Raise EType => okind_eqb (ob_kind o) KType
  | Raise EValue => okind_eqb (ob_kind o) KValue
  | Unmodelled => false
  end.

Definition step := (flags * cls * obs)%type.

Fixpoint steps_ok (v : variant) (st : stack) (l : list step) : bool :=
  match l with
  | [] => true
  | (fl, c, o) :: r =>
      let '(st1, x) := wrap v fl st c in
      result_ok x o && same_set String.eqb st1 (ob_stack o) && steps_ok v st1 r
  end.

Definition case_ok (l : list step) : bool := steps_ok repaired [] l.

Fixpoint mismatches_from {A} (ok : A -> bool) (l : list A) (i : nat) : list nat :=
  match l with [] => [] | x :: r => (if ok x then [] else [i]) ++ mismatches_from ok r (S i) end.
Definition mismatches {A} (ok : A -> bool) (l : list A) := mismatches_from ok l 0.

(* which variant explains a history (diagnosis only: printed when a case mismatches) *)
Definition explains (l : list step) : list bool :=
  map (fun v => steps_ok v [] l)
      [ pinned;
        {| v_release := true; v_skip_provided := false; v_inherited_hooks := false |};
        {| v_release := false; v_skip_provided := true; v_inherited_hooks := false |};
        {| v_release := false; v_skip_provided := false; v_inherited_hooks := true |} ].

(* ---- _slots_setstate called directly on a blank instance of a frozen slotted class ---- *)
Inductive skind := SKOk | SKAttr | SKType | SKOther | SKFrozen.
Definition skind_eqb (a b : skind) : bool :=
  match a, b with SKOk, SKOk | SKAttr, SKAttr | SKType, SKType | SKOther, SKOther | SKFrozen, SKFrozen => true | _, _ => false end.
(* member slot names of the class, has an instance __dict__, the state handed over,
   observed: outcome, slot values, vars() *)
Definition ss_case := (list attr * bool * pstate * skind * store * store)%type.
Definition ss_case_ok (c : ss_case) : bool :=
  match c with (names, has_dict, st, k, oslots, odict) =>
    match slots_setstate {| i_slotnames := names; i_slots := []; i_dict := if has_dict then Some [] else None |} st with
    | SOk r => skind_eqb k SKOk && same_set entry_eqb (i_slots r) oslots
               && same_set entry_eqb (match i_dict r with Some d => d | None => [] end) odict
    | SRaise SAttribute => skind_eqb k SKAttr
    | SRaise SType => skind_eqb k SKType
    | SRaise _ => false
    end
  end.

(* ---- the object.__getstate__ contract, sampled against the interpreter ---------------- *)
Definition store_eqb (a b : store) : bool := same_set entry_eqb a b.
Definition ostore_eqb (a b : option store) : bool :=
  match a, b with Some x, Some y => store_eqb x y | None, None => true | _, _ => false end.
Definition pstate_eqb (a b : pstate) : bool :=
  match a, b with
  | SNone, SNone => true
  | SDict x, SDict y => store_eqb x y
  | SSeq x, SSeq y => list_eqb ostore_eqb x y
  | _, _ => false
  end.
Definition gs_case := (inst * pstate)%type.
Definition gs_case_ok (c : gs_case) : bool := pstate_eqb (getstate (fst c)) (snd c).

(* ---- instances of the slotted class: construction, comparison, state, copy / pickle ------ *)
(* One case = one decorated dataclass: the class as reflected before slotted(), what the class model
   leaves open (kinds of its objects, the dictionaries of the bases, defaults, what __post_init__
   stores, the format of user hooks), and a list of constructor calls with what was observed on the
   REAL slotted class.  The model side is computed from the model's own result of build. *)
Definition kinds_of (l : list ukind) (k : nat) : ukind := nth k l UFunc.
Definition tbl (l : store) (a : attr) : obj := match assoc a l with Some v => v | None => ONone end.
(* values are encoded by the harness: an int is its own code *)
Definition cmp_ops : vops :=
  {| v_eq := obj_eqb; v_lt := fun x y => match x, y with OId p, OId q => Nat.ltb p q | _, _ => false end |}.

Inductive ostate := OSDefault (p : pstate) | OSUser (u : store).
Inductive rtobs := RTOk (s : store) (d : option store) | RTRaise (k : skind).
Record iobs := {
  io_slots : store; io_dict : option store;      (* raw storage: visible member slots, vars() *)
  io_eq : option bool;                            (* x == x0, x0 = the first instance that could be made *)
  io_lt : option (option bool);                   (* x < x0 (None inside: raised); None outside: not observed *)
  io_hash : option hres; io_repr : rres;
  io_state : option ostate;                       (* x.__reduce_ex__(4)[2] *)
  io_rts : list rtobs                             (* copy.copy, copy.deepcopy, pickle round trips *)
}.
Inductive cobs := CRaise (k : skind) | COk (o : iobs).
Record icall := { ic_pos : list obj; ic_kw : store; ic_obs : cobs }.
Record icase := {
  ik_flags : flags; ik_cls : cls; ik_kinds : list ukind; ik_bases : view;
  ik_defaults : store; ik_factories : store; ik_post : store; ik_hookfmt : nat; ik_calls : list icall
}.

Definition sexn_kind (e : sexn) : option skind :=
  match e with SAttribute => Some SKAttr | SType => Some SKType | SFrozen => Some SKFrozen | SUnmodelled => None end.
Definition inst_same (r : inst) (s : store) (d : option store) : bool :=
  store_eqb (i_slots r) s && ostore_eqb (i_dict r) d.
Definition raise_ok (e : sexn) (k : skind) : bool :=
  match sexn_kind e with Some k' => skind_eqb k k' | None => true end.
Definition rt_ok (pred : sres) (o : rtobs) : bool :=
  match pred, o with
  | SOk r, RTOk s d => inst_same r s d
  | SRaise SUnmodelled, _ => true
  | SRaise e, RTRaise k => raise_ok e k
  | _, _ => false
  end.
Definition hres_eqb (a b : hres) : bool :=
  match a, b with
  | HTuple x, HTuple y => list_eqb obj_eqb x y
  | HIdentity, HIdentity | HRaise, HRaise | HUnmodelled, HUnmodelled => true
  | _, _ => false
  end.
Definition rres_eqb (a b : rres) : bool :=
  match a, b with
  | RGen q x, RGen r y => String.eqb q r && list_eqb entry_eqb x y
  | RDefault, RDefault | RRaise, RRaise | RUnmodelled, RUnmodelled => true
  | _, _ => false
  end.

Definition iobs_ok (H : hooks store) (K : klass) (x0 : option inst) (same : bool) (x : inst) (o : iobs) : bool :=
  inst_same x (io_slots o) (io_dict o)
  && match io_eq o, x0 with
     | Some b, Some y => match dc_eq cmp_ops K x y with
                         | MBool b' => Bool.eqb b b' | MIdentity => Bool.eqb b same | MRaise => false | MUnmodelled => true
                         end
     | _, _ => true
     end
  && match io_lt o, x0 with
     | Some ob, Some y => match dc_lt cmp_ops K x y, ob with
                          | MBool b', Some b => Bool.eqb b b' | MRaise, None => true | MUnmodelled, _ => true | _, _ => false
                          end
     | _, _ => true
     end
  && match io_hash o with
     | Some h => match dc_hash K x with HUnmodelled => true | p => hres_eqb p h end
     | None => true
     end
  && match dc_repr K x with RUnmodelled => true | p => rres_eqb p (io_repr o) end
  && match io_state o with
     | Some s => match reduce_state H K x, s with
                 | Some (RDefault' p), OSDefault p' => pstate_eqb p p'
                 | Some (RUser u), OSUser u' => store_eqb u u'
                 | None, _ => true
                 | _, _ => false
                 end
     | None => true
     end
  && forallb (rt_ok (roundtrip H K (fun v => v) x)) (io_rts o).

Fixpoint first_ok (rs : list sres) (i : nat) : option (nat * inst) :=
  match rs with [] => None | SOk x :: _ => Some (i, x) | _ :: r => first_ok r (S i) end.

Fixpoint calls_ok (H : hooks store) (K : klass) (x0 : option (nat * inst)) (cs : list icall) (rs : list sres) (i : nat) : bool :=
  match cs, rs with
  | [], [] => true
  | cl :: cs', r :: rs' =>
      (match r, ic_obs cl with
       | SOk x, COk o => iobs_ok H K (match x0 with Some p => Some (snd p) | None => None end)
                                  (match x0 with Some p => Nat.eqb (fst p) i | None => false end) x o
       | SRaise SUnmodelled, _ => true
       | SRaise e, CRaise k => raise_ok e k
       | _, _ => false
       end) && calls_ok H K x0 cs' rs' (S i)
  | _, _ => false
  end.

Definition icase_ok (k : icase) : bool :=
  let c := ik_cls k in
  match build repaired (ik_flags k) c, c_dc c with
  | Ok n, Some d =>
      let E := {| e_kind := kinds_of (ik_kinds k); e_bases := ik_bases k |} in
      let K := klass_of E n true in
      let H := match ik_hookfmt k with 0 => field_hooks (kl_view K) (fnames d) | _ => dict_hooks (kl_view K) (fnames d) end in
      let D := {| dv_default := tbl (ik_defaults k); dv_factory := tbl (ik_factories k) |} in
      let rs := map (fun cl => construct K d D (ik_post k) (ic_pos cl) (ic_kw cl)) (ik_calls k) in
      calls_ok H K (first_ok rs 0) (ik_calls k) rs 0
  | _, _ => false
  end.

(* diagnosis: the model's predictions for a case (printed for the first mismatching cases only) *)
Definition ipredict (k : icase) :=
  let c := ik_cls k in
  match build repaired (ik_flags k) c, c_dc c with
  | Ok n, Some d =>
      let E := {| e_kind := kinds_of (ik_kinds k); e_bases := ik_bases k |} in
      let K := klass_of E n true in
      let H := match ik_hookfmt k with 0 => field_hooks (kl_view K) (fnames d) | _ => dict_hooks (kl_view K) (fnames d) end in
      let D := {| dv_default := tbl (ik_defaults k); dv_factory := tbl (ik_factories k) |} in
      map (fun cl => let r := construct K d D (ik_post k) (ic_pos cl) (ic_kw cl) in
                     (r, match r with
                         | SOk x => Some (dc_hash K x, dc_repr K x, reduce_state H K x, roundtrip H K (fun v => v) x)
                         | _ => None
                         end)) (ik_calls k)
  | _, _ => []
  end.
