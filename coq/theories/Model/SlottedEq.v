(* Boolean comparison of the Slotted model with observations of the implementation
   (correspondence runs only).  One case = one decoration history, run against a fresh
   _stack; each step carries the class as reflected from the live object just before
   slotted() was applied, the flags, and what was observed afterwards. *)
From Coq Require Import List String Bool Arith PeanoNat.
Import ListNotations.
Require Import TL.Model.Slotted TL.Model.SlottedState.

Fixpoint list_eqb {A} (e : A -> A -> bool) (a b : list A) : bool :=
  match a, b with [] , [] => true | x :: r, y :: t => e x y && list_eqb e r t | _, _ => false end.

Definition obj_eqb (a b : obj) : bool :=
  match a, b with
  | OId n, OId m => Nat.eqb n m
  | OSlots l, OSlots k => list_eqb String.eqb l k
  | OSetstateFix, OSetstateFix => true
  | OMember x, OMember y => String.eqb x y
  | OGetSet x, OGetSet y => String.eqb x y
  | ONone, ONone => true
  | _, _ => false
  end.
Definition entry_eqb (p q : attr * obj) : bool := String.eqb (fst p) (fst q) && obj_eqb (snd p) (snd q).
Definition subset {A} (e : A -> A -> bool) (a b : list A) : bool := forallb (fun x => existsb (e x) b) a.
(* equal as finite maps / sets (the observation is sorted by the harness, the model is in dict order) *)
Definition same_set {A} (e : A -> A -> bool) (a b : list A) : bool :=
  Nat.eqb (List.length a) (List.length b) && subset e a b && subset e b a.

Inductive okind := KOk | KType | KValue | KOther.
Definition okind_eqb (a b : okind) : bool :=
  match a, b with KOk, KOk | KType, KType | KValue, KValue | KOther, KOther => true | _, _ => false end.

Record obs := {
  ob_kind : okind;
  ob_slots : list attr;          (* new_cls.__slots__, in order *)
  ob_dict : cdict;               (* new_cls.__dict__ : key -> identity class of the value *)
  ob_name : string; ob_qualname : string; ob_module : string;
  ob_has_dict : bool;            (* new_cls.__dictoffset__ != 0 *)
  ob_has_weakref : bool;         (* new_cls.__weakrefoffset__ != 0 *)
  ob_stale : list attr;          (* functions whose __class__ cell is outside new_cls.__mro__ *)
  ob_frozen : bool;              (* new_cls.__dataclass_params__.frozen *)
  ob_stack : list string         (* classes._stack afterwards *)
}.

Definition frozen_of (c : cls) : bool := match c_dc c with Some d => d_frozen d | None => false end.

Definition result_ok (r : res cls) (o : obs) : bool :=
  match r with
  | Ok n =>
      okind_eqb (ob_kind o) KOk
      && list_eqb String.eqb (slots_of_obj (match assoc k_slots (c_dict n) with Some x => x | None => ONone end)) (ob_slots o)
      && same_set entry_eqb (c_dict n) (ob_dict o)
      && String.eqb (c_name n) (ob_name o) && String.eqb (c_qualname n) (ob_qualname o)
      && String.eqb (c_module n) (ob_module o)
      && Bool.eqb (layout_has k_dict (full_mro n)) (ob_has_dict o)
      && Bool.eqb (layout_has k_weakref (full_mro n)) (ob_has_weakref o)
      && same_set String.eqb (c_stale n) (ob_stale o)
      && Bool.eqb (frozen_of n) (ob_frozen o)
  | Raise EType => okind_eqb (ob_kind o) KType
  | Raise EValue => okind_eqb (ob_kind o) KValue
  | Unmodelled => false
  end.

Definition step := (flags * cls * obs)%type.

Fixpoint steps_ok (v : variant) (st : stack) (l : list step) : bool :=
  match l with
  | [] => true
  | (fl, c, o) :: r =>
      let '(st1, x) := wrap v fl st c in
      result_ok x o && same_set String.eqb st1 (ob_stack o) && steps_ok v st1 r
  end.

Definition case_ok (l : list step) : bool := steps_ok repaired [] l.

Fixpoint mismatches_from {A} (ok : A -> bool) (l : list A) (i : nat) : list nat :=
  match l with [] => [] | x :: r => (if ok x then [] else [i]) ++ mismatches_from ok r (S i) end.
Definition mismatches {A} (ok : A -> bool) (l : list A) := mismatches_from ok l 0.

(* which variant explains a history (diagnosis only: printed when a case mismatches) *)
Definition explains (l : list step) : list bool :=
  map (fun v => steps_ok v [] l)
      [ pinned;
        {| v_release := true; v_skip_provided := false; v_inherited_hooks := false |};
        {| v_release := false; v_skip_provided := true; v_inherited_hooks := false |};
        {| v_release := false; v_skip_provided := false; v_inherited_hooks := true |} ].

(* ---- _slots_setstate called directly on a blank instance of a frozen slotted class ---- *)
Inductive skind := SKOk | SKAttr | SKType | SKOther.
Definition skind_eqb (a b : skind) : bool :=
  match a, b with SKOk, SKOk | SKAttr, SKAttr | SKType, SKType | SKOther, SKOther => true | _, _ => false end.
(* member slot names of the class, has an instance __dict__, the state handed over,
   observed: outcome, slot values, vars() *)
Definition ss_case := (list attr * bool * pstate * skind * store * store)%type.
Definition ss_case_ok (c : ss_case) : bool :=
  match c with (names, has_dict, st, k, oslots, odict) =>
    match slots_setstate {| i_slotnames := names; i_slots := []; i_dict := if has_dict then Some [] else None |} st with
    | SOk r => skind_eqb k SKOk && same_set entry_eqb (i_slots r) oslots
               && same_set entry_eqb (match i_dict r with Some d => d | None => [] end) odict
    | SRaise SAttribute => skind_eqb k SKAttr
    | SRaise SType => skind_eqb k SKType
    end
  end.

(* ---- the object.__getstate__ contract, sampled against the interpreter ---------------- *)
Definition store_eqb (a b : store) : bool := same_set entry_eqb a b.
Definition ostore_eqb (a b : option store) : bool :=
  match a, b with Some x, Some y => store_eqb x y | None, None => true | _, _ => false end.
Definition pstate_eqb (a b : pstate) : bool :=
  match a, b with
  | SNone, SNone => true
  | SDict x, SDict y => store_eqb x y
  | SSeq x, SSeq y => list_eqb ostore_eqb x y
  | _, _ => false
  end.
Definition gs_case := (inst * pstate)%type.
Definition gs_case_ok (c : gs_case) : bool := pstate_eqb (getstate (fst c)) (snd c).
