(* Boolean equality on binder results, used only to compare model output with
   observations of the implementation (correspondence runs; val := nat). *)
From Coq Require Import List Arith Bool PeanoNat.
Import ListNotations.
Require Import TL.Model.Binding.

Definition cv_eqb (a b : cv nat) : bool :=
  match a, b with
  | Conv p v, Conv q w => Nat.eqb p q && Nat.eqb v w
  | Raw v, Raw w => Nat.eqb v w
  | KeyAs k, KeyAs l => Nat.eqb k l
  | _, _ => false
  end.
Fixpoint list_eqb {A} (e : A -> A -> bool) (a b : list A) : bool :=
  match a, b with [], [] => true | x :: r, y :: t => e x y && list_eqb e r t | _, _ => false end.
Definition kwcv_eqb (a b : nat * cv nat) : bool := Nat.eqb (fst a) (fst b) && cv_eqb (snd a) (snd b).
Definition out := res (list (cv nat) * list (nat * cv nat)).
Definition out_eqb (a b : out) : bool :=
  match a, b with
  | Ok (x, y), Ok (u, v) => list_eqb cv_eqb x u && list_eqb kwcv_eqb y v
  | RaiseType, RaiseType => true
  | _, _ => false
  end.
Definition opt_eqb (a b : option nat) : bool :=
  match a, b with Some x, Some y => Nat.eqb x y | None, None => true | _, _ => false end.
Definition bcls_eqb (a b : bcls) : bool :=
  match a, b with
  | AnyParamKindBinding, AnyParamKindBinding | PosArgsKwargsBinding, PosArgsKwargsBinding
  | PosKwdKwargsBinding, PosKwdKwargsBinding | PosKwdArgsBinding, PosKwdArgsBinding
  | PosKwargsBinding, PosKwargsBinding | PosKwdBinding, PosKwdBinding | PosArgsBinding, PosArgsBinding
  | PosBinding, PosBinding | KwdArgsKwargsBinding, KwdArgsKwargsBinding | KwdArgsBinding, KwdArgsBinding
  | KwdKwargsBinding, KwdKwargsBinding | KwdBinding, KwdBinding | ArgsKwargsBinding, ArgsKwargsBinding
  | KwargsBinding, KwargsBinding | ArgsBinding, ArgsBinding | PosOrKwdBinding, PosOrKwdBinding => true
  | _, _ => false
  end.

(* indexes of the cases on which model and observation differ *)
Fixpoint mismatches_from {A} (ok : A -> bool) (l : list A) (i : nat) : list nat :=
  match l with [] => [] | x :: r => (if ok x then [] else [i]) ++ mismatches_from ok r (S i) end.
Definition mismatches {A} (ok : A -> bool) (l : list A) := mismatches_from ok l 0.

(* (i) one binder class run directly on an arbitrary binding state *)
Definition binder_case := (bcls * bstate * list nat * list (nat * nat) * out)%type.
Definition binder_case_ok (c : binder_case) : bool :=
  match c with (cl, b, args, kw, obs) => out_eqb (run_binder nat cl b args kw) obs end.

(* (ii) _get_binding on a signature: class chosen + the state it computes *)
Definition getb_case := (sig * option bcls * bstate)%type.
Definition pairs_eqb (a b : list (nat * nat)) : bool :=
  list_eqb (fun x y => Nat.eqb (fst x) (fst y) && Nat.eqb (snd x) (snd y)) a b.
Definition bstate_eqb (a b : bstate) : bool :=
  pairs_eqb (names a) (names b) && list_eqb Nat.eqb (idxs a) (idxs b) &&
  opt_eqb (startpos a) (startpos b) && opt_eqb (varpos a) (varpos b) && opt_eqb (varkwd a) (varkwd b).
Definition getb_case_ok (rows : list row) (c : getb_case) : bool :=
  match c with (s, cl, b) =>
    bstate_eqb (get_binding s) b &&
    match matrix_lookup rows (truth_of s), cl with
    | Some x, Some y => bcls_eqb x y | None, None => true | _, _ => false end
  end.
