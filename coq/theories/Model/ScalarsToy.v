(* Model/ScalarsToy.v -- C04: a concrete runtime, so that [RuntimeLaws rt] is known to be satisfiable.
   DEFINITIONS ONLY.

   Not degenerate where typelib's logic depends on the text: ints are printed and parsed in decimal
   (Python's str(int)/int(str)), dates, times and datetimes are written and read as ISO-8601 text
   (Model/IsoText.v), durations are parsed by the independent duration reader (plus pendulum's lenient 'PT').
   Values the library never looks inside (float, Decimal, Fraction, UUID, path, enum member) are tagged tokens:
   their text is the token.  The toy [load] never evaluates text. *)
From Coq Require Import List ZArith Ascii String Bool.
Import ListNotations.
Require Import TL.Model.Duration.
Require Import TL.Model.Temporal.
Require Import TL.Model.Scalars.
Require Import TL.Model.IsoText.
Open Scope Z_scope.

Definition toy_canon (v : val) : string :=
  match v with
  | VNone => "None"
  | VBool true => "True"
  | VBool false => "False"
  | VInt z => string_of_list_ascii (show_Z z)
  | VFloat t | VDec t | VFrac t | VUuid t | VPath t | VEnum t | VPattern t | VOther t => t
  | VText _ s => s
  | VDate y m d => iso_date (y, m, d)
  | VDateTime d => iso_datetime d
  | VTime t => iso_time t
  | VTimeDelta _ _ _ => "timedelta"         (* str(timedelta) is not its ISO text *)
  end.

(* int(s) for an optional '-' and decimal digits *)
Definition toy_int_of_chars (s : chars) : res Z :=
  match s with
  | c :: r =>
    if Ascii.eqb c "-" then match read_N r with Some (n, []) => Ok (- Z.of_N n) | _ => Raise EValue end
    else match read_N s with Some (n, []) => Ok (Z.of_N n) | _ => Raise EValue end
  | [] => Raise EValue end.
Definition toy_int_of_str (s : string) : res Z := toy_int_of_chars (list_ascii_of_string s).

(* pendulum.parse on the emitted language: calendar dates, date 'T' time, durations, and the lenient 'PT' *)
Definition toy_parse_chars (s : chars) : res parsed :=
  match read_date_prefix s with
  | Some ((y, m, d), []) => Ok (PDT (midnight_utc y m d))
  | Some (ymd, c :: r) =>
      if Ascii.eqb c "T" then match read_clock r with Some t => Ok (PDT (dt_of ymd t)) | None => Raise EValue end
      else Raise EValue
  | None =>
      match read_iso_duration_chars s with
      | Some (d, sec, us) => Ok (PDur d sec us)
      | None => match s with
                | [a; b] => if Ascii.eqb a "P" && Ascii.eqb b "T" then Ok (PDur 0 0 0) else Raise EValue
                | _ => Raise EValue end end end.
Definition toy_parse (s : string) : res parsed := toy_parse_chars (list_ascii_of_string s).

Definition toy_time_fromiso (s : string) : res tmf :=
  match read_iso_time s with Some t => Ok t | None => Raise EValue end.

Definition toy_rt : Runtime := {|
  utf8_decode := fun b => Ok b;
  utf8_encode := fun s => s;
  canon_text := toy_canon;
  int_of_str := toy_int_of_str;
  float_of_str := fun s => Ok s;
  dec_of_str := fun s => Ok s;
  frac_of_str := fun s => Ok s;
  uuid_of_str := fun s => Ok s;
  uuid_of_int := fun z => Ok (string_of_list_ascii (show_Z z));
  path_of_str := fun s => Ok s;
  enum_of_val := fun v => match v with VText CStr s => Ok s | _ => Raise EValue end;
  int_of_float := fun f => toy_int_of_str f;
  float_of_int := fun z => Ok (string_of_list_ascii (show_Z z));
  load := fun v => match v with VText _ s => Ok (VText CStr s) | _ => Ok v end;
  pendulum_parse := toy_parse;
  time_fromisoformat := toy_time_fromiso;
  fromtimestamp_utc := fun x => match x with VInt 0 => Ok (midnight_utc 1970 1 1) | _ => Raise EOverflow end;
  timestamp := fun d => Ok (iso_datetime d);
  td_total_seconds := fun td => string_of_list_ascii (show_Z (td_total td));
  td_of_seconds := fun x => match x with
                            | VInt z => let '(d, s, us) := td_of_total (z * 1000000) in Ok (d, s, us)
                            | _ => Raise EType end;
  is_digit_str := fun s => match list_ascii_of_string s with [] => false | cs => forallb is_digit cs end;
  (* two mixin members: SM.a is the str "a", IE.one the int 1; every other member is of a plain Enum *)
  is_member := fun _ => true;
  enum_base := fun m => if String.eqb m "SM.a" then Some (VText CStr "a")
                        else if String.eqb m "IE.one" then Some (VInt 1) else None;
  py_eq := fun x y => match x, y with
                      | VFloat a, VInt z | VInt z, VFloat a => String.eqb a (string_of_list_ascii (show_Z z))
                      | VFloat a, VFloat b => String.eqb a b
                      | _, _ => false end;
  truthy := fun v => Ok (negb (String.eqb (toy_canon v) "0"));
  (* a compiled pattern is its text; "(" does not compile; "a+/I" is a+ compiled with a flag, "b:a" a bytes pattern *)
  re_compile := fun s => if String.eqb s "(" then Raise EOther else Ok s;
  pattern_text := fun p => if String.eqb p "a+/I" then VText CStr "a+"
                           else if String.eqb p "b:a" then VText CBytes "a" else VText CStr p
|}.
