(* Target language of the SOURCE TRANSLATOR tie for typelib/serdes.py, part 2: decode / load / strload / _strload
   against Model/Serdes.v (C14).  See Model/SerdesAst.v for the idea.  Definitions only.

   Descriptor: what the isinstance / istexttype tests of this layer see of a value -- one of the five text
   carriers of Serdes.ckind, or "any other class".
   _strload is a sequence of ATTEMPTS: `with contextlib.suppress(E1, ..): return f(arg)` = try f(arg), go on
   to the next statement when it raises one of E1, ... *)
From Coq Require Import List Bool NArith.
Import ListNotations.
Require Import TL.Model.Serdes.

Definition tdesc := option ckind.
Definition desc_of (v : pv) : tdesc := match v with PText k _ => Some k | _ => None end.
Definition all_ckinds : list ckind := [CStr; CBytes; CBytearray; CMemviewRO; CMemviewRW].
Definition all_tdesc : list tdesc := None :: map Some all_ckinds.

Definition ckind_eqb (a b : ckind) : bool :=
  match a, b with
  | CStr, CStr | CBytes, CBytes | CBytearray, CBytearray | CMemviewRO, CMemviewRO | CMemviewRW, CMemviewRW => true
  | _, _ => false
  end.
Definition tdesc_eqb (a b : tdesc) : bool :=
  match a, b with Some x, Some y => ckind_eqb x y | None, None => true | _, _ => false end.

(* the classes named in isinstance tests; none of the four is a subclass of another *)
Inductive tcls := TStr | TBytes | TBytearray | TMemoryview.
Definition inst_of (c : tcls) (k : ckind) : bool :=
  match c, k with
  | TStr, CStr | TBytes, CBytes | TBytearray, CBytearray
  | TMemoryview, CMemviewRO | TMemoryview, CMemviewRW => true
  | _, _ => false
  end.

Inductive tguard :=
| TIsText                  (* inspection.istexttype(val.__class__) *)
| TInst (cs : list tcls).  (* isinstance(val, (c1, ..)) *)
Definition eval_tguard (g : tguard) (d : tdesc) : bool :=
  match d with
  | None => false
  | Some k => match g with TIsText => true | TInst cs => existsb (fun c => inst_of c k) cs end
  end.

Definition tladder (A : Type) := list (tguard * A).
Fixpoint tselect {A} (l : tladder A) (dflt : A) (d : tdesc) : A :=
  match l with [] => dflt | (g, a) :: r => if eval_tguard g d then a else tselect r dflt d end.
Fixpoint tselect_ix {A} (l : tladder A) (d : tdesc) : nat :=
  match l with [] => 0 | (g, _) :: r => if eval_tguard g d then 0 else S (tselect_ix r d) end.

(* ---------------------------------------------------------------- re-binding `val` *)
Inductive conv :=
| NKeep          (* val stays *)
| NBytesCtor     (* val = bytes(val) *)
| NTobytes.      (* val = val.tobytes() *)
Definition run_conv (a : conv) (d : tdesc) : res tdesc :=
  match a, d with
  | NKeep, _ => Ok d
  | NBytesCtor, Some CStr => Raise EType                 (* string argument without an encoding *)
  | NBytesCtor, Some _ => Ok (Some CBytes)
  | NTobytes, Some (CMemviewRO | CMemviewRW) => Ok (Some CBytes)
  | NTobytes, Some _ => Raise EAttribute
  | _, None => Raise EUnmodelled
  end.

(* ---------------------------------------------------------------- decode *)
Inductive daction :=
| DUtf8        (* return val.decode(encoding), encoding = "utf-8" *)
| DIdentity.   (* return val *)
Definition daction_eqb (a b : daction) : bool :=
  match a, b with DUtf8, DUtf8 | DIdentity, DIdentity => true | _, _ => false end.

(* val = <conv> ... ; if G: return A ...; return A *)
Record dprog := { dp_conv : tladder conv; dp_conv_d : conv; dp_lad : tladder daction; dp_lad_d : daction }.

Definition decode_src (P : dprog) (rt : Runtime) (v : pv) : res pv :=
  match run_conv (tselect (dp_conv P) (dp_conv_d P) (desc_of v)) (desc_of v) with
  | Raise e => Raise e
  | Ok d' =>
    match tselect (dp_lad P) (dp_lad_d P) d' with
    | DIdentity => match v, d' with PText _ p, Some k' => Ok (PText k' p) | _, _ => Ok v end
    | DUtf8 => match v with PText _ p => bind (utf8_decode rt p) (fun s => Ok (PStr s)) | _ => Raise EUnmodelled end
    end
  end.

Definition model_daction (d : tdesc) : daction :=
  match d with Some k => if is_bin k then DUtf8 else DIdentity | None => DIdentity end.
Definition dprog_ok_at (P : dprog) (d : tdesc) : bool :=
  match run_conv (tselect (dp_conv P) (dp_conv_d P) d) d with
  | Ok d' => daction_eqb (tselect (dp_lad P) (dp_lad_d P) d') (model_daction d)
             && match model_daction d with DIdentity => tdesc_eqb d' d | DUtf8 => true end
  | Raise _ => false
  end.
Definition dprog_ok (P : dprog) : bool := forallb (dprog_ok_at P) all_tdesc.
Definition dprog_diag (P : dprog) : list (tdesc * nat * nat * res tdesc) :=
  flat_map (fun d => if dprog_ok_at P d then [] else
     let c := run_conv (tselect (dp_conv P) (dp_conv_d P) d) d in
     [(d, tselect_ix (dp_conv P) d, match c with Ok d' => tselect_ix (dp_lad P) d' | _ => 0 end, c)]) all_tdesc.

(* ---------------------------------------------------------------- load *)
Inductive laction :=
| LStrload     (* strload(val) *)
| LIdentity.   (* val *)
Definition laction_eqb (a b : laction) : bool :=
  match a, b with LStrload, LStrload | LIdentity, LIdentity => true | _, _ => false end.
Definition run_laction (rt : Runtime) (a : laction) (v : pv) : res pv :=
  match a with
  | LIdentity => Ok v
  | LStrload => match v with PText k p => strload rt k p | _ => Raise EUnmodelled end
  end.
Definition load_src (l : tladder laction) (dflt : laction) (rt : Runtime) (v : pv) : res pv :=
  run_laction rt (tselect l dflt (desc_of v)) v.
Definition model_laction (d : tdesc) : laction := match d with Some _ => LStrload | None => LIdentity end.
Definition lladder_ok (l : tladder laction) (dflt : laction) : bool :=
  forallb (fun d => laction_eqb (tselect l dflt d) (model_laction d)) all_tdesc.
Definition lladder_diag (l : tladder laction) (dflt : laction) : list (tdesc * nat * laction * laction) :=
  flat_map (fun d => if laction_eqb (tselect l dflt d) (model_laction d) then []
                     else [(d, tselect_ix l d, tselect l dflt d, model_laction d)]) all_tdesc.

(* ---------------------------------------------------------------- strload *)
(* if G: val = <conv> ...;  return copy.deepcopy(_strload(val)),  _strload memoised (sl_memo: the key is hashed) *)
Record slprog := { sl_conv : tladder conv; sl_conv_d : conv; sl_memo : bool }.
(* the carrier kind that reaches the memoised body *)
Definition strload_pre (P : slprog) (k : ckind) : res ckind :=
  match run_conv (tselect (sl_conv P) (sl_conv_d P) (Some k)) (Some k) with
  | Ok (Some k') => bind (if sl_memo P then hash_check k' else Ok tt) (fun _ => Ok k')
  | Ok None => Raise EUnmodelled
  | Raise e => Raise e
  end.
Definition strload_src (P : slprog) (body : ckind -> list N -> res pv) (k : ckind) (p : list N) : res pv :=
  bind (strload_pre P k) (fun k' => body k' p).
Definition res_ckind_eqb (a b : res ckind) : bool :=
  match a, b with Ok x, Ok y => ckind_eqb x y | _, _ => false end.
Definition slprog_ok (P : slprog) : bool :=
  forallb (fun k => res_ckind_eqb (strload_pre P k) (Ok (normalise k))) all_ckinds.
Definition slprog_diag (P : slprog) : list (ckind * nat * res ckind * ckind) :=
  flat_map (fun k => if res_ckind_eqb (strload_pre P k) (Ok (normalise k)) then []
                     else [(k, tselect_ix (sl_conv P) (Some k), strload_pre P k, normalise k)]) all_ckinds.

(* ---------------------------------------------------------------- _strload *)
Inductive pyexc := XValueError | XUnicodeError | XTypeError | XSyntaxError | XMemoryError | XRecursionError
                 | XAttributeError.
Definition exc_covers (x : pyexc) (e : exn) : bool :=
  match x, e with
  | XValueError, (EValue | EUnicode) | XUnicodeError, EUnicode | XTypeError, EType | XSyntaxError, ESyntax
  | XMemoryError, EMemory | XRecursionError, ERecursion | XAttributeError, EAttribute => true
  | _, _ => false
  end.
Definition suppresses (sup : list pyexc) (e : exn) : bool := existsb (fun x => exc_covers x e) sup.
Definition all_exn : list exn := [EValue; EUnicode; EType; ESyntax; EAttribute; ERecursion; EMemory; EOther; EUnmodelled].
Definition sup_equiv (a b : list pyexc) : bool :=
  forallb (fun e => Bool.eqb (suppresses a e) (suppresses b e)) all_exn.

Inductive sarg := ARaw | ADecoded.        (* the parameter / the name bound to decode(val) *)
Inductive sfun := FJson | FLiteral.       (* compat.json.loads / ast.literal_eval *)
Inductive step :=
| SDecode                                           (* decoded = decode(val) *)
| SAttempt (f : sfun) (a : sarg) (sup : list pyexc). (* with contextlib.suppress(sup): return f(a) *)
Record sprog := { sp_steps : list step; sp_ret : sarg }.

Definition sarg_eqb (a b : sarg) : bool := match a, b with ARaw, ARaw | ADecoded, ADecoded => true | _, _ => false end.
Definition sfun_eqb (a b : sfun) : bool := match a, b with FJson, FJson | FLiteral, FLiteral => true | _, _ => false end.
Definition step_equiv (a b : step) : bool :=
  match a, b with
  | SDecode, SDecode => true
  | SAttempt f x s, SAttempt g y t => sfun_eqb f g && sarg_eqb x y && sup_equiv s t
  | _, _ => false
  end.
Fixpoint steps_equiv (a b : list step) : bool :=
  match a, b with
  | [], [] => true
  | x :: r, y :: s => step_equiv x y && steps_equiv r s
  | _, _ => false
  end.
Definition sprog_equiv (P Q : sprog) : bool := steps_equiv (sp_steps P) (sp_steps Q) && sarg_eqb (sp_ret P) (sp_ret Q).
(* index of the first differing step (length = the returned name differs / lengths differ) *)
Fixpoint steps_diff (a b : list step) : nat :=
  match a, b with
  | x :: r, y :: s => if step_equiv x y then S (steps_diff r s) else 0
  | _, _ => 0
  end.

Section Run.
Variable rt : Runtime.
Definition arg_val (a : sarg) (k : ckind) (p : list N) (dec : option str) : option (ckind * list N) :=
  match a with
  | ARaw => Some (k, p)
  | ADecoded => match dec with Some s => Some (CStr, s) | None => None end
  end.
Definition call (f : sfun) (k : ckind) (p : list N) : res pv :=
  match f with
  | FJson => json_loads rt k p
  | FLiteral => match k with CStr => literal_eval rt p | _ => Raise EUnmodelled end
  end.
Fixpoint run_steps (steps : list step) (ret : sarg) (k : ckind) (p : list N) (dec : option str) : res pv :=
  match steps with
  | [] => match arg_val ret k p dec with Some (k', p') => Ok (PText k' p') | None => Raise EUnmodelled end
  | SDecode :: r => bind (decode_text rt k p) (fun s => run_steps r ret k p (Some s))
  | SAttempt f a sup :: r =>
      match arg_val a k p dec with
      | None => Raise EUnmodelled
      | Some (k', p') =>
          match call f k' p' with
          | Ok v => Ok v
          | Raise e => if suppresses sup e then run_steps r ret k p dec else Raise e
          end
      end
  end.
Definition run_sprog (P : sprog) (k : ckind) (p : list N) : res pv := run_steps (sp_steps P) (sp_ret P) k p None.
End Run.

Definition literal_errors : list pyexc := [XValueError; XTypeError; XSyntaxError; XMemoryError; XRecursionError].
(* the repaired body (C14-strload-decode-first.diff) = Serdes.strload_body_dec *)
Definition canonical_dec : sprog :=
  {| sp_steps := [SDecode; SAttempt FJson ADecoded [XValueError]; SAttempt FLiteral ADecoded literal_errors];
     sp_ret := ADecoded |}.
(* the body before that diff (JSON decoder on the raw carrier) = Serdes.strload_body_raw true *)
Definition canonical_raw : sprog :=
  {| sp_steps := [SAttempt FJson ARaw [XValueError]; SDecode; SAttempt FLiteral ADecoded literal_errors];
     sp_ret := ADecoded |}.
