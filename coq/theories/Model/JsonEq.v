(* Model/JsonEq.v -- evaluation helpers for the per-run tie of Model/Json.v (harness/jsontie.py).
   Boolean equality on wire values, Python's dict construction on a list of pairs (json.loads builds a
   dict: a repeated key keeps its first position and takes the last value), the case types of the
   correspondence streams and the list of mismatching case indexes.  DEFINITIONS ONLY. *)
From Coq Require Import List ZArith NArith Bool.
Import ListNotations.
Require Import TL.Model.Json.
Open Scope N_scope.

Definition list_eqb {A} (e : A -> A -> bool) : list A -> list A -> bool :=
  fix go (a b : list A) : bool :=
    match a, b with [], [] => true | x :: r, y :: t => e x y && go r t | _, _ => false end.
Definition opt_eqb {A} (e : A -> A -> bool) (a b : option A) : bool :=
  match a, b with Some x, Some y => e x y | None, None => true | _, _ => false end.
Definition text_eqb : list N -> list N -> bool := list_eqb N.eqb.

(* [fl]: how two float tokens compare ([text_eqb], or always true when the observer cannot show the token) *)
Fixpoint jv_eqb_gen (fl : list N -> list N -> bool) (a b : jv) : bool :=
  match a, b with
  | JNull, JNull => true
  | JBool x, JBool y => Bool.eqb x y
  | JInt x, JInt y => Z.eqb x y
  | JFloat x, JFloat y => fl x y
  | JStr x, JStr y => text_eqb x y
  | JList x, JList y => list_eqb (jv_eqb_gen fl) x y
  | JDict x, JDict y =>
      list_eqb (fun p q => text_eqb (fst p) (fst q) && jv_eqb_gen fl (snd p) (snd q)) x y
  | _, _ => false
  end.
Definition jv_eqb : jv -> jv -> bool := jv_eqb_gen text_eqb.
Definition jv_sim : jv -> jv -> bool := jv_eqb_gen (fun _ _ => true).

(* dict(pairs) *)
Fixpoint dict_set (d : list (list N * jv)) (k : list N) (v : jv) : list (list N * jv) :=
  match d with
  | [] => [(k, v)]
  | (k', v') :: r => if text_eqb k k' then (k', v) :: r else (k', v') :: dict_set r k v
  end.
Definition dict_of (ps : list (list N * jv)) : list (list N * jv) :=
  fold_left (fun d kv => dict_set d (fst kv) (snd kv)) ps [].
Fixpoint jv_norm (w : jv) : jv :=
  match w with
  | JList l => JList (map jv_norm l)
  | JDict d => JDict (dict_of (map (fun kx => (fst kx, jv_norm (snd kx))) d))
  | _ => w
  end.

(* does the model say orjson.dumps writes w (else it raises): 64-bit ints, no surrogate code points *)
Fixpoint strs_ok (w : jv) : bool :=
  match w with
  | JStr s => str_ok s
  | JList l => forallb strs_ok l
  | JDict d => forallb (fun kx => str_ok (fst kx) && strs_ok (snd kx)) d
  | _ => true
  end.
Definition writer_model (backend : N) (w : jv) : option (list N) :=
  if backend =? 0 then (if orjson_dom w && strs_ok w then Some (json_write orjson_style w) else None)
  else Some (json_write stdlib_style w).

(* writer case: (backend 0 = orjson / 1 = json.dumps, wire value, observed bytes or None = raised) *)
Definition wcase := (N * jv * option (list N))%type.
Definition wcase_ok (c : wcase) : bool :=
  let '(be, w, obs) := c in opt_eqb text_eqb (writer_model be w) obs.

(* reader case: (input bytes, observations), an observation = (observer, observed value or None = rejected)
     0  json.loads on the byte string (utf-8 branch of detect_encoding; float tokens observed through parse_float)
     1  orjson.loads on the byte string (float tokens not observable: compared up to the token)
     2  json.loads on the str the bytes decode to (utf-8, surrogatepass)
     3  bytes.decode('utf-8', 'surrogatepass'): observed = the code points as a JStr, JNull = "the bytes themselves"
     4  bytes.decode('utf-8'): observed = JBool (did it decode; when it does the result is that of 3)
     5  json.detect_encoding answers utf-8 or utf-8-sig: observed = JBool *)
Definition rcase := (list N * list (N * option jv))%type.
Definition obs_ok (inp : list N) (o : N * option jv) : bool :=
  let '(mode, obs) := o in
  if mode =? 0 then opt_eqb jv_eqb (option_map jv_norm (std_loads inp)) obs
  else if mode =? 1 then opt_eqb jv_sim (option_map jv_norm (json_read_strict inp)) obs
  else if mode =? 2 then
    opt_eqb jv_eqb (match utf8_dec true inp with Some t => option_map jv_norm (parse_text false t) | None => None end) obs
  else if mode =? 3 then
    match utf8_dec true inp, obs with
    | Some t, Some JNull => text_eqb t inp
    | Some t, Some (JStr t') => text_eqb t t'
    | None, None => true
    | _, _ => false
    end
  else if mode =? 4 then
    match obs with
    | Some (JBool b) =>
      Bool.eqb b (match utf8_dec false inp, utf8_dec true inp with Some t, Some t' => text_eqb t t' | _, _ => false end)
    | _ => false
    end
  else opt_eqb jv_eqb (Some (JBool (std_utf8_branch inp))) obs.
Definition rcase_ok (c : rcase) : bool := let '(inp, os) := c in forallb (obs_ok inp) os.

(* round-trip case, decided inside Coq on the generated wire value itself: the three theorems' conclusions *)
Definition rtcase_ok (w : jv) : bool :=
  negb (jv_ok w) ||
  (opt_eqb jv_eqb (json_read (json_write orjson_style w)) (Some w) &&
   opt_eqb jv_eqb (json_read_strict (json_write orjson_style w)) (Some w) &&
   opt_eqb jv_eqb (json_read (json_write stdlib_style w)) (Some w) &&
   std_utf8_branch (json_write orjson_style w) && std_utf8_branch (json_write stdlib_style w)).

Definition mismatches {A} (ok : A -> bool) (cs : list A) : list nat :=
  let fix go (i : nat) (l : list A) : list nat :=
    match l with [] => [] | c :: r => if ok c then go (S i) r else i :: go (S i) r end in
  go O cs.
