(* Model/IsoText.v -- C04: the ISO-8601 text of date, time and datetime values, character by character.
   DEFINITIONS ONLY.

   Writers: date.isoformat(), time.isoformat(), datetime.isoformat() of CPython 3.12 on the values of U
   (years 1..9999, whole-minute UTC offsets; naive values are written without offset).  They are interpreter
   behaviour, tied to the interpreter by the iso-writer correspondence stream.
   Readers: independent spec-level readers of the extended ISO-8601 calendar-date / time-of-day forms
   YYYY-MM-DD, hh:mm:ss[.f{1,6}][+-hh:mm], and their combination with 'T'; they validate every field. *)
From Coq Require Import List ZArith Ascii String Bool.
Import ListNotations.
Require Import TL.Model.Duration.
Require Import TL.Model.Temporal.
Require Import TL.Model.Scalars.
Open Scope Z_scope.

(* ---------------------------------------------------------------- writers *)
Definition pad2 (n : Z) : chars := [digitZ (n / 10); digitZ n].
Definition pad4 (n : Z) : chars := [digitZ (n / 1000); digitZ (n / 100); digitZ (n / 10); digitZ n].
(* "%04d-%02d-%02d" *)
Definition iso_date_chars (y m d : Z) : chars := pad4 y ++ "-"%char :: pad2 m ++ "-"%char :: pad2 d.
(* utcoffset: sign, then hh:mm of the magnitude (offsets with seconds are outside U) *)
Definition iso_off_chars (o : option Z) : chars :=
  match o with
  | None => []
  | Some z => let a := Z.abs z in
              (if z <? 0 then "-"%char else "+"%char) :: pad2 (a / 3600) ++ ":"%char :: pad2 (a / 60 mod 60) end.
(* "%02d:%02d:%02d" [".%06d"] [offset] *)
Definition iso_clock_chars (h mi s us : Z) (o : option Z) : chars :=
  pad2 h ++ ":"%char :: pad2 mi ++ ":"%char :: pad2 s
  ++ (if us =? 0 then [] else "."%char :: pad6 us) ++ iso_off_chars o.
Definition iso_time_chars (t : tmf) : chars := iso_clock_chars (th t) (tmi t) (ts t) (tus t) (toff t).
Definition iso_datetime_chars (d : dtf) : chars :=
  iso_date_chars (dy d) (dmo d) (dd d) ++ "T"%char :: iso_clock_chars (dh d) (dmi d) (ds d) (dus d) (doff d).
Definition iso_date (ymd : Z * Z * Z) : string :=
  let '(y, m, d) := ymd in string_of_list_ascii (iso_date_chars y m d).
Definition iso_time (t : tmf) : string := string_of_list_ascii (iso_time_chars t).
Definition iso_datetime (d : dtf) : string := string_of_list_ascii (iso_datetime_chars d).

(* ---------------------------------------------------------------- readers *)
Definition obind {A B} (o : option A) (f : A -> option B) : option B :=
  match o with Some a => f a | None => None end.
Definition read2 (s : chars) : option (Z * chars) :=
  match s with
  | a :: b :: r => match digit_val a, digit_val b with
                   | Some x, Some y => Some (x * 10 + y, r) | _, _ => None end
  | _ => None end.
Definition read4 (s : chars) : option (Z * chars) :=
  obind (read2 s) (fun '(hi, r) => obind (read2 r) (fun '(lo, r') => Some (hi * 100 + lo, r'))).
Definition expect (c : ascii) (s : chars) : option chars :=
  match s with a :: r => if Ascii.eqb a c then Some r else None | [] => None end.

(* YYYY-MM-DD at the head of the text; the rest is handed back *)
Definition read_date_prefix (s : chars) : option ((Z * Z * Z) * chars) :=
  obind (read4 s) (fun '(y, s1) => obind (expect "-" s1) (fun s2 =>
  obind (read2 s2) (fun '(m, s3) => obind (expect "-" s3) (fun s4 =>
  obind (read2 s4) (fun '(d, s5) =>
  if valid_date y m d then Some ((y, m, d), s5) else None))))).

(* [.f{1,6}] -> microseconds *)
Definition read_fraction (s : chars) : option (Z * chars) :=
  match s with
  | c :: r => if Ascii.eqb c "." then
                match read_frac 6 0 r with
                | (acc, k, r') => if Nat.ltb k 6 then Some (acc * 10 ^ Z.of_nat k, r') else None end
              else Some (0, s)
  | [] => Some (0, s) end.
(* [+-hh:mm] at the end of the text -> seconds east of UTC *)
Definition read_offset (s : chars) : option (option Z) :=
  match s with
  | [] => Some None
  | c :: r =>
    let sign := if Ascii.eqb c "+" then Some 1 else if Ascii.eqb c "-" then Some (-1) else None in
    obind sign (fun sg => obind (read2 r) (fun '(hh, r1) => obind (expect ":" r1) (fun r2 =>
    obind (read2 r2) (fun '(mm, r3) =>
    match r3 with
    | [] => if (hh <? 24) && (mm <? 60) then Some (Some (sg * (hh * 3600 + mm * 60))) else None
    | _ => None end)))) end.
(* hh:mm:ss[.f][offset], to the end of the text *)
Definition read_clock (s : chars) : option tmf :=
  obind (read2 s) (fun '(h, s1) => obind (expect ":" s1) (fun s2 =>
  obind (read2 s2) (fun '(mi, s3) => obind (expect ":" s3) (fun s4 =>
  obind (read2 s4) (fun '(sec, s5) => obind (read_fraction s5) (fun '(us, s6) =>
  obind (read_offset s6) (fun o =>
  if valid_clock h mi sec us 0 then
    Some {| th := h; tmi := mi; ts := sec; tus := us; toff := o; tfold := 0 |}
  else None))))))).

Definition read_iso_date_chars (s : chars) : option (Z * Z * Z) :=
  match read_date_prefix s with Some (v, []) => Some v | _ => None end.
Definition read_iso_time_chars (s : chars) : option tmf := read_clock s.
Definition dt_of (ymd : Z * Z * Z) (t : tmf) : dtf :=
  let '(y, m, d) := ymd in
  {| dy := y; dmo := m; dd := d; dh := th t; dmi := tmi t; ds := ts t; dus := tus t; doff := toff t; dfold := 0 |}.
Definition read_iso_datetime_chars (s : chars) : option dtf :=
  match read_date_prefix s with
  | Some (v, c :: r) => if Ascii.eqb c "T" then obind (read_clock r) (fun t => Some (dt_of v t)) else None
  | _ => None end.
Definition read_iso_date (s : string) := read_iso_date_chars (list_ascii_of_string s).
Definition read_iso_time (s : string) := read_iso_time_chars (list_ascii_of_string s).
Definition read_iso_datetime (s : string) := read_iso_datetime_chars (list_ascii_of_string s).

(* the fold is not part of the text *)
Definition tm_fold0 (t : tmf) : tmf :=
  {| th := th t; tmi := tmi t; ts := ts t; tus := tus t; toff := toff t; tfold := 0 |}.
Definition dt_fold0 (d : dtf) : dtf :=
  {| dy := dy d; dmo := dmo d; dd := dd d; dh := dh d; dmi := dmi d; ds := ds d; dus := dus d;
     doff := doff d; dfold := 0 |}.
(* naive, or an offset of U *)
Definition valid_off_opt (o : option Z) : bool := match o with None => true | Some _ => valid_off o end.
Definition valid_tm_text (t : tmf) : bool :=
  valid_clock (th t) (tmi t) (ts t) (tus t) (tfold t) && valid_off_opt (toff t).
Definition valid_dt_text (d : dtf) : bool :=
  valid_date (dy d) (dmo d) (dd d) && valid_clock (dh d) (dmi d) (ds d) (dus d) (dfold d) && valid_off_opt (doff d).
