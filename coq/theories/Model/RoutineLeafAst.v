(* WP routine-ast, part 3 -- the LEAF routine classes of unmarshals/routines.py and marshals/routines.py as programs.
   Definitions only (proofs: Proofs/RoutineLeafAst.v, theorems: Props/RoutineLeafAst.v).  Imports Model/Serdes.v only.

   lexpr / lstmt : a closed fragment of Python, the target of harness/routasttie.py's leaf translator (locals numbered by
                   first assignment, the input parameter is EVal, messages of raised exceptions dropped, tp.cast erased).
                   Argument lists are cons cells INSIDE lexpr (ENil / ECons / EKw; EKw "**" e = **e), blocks are
                   SSeq .. SSkip, so both types are plain (non-nested) inductives.
   leaf          : base class, __init__ body (SSkip = inherited), __call__ body.
   expected_u/_m : the programs the models were written against (x_<Class>), as translated from /repo at b74fc47.
   first_of      : the FIRST STEP of a __call__ on a text input, read off the program: the first serdes.decode(val) /
                   serdes.load(val), preceded only by `if <raw test>:` statements whose test is false on every text
                   carrier (isinstance(val, C) with C not a text class); Enum's decode-then-load; Literal's three tests.
   lentry        : what Model/Serdes.v's entry_gen does, driven by that reading instead of by the head.
   steps         : the per-kind description (isinstance short-cuts, serdes calls, constructor calls, membership tests,
                   in source order), compared with the hand-written `described_u` / `described_m`. *)
From Coq Require Import List String Bool Arith ZArith NArith.
Import ListNotations.
Require Import TL.Model.Serdes.
Local Open Scope string_scope.

Inductive lexpr :=
| EVal | ELoc (n : nat) | ENone | EBool (b : bool)
| EName (s : string)                       (* a global / attribute path not rooted at a local: "self.t", "serdes.decode" *)
| EAttr (e : lexpr) (a : string)           (* attribute of a computed value: val.value, dt.hour, decoded.__class__ *)
| ECall (f args : lexpr)
| ENil | ECons (e rest : lexpr) | EKw (k : string) (e rest : lexpr)
| EStar (e : lexpr)
| ETuple (items : lexpr) | EList (items : lexpr) | EDict (items : lexpr)
| ECmp (op : string) (a b : lexpr)
| ENot (e : lexpr) | EAnd (a b : lexpr) | EOr (a b : lexpr) | EPos (e : lexpr)
| EIfExp (c a b : lexpr).

Inductive lstmt :=
| SSkip | SSeq (a b : lstmt)
| SAssign (t e : lexpr)
| SIf (c : lexpr) (a b : lstmt)
| SReturn (e : lexpr)
| SRaise (k : string)
| SSuppress (kinds : lexpr) (body : lstmt)
| SFor (n : nat) (it : lexpr) (body : lstmt)
| SSuperInit.

Record leaf := mkLeaf { lbase : string; linit : lstmt; lcall : lstmt }.
Definition leaftable := list (string * leaf).

(* ---------------------------------------------------------------- decidable equality *)
Fixpoint lexpr_eqb (x y : lexpr) {struct x} : bool :=
  match x, y with
  | EVal, EVal | ENone, ENone | ENil, ENil => true
  | ELoc n, ELoc m => Nat.eqb n m
  | EBool a, EBool b => Bool.eqb a b
  | EName a, EName b => String.eqb a b
  | EAttr e a, EAttr e' a' => lexpr_eqb e e' && String.eqb a a'
  | ECall f a, ECall f' a' => lexpr_eqb f f' && lexpr_eqb a a'
  | ECons e r, ECons e' r' => lexpr_eqb e e' && lexpr_eqb r r'
  | EKw k e r, EKw k' e' r' => String.eqb k k' && lexpr_eqb e e' && lexpr_eqb r r'
  | EStar e, EStar e' | ETuple e, ETuple e' | EList e, EList e' | EDict e, EDict e'
  | ENot e, ENot e' | EPos e, EPos e' => lexpr_eqb e e'
  | ECmp o a b, ECmp o' a' b' => String.eqb o o' && lexpr_eqb a a' && lexpr_eqb b b'
  | EAnd a b, EAnd a' b' | EOr a b, EOr a' b' => lexpr_eqb a a' && lexpr_eqb b b'
  | EIfExp c a b, EIfExp c' a' b' => lexpr_eqb c c' && lexpr_eqb a a' && lexpr_eqb b b'
  | _, _ => false
  end.

Fixpoint lstmt_eqb (x y : lstmt) {struct x} : bool :=
  match x, y with
  | SSkip, SSkip | SSuperInit, SSuperInit => true
  | SSeq a b, SSeq a' b' => lstmt_eqb a a' && lstmt_eqb b b'
  | SAssign t e, SAssign t' e' => lexpr_eqb t t' && lexpr_eqb e e'
  | SIf c a b, SIf c' a' b' => lexpr_eqb c c' && lstmt_eqb a a' && lstmt_eqb b b'
  | SReturn e, SReturn e' => lexpr_eqb e e'
  | SRaise k, SRaise k' => String.eqb k k'
  | SSuppress k b, SSuppress k' b' => lexpr_eqb k k' && lstmt_eqb b b'
  | SFor n i b, SFor n' i' b' => Nat.eqb n n' && lexpr_eqb i i' && lstmt_eqb b b'
  | _, _ => false
  end.

Definition leaf_eqb (a b : leaf) : bool :=
  String.eqb (lbase a) (lbase b) && lstmt_eqb (linit a) (linit b) && lstmt_eqb (lcall a) (lcall b).

Fixpoint table_eqb (a b : leaftable) : bool :=
  match a, b with
  | [], [] => true
  | (n, x) :: r, (n', x') :: r' => String.eqb n n' && leaf_eqb x x' && table_eqb r r'
  | _, _ => false
  end.

Fixpoint aliases_eqb (a b : list (string * string)) : bool :=
  match a, b with
  | [], [] => true
  | (n, x) :: r, (n', x') :: r' => String.eqb n n' && String.eqb x x' && aliases_eqb r r'
  | _, _ => false
  end.

Fixpoint lookup (tb : leaftable) (n : string) : option leaf :=
  match tb with [] => None | (m, x) :: r => if String.eqb n m then Some x else lookup r n end.

(* ---------------------------------------------------------------- the expected programs *)
Definition x_NoOpUnmarshaller : leaf := mkLeaf "AbstractUnmarshaller"%string
  (SSkip)
  (SSeq (SReturn EVal) SSkip).

Definition x_NoneTypeUnmarshaller : leaf := mkLeaf "AbstractUnmarshaller"%string
  (SSkip)
  (SSeq (SAssign (ELoc 0) (ECall (EName "serdes.decode"%string) (ECons EVal ENil))) (SSeq (SIf (ECmp "is not"%string (ELoc 0) ENone) (SSeq (SRaise "ValueError"%string) SSkip) SSkip) (SSeq (SReturn ENone) SSkip))).

Definition x_BytesUnmarshaller : leaf := mkLeaf "AbstractUnmarshaller"%string
  (SSkip)
  (SSeq (SIf (ECall (EName "isinstance"%string) (ECons EVal (ECons (EName "self.t"%string) ENil))) (SSeq (SReturn EVal) SSkip) SSkip) (SSeq (SIf (ECall (EName "isinstance"%string) (ECons EVal (ECons (ETuple (ECons (EName "datetime.date"%string) (ECons (EName "datetime.time"%string) (ECons (EName "datetime.timedelta"%string) ENil)))) ENil))) (SSeq (SAssign EVal (ECall (EName "serdes.isoformat"%string) (ECons EVal ENil))) SSkip) SSkip) (SSeq (SReturn (ECall (EName "self.t"%string) (ECons (ECall (EAttr (ECall (EName "str"%string) (ECons EVal ENil)) "encode"%string) (ECons (EName "constants.DEFAULT_ENCODING"%string) ENil)) ENil))) SSkip))).

Definition x_StringUnmarshaller : leaf := mkLeaf "AbstractUnmarshaller"%string
  (SSkip)
  (SSeq (SAssign (ELoc 0) (ECall (EName "serdes.decode"%string) (ECons EVal ENil))) (SSeq (SIf (ECall (EName "isinstance"%string) (ECons (ELoc 0) (ECons (EName "self.t"%string) ENil))) (SSeq (SReturn (ELoc 0)) SSkip) SSkip) (SSeq (SIf (ECall (EName "isinstance"%string) (ECons EVal (ECons (ETuple (ECons (EName "datetime.date"%string) (ECons (EName "datetime.time"%string) (ECons (EName "datetime.timedelta"%string) ENil)))) ENil))) (SSeq (SAssign (ELoc 0) (ECall (EName "serdes.isoformat"%string) (ECons EVal ENil))) SSkip) SSkip) (SSeq (SReturn (ECall (EName "self.t"%string) (ECons (ELoc 0) ENil))) SSkip)))).

Definition x_NumberUnmarshaller : leaf := mkLeaf "AbstractUnmarshaller"%string
  (SSkip)
  (SSeq (SAssign (ELoc 0) (ECall (EName "serdes.decode"%string) (ECons EVal ENil))) (SSeq (SIf (ECall (EName "isinstance"%string) (ECons (ELoc 0) (ECons (EName "self.t"%string) ENil))) (SSeq (SReturn (ELoc 0)) SSkip) SSkip) (SSeq (SIf (ECall (EName "isinstance"%string) (ECons EVal (ECons (ETuple (ECons (EName "datetime.date"%string) (ECons (EName "datetime.time"%string) (ECons (EName "datetime.timedelta"%string) ENil)))) ENil))) (SSeq (SAssign (ELoc 0) (ECall (EName "serdes.unixtime"%string) (ECons EVal ENil))) SSkip) SSkip) (SSeq (SIf (ECall (EName "inspection.ismappingtype"%string) (ECons (EAttr (ELoc 0) "__class__"%string) ENil)) (SSeq (SReturn (ECall (EName "self.t"%string) (EKw "**"%string (ELoc 0) ENil))) SSkip) SSkip) (SSeq (SIf (EAnd (ECall (EName "inspection.isiterabletype"%string) (ECons (EAttr (ELoc 0) "__class__"%string) ENil)) (ENot (ECall (EName "inspection.istexttype"%string) (ECons (EAttr (ELoc 0) "__class__"%string) ENil)))) (SSeq (SReturn (ECall (EName "self.t"%string) (ECons (EStar (ELoc 0)) ENil))) SSkip) SSkip) (SSeq (SReturn (ECall (EName "self.t"%string) (ECons (ELoc 0) ENil))) SSkip)))))).

Definition x_DateUnmarshaller : leaf := mkLeaf "AbstractUnmarshaller"%string
  (SSkip)
  (SSeq (SIf (EAnd (ECall (EName "isinstance"%string) (ECons EVal (ECons (EName "self.t"%string) ENil))) (ENot (ECall (EName "isinstance"%string) (ECons EVal (ECons (EName "datetime.datetime"%string) ENil))))) (SSeq (SReturn EVal) SSkip) SSkip) (SSeq (SIf (ECall (EName "isinstance"%string) (ECons EVal (ECons (ETuple (ECons (EName "int"%string) (ECons (EName "float"%string) ENil))) ENil))) (SSeq (SAssign EVal (ECall (EName "datetime.datetime.fromtimestamp"%string) (ECons EVal (EKw "tz"%string (EName "datetime.timezone.utc"%string) ENil)))) SSkip) SSkip) (SSeq (SAssign (ELoc 0) (ECall (EName "serdes.decode"%string) (ECons EVal ENil))) (SSeq (SAssign (ELoc 1) (EIfExp (ECall (EName "isinstance"%string) (ECons (ELoc 0) (ECons (EName "str"%string) ENil))) (ECall (EName "serdes.dateparse"%string) (ECons (ELoc 0) (ECons (EName "self.t"%string) ENil))) (ELoc 0))) (SSeq (SIf (ECall (EName "isinstance"%string) (ECons (ELoc 1) (ECons (EName "datetime.time"%string) ENil))) (SSeq (SAssign (ELoc 1) (ECall (EAttr (ECall (EName "datetime.datetime.now"%string) (EKw "tz"%string (EName "datetime.timezone.utc"%string) ENil)) "today"%string) ENil)) SSkip) SSkip) (SSeq (SIf (ECmp "is"%string (EAttr (ELoc 1) "__class__"%string) (EName "self.t"%string)) (SSeq (SReturn (ELoc 1)) SSkip) SSkip) (SSeq (SReturn (ECall (EName "self.t"%string) (EKw "year"%string (EAttr (ELoc 1) "year"%string) (EKw "month"%string (EAttr (ELoc 1) "month"%string) (EKw "day"%string (EAttr (ELoc 1) "day"%string) ENil))))) SSkip))))))).

Definition x_DateTimeUnmarshaller : leaf := mkLeaf "AbstractUnmarshaller"%string
  (SSkip)
  (SSeq (SIf (ECall (EName "isinstance"%string) (ECons EVal (ECons (EName "self.t"%string) ENil))) (SSeq (SReturn EVal) SSkip) SSkip) (SSeq (SIf (ECall (EName "isinstance"%string) (ECons EVal (ECons (ETuple (ECons (EName "int"%string) (ECons (EName "float"%string) ENil))) ENil))) (SSeq (SAssign EVal (ECall (EName "datetime.datetime.fromtimestamp"%string) (ECons EVal (EKw "tz"%string (EName "datetime.timezone.utc"%string) ENil)))) SSkip) SSkip) (SSeq (SAssign (ELoc 0) (ECall (EName "serdes.decode"%string) (ECons EVal ENil))) (SSeq (SAssign (ELoc 1) (EIfExp (ECall (EName "isinstance"%string) (ECons (ELoc 0) (ECons (EName "str"%string) ENil))) (ECall (EName "serdes.dateparse"%string) (ECons (ELoc 0) (ECons (EName "self.t"%string) ENil))) (ELoc 0))) (SSeq (SIf (ECall (EName "isinstance"%string) (ECons (ELoc 1) (ECons (EName "datetime.time"%string) ENil))) (SSeq (SReturn (ECall (EAttr (ECall (EName "self.t.now"%string) (EKw "tz"%string (EAttr (ELoc 1) "tzinfo"%string) ENil)) "replace"%string) (EKw "hour"%string (EAttr (ELoc 1) "hour"%string) (EKw "minute"%string (EAttr (ELoc 1) "minute"%string) (EKw "second"%string (EAttr (ELoc 1) "second"%string) (EKw "microsecond"%string (EAttr (ELoc 1) "microsecond"%string) (EKw "tzinfo"%string (EAttr (ELoc 1) "tzinfo"%string) ENil))))))) SSkip) SSkip) (SSeq (SIf (ECmp "is"%string (EAttr (ELoc 1) "__class__"%string) (EName "self.t"%string)) (SSeq (SReturn (ELoc 1)) SSkip) SSkip) (SSeq (SIf (ECall (EName "isinstance"%string) (ECons (ELoc 1) (ECons (EName "datetime.datetime"%string) ENil))) (SSeq (SReturn (ECall (EName "self.t"%string) (EKw "year"%string (EAttr (ELoc 1) "year"%string) (EKw "month"%string (EAttr (ELoc 1) "month"%string) (EKw "day"%string (EAttr (ELoc 1) "day"%string) (EKw "hour"%string (EAttr (ELoc 1) "hour"%string) (EKw "minute"%string (EAttr (ELoc 1) "minute"%string) (EKw "second"%string (EAttr (ELoc 1) "second"%string) (EKw "microsecond"%string (EAttr (ELoc 1) "microsecond"%string) (EKw "tzinfo"%string (EAttr (ELoc 1) "tzinfo"%string) (EKw "fold"%string (EAttr (ELoc 1) "fold"%string) ENil))))))))))) SSkip) SSkip) (SSeq (SReturn (ECall (EName "self.t"%string) (EKw "year"%string (EAttr (ELoc 1) "year"%string) (EKw "month"%string (EAttr (ELoc 1) "month"%string) (EKw "day"%string (EAttr (ELoc 1) "day"%string) (EKw "tzinfo"%string (EName "datetime.timezone.utc"%string) ENil)))))) SSkip)))))))).

Definition x_TimeUnmarshaller : leaf := mkLeaf "AbstractUnmarshaller"%string
  (SSkip)
  (SSeq (SIf (ECall (EName "isinstance"%string) (ECons EVal (ECons (EName "self.t"%string) ENil))) (SSeq (SReturn EVal) SSkip) SSkip) (SSeq (SAssign (ELoc 0) (ECall (EName "serdes.decode"%string) (ECons EVal ENil))) (SSeq (SIf (ECall (EName "isinstance"%string) (ECons (ELoc 0) (ECons (ETuple (ECons (EName "int"%string) (ECons (EName "float"%string) ENil))) ENil))) (SSeq (SAssign (ELoc 0) (ECall (EAttr (ECall (EAttr (ECall (EName "datetime.datetime.fromtimestamp"%string) (ECons EVal (EKw "tz"%string (EName "datetime.timezone.utc"%string) ENil))) "time"%string) ENil) "replace"%string) (EKw "tzinfo"%string (EName "datetime.timezone.utc"%string) ENil))) SSkip) SSkip) (SSeq (SAssign (ELoc 1) (EIfExp (ECall (EName "isinstance"%string) (ECons (ELoc 0) (ECons (EName "str"%string) ENil))) (ECall (EName "serdes.dateparse"%string) (ECons (ELoc 0) (ECons (EName "self.t"%string) ENil))) (ELoc 0))) (SSeq (SIf (ECall (EName "isinstance"%string) (ECons (ELoc 1) (ECons (EName "datetime.datetime"%string) ENil))) (SSeq (SAssign (ELoc 1) (ECall (EAttr (ECall (EAttr (ELoc 1) "time"%string) ENil) "replace"%string) (EKw "tzinfo"%string (EAttr (ELoc 1) "tzinfo"%string) ENil))) SSkip) (SSeq (SIf (ECall (EName "isinstance"%string) (ECons (ELoc 1) (ECons (EName "datetime.date"%string) ENil))) (SSeq (SAssign (ELoc 1) (ECall (EName "self.t"%string) (EKw "tzinfo"%string (EName "datetime.timezone.utc"%string) ENil))) SSkip) SSkip) SSkip)) (SSeq (SIf (ECmp "is"%string (EAttr (ELoc 1) "__class__"%string) (EName "self.t"%string)) (SSeq (SReturn (ELoc 1)) SSkip) SSkip) (SSeq (SReturn (ECall (EName "self.t"%string) (EKw "hour"%string (EAttr (ELoc 1) "hour"%string) (EKw "minute"%string (EAttr (ELoc 1) "minute"%string) (EKw "second"%string (EAttr (ELoc 1) "second"%string) (EKw "microsecond"%string (EAttr (ELoc 1) "microsecond"%string) (EKw "tzinfo"%string (EAttr (ELoc 1) "tzinfo"%string) (EKw "fold"%string (EAttr (ELoc 1) "fold"%string) ENil)))))))) SSkip))))))).

Definition x_TimeDeltaUnmarshaller : leaf := mkLeaf "AbstractUnmarshaller"%string
  (SSkip)
  (SSeq (SIf (ECall (EName "isinstance"%string) (ECons EVal (ECons (ETuple (ECons (EName "int"%string) (ECons (EName "float"%string) ENil))) ENil))) (SSeq (SReturn (ECall (EName "self.t"%string) (EKw "seconds"%string EVal ENil))) SSkip) SSkip) (SSeq (SAssign (ELoc 0) (ECall (EName "serdes.decode"%string) (ECons EVal ENil))) (SSeq (SAssign (ELoc 1) (EIfExp (ECall (EName "isinstance"%string) (ECons (ELoc 0) (ECons (EName "str"%string) ENil))) (ECall (EName "serdes.dateparse"%string) (ECons (ELoc 0) (EKw "t"%string (EName "datetime.timedelta"%string) ENil))) (ELoc 0))) (SSeq (SIf (ECmp "is"%string (EAttr (ELoc 1) "__class__"%string) (EName "self.t"%string)) (SSeq (SReturn (ELoc 1)) SSkip) SSkip) (SSeq (SAssign (ELoc 1) (EPos (ELoc 1))) (SSeq (SReturn (ECall (EName "self.t"%string) (EKw "days"%string (EAttr (ELoc 1) "days"%string) (EKw "seconds"%string (EAttr (ELoc 1) "seconds"%string) (EKw "microseconds"%string (EAttr (ELoc 1) "microseconds"%string) ENil))))) SSkip)))))).

Definition x_UUIDUnmarshaller : leaf := mkLeaf "AbstractUnmarshaller"%string
  (SSkip)
  (SSeq (SAssign (ELoc 0) (ECall (EName "serdes.load"%string) (ECons EVal ENil))) (SSeq (SIf (ECall (EName "isinstance"%string) (ECons (ELoc 0) (ECons (EName "int"%string) ENil))) (SSeq (SReturn (ECall (EName "self.t"%string) (EKw "int"%string (ELoc 0) ENil))) SSkip) SSkip) (SSeq (SIf (ECall (EName "isinstance"%string) (ECons (ELoc 0) (ECons (EName "self.t"%string) ENil))) (SSeq (SReturn (ELoc 0)) SSkip) SSkip) (SSeq (SReturn (ECall (EName "self.t"%string) (ECons (ELoc 0) ENil))) SSkip)))).

Definition x_PatternUnmarshaller : leaf := mkLeaf "AbstractUnmarshaller"%string
  (SSkip)
  (SSeq (SAssign (ELoc 0) (ECall (EName "serdes.decode"%string) (ECons EVal ENil))) (SSeq (SReturn (ECall (EName "re.compile"%string) (ECons (ELoc 0) ENil))) SSkip)).

Definition x_CastUnmarshaller : leaf := mkLeaf "AbstractUnmarshaller"%string
  (SSeq SSuperInit (SSeq (SAssign (EName "self.caster"%string) (ECall (EName "_factory"%string) (ECons (EName "self.origin"%string) ENil))) SSkip))
  (SSeq (SAssign (ELoc 0) (ECall (EName "serdes.load"%string) (ECons EVal ENil))) (SSeq (SIf (ECall (EName "isinstance"%string) (ECons (ELoc 0) (ECons (EName "self.t"%string) ENil))) (SSeq (SReturn (ELoc 0)) SSkip) SSkip) (SSeq (SReturn (ECall (EName "self.caster"%string) (ECons (ELoc 0) ENil))) SSkip))).

Definition x_PathUnmarshaller : leaf := mkLeaf "CastUnmarshaller"%string
  (SSkip)
  (SSeq (SAssign (ELoc 0) (ECall (EName "serdes.decode"%string) (ECons EVal ENil))) (SSeq (SIf (ECall (EName "isinstance"%string) (ECons (ELoc 0) (ECons (EName "self.t"%string) ENil))) (SSeq (SReturn (ELoc 0)) SSkip) SSkip) (SSeq (SReturn (ECall (EName "self.caster"%string) (ECons (ELoc 0) ENil))) SSkip))).

Definition x_EnumUnmarshaller : leaf := mkLeaf "CastUnmarshaller"%string
  (SSkip)
  (SSeq (SIf (ECall (EName "isinstance"%string) (ECons EVal (ECons (EName "self.t"%string) ENil))) (SSeq (SReturn EVal) SSkip) SSkip) (SSeq (SSuppress (ECons (EName "ValueError"%string) (ECons (EName "TypeError"%string) ENil)) (SSeq (SReturn (ECall (EName "self.caster"%string) (ECons (ECall (EName "serdes.decode"%string) (ECons EVal ENil)) ENil))) SSkip)) (SSeq (SReturn (ECall (EName "self.caster"%string) (ECons (ECall (EName "serdes.load"%string) (ECons EVal ENil)) ENil))) SSkip))).

Definition x_LiteralUnmarshaller : leaf := mkLeaf "AbstractUnmarshaller"%string
  (SSeq SSuperInit (SSeq (SAssign (EName "self.values"%string) (ECall (EName "inspection.args"%string) (ECons (EName "t"%string) (EKw "evaluate"%string (EBool true) ENil)))) SSkip))
  (SSeq (SIf (ECmp "in"%string EVal (EName "self.values"%string)) (SSeq (SReturn EVal) SSkip) SSkip) (SSeq (SAssign (ELoc 0) (ECall (EName "serdes.decode"%string) (ECons EVal ENil))) (SSeq (SIf (ECmp "in"%string (ELoc 0) (EName "self.values"%string)) (SSeq (SReturn (ELoc 0)) SSkip) SSkip) (SSeq (SAssign (ELoc 1) (ECall (EName "serdes.load"%string) (ECons EVal ENil))) (SSeq (SIf (ECmp "in"%string (ELoc 1) (EName "self.values"%string)) (SSeq (SReturn (ELoc 1)) SSkip) SSkip) (SSeq (SRaise "ValueError"%string) SSkip)))))).

Definition expected_u : leaftable :=
  [ ("NoOpUnmarshaller"%string, x_NoOpUnmarshaller);
    ("NoneTypeUnmarshaller"%string, x_NoneTypeUnmarshaller);
    ("BytesUnmarshaller"%string, x_BytesUnmarshaller);
    ("StringUnmarshaller"%string, x_StringUnmarshaller);
    ("NumberUnmarshaller"%string, x_NumberUnmarshaller);
    ("DateUnmarshaller"%string, x_DateUnmarshaller);
    ("DateTimeUnmarshaller"%string, x_DateTimeUnmarshaller);
    ("TimeUnmarshaller"%string, x_TimeUnmarshaller);
    ("TimeDeltaUnmarshaller"%string, x_TimeDeltaUnmarshaller);
    ("UUIDUnmarshaller"%string, x_UUIDUnmarshaller);
    ("PatternUnmarshaller"%string, x_PatternUnmarshaller);
    ("CastUnmarshaller"%string, x_CastUnmarshaller);
    ("PathUnmarshaller"%string, x_PathUnmarshaller);
    ("EnumUnmarshaller"%string, x_EnumUnmarshaller);
    ("LiteralUnmarshaller"%string, x_LiteralUnmarshaller) ].

Definition expected_aliases_u : list (string * string) :=
  [ ("DecimalUnmarshaller"%string, "NumberUnmarshaller"%string); ("FractionUnmarshaller"%string, "NumberUnmarshaller"%string); ("MappingUnmarshaller"%string, "CastUnmarshaller"%string); ("IterableUnmarshaller"%string, "CastUnmarshaller"%string) ].

Definition x_NoOpMarshaller : leaf := mkLeaf "AbstractMarshaller"%string
  (SSkip)
  (SSeq (SReturn EVal) SSkip).

Definition x_NoneTypeMarshaller : leaf := mkLeaf "AbstractMarshaller"%string
  (SSkip)
  (SSeq (SIf (ECmp "is"%string EVal ENone) (SSeq (SReturn ENone) SSkip) SSkip) (SSeq (SRaise "ValueError"%string) SSkip)).

Definition x_CastMarshaller : leaf := mkLeaf "AbstractMarshaller"%string
  (SSkip)
  (SSeq (SAssign (ELoc 0) (ECall (EName "self.origin"%string) (ECons EVal ENil))) (SSeq (SReturn (ELoc 0)) SSkip)).

Definition x_ToStringMarshaller : leaf := mkLeaf "AbstractMarshaller"%string
  (SSkip)
  (SSeq (SReturn (ECall (EName "str"%string) (ECons EVal ENil))) SSkip).

Definition x_EnumMarshaller : leaf := mkLeaf "AbstractMarshaller"%string
  (SSkip)
  (SSeq (SReturn (EAttr EVal "value"%string)) SSkip).

Definition x_PatternMarshaller : leaf := mkLeaf "AbstractMarshaller"%string
  (SSkip)
  (SSeq (SReturn (EAttr EVal "pattern"%string)) SSkip).

Definition x_ToISOTimeMarshaller : leaf := mkLeaf "AbstractMarshaller"%string
  (SSkip)
  (SSeq (SReturn (ECall (EName "serdes.isoformat"%string) (ECons EVal ENil))) SSkip).

Definition x_LiteralMarshaller : leaf := mkLeaf "AbstractMarshaller"%string
  (SSeq SSuperInit (SSeq (SAssign (EName "self.values"%string) (ECall (EName "inspection.args"%string) (ECons (EName "t"%string) ENil))) SSkip))
  (SSeq (SFor 0 (EName "self.values"%string) (SSeq (SIf (EAnd (ECmp "=="%string (ELoc 0) EVal) (ECmp "is"%string (EAttr (ELoc 0) "__class__"%string) (EAttr EVal "__class__"%string))) (SSeq (SReturn (ELoc 0)) SSkip) SSkip) SSkip)) (SSeq (SRaise "ValueError"%string) SSkip)).

Definition x_MappingMarshaller : leaf := mkLeaf "AbstractMarshaller"%string
  (SSkip)
  (SSeq (SReturn (EDict (EKw "**"%string EVal ENil))) SSkip).

Definition x_IterableMarshaller : leaf := mkLeaf "AbstractMarshaller"%string
  (SSkip)
  (SSeq (SReturn (EList (ECons (EStar EVal) ENil))) SSkip).

Definition expected_m : leaftable :=
  [ ("NoOpMarshaller"%string, x_NoOpMarshaller);
    ("NoneTypeMarshaller"%string, x_NoneTypeMarshaller);
    ("CastMarshaller"%string, x_CastMarshaller);
    ("ToStringMarshaller"%string, x_ToStringMarshaller);
    ("EnumMarshaller"%string, x_EnumMarshaller);
    ("PatternMarshaller"%string, x_PatternMarshaller);
    ("ToISOTimeMarshaller"%string, x_ToISOTimeMarshaller);
    ("LiteralMarshaller"%string, x_LiteralMarshaller);
    ("MappingMarshaller"%string, x_MappingMarshaller);
    ("IterableMarshaller"%string, x_IterableMarshaller) ].

Definition expected_aliases_m : list (string * string) :=
  [ ("BytesMarshaller"%string, "NoOpMarshaller"%string); ("IntegerMarshaller"%string, "CastMarshaller"%string); ("FloatMarshaller"%string, "CastMarshaller"%string); ("StringMarshaller"%string, "ToStringMarshaller"%string); ("DecimalMarshaller"%string, "ToStringMarshaller"%string); ("FractionMarshaller"%string, "ToStringMarshaller"%string); ("UUIDMarshaller"%string, "ToStringMarshaller"%string); ("PathMarshaller"%string, "ToStringMarshaller"%string); ("DateMarshaller"%string, "ToISOTimeMarshaller"%string); ("DateTimeMarshaller"%string, "ToISOTimeMarshaller"%string); ("TimeMarshaller"%string, "ToISOTimeMarshaller"%string); ("TimeDeltaMarshaller"%string, "ToISOTimeMarshaller"%string) ].


(* the per-run table agrees: same classes in the same order, same base, same __init__, same __call__; same aliases *)
Definition leaves_agree (exp : leaftable) (al : list (string * string)) (tb : leaftable) (tal : list (string * string)) : bool :=
  table_eqb tb exp && aliases_eqb tal al.

(* readable diagnosis: (class, expected, translated) for every expected class whose translated row differs / is missing,
   and (class) rows that are not expected at all *)
Definition leaf_disagreements (exp tb : leaftable) : list (string * option leaf * option leaf) :=
  flat_map (fun '(n, x) => match lookup tb n with
                           | Some y => if leaf_eqb x y then [] else [(n, Some x, Some y)]
                           | None => [(n, Some x, None)] end) exp
  ++ flat_map (fun '(n, y) => match lookup exp n with Some _ => [] | None => [(n, None, Some y)] end) tb
  ++ (if table_eqb tb exp then [] else
      if Nat.eqb (List.length tb) (List.length exp) && forallb (fun '(n, y) => match lookup exp n with Some x => leaf_eqb x y | None => false end) tb
      then [("(order of the classes differs)", None, None)] else []).
Definition alias_disagreements (exp got : list (string * string)) : list (string * string * string) :=
  if aliases_eqb got exp then [] else
  map (fun '(a, b) => ("expected", a, b)) (filter (fun '(a, b) => negb (existsb (fun '(a', b') => String.eqb a a' && String.eqb b b') got)) exp)
  ++ map (fun '(a, b) => ("translated", a, b)) (filter (fun '(a, b) => negb (existsb (fun '(a', b') => String.eqb a a' && String.eqb b b') exp)) got).

(* ---------------------------------------------------------------- leaf kinds (unmarshal side) *)
Inductive lkind := LNoOp | LNoneType | LBytes | LString | LNumber | LDate | LDateTime | LTime | LTimeDelta | LUUID
                 | LPattern | LCast | LPath | LEnum | LLiteral.
Definition all_lkinds := [LNoOp; LNoneType; LBytes; LString; LNumber; LDate; LDateTime; LTime; LTimeDelta; LUUID;
                          LPattern; LCast; LPath; LEnum; LLiteral].
Definition class_name (k : lkind) : string :=
  match k with
  | LNoOp => "NoOpUnmarshaller" | LNoneType => "NoneTypeUnmarshaller" | LBytes => "BytesUnmarshaller"
  | LString => "StringUnmarshaller" | LNumber => "NumberUnmarshaller" | LDate => "DateUnmarshaller"
  | LDateTime => "DateTimeUnmarshaller" | LTime => "TimeUnmarshaller" | LTimeDelta => "TimeDeltaUnmarshaller"
  | LUUID => "UUIDUnmarshaller" | LPattern => "PatternUnmarshaller" | LCast => "CastUnmarshaller"
  | LPath => "PathUnmarshaller" | LEnum => "EnumUnmarshaller" | LLiteral => "LiteralUnmarshaller" end.
Definition lexpected (k : lkind) : leaf :=
  match k with
  | LNoOp => x_NoOpUnmarshaller | LNoneType => x_NoneTypeUnmarshaller | LBytes => x_BytesUnmarshaller
  | LString => x_StringUnmarshaller | LNumber => x_NumberUnmarshaller | LDate => x_DateUnmarshaller
  | LDateTime => x_DateTimeUnmarshaller | LTime => x_TimeUnmarshaller | LTimeDelta => x_TimeDeltaUnmarshaller
  | LUUID => x_UUIDUnmarshaller | LPattern => x_PatternUnmarshaller | LCast => x_CastUnmarshaller
  | LPath => x_PathUnmarshaller | LEnum => x_EnumUnmarshaller | LLiteral => x_LiteralUnmarshaller end.
(* the head Model/Serdes.v (C14) gives the class; DecimalUnmarshaller / FractionUnmarshaller are NumberUnmarshaller,
   MappingUnmarshaller / IterableUnmarshaller are CastUnmarshaller (expected_aliases_u) *)
Definition head_of (k : lkind) (vals : list pv) : head :=
  match k with
  | LNoOp => HNoOp | LNoneType => HNoneType | LBytes => HBytes | LString => HString | LNumber => HNumber
  | LDate => HDate | LDateTime => HDateTime | LTime => HTime | LTimeDelta => HTimeDelta | LUUID => HUUID
  | LPattern => HPattern | LCast => HCast | LPath => HPath | LEnum => HEnum | LLiteral => HLiteral vals end.
(* self.t of the class is (bounded by) a text class: isinstance(val, self.t) is NOT false on text input *)
Definition texty (k : lkind) : bool := match k with LBytes | LString => true | _ => false end.
(* what the source gives for a kind: the translated row, the expected program when the class is missing *)
Definition src_leaf (tb : leaftable) (k : lkind) : leaf :=
  match lookup tb (class_name k) with Some x => x | None => mkLeaf "" SSkip SSkip end.

(* ---------------------------------------------------------------- the first step, read off the program *)
Inductive first :=
| FIdentity                       (* return val *)
| FOpaque                         (* looks at the input by other means before any decode / load *)
| FDecode | FLoad                 (* x = serdes.decode(val) / serdes.load(val) *)
| FDecodeLoad (kinds : list string)   (* with suppress(kinds): return caster(decode(val));  return caster(load(val)) *)
| FLiteral.                       (* raw / decoded / loaded membership tests *)

Definition call1 (f : string) (e : lexpr) : option lexpr :=
  match e with ECall (EName g) (ECons a ENil) => if String.eqb f g then Some a else None | _ => None end.
Definition on_input (f : string) (e : lexpr) : bool :=
  match call1 f e with Some EVal => true | _ => false end.

Definition nontext_names := ["int"; "float"; "datetime.date"; "datetime.datetime"; "datetime.time"; "datetime.timedelta"].
Definition nontext_cls (tt : bool) (c : lexpr) : bool :=
  match c with
  | EName n => if String.eqb n "self.t" then negb tt else existsb (String.eqb n) nontext_names
  | _ => false end.
Fixpoint all_items (p : lexpr -> bool) (l : lexpr) : bool :=
  match l with ENil => true | ECons e r => p e && all_items p r | _ => false end.
Definition nontext_clsset (tt : bool) (c : lexpr) : bool :=
  match c with ETuple items => all_items (nontext_cls tt) items | _ => nontext_cls tt c end.
(* a condition that is False on every text carrier, without running anything of the routine *)
Fixpoint raw_test (tt : bool) (c : lexpr) : bool :=
  match c with
  | ECall (EName f) (ECons EVal (ECons cs ENil)) => String.eqb f "isinstance" && nontext_clsset tt cs
  | EAnd a _ => raw_test tt a
  | _ => false end.

Fixpoint names_of (l : lexpr) : list string :=
  match l with ECons (EName n) r => n :: names_of r | _ => [] end.

Fixpoint scan (tt : bool) (s : lstmt) : first :=
  match s with
  | SSeq (SIf c _ SSkip) rest => if raw_test tt c then scan tt rest else FOpaque
  | SSeq (SAssign (ELoc _) e) _ =>
      if on_input "serdes.decode" e then FDecode else if on_input "serdes.load" e then FLoad else FOpaque
  | SSeq (SReturn EVal) SSkip => FIdentity
  | SSeq (SSuppress ks (SSeq (SReturn d) SSkip)) (SSeq (SReturn l) SSkip) =>
      match call1 "self.caster" d, call1 "self.caster" l with
      | Some d', Some l' => if on_input "serdes.decode" d' && on_input "serdes.load" l' then FDecodeLoad (names_of ks) else FOpaque
      | _, _ => FOpaque end
  | _ => FOpaque end.

Definition literal_init : lstmt := linit x_LiteralUnmarshaller.
Definition literal_body : lstmt := lcall x_LiteralUnmarshaller.
(* the Literal reading needs the whole body (three membership tests against self.values, nothing else) and the __init__
   that makes self.values the evaluated arguments of the annotation *)
Definition first_of (tt : bool) (x : leaf) : first :=
  if lstmt_eqb (lcall x) literal_body then (if lstmt_eqb (linit x) literal_init then FLiteral else FOpaque)
  else scan tt (lcall x).

(* what Model/Serdes.v says *)
Definition model_first (h : head) : option first :=
  match h with
  | HNoOp => Some FIdentity
  | HBytes => Some FOpaque
  | HEnum => Some (FDecodeLoad ["ValueError"; "TypeError"])
  | HLiteral _ => Some FLiteral
  | HUnion _ => None
  | _ => if decode_first h then Some FDecode else if load_first h then Some FLoad else None end.
Definition first_eqb (a b : first) : bool :=
  match a, b with
  | FIdentity, FIdentity | FOpaque, FOpaque | FDecode, FDecode | FLoad, FLoad | FLiteral, FLiteral => true
  | FDecodeLoad k, FDecodeLoad k' => if list_eq_dec string_dec k k' then true else false
  | _, _ => false end.
Definition first_disagreements (tb : leaftable) : list (string * first * option first) :=
  flat_map (fun k => let f := first_of (texty k) (src_leaf tb k) in
                     match model_first (head_of k []) with
                     | Some g => if first_eqb f g then [] else [(class_name k, f, Some g)]
                     | None => [(class_name k, f, None)] end) all_lkinds.

(* ---------------------------------------------------------------- entry_gen, driven by the reading *)
(* the exception kinds of Model/Serdes.v under a Python class name (UnicodeDecodeError is a ValueError) *)
Definition under (cls : string) (e : exn) : bool :=
  if String.eqb cls "ValueError" then match e with EValue | EUnicode => true | _ => false end
  else if String.eqb cls "TypeError" then match e with EType => true | _ => false end
  else false.
Definition sup_of (ks : list string) (e : exn) : bool := existsb (fun k => under k e) ks.

Section Entry.
Variable rt : Runtime.
Variable rest whole : head -> pv -> res pv.
Variable fixd : bool.
Definition lentry (h : head) (f : first) (v : pv) : res pv :=
  match f with
  | FIdentity => Ok v
  | FOpaque => whole h v
  | FDecode => match v with PText k p => bind (decode_text rt k p) (fun s => rest h (PStr s)) | _ => whole h v end
  | FLoad => bind (load_gen rt fixd v) (rest h)
  | FDecodeLoad ks =>
      match v with
      | PText k p =>
          let second := bind (load_gen rt fixd v) (rest h) in
          match decode_text rt k p with
          | Ok s => match rest h (PStr s) with
                    | Ok x => Ok x
                    | Raise e => if sup_of ks e then second else Raise e end
          | Raise e => if sup_of ks e then second else Raise e end
      | _ => whole h v end
  | FLiteral =>
      match h with
      | HLiteral vals =>
          if in_values v vals then Ok v
          else bind (decode rt v) (fun t =>
                 if in_values t vals then Ok t
                 else bind (load_gen rt fixd v) (fun d => if in_values d vals then Ok d else Raise EValue))
      | _ => whole h v end
  end.
End Entry.

(* ---------------------------------------------------------------- the per-kind description *)
Inductive who := WVal | WLoc (n : nat) | WExpr.
Definition who_of (e : lexpr) : who := match e with EVal => WVal | ELoc n => WLoc n | _ => WExpr end.
Definition who_eqb (a b : who) : bool :=
  match a, b with WVal, WVal | WExpr, WExpr => true | WLoc n, WLoc m => Nat.eqb n m | _, _ => false end.
Inductive step :=
| StShortcut (w : who) (cls excl : list string)   (* if isinstance(w, cls) [and not isinstance(w, excl)]: return w *)
| StSerdes (f : string) (w : who) (t : list string)   (* serdes.f(w[, t]) *)
| StMember (w : who)                              (* if w in self.values: return w *)
| StCall (f : string) (w : who)                   (* self.t(..) self.caster(..) self.origin(..) re.compile(..) str(..), the displays
                                                     [*w] / {**w}: first argument *)
| StReturn (w : who)                              (* return <a name> outside an isinstance short-cut (the exact-class return
                                                     `if x.__class__ is self.t: return x` of the temporal routines included) *)
| StReturnNone
| StReturnAttr (w : who) (a : string)             (* return w.a *)
| StRaise (k : string)
| StSuppress (ks : list string)
| StLoop.                                         (* for m in self.values: *)

Definition cls_names (c : lexpr) : list string :=
  match c with
  | EName n => [n]
  | ETuple items => (fix go (l : lexpr) : list string := match l with ECons (EName n) r => n :: go r | _ => [] end) items
  | _ => [] end.
Definition first_arg (args : lexpr) : who :=
  match args with ECons (EStar e) _ => who_of e | ECons e _ => who_of e | EKw _ e _ => who_of e | _ => WExpr end.
Definition rest_names (args : lexpr) : list string :=
  match args with
  | ECons _ (ECons (EName n) ENil) => [n]
  | ECons _ (EKw _ (EName n) ENil) => [n]
  | _ => [] end.
Definition strip_serdes (f : string) : option string :=
  if String.prefix "serdes." f then Some (String.substring 7 (String.length f - 7) f) else None.
Definition step_calls := ["self.t"; "self.caster"; "self.origin"; "re.compile"; "str"].

(* calls of interest in evaluation order (arguments before the call) *)
Fixpoint esteps (e : lexpr) : list step :=
  match e with
  | ECall f args =>
      esteps f ++ esteps args ++
      match f with
      | EName n => match strip_serdes n with
                   | Some g => [StSerdes g (first_arg args) (rest_names args)]
                   | None => if existsb (String.eqb n) step_calls then [StCall n (first_arg args)] else [] end
      | _ => [] end
  | EAttr x _ | EStar x | ETuple x | ENot x | EPos x => esteps x
  | EList x => esteps x ++ [StCall "[..]" (first_arg x)]
  | EDict x => esteps x ++ [StCall "{..}" (first_arg x)]
  | ECons a r | EKw _ a r | ECmp _ a r | EAnd a r | EOr a r => esteps a ++ esteps r
  | EIfExp c a b => esteps c ++ esteps a ++ esteps b
  | _ => [] end.

Definition isinstance_of (c : lexpr) : option (who * list string) :=
  match c with
  | ECall (EName f) (ECons x (ECons cs ENil)) => if String.eqb f "isinstance" then Some (who_of x, cls_names cs) else None
  | _ => None end.
(* `if isinstance(w, C) [and not isinstance(w, D)]: return w` *)
Definition shortcut_of (c : lexpr) (body : lstmt) : option step :=
  match body with
  | SSeq (SReturn r) SSkip =>
      match c with
      | EAnd a (ENot b) =>
          match isinstance_of a, isinstance_of b with
          | Some (w, cs), Some (w', ds) => if who_eqb w (who_of r) && who_eqb w w' && negb (who_eqb w WExpr) then Some (StShortcut w cs ds) else None
          | _, _ => None end
      | ECmp op x (EName vs) =>
          if String.eqb op "in" && String.eqb vs "self.values" && who_eqb (who_of x) (who_of r) && negb (who_eqb (who_of x) WExpr)
          then Some (StMember (who_of x)) else None
      | _ => match isinstance_of c with
             | Some (w, cs) => if who_eqb w (who_of r) && negb (who_eqb w WExpr) then Some (StShortcut w cs []) else None
             | None => None end
      end
  | _ => None end.

Fixpoint steps (s : lstmt) : list step :=
  match s with
  | SSkip | SSuperInit => []
  | SSeq a b => steps a ++ steps b
  | SAssign _ e => esteps e
  | SIf c a b => match shortcut_of c a with
                 | Some st => st :: steps b
                 | None => esteps c ++ steps a ++ steps b end
  | SReturn e => esteps e ++
                 match e with
                 | EVal | ELoc _ => [StReturn (who_of e)]
                 | ENone => [StReturnNone]
                 | EAttr x a => match who_of x with WExpr => [] | w => [StReturnAttr w a] end
                 | _ => [] end
  | SRaise k => [StRaise k]
  | SSuppress ks b => StSuppress (names_of ks) :: steps b
  | SFor _ it b => StLoop :: esteps it ++ steps b
  end.

(* hand-written, next to the definitions of Model/Scalars.v (unm_number, unm_str, unm_bytes, unm_date, unm_datetime,
   unm_time, unm_timedelta, unm_uuid, unm_path, unm_enum, unm_pattern, unm_none, unm_literal) and of Model/Serdes.v *)
Definition temporal := ["datetime.date"; "datetime.time"; "datetime.timedelta"].
Definition described_u (k : lkind) : list step :=
  match k with
  | LNoOp => [StReturn WVal]
  | LNoneType => [StSerdes "decode" WVal []; StRaise "ValueError"; StReturnNone]
  | LBytes => [StShortcut WVal ["self.t"] []; StSerdes "isoformat" WVal []; StCall "str" WVal; StCall "self.t" WExpr]
  | LString => [StSerdes "decode" WVal []; StShortcut (WLoc 0) ["self.t"] []; StSerdes "isoformat" WVal []; StCall "self.t" (WLoc 0)]
  | LNumber => [StSerdes "decode" WVal []; StShortcut (WLoc 0) ["self.t"] []; StSerdes "unixtime" WVal [];
                StCall "self.t" (WLoc 0); StCall "self.t" (WLoc 0); StCall "self.t" (WLoc 0)]
  | LDate => [StShortcut WVal ["self.t"] ["datetime.datetime"]; StSerdes "decode" WVal [];
              StSerdes "dateparse" (WLoc 0) ["self.t"]; StReturn (WLoc 1); StCall "self.t" WExpr]
  | LDateTime => [StShortcut WVal ["self.t"] []; StSerdes "decode" WVal []; StSerdes "dateparse" (WLoc 0) ["self.t"];
                  StReturn (WLoc 1); StCall "self.t" WExpr; StCall "self.t" WExpr]
  | LTime => [StShortcut WVal ["self.t"] []; StSerdes "decode" WVal []; StSerdes "dateparse" (WLoc 0) ["self.t"];
              StCall "self.t" WExpr; StReturn (WLoc 1); StCall "self.t" WExpr]
  | LTimeDelta => [StCall "self.t" WVal; StSerdes "decode" WVal []; StSerdes "dateparse" (WLoc 0) ["datetime.timedelta"];
                   StReturn (WLoc 1); StCall "self.t" WExpr]
  | LUUID => [StSerdes "load" WVal []; StCall "self.t" (WLoc 0); StShortcut (WLoc 0) ["self.t"] []; StCall "self.t" (WLoc 0)]
  | LPattern => [StSerdes "decode" WVal []; StCall "re.compile" (WLoc 0)]
  | LCast => [StSerdes "load" WVal []; StShortcut (WLoc 0) ["self.t"] []; StCall "self.caster" (WLoc 0)]
  | LPath => [StSerdes "decode" WVal []; StShortcut (WLoc 0) ["self.t"] []; StCall "self.caster" (WLoc 0)]
  | LEnum => [StShortcut WVal ["self.t"] []; StSuppress ["ValueError"; "TypeError"]; StSerdes "decode" WVal [];
              StCall "self.caster" WExpr; StSerdes "load" WVal []; StCall "self.caster" WExpr]
  | LLiteral => [StMember WVal; StSerdes "decode" WVal []; StMember (WLoc 0); StSerdes "load" WVal []; StMember (WLoc 1);
                 StRaise "ValueError"]
  end.

(* compact diagnosis: (class, description of the expected body, description of the translated body) where the rows differ *)
Definition step_disagreements (exp tb : leaftable) : list (string * list step * option (list step)) :=
  flat_map (fun '(n, x) => match lookup tb n with
                           | Some y => if leaf_eqb x y then [] else [(n, steps (lcall x), Some (steps (lcall y)))]
                           | None => [(n, steps (lcall x), None)] end) exp.

(* the first serdes.decode(val) / serdes.load(val) of a description *)
Definition first_serdes (l : list step) : option string :=
  match filter (fun s => match s with StSerdes f WVal _ => orb (String.eqb f "decode") (String.eqb f "load") | _ => false end) l with
  | StSerdes f _ _ :: _ => Some f | _ => None end.

(* ---------------------------------------------------------------- marshal side *)
Inductive mkind := MNoOp | MNoneType | MCast | MToString | MEnum | MPattern | MToISOTime | MLiteral | MMapping | MIterable.
Definition all_mkinds := [MNoOp; MNoneType; MCast; MToString; MEnum; MPattern; MToISOTime; MLiteral; MMapping; MIterable].
Definition mclass_name (k : mkind) : string :=
  match k with
  | MNoOp => "NoOpMarshaller" | MNoneType => "NoneTypeMarshaller" | MCast => "CastMarshaller"
  | MToString => "ToStringMarshaller" | MEnum => "EnumMarshaller" | MPattern => "PatternMarshaller"
  | MToISOTime => "ToISOTimeMarshaller" | MLiteral => "LiteralMarshaller" | MMapping => "MappingMarshaller"
  | MIterable => "IterableMarshaller" end.
Definition mexpected (k : mkind) : leaf :=
  match k with
  | MNoOp => x_NoOpMarshaller | MNoneType => x_NoneTypeMarshaller | MCast => x_CastMarshaller
  | MToString => x_ToStringMarshaller | MEnum => x_EnumMarshaller | MPattern => x_PatternMarshaller
  | MToISOTime => x_ToISOTimeMarshaller | MLiteral => x_LiteralMarshaller | MMapping => x_MappingMarshaller
  | MIterable => x_IterableMarshaller end.
Definition msrc_leaf (tb : leaftable) (k : mkind) : leaf :=
  match lookup tb (mclass_name k) with Some x => x | None => mkLeaf "" SSkip SSkip end.
(* the body hands the input back unchanged on every path that returns *)
Definition is_identity (x : leaf) : bool := lstmt_eqb (lcall x) (SSeq (SReturn EVal) SSkip).
Definition described_m (k : mkind) : list step :=
  match k with
  | MNoOp => [StReturn WVal]
  | MNoneType => [StReturnNone; StRaise "ValueError"]
  | MCast => [StCall "self.origin" WVal; StReturn (WLoc 0)]
  | MToString => [StCall "str" WVal]
  | MEnum => [StReturnAttr WVal "value"]
  | MPattern => [StReturnAttr WVal "pattern"]
  | MToISOTime => [StSerdes "isoformat" WVal []]
  | MLiteral => [StLoop; StReturn (WLoc 0); StRaise "ValueError"]
  | MMapping => [StCall "{..}" WVal]
  | MIterable => [StCall "[..]" WVal]
  end.
