(* Model of the text-handling front of typelib (property C14):
     src/typelib/serdes.py             decode, load, strload
     src/typelib/py/inspection.py      istexttype
     src/typelib/unmarshals/routines.py  the first step of every routine's __call__
   Definitions only; proofs live in Proofs/SerdesLemmas.v.

   The model mirrors the REPAIRED code (proposed_fixes/C14-*.diff): strload first
   normalises bytearray / memoryview carriers to bytes, the memoised parser DECODES the
   carrier and hands the text to the JSON decoder and then to literal_eval
   (C14-strload-decode-first.diff).  The pinned code (no normalisation, JSON decoder on
   the raw carrier) is the instance [fixd := false]; [strload_rawjson] is the code between
   the two repairs (carriers normalised, JSON decoder still on the bytes); both are used
   for refutation theorems only. *)
From Coq Require Import List ZArith NArith Bool.
Import ListNotations.

(* ---------------------------------------------------------------- universes *)

(* str = list of code points, bytes = list of byte values *)
Definition str := list N.
Definition bytes := list N.

(* exception kinds (by MRO).  EUnicode = UnicodeDecodeError (a ValueError),
   EValue = every other ValueError (incl. JSONDecodeError), EUnmodelled = a runtime
   table lookup that found no entry (correspondence runs only; the implementation
   can never show it, so it always counts as a mismatch). *)
Inductive exn := EValue | EUnicode | EType | ESyntax | EAttribute
               | ERecursion | EMemory | EOther | EUnmodelled.
Inductive res (A : Type) := Ok (a : A) | Raise (e : exn).
Arguments Ok {A}. Arguments Raise {A}.
Definition bind {A B} (r : res A) (f : A -> res B) : res B :=
  match r with Ok a => f a | Raise e => Raise e end.

(* the five carriers of text *)
Inductive ckind := CStr | CBytes | CBytearray | CMemviewRO | CMemviewRW.

(* Python values as far as this layer looks at them.  A float is m * 2^e with m odd
   (or PFloatS: 0 = -0.0, 1 = inf, 2 = -inf, 3 = nan; +0.0 is PFloat 0 0).
   PText k p: a text carrier of kind k around payload p (code points for CStr, byte
   values otherwise).  POther: any other object, by an interned identity. *)
Inductive pv :=
| PNone | PBool (b : bool) | PInt (z : Z) | PFloat (m e : Z) | PFloatS (n : N)
| PText (k : ckind) (p : list N)
| PList (l : list pv) | PTuple (l : list pv) | PSet (l : list pv)
| PDict (l : list (pv * pv))
| POther (id : N).
Notation PStr s := (PText CStr s).

(* ---------------------------------------------------------------- runtime *)

(* What is NOT typelib: the interpreter's UTF-8 codec, the JSON decoder typelib's compat
   layer selected (orjson on this image), ast.literal_eval, and (for the statements
   only) s.encode(), json.dumps, repr. *)
Record Runtime := {
  utf8_encode    : str -> bytes;
  utf8_decode    : bytes -> res str;
  json_loads_str : str -> res pv;
  json_loads_bin : bytes -> res pv;          (* the decoder on a byte string: only the code BEFORE
                                                C14-strload-decode-first.diff calls it (strload_body_raw) *)
  literal_eval   : str -> res pv;
  json_dumps     : pv -> str;
  py_repr        : pv -> str
}.

(* ValueError and subclasses *)
Definition is_value_error (e : exn) : bool :=
  match e with EValue | EUnicode => true | _ => false end.
(* around ast.literal_eval, repaired code:
     contextlib.suppress(ValueError, TypeError, SyntaxError, MemoryError, RecursionError)
   (the five kinds literal_eval is documented to raise on malformed input);
   the pinned code suppresses the first three only. *)
Definition literal_suppressed (e : exn) : bool :=
  match e with EValue | EUnicode | EType | ESyntax | EMemory | ERecursion => true | _ => false end.
Definition literal_suppressed_pinned (e : exn) : bool :=
  match e with EValue | EUnicode | EType | ESyntax => true | _ => false end.
(* UnionUnmarshaller on the pinned tree: suppress(ValueError, TypeError, SyntaxError, AttributeError).
   The set is a PARAMETER of the model (sup, below): it is measured on the live code on every run
   and no C14 theorem depends on it. *)
Definition union_suppressed_pinned (e : exn) : bool :=
  match e with EValue | EUnicode | EType | ESyntax | EAttribute => true | _ => false end.

(* a str that s.encode() accepts: scalar values only (no surrogates) *)
Definition scalar_cp (c : N) : bool :=
  (N.ltb c 55296 || N.ltb 57343 c)%N && N.ltb c 1114112.
Definition encodable (s : str) : bool := forallb scalar_cp s.

Record RuntimeLaws (rt : Runtime) : Prop := {
  (* bytes.decode('utf-8') inverts str.encode() *)
  utf8_rt : forall s, encodable s = true -> utf8_decode rt (utf8_encode rt s) = Ok s;
  (* on text the JSON decoder raises nothing but its ValueError subclass *)
  json_errors_value : forall s e, json_loads_str rt s = Raise e -> is_value_error e = true;
  (* ast.literal_eval: "It can raise ValueError, TypeError, SyntaxError, MemoryError and
     RecursionError depending on the malformed input" (CPython documentation) *)
  literal_errors_doc : forall s e, literal_eval rt s = Raise e -> literal_suppressed e = true
}.

(* ---------------------------------------------------------------- serdes *)

Section Serdes.
Variable rt : Runtime.

Definition is_bin (k : ckind) : bool := match k with CStr => false | _ => true end.

(* inspection.istexttype(val.__class__): str, bytes, bytearray, memoryview *)
Definition is_text (v : pv) : bool := match v with PText _ _ => true | _ => false end.

(* serdes.decode:
     val = val.tobytes() if isinstance(val, memoryview) else val
     if isinstance(val, (bytes, bytearray)): return val.decode("utf-8")
     return val *)
Definition tobytes (k : ckind) : ckind :=
  match k with CMemviewRO | CMemviewRW => CBytes | _ => k end.
Definition decode_text (k : ckind) (p : list N) : res str :=
  match tobytes k with
  | CBytes | CBytearray => utf8_decode rt p
  | _ => Ok p
  end.
Definition decode (v : pv) : res pv :=
  match v with
  | PText k p => bind (decode_text k p) (fun s => Ok (PStr s))
  | _ => Ok v
  end.

(* hash(val), as functools.lru_cache computes it for its key *)
Definition hash_check (k : ckind) : res unit :=
  match k with
  | CBytearray => Raise EType        (* unhashable type: 'bytearray' *)
  | CMemviewRW => Raise EValue       (* cannot hash writable memoryview object *)
  | _ => Ok tt
  end.

(* strload, repaired: if isinstance(val, (bytearray, memoryview)): val = bytes(val) *)
Definition normalise (k : ckind) : ckind :=
  match k with CBytearray | CMemviewRO | CMemviewRW => CBytes | _ => k end.

Definition json_loads (k : ckind) (p : list N) : res pv :=
  match k with CStr => json_loads_str rt p | _ => json_loads_bin rt p end.

(* what follows the JSON attempt:
     with suppress(ValueError, TypeError, SyntaxError[, MemoryError, RecursionError]): return ast.literal_eval(decoded)
     return decoded *)
Definition literal_step (fixd : bool) (s : str) : res pv :=
  match literal_eval rt s with
  | Ok r => Ok r
  | Raise e' =>
      if (if fixd then literal_suppressed e' else literal_suppressed_pinned e')
      then Ok (PStr s) else Raise e'
  end.

(* the memoised body BEFORE C14-strload-decode-first.diff: the JSON decoder is handed the carrier itself
     with suppress(ValueError): return json.loads(val)
     decoded = decode(val)
     ... literal_eval(decoded) ... *)
Definition strload_body_raw (fixd : bool) (k : ckind) (p : list N) : res pv :=
  match json_loads k p with
  | Ok r => Ok r
  | Raise e => if is_value_error e then bind (decode_text k p) (literal_step fixd) else Raise e
  end.

(* the memoised body, repaired:
     decoded = decode(val)
     with suppress(ValueError): return compat.json.loads(decoded)
     with suppress(ValueError, TypeError, SyntaxError, MemoryError, RecursionError): return ast.literal_eval(decoded)
     return decoded *)
Definition strload_body_dec (k : ckind) (p : list N) : res pv :=
  bind (decode_text k p) (fun s =>
    match json_loads_str rt s with
    | Ok r => Ok r
    | Raise e => if is_value_error e then literal_step true s else Raise e
    end).

Definition strload_body (fixd : bool) (k : ckind) (p : list N) : res pv :=
  if fixd then strload_body_dec k p else strload_body_raw false k p.

(* fixd = true: the repaired strload; fixd = false: the pinned one (key = raw input).
   Returning a fresh copy of the memoised value is invisible at this level (values). *)
Definition strload_gen (fixd : bool) (k : ckind) (p : list N) : res pv :=
  let k' := if fixd then normalise k else k in
  bind (hash_check k') (fun _ => strload_body fixd k' p).

(* load: strload(val) if istexttype(val.__class__) else val *)
Definition load_gen (fixd : bool) (v : pv) : res pv :=
  match v with PText k p => strload_gen fixd k p | _ => Ok v end.

Definition strload := strload_gen true.
Definition load := load_gen true.

(* the code between C14-strload-carriers.diff and C14-strload-decode-first.diff *)
Definition strload_rawjson (k : ckind) (p : list N) : res pv :=
  bind (hash_check (normalise k)) (fun _ => strload_body_raw true (normalise k) p).
Definition load_rawjson (v : pv) : res pv :=
  match v with PText k p => strload_rawjson k p | _ => Ok v end.

(* the five carriers of a str s *)
Definition carrier (k : ckind) (s : str) : pv :=
  match k with CStr => PStr s | _ => PText k (utf8_encode rt s) end.

(* ---------------------------------------------------------------- routine heads *)

(* Python's == between values, as far as Literal membership (val in self.values) needs it:
   bool/int/float compare numerically, text of the same family by payload (str never
   equals a bytes-like; bytes == bytearray == memoryview on equal content). *)
Definition num_of (v : pv) : option (Z * Z) :=     (* m * 2^e, e >= 0 normalised away *)
  match v with
  | PBool b => Some (if b then 1%Z else 0%Z, 0%Z)
  | PInt z => Some (z, 0%Z)
  | PFloat m e => Some (m, e)
  | PFloatS N0 => Some (0%Z, 0%Z)
  | _ => None
  end.
Definition num_eq (a b : Z * Z) : bool :=
  let '(m1, e1) := a in let '(m2, e2) := b in
  let e := Z.min e1 e2 in
  Z.eqb (m1 * 2 ^ (e1 - e))%Z (m2 * 2 ^ (e2 - e))%Z.
Definition list_N_eqb (a b : list N) : bool := if list_eq_dec N.eq_dec a b then true else false.
Definition scalar_eq (a b : pv) : bool :=
  match num_of a, num_of b with
  | Some x, Some y => num_eq x y
  | _, _ =>
    match a, b with
    | PNone, PNone => true
    | PText CStr p, PText CStr q => list_N_eqb p q
    | PText CStr _, PText _ _ | PText _ _, PText CStr _ => false
    | PText _ p, PText _ q => list_N_eqb p q
    | PFloatS n, PFloatS m => N.eqb n m && negb (N.eqb n 3)
    | POther i, POther j => N.eqb i j
    | _, _ => false
    end
  end.
(* val in self.values, for scalar literal values (containers are never equal to them) *)
Definition in_values (v : pv) (vals : list pv) : bool := existsb (scalar_eq v) vals.

(* The routine classes of unmarshals/routines.py by their first step.
   decode first : NoneType String Number(+Decimal,Fraction) Date DateTime Time TimeDelta Pattern Path
   load first   : UUID Cast(bare Mapping, bare Iterable) SubscriptedMapping
                  SubscriptedIterable SubscriptedIterator FixedTuple StructuredType
   Enum         : caster(decode(val)); on ValueError / TypeError caster(load(val))
   Literal      : raw membership test, then load, then membership test
   Union        : each member routine in turn on the raw input
   NoOp         : the input itself;  Bytes: isinstance test first (bytes-like target). *)
Inductive head :=
| HNoOp | HBytes
| HNoneType | HString | HNumber | HDate | HDateTime | HTime | HTimeDelta | HPattern | HPath
| HUUID | HCast | HSubMapping | HSubIterable | HSubIterator | HFixedTuple | HStructured
| HEnum
| HLiteral (vals : list pv)
| HUnion (members : list head).

Definition decode_first (h : head) : bool :=
  match h with
  | HNoneType | HString | HNumber | HDate | HDateTime | HTime | HTimeDelta | HPattern | HPath => true
  | _ => false end.
(* EnumUnmarshaller: contextlib.suppress(ValueError, TypeError) around caster(decode(val)) *)
Definition enum_suppressed (e : exn) : bool :=
  match e with EValue | EUnicode | EType => true | _ => false end.
Definition load_first (h : head) : bool :=
  match h with
  | HUUID | HCast | HSubMapping | HSubIterable | HSubIterator | HFixedTuple | HStructured => true
  | _ => false end.

(* rest h d    : the remainder of the routine's __call__ as a function of the value the
                 first step produced.  For text inputs every test the remainder makes on the
                 raw input (isinstance(val, self.t / int / float / date / time / timedelta))
                 is false, and the load-first routines never look at the raw input again.
   whole h v   : the whole __call__ on an input this layer does not look into
                 (non-text input of a decode-first routine; the Bytes routine). *)
Variable rest : head -> pv -> res pv.
Variable whole : head -> pv -> res pv.
(* sup e: UnionUnmarshaller goes on to the next member when a member raises kind e *)
Variable sup : exn -> bool.

Section Entry.
Variable fixd : bool.

Fixpoint entry_gen (h : head) (v : pv) {struct h} : res pv :=
  match h with
  | HNoOp => Ok v
  | HBytes => whole h v
  | HNoneType | HString | HNumber | HDate | HDateTime | HTime | HTimeDelta | HPattern | HPath =>
      match v with
      | PText k p => bind (decode_text k p) (fun s => rest h (PStr s))
      | _ => whole h v
      end
  | HEnum =>
      (* with suppress(ValueError, TypeError): return self.caster(serdes.decode(val))
         return self.caster(serdes.load(val))            -- rest HEnum = self.caster *)
      match v with
      | PText k p =>
          let second := bind (load_gen fixd v) (rest h) in
          match decode_text k p with
          | Ok s => match rest h (PStr s) with
                    | Ok x => Ok x
                    | Raise e => if enum_suppressed e then second else Raise e
                    end
          | Raise e => if enum_suppressed e then second else Raise e
          end
      | _ => whole h v
      end
  | HUUID | HCast | HSubMapping | HSubIterable | HSubIterator | HFixedTuple | HStructured =>
      bind (load_gen fixd v) (rest h)
  | HLiteral vals =>
      (* if val in self.values: return val
         text = serdes.decode(val);  if text in self.values: return text
         decoded = serdes.load(val); if decoded in self.values: return decoded;  raise ValueError *)
      if in_values v vals then Ok v
      else bind (decode v) (fun t =>
             if in_values t vals then Ok t
             else bind (load_gen fixd v) (fun d => if in_values d vals then Ok d else Raise EValue))
  | HUnion ms =>
      (fix try (l : list head) : res pv :=
         match l with
         | [] => Raise EValue
         | m :: r =>
             match entry_gen m v with
             | Ok x => Ok x
             | Raise e => if sup e then try r else Raise e
             end
         end) ms
  end.
End Entry.

Definition entry := entry_gen true.
Definition entry_pinned := entry_gen false.

(* ---------------------------------------------------------------- guard of C14 *)

Definition no_bin_value (v : pv) : bool :=
  match v with PText CStr _ => true | PText _ _ => false | _ => true end.

(* c14_guard h: the targets the property speaks about ("T without bytes-like members"), as far as
   the routine head shows it.  Excluded: NoOp (Any/object: returns the carrier itself), Bytes
   (bytes-like target), a Literal with a bytes-like member; a Union is judged member by member. *)
Fixpoint c14_guard (h : head) {struct h} : bool :=
  match h with
  | HNoOp | HBytes => false
  | HLiteral vals => forallb no_bin_value vals
  | HUnion ms => (fix all (l : list head) : bool :=
                    match l with [] => true | m :: r => c14_guard m && all r end) ms
  | _ => true
  end.

End Serdes.

(* The full statement, for a given version of the code (fixd): every target without bytes-like
   members, every encodable s, every carrier.  It HOLDS for the repaired code and is false without
   the strload repair (Proofs/SerdesLemmas.v: full_holds, full_pinned_refuted). *)
Definition C14_full (fixd : bool) : Prop :=
  forall rt, RuntimeLaws rt -> forall rest whole sup h k s,
    c14_guard h = true -> encodable s = true ->
    entry_gen rt rest whole sup fixd h (carrier rt k s) = entry_gen rt rest whole sup fixd h (PStr s).
