(* Model of src/typelib/py/classes.py: slotted / wrap / build, the module-global
   re-entrancy guard _stack, and -- as an explicit contract function -- the CPython
   rules of type.__new__ that wrap relies on (type_new).
   Definitions only; proofs live in Proofs/SlottedLemmas.v.

   The model is parameterised by a `variant` so that the code as pinned (three defects)
   and the code as repaired (proposed_fixes/C19-*.diff) are both executable:
     v_release          try/finally + _stack.discard(key)   (pinned: _stack.clear() on success only)
     v_skip_provided    do not request __dict__/__weakref__ when a base already provides it
     v_inherited_hooks  the frozen pickle fix looks for user hooks in the whole MRO
                        (pinned: only in the class's own dict)
   The property theorems are about `repaired`; the refutations about `pinned`. *)
From Coq Require Import List String Bool Arith PeanoNat.
Import ListNotations.

Definition attr := string.

Definition k_slots : attr := "__slots__"%string.
Definition k_dict : attr := "__dict__"%string.
Definition k_weakref : attr := "__weakref__"%string.
Definition k_getstate : attr := "__getstate__"%string.
Definition k_setstate : attr := "__setstate__"%string.
Definition k_doc : attr := "__doc__"%string.
Definition k_init : attr := "__init__"%string.
Definition k_dcfields : attr := "__dataclass_fields__"%string.
Definition k_dcparams : attr := "__dataclass_params__"%string.

Definition mem (a : attr) (l : list attr) : bool := existsb (String.eqb a) l.

(* ---------------------------------------------------------------------------------- *)
(* objects stored in class dictionaries                                                *)
(* ---------------------------------------------------------------------------------- *)
(* OId n        an object of the user's program, by identity (n numbers the entries of
                the original class dict)
   OSlots l     a __slots__ tuple (compared by value)
   OSetstateFix the closure _slots_setstate
   OMember a    a fresh member descriptor made by type() for slot a
   OGetSet a    a fresh __dict__/__weakref__ getset descriptor made by type()
   ONone        None put in by type() for a missing __doc__ *)
Inductive obj :=
| OId (n : nat) | OSlots (l : list attr) | OSetstateFix | OMember (a : attr) | OGetSet (a : attr) | ONone.

Definition cdict := list (attr * obj).

Definition has_key (a : attr) (d : cdict) : bool := existsb (fun p => String.eqb a (fst p)) d.
Fixpoint assoc (a : attr) (d : cdict) : option obj :=
  match d with [] => None | p :: r => if String.eqb a (fst p) then Some (snd p) else assoc a r end.
(* d.pop(a, None) *)
Definition remove_key (a : attr) (d : cdict) : cdict := filter (fun p => negb (String.eqb a (fst p))) d.
(* for f in l: d.pop(f, None) *)
Definition remove_keys (l : list attr) (d : cdict) : cdict := filter (fun p => negb (mem (fst p) l)) d.
(* d[a] = o : in place when the key exists, appended otherwise *)
Definition set_key (a : attr) (o : obj) (d : cdict) : cdict :=
  if has_key a d then map (fun p => if String.eqb a (fst p) then (fst p, o) else p) d
  else d ++ [(a, o)].

(* ---------------------------------------------------------------------------------- *)
(* classes                                                                             *)
(* ---------------------------------------------------------------------------------- *)
(* what wrap and type() read of a Python-level class of the MRO (object excluded):
   its own __slots__ entry, and whether its own dict defines the pickle hooks *)
Record csum := { s_slots : option (list attr); s_getstate : bool; s_setstate : bool }.

Inductive defkind := NoDefault | Default | Factory.
Record field := { f_name : attr; f_def : defkind; f_inh : bool }.
Record dcinfo := { d_frozen : bool; d_eq : bool; d_order : bool; d_unsafe_hash : bool;
                   d_fields : list field }.

Record cls := {
  c_name : string; c_qualname : string; c_module : string;
  c_plain_meta : bool;             (* cls.__class__ is type *)
  c_mro : list csum;               (* cls.__mro__[1:-1]: after cls itself, object dropped *)
  c_dict : cdict;                  (* cls.__dict__ in order *)
  c_dc : option dcinfo;            (* None: dataclasses.fields(cls) raises TypeError *)
  c_cells : list attr;             (* functions of the dict whose __class__ cell is cls itself *)
  c_stale : list attr              (* functions of the dict whose __class__ cell is a class
                                      outside cls.__mro__: zero-argument super() fails there *)
}.

Definition slots_of_obj (o : obj) : list attr := match o with OSlots l => l | _ => [] end.
Definition own_slots (d : cdict) : option (list attr) :=
  match assoc k_slots d with Some o => Some (slots_of_obj o) | None => None end.
Definition own_sum (c : cls) : csum :=
  {| s_slots := own_slots (c_dict c);
     s_getstate := has_key k_getstate (c_dict c);
     s_setstate := has_key k_setstate (c_dict c) |}.
Definition full_mro (c : cls) : list csum := own_sum c :: c_mro c.

(* getattr(k, "__slots__", ()) for a class k whose MRO (object dropped) is m *)
Fixpoint getattr_slots (m : list csum) : list attr :=
  match m with [] => [] | s :: r => match s_slots s with Some l => l | None => getattr_slots r end end.
(* set().union( *(getattr(k, "__slots__", ()) for k in cls.mro()) ): single inheritance,
   so the MRO of the i-th entry is the suffix starting there *)
Fixpoint inherited_slots (m : list csum) : list attr :=
  match m with [] => [] | s :: r => getattr_slots m ++ inherited_slots r end.

(* ---------------------------------------------------------------------------------- *)
(* the type() contract (CPython type_new for Python-level single inheritance)          *)
(* ---------------------------------------------------------------------------------- *)
(* instances of a class carry x (= "__dict__" or "__weakref__") iff some class of its MRO
   has no __slots__ or lists x; for the bases this is `base.__dictoffset__ != 0` *)
Definition provides (x : attr) (s : csum) : bool :=
  match s_slots s with None => true | Some l => mem x l end.
Definition layout_has (x : attr) (m : list csum) : bool := existsb (provides x) m.

Inductive exn := EType | EValue.
Inductive res (A : Type) := Ok (a : A) | Raise (e : exn) | Unmodelled.
Arguments Ok {A}. Arguments Raise {A}. Arguments Unmodelled {A}.

Definition is_extra (s : attr) : bool := String.eqb s k_dict || String.eqb s k_weakref.
Definition descr (s : attr) : attr * obj := (s, if is_extra s then OGetSet s else OMember s).

(* type(name, bases, d) where the MRO of the bases is base_mro: resulting class dict.
   - "__dict__ slot disallowed: we already got one" / same for __weakref__  -> TypeError
   - "'x' in __slots__ conflicts with class variable"                       -> ValueError
   - one descriptor per slot is added; __doc__ = None when missing.
   Without a __slots__ entry the class gets __dict__/__weakref__ where the bases lack them. *)
Definition type_new (base_mro : list csum) (d : cdict) : res cdict :=
  let doc := if has_key k_doc d then [] else [(k_doc, ONone)] in
  match assoc k_slots d with
  | None =>
      Ok (d ++ (if layout_has k_dict base_mro then [] else [descr k_dict])
            ++ (if layout_has k_weakref base_mro then [] else [descr k_weakref]) ++ doc)
  | Some so =>
      let sl := slots_of_obj so in
      if mem k_dict sl && layout_has k_dict base_mro then Raise EType
      else if mem k_weakref sl && layout_has k_weakref base_mro then Raise EType
      else if existsb (fun s => negb (is_extra s) && has_key s d) sl then Raise EValue
      else Ok (d ++ map descr sl ++ doc)
  end.

(* ---------------------------------------------------------------------------------- *)
(* slotted(dict=, weakref=) . wrap                                                     *)
(* ---------------------------------------------------------------------------------- *)
Record flags := { fl_dict : bool; fl_weakref : bool }.
Definition default_flags := {| fl_dict := false; fl_weakref := true |}.

Record variant := { v_release : bool; v_skip_provided : bool; v_inherited_hooks : bool }.
Definition repaired := {| v_release := true; v_skip_provided := true; v_inherited_hooks := true |}.
Definition pinned := {| v_release := false; v_skip_provided := false; v_inherited_hooks := false |}.

(* keys of a dict built by successive insertion: first occurrence keeps its place *)
Fixpoint dedup (l : list attr) : list attr :=
  match l with [] => [] | x :: r => x :: filter (fun y => negb (String.eqb x y)) (dedup r) end.
Definition add_name (x : attr) (l : list attr) : list attr := if mem x l then l else l ++ [x].

(* {f.name: ... for f in dataclasses.fields(cls) if f.name} *)
Definition field_names (d : dcinfo) : list attr :=
  dedup (filter (fun n => negb (String.eqb n ""%string)) (map f_name (d_fields d))).

Definition want (v : variant) (requested : bool) (x : attr) (c : cls) : bool :=
  requested && negb (v_skip_provided v && layout_has x (c_mro c)).

Definition all_names (v : variant) (fl : flags) (c : cls) (d : dcinfo) : list attr :=
  let n0 := field_names d in
  let n1 := if want v (fl_dict fl) k_dict c then add_name k_dict n0 else n0 in
  if want v (fl_weakref fl) k_weakref c then add_name k_weakref n1 else n1.

Definition new_slots (v : variant) (fl : flags) (c : cls) (d : dcinfo) : list attr :=
  let inh := inherited_slots (full_mro c) in
  filter (fun f => negb (mem f inh)) (all_names v fl c d).

Definition new_dict (v : variant) (fl : flags) (c : cls) (d : dcinfo) : cdict :=
  let names := all_names v fl c d in
  let d1 := set_key k_slots (OSlots (new_slots v fl c d)) (c_dict c) in
  let d2 := remove_keys names d1 in
  let d3 := remove_key k_weakref (remove_key k_dict d2) in
  let declared_get := if v_inherited_hooks v then existsb s_getstate (full_mro c) else has_key k_getstate d3 in
  let declared_set := if v_inherited_hooks v then existsb s_setstate (full_mro c) else has_key k_setstate d3 in
  if negb declared_get && negb declared_set && d_frozen d
  then set_key k_setstate OSetstateFix d3 else d3.

(* the body of wrap after the guard: dataclasses.fields may raise TypeError; then
   cls.__class__(name, bases, dict); __qualname__ and __module__ copied *)
Definition build (v : variant) (fl : flags) (c : cls) : res cls :=
  match c_dc c with
  | None => Raise EType
  | Some d =>
      if c_plain_meta c then
        match type_new (c_mro c) (new_dict v fl c d) with
        | Ok d5 =>
            Ok {| c_name := c_name c; c_qualname := c_qualname c; c_module := c_module c;
                  c_plain_meta := true; c_mro := c_mro c; c_dict := d5; c_dc := c_dc c;
                  c_cells := [];
                  c_stale := filter (fun a => has_key a d5) (c_stale c ++ c_cells c) |}
        | Raise e => Raise e
        | Unmodelled => Unmodelled
        end
      else Unmodelled
  end.

(* repr(cls) *)
Definition repr (c : cls) : string :=
  ("<class '" ++ c_module c ++ "." ++ c_qualname c ++ "'>")%string.

Definition stack := list string.
Definition remove_str (k : string) (st : stack) : stack := filter (fun x => negb (String.eqb k x)) st.

Definition wrap (v : variant) (fl : flags) (st : stack) (c : cls) : stack * res cls :=
  let key := repr c in
  if mem key st then (st, Raise EType)
  else
    let st1 := key :: st in
    match build v fl c with
    | Ok n => (if v_release v then remove_str key st1 else [], Ok n)
    | r => (if v_release v then remove_str key st1 else st1, r)
    end.

(* a decoration history: classes decorated one after the other against the shared _stack *)
Fixpoint run (v : variant) (st : stack) (l : list (flags * cls)) : stack * list (res cls) :=
  match l with
  | [] => (st, [])
  | (fl, c) :: r =>
      let '(st1, x) := wrap v fl st c in
      let '(st2, xs) := run v st1 r in (st2, x :: xs)
  end.

(* ---------------------------------------------------------------------------------- *)
(* guards                                                                              *)
(* ---------------------------------------------------------------------------------- *)
Definition reserved : list attr :=
  [k_dict; k_weakref; k_slots; k_setstate; k_getstate; k_doc; k_init; k_dcfields; k_dcparams; ""%string].
Fixpoint nodupb (l : list attr) : bool :=
  match l with [] => true | x :: r => negb (mem x r) && nodupb r end.

(* a dataclass whose field names are distinct ordinary identifiers ... *)
Definition names_guard (c : cls) : bool :=
  match c_dc c with
  | None => false
  | Some d => nodupb (map f_name (d_fields d))
              && forallb (fun f => negb (mem (f_name f) reserved)) (d_fields d)
  end.
(* ... and which does not already define __slots__ itself *)
Definition c19_guard (c : cls) : bool :=
  names_guard c && match own_slots (c_dict c) with None => true | Some _ => false end.

(* what a decoration must achieve, as data (used in the statements of Props/C19.v) *)
Definition extras_for (fl : flags) (c : cls) : list attr :=
  (if fl_dict fl && negb (layout_has k_dict (c_mro c)) then [k_dict] else [])
  ++ (if fl_weakref fl && negb (layout_has k_weakref (c_mro c)) then [k_weakref] else []).
Definition fnames (d : dcinfo) : list attr := map f_name (d_fields d).

Definition is_ok {A} (r : res A) : bool := match r with Ok _ => true | _ => false end.
