(* C06 -- evaluation of the model on generated cases (used by the generated cases_*.v files only).
   Definitions only. *)
From Coq Require Import List Arith Bool PeanoNat.
Import ListNotations.
Require Import TL.Model.Core.
Require Import TL.Model.CoreTables.
Require Import TL.Model.CoreC06.

Definition mem_nat (l : list nat) (n : nat) : bool := existsb (Nat.eqb n) l.
Definition mem_leafcall (l : list (nat * pv)) (s : nat) (v : pv) : bool :=
  existsb (fun p => Nat.eqb s (fst p) && pv_eqb v (snd p)) l.

(* boolean readings of env_robust / env_fa over the finitely many names of a generated environment *)
Definition env_robust_b (E : env) (rl : nat -> bool) (none_ok : bool) (R : nat -> bool) (names : list nat) : bool :=
  forallb (fun c => if R c then match E c with Some d => def_ok (robust_ty rl none_ok R) d | None => true end else true) names.
Definition env_fa_b (E : env) (rl wl : nat -> bool) (none_ok : bool) (R F : nat -> bool) (names : list nat) : bool :=
  forallb (fun c => if F c then match E c with Some d => def_ok (fa_ty rl wl none_ok R F) d | None => true end else true) names.

(* one case: annotation, input, observed result, and the harness' own reading of
   (fully annotated, input valid, observed result is wire data) *)
Definition case06 := (ty * pv * res pv * bool * bool * bool)%type.

Record tables06 := {
  t_prim : list nat;              (* atoms of the exact classes NoneType bool int float str *)
  t_robust : list nat;            (* leaf ids that do not pass contents through *)
  t_R : list nat;                 (* fully annotated class / alias names *)
  t_valid : list (nat * pv);      (* (leaf, value) pairs for which the value is a valid instance *)
  t_names : list nat
}.

Definition model06 (rt : runtime) (E : env) (fuel : nat) (t : ty) (x : pv) : res pv := mar rt E fuel t x.

(* bit 0: result differs; bit 1: fully-annotated verdict differs; bit 2: validity verdict differs;
   bit 3: wire verdict on the model's result differs *)
Definition case06_code (rt : runtime) (E : env) (tb : tables06) (fuel : nat) (c : case06) : nat :=
  match c with (t, x, obs, py_fa, py_valid, py_wire) =>
    let rl := mem_nat (t_robust tb) in
    let R := mem_nat (t_R tb) in
    let m := model06 rt E fuel t x in
    let fa := fa_ty rl rl true R R t in
    let va := valid rt E (mem_leafcall (t_valid tb)) fuel t x in
    (if res_sim false m obs then 0 else 1) +
    (if Bool.eqb fa py_fa then 0 else 2) +
    (if Bool.eqb va py_valid then 0 else 4) +
    (match m with Ok w => if Bool.eqb (is_wire (mem_nat (t_prim tb)) w) py_wire then 0 else 8 | _ => 0 end)
  end.

Fixpoint codes_from (f : case06 -> nat) (l : list case06) (i : nat) : list (nat * nat) :=
  match l with
  | [] => []
  | c :: r => (match f c with 0 => [] | k => [(i, k)] end) ++ codes_from f r (S i)
  end.
Definition bad06 (rt : runtime) (E : env) (tb : tables06) (fuel : nat) (l : list case06) :=
  map fst (codes_from (case06_code rt E tb fuel) l 0).
Definition bad06_codes (rt : runtime) (E : env) (tb : tables06) (fuel : nat) (l : list case06) :=
  map snd (codes_from (case06_code rt E tb fuel) l 0).

(* the self-consistency of the sets handed over by the harness: hypotheses env_robust / env_fa of the theorems *)
Definition sets_ok (E : env) (tb : tables06) : bool :=
  let rl := mem_nat (t_robust tb) in
  let R := mem_nat (t_R tb) in
  env_robust_b E rl true R (t_names tb) && env_fa_b E rl rl true R R (t_names tb).
