(* Comparison of the Graph/Topo model with observations of graph.static_order on the implementation
   (correspondence runs only).  A case carries the class environment, the root annotation, and what
   the implementation returned: its node sequence with, for every cyclic node, the annotation that
   refs.evaluate(node.type) produced (None: raised / not an annotation of the case). *)
From Coq Require Import List Arith Bool PeanoNat String.
Import ListNotations.
Require Import TL.Model.Graph TL.Model.Topo.

Record onode := { otype : gty; ounw : gty; ovar : option str; ocyc : bool; oeval : option gty }.
Inductive obs := ObsRaise | ObsNodes (l : list onode).
Definition gcase := (list (cname * classdef) * gty * obs)%type.

Definition to_node (o : onode) : node :=
  {| ntype := otype o; nunw := ounw o; nvar := ovar o; ncyc := ocyc o; nfor := otype o |}.

(* full equality of what is observable of a node: TypeNode fields including the cyclic flag *)
Definition node_fulleqb (a b : node) : bool := node_eqb a b.

Fixpoint remove_first (f : node -> bool) (l : list node) : option (list node) :=
  match l with
  | [] => None
  | x :: r => if f x then Some r else match remove_first f r with Some r' => Some (x :: r') | None => None end
  end.
Fixpoint multiset_eqb (a b : list node) : bool :=
  match a with
  | [] => match b with [] => true | _ => false end
  | x :: r => match remove_first (node_fulleqb x) b with Some b' => multiset_eqb r b' | None => false end
  end.
Fixpoint seq_eqb (a b : list node) : bool :=
  match a, b with
  | [], [] => true
  | x :: r, y :: t => node_fulleqb x y && seq_eqb r t
  | _, _ => false
  end.

Definition last_is (root : node) (l : list node) : bool :=
  match rev l with x :: _ => node_eqb x root | [] => false end.

Definition gty_opt_eqb (a : option gty) (b : gty) : bool :=
  match a with Some x => gty_eqb x b | None => false end.

(* every cyclic node of the model whose replaced child satisfies the guard of C09_denotes must be
   observed to evaluate to exactly that child *)
Definition denotes_ok (E : env) (model : list node) (l : list onode) : bool :=
  forallb (fun n =>
    if ncyc n && denotes_guard E (nfor n) then
      existsb (fun o => node_eqb n (to_node o) && gty_opt_eqb (oeval o) (nfor n)) l
    else true) model.

Definition corr_fuel := 600.

(* hard comparison: node multiset incl. flags; the observed sequence is a topological order of the
   MODEL's edge set; root last; deferred nodes denote what the model says (under the guard) *)
Definition case_ok (c : gcase) : bool :=
  match c with
  | (cl, root, o) =>
      let E := env_of cl in
      match type_graph corr_fuel E root, o with
      | Ok g, ObsNodes l =>
          match kahn g with
          | Some order =>
              let seen := map to_node l in
              multiset_eqb order seen && is_topo_orderb g seen && last_is (root_node root) seen
              && denotes_ok E (adj_nodes g) l
          | None => false
          end
      | Ok g, ObsRaise => match kahn g with None => true | Some _ => false end   (* graphlib.CycleError *)
      | Unmodelled, ObsRaise => true
      | _, _ => false
      end
  end.

(* soft comparison: graphlib's own order among ready nodes reproduced exactly *)
Definition case_seq_ok (c : gcase) : bool :=
  match c with
  | (cl, root, o) =>
      match type_graph corr_fuel (env_of cl) root, o with
      | Ok g, ObsNodes l => match kahn g with Some order => seq_eqb order (map to_node l) | None => false end
      | _, _ => true
      end
  end.

Fixpoint mismatches_from {A} (ok : A -> bool) (l : list A) (i : nat) : list nat :=
  match l with [] => [] | x :: r => (if ok x then [] else [i]) ++ mismatches_from ok r (S i) end.
Definition mismatches {A} (ok : A -> bool) (l : list A) := mismatches_from ok l 0.
