(* Target language of the SOURCE TRANSLATOR tie for typelib/serdes.py, part 1: generic iteration
   (harness/serdesasttie.py; companion files SerdesAstLoad.v -- decode / load / strload / _strload --
   and SerdesAstTime.v -- isoformat / unixtime).

   A DECISION LADDER is a list of rungs (guard, action) and a fall-through action: the `if G: return A`
   statements of a function in source order, and its final `return`.  Guards are boolean combinations of
   the class predicates of py/inspection.py the code applies to a class (val.__class__ / tp); they are
   evaluated with Model/Iter.v's own predicates on Iter.cls.  Actions name the branch taken.

   Definitions only.  Proofs: Proofs/SerdesAstLemmas.v.  Theorems: Props/SerdesAst.v (table independent)
   and dyn/SerdesAst/SerdesAstIter.v (about the ladders translated from the source on this run). *)
From Coq Require Import List Bool Arith String.
Import ListNotations.
Require Import TL.Model.Iter.

(* ---------------------------------------------------------------------------------- *)
(* guards and ladders                                                                 *)
(* ---------------------------------------------------------------------------------- *)
Inductive cpred := PIterable | PMapping | PNamedTuple | PSequence | PCollection.

Definition eval_cpred (p : cpred) (c : cls) : bool :=
  match p with
  | PIterable => isiterabletype c
  | PMapping => ismappingtype c
  | PNamedTuple => isnamedtuple c
  | PSequence => issequencetype c
  | PCollection => iscollectiontype c
  end.

(* the predicates are total on classes, so `or` / `and` / `not` are the boolean connectives *)
Inductive guard := GPred (p : cpred) | GNot (g : guard) | GOr (a b : guard) | GAnd (a b : guard).

Fixpoint eval_guard (g : guard) (c : cls) : bool :=
  match g with
  | GPred p => eval_cpred p c
  | GNot a => negb (eval_guard a c)
  | GOr a b => eval_guard a c || eval_guard b c
  | GAnd a b => eval_guard a c && eval_guard b c
  end.

Definition ladder (A : Type) := list (guard * A).

Fixpoint select {A} (l : ladder A) (dflt : A) (c : cls) : A :=
  match l with
  | [] => dflt
  | (g, a) :: r => if eval_guard g c then a else select r dflt c
  end.

(* the rung taken (0-based; length l = fell through): diagnostics only *)
Fixpoint select_ix {A} (l : ladder A) (c : cls) : nat :=
  match l with
  | [] => 0
  | (g, _) :: r => if eval_guard g c then 0 else S (select_ix r c)
  end.

(* ---------------------------------------------------------------------------------- *)
(* the classes, up to what a guard can see                                            *)
(* ---------------------------------------------------------------------------------- *)
Definition d0 : clsdesc :=
  {| c_flavour := FVars; c_dataclass := false; c_dc_fields := []; c_hints := []; c_sig := []; c_slots := None |}.
Definition rep (c : cls) : cls :=
  match c with CNamed _ => CNamed [] | CObj _ => CObj d0 | _ => c end.

Definition all_collkinds : list collkind :=
  [KList; KTuple; KDeque; KSet; KFrozenSet; KCustomSeq; KSetSub; KKeysView; KValuesView; KItemsView;
   KCustomCollection; KCustomIterable].
Definition all_mapkinds : list mapkind := [MDict; MOrderedDict; MDefaultDict; MProxy; MCustomMapping].
Definition all_iterkinds : list iterkind := [IListIter; ITupleIter; IGenerator; IMapObj; IZipObj; ICustomIterator].
Definition all_reps : list cls :=
  [CNone; CInt; CStr; CBytes] ++ map CColl all_collkinds ++ map CDict all_mapkinds
  ++ [CNamed []; CObj d0] ++ map CIter all_iterkinds.

(* ---------------------------------------------------------------------------------- *)
(* serdes.get_items_iter                                                              *)
(* ---------------------------------------------------------------------------------- *)
Inductive gaction :=
| AItemsCaller        (* return _itemscaller          (operator.methodcaller("items")) *)
| ANamedTupleItems    (* return _namedtupleitems      (zip(val._fields, val)) *)
| AEnumerate          (* return enumerate *)
| AMakeFields.        (* return _make_fields_iterator(tp) *)

Definition gaction_eqb (a b : gaction) : bool :=
  match a, b with
  | AItemsCaller, AItemsCaller | ANamedTupleItems, ANamedTupleItems
  | AEnumerate, AEnumerate | AMakeFields, AMakeFields => true
  | _, _ => false
  end.

Definition run_gaction (cf : cfg) (a : gaction) (cl : cls) : res strategy :=
  match a with
  | AItemsCaller => Ok SItems
  | ANamedTupleItems => Ok SNamedTuple
  | AEnumerate => Ok SEnumerate
  | AMakeFields => match cl with CObj d => Ok (make_fields_iterator cf d) | _ => Unmodelled end
  end.

(* the function as written: the ladder decides, the action runs *)
Definition get_items_iter_src (l : ladder gaction) (dflt : gaction) (cf : cfg) (cl : cls) : res strategy :=
  run_gaction cf (select l dflt cl) cl.

(* the branch Iter.get_items_iter takes (SerdesAstLemmas.model_gaction_ok: running it IS Iter.get_items_iter) *)
Definition model_gaction (cl : cls) : gaction :=
  if ismappingtype cl then AItemsCaller
  else if isnamedtuple cl then ANamedTupleItems
  else if isiterabletype cl then AEnumerate
  else AMakeFields.

Definition gladder_ok (l : ladder gaction) (dflt : gaction) : bool :=
  forallb (fun c => gaction_eqb (select l dflt c) (model_gaction c)) all_reps.

(* (class, rung taken, action taken, action of the model) where they differ *)
Definition gladder_diag (l : ladder gaction) (dflt : gaction) : list (cls * nat * gaction * gaction) :=
  flat_map (fun c => if gaction_eqb (select l dflt c) (model_gaction c) then []
                     else [(c, select_ix l c, select l dflt c, model_gaction c)]) all_reps.

(* ---------------------------------------------------------------------------------- *)
(* serdes._is_iterable_of_pairs                                                       *)
(* ---------------------------------------------------------------------------------- *)
(* P(peek.__class__) and len(peek) == n *)
Inductive elemtest := ETest (p : cpred) (n : nat).
Definition run_elemtest (t : elemtest) (v : val) : bool :=
  match t with ETest p n => eval_cpred p (class_of v) && Nat.eqb (py_len v) n end.

(* the default handed to next(...) / peek(...) *)
Inductive pdefault := DEmptyTuple.
Definition dval (d : pdefault) : val := match d with DEmptyTuple => empty_tuple end.

Inductive paction :=
| PANo                                            (* return False, val *)
| PAHead (d : option pdefault) (t : elemtest)     (* peek = next(iter(val)[, d]);  return <t peek>, val *)
| PAPeekable (d : option pdefault) (t : elemtest). (* it = peekable(val); peek = it.peek([d]);  return <t peek>, it *)

Definition cpred_eqb (a b : cpred) : bool :=
  match a, b with
  | PIterable, PIterable | PMapping, PMapping | PNamedTuple, PNamedTuple
  | PSequence, PSequence | PCollection, PCollection => true
  | _, _ => false
  end.
Definition elemtest_eqb (a b : elemtest) : bool :=
  match a, b with ETest p n, ETest q m => cpred_eqb p q && Nat.eqb n m end.
Definition odefault_eqb (a b : option pdefault) : bool :=
  match a, b with Some DEmptyTuple, Some DEmptyTuple => true | None, None => true | _, _ => false end.
Definition paction_eqb (a b : paction) : bool :=
  match a, b with
  | PANo, PANo => true
  | PAHead d t, PAHead e u => odefault_eqb d e && elemtest_eqb t u
  | PAPeekable d t, PAPeekable e u => odefault_eqb d e && elemtest_eqb t u
  | _, _ => false
  end.

Definition run_paction (a : paction) (x : val) : res (bool * itr) :=
  match a with
  | PANo => Ok (false, ItVal x)
  | PAHead d t =>
      match elems x, d with
      | v :: _, _ => Ok (run_elemtest t v, ItVal x)
      | [], Some d => Ok (run_elemtest t (dval d), ItVal x)
      | [], None => Raise EStopIter
      end
  | PAPeekable d t =>
      let p := pk_new (elems x) in
      match d with
      | Some d => let '(v, p') := pk_peek_default (dval d) p in Ok (run_elemtest t v, ItPeek p')
      | None => match pk_peek p with
                | Ok (v, p') => Ok (run_elemtest t v, ItPeek p')
                | Raise e => Raise e
                | Unmodelled => Unmodelled
                end
      end
  end.

Definition is_iterable_of_pairs_src (l : ladder paction) (dflt : paction) (x : val) : res (bool * itr) :=
  run_paction (select l dflt (class_of x)) x.

Definition pair_test : elemtest := ETest PCollection 2.
(* the branch Iter.is_iterable_of_pairs repaired takes (SerdesAstLemmas.model_paction_ok) *)
Definition model_paction (cl : cls) : paction :=
  if negb (isiterabletype cl) || ismappingtype cl || isnamedtuple cl then PANo
  else if issequencetype cl then PAHead (Some DEmptyTuple) pair_test
  else PAPeekable (Some DEmptyTuple) pair_test.

Definition pladder_ok (l : ladder paction) (dflt : paction) : bool :=
  forallb (fun c => paction_eqb (select l dflt c) (model_paction c)) all_reps.
Definition pladder_diag (l : ladder paction) (dflt : paction) : list (cls * nat * paction * paction) :=
  flat_map (fun c => if paction_eqb (select l dflt c) (model_paction c) then []
                     else [(c, select_ix l c, select l dflt c, model_paction c)]) all_reps.

(* ---------------------------------------------------------------------------------- *)
(* serdes.iteritems / serdes.itervalues: straight-line bodies                         *)
(* ---------------------------------------------------------------------------------- *)
(* what a call is handed: the parameter, or the second component of the probe's result *)
Inductive operand := OVal | OIt.
Definition operand_eqb (a b : operand) : bool :=
  match a, b with OVal, OVal | OIt, OIt => true | _, _ => false end.

(* is_pairs, it = _is_iterable_of_pairs(val)
   if is_pairs: return iter(<ip_pairs_ret>)
   iterate = get_items_iter(val.__class__)
   return iterate(<ip_apply>) *)
Record items_prog := { ip_pairs_ret : operand; ip_apply : operand }.

(* how many elements the probe has pulled from val's own iterator (a peekable caches the element it peeked) *)
Definition drawn_by (it : itr) : nat := match it with ItPeek p => pk_drawn p | ItVal _ => 0 end.

Definition run_items_with (probe : val -> res (bool * itr)) (disp : cls -> res strategy)
           (p : items_prog) (cf : cfg) (x : val) : res (list val) * val :=
  match probe x with
  | Raise e => (Raise e, x)
  | Unmodelled => (Unmodelled, x)
  | Ok (fl, it) =>
    (* the operand, and what was pulled from val before it is iterated *)
    let opnd := fun o => match o with
                         | OVal => (ItVal (advance x (drawn_by it)), drawn_by it)
                         | OIt => (it, 0)
                         end in
    if fl then let o := opnd (ip_pairs_ret p) in
               let '(l, d) := iter_it (fst o) in (Ok l, advance x (snd o + d))
    else match disp (class_of x) with
         | Ok s => let o := opnd (ip_apply p) in
                   let '(r, d) := apply_strategy cf s (fst o) in
                   (map_res (map (fun kv => tup (fst kv) (snd kv))) r, advance x (snd o + d))
         | Raise e => (Raise e, x)
         | Unmodelled => (Unmodelled, x)
         end
  end.
Definition run_items (p : items_prog) (cf : cfg) (x : val) : res (list val) * val :=
  run_items_with (is_iterable_of_pairs cf) (get_items_iter cf) p cf x.

Definition canonical_items : items_prog := {| ip_pairs_ret := OIt; ip_apply := OIt |}.
Definition items_prog_eqb (p q : items_prog) : bool :=
  operand_eqb (ip_pairs_ret p) (ip_pairs_ret q) && operand_eqb (ip_apply p) (ip_apply q).

(* iterate = get_items_iter(val.__class__)
   return (<vp_proj> for k, v in iterate(val)) *)
Inductive proj := PrKey | PrValue.
Record values_prog := { vp_proj : proj }.
Definition run_values_with (disp : cls -> res strategy) (p : values_prog) (cf : cfg) (x : val) : res (list val) * val :=
  match disp (class_of x) with
  | Ok s => let '(r, d) := apply_strategy cf s (ItVal x) in
            (map_res (map (match vp_proj p with PrKey => fst | PrValue => snd end)) r, advance x d)
  | Raise e => (Raise e, x)
  | Unmodelled => (Unmodelled, x)
  end.
Definition run_values (p : values_prog) (cf : cfg) (x : val) := run_values_with (get_items_iter cf) p cf x.
Definition canonical_values : values_prog := {| vp_proj := PrValue |}.
Definition values_prog_eqb (p q : values_prog) : bool :=
  match vp_proj p, vp_proj q with PrKey, PrKey | PrValue, PrValue => true | _, _ => false end.

(* the four functions as written, composed: iteritems / itervalues of the SOURCE *)
Definition iteritems_src (pl : ladder paction) (pd : paction) (gl : ladder gaction) (gd : gaction)
           (p : items_prog) (x : val) : res (list val) * val :=
  run_items_with (is_iterable_of_pairs_src pl pd) (get_items_iter_src gl gd repaired) p repaired x.
Definition itervalues_src (gl : ladder gaction) (gd : gaction) (p : values_prog) (x : val) : res (list val) * val :=
  run_values_with (get_items_iter_src gl gd repaired) p repaired x.
