(* Heap model: object identity for the core value model (C06 / C12 / C13).

   Model/Core.v is a model of VALUES.  Here a Python object is a LOCATION in a heap; a node is the object
   stored there.  The heap-level routines

       hmar / hunm : runtime -> hruntime -> env -> fuel -> ty -> heap -> loc -> res (heap * loc)

   mirror the same __call__ bodies as Core.mar / Core.unm (marshals/routines.py, unmarshals/routines.py)
   and say WHICH object every step returns:
     - a freshly allocated container: the comprehensions [..] and {..} of the marshallers, origin(..),
       the factory of a mapping, tuple(..), the class called with the keyword arguments of the structured unmarshaller;
     - the input object itself: NoneTypeMarshaller (None), the None shortcut of UnionMarshaller, a union
       member that answers with its input, and whatever a LEAF routine decides;
     - a leaf result: placed by the runtime function leaf_alloc_m / leaf_alloc_u (hruntime) whose laws are
       AllocLaws (the heap is only extended, the location denotes the leaf's value) and FreshLaws (for the
       leaves named fresh: every mutable object reachable from the result is new).  place_alloc is the
       concrete allocation used by the tie: PInput (NoOp routines, isinstance short-circuits), PShallow
       (star-unpacking into a new list or dict, list(decoded), dict(decoded): a new top-level container over the SAME members),
       PFresh.
   Objects that come out of a scalar (text parsed by serdes.load -- a deep copy of the memo since /repo
   strload; the characters of a str; the int keys of enumerate), field-name strs and field defaults are
   allocated new (alloc_pv); they are immutable or unshared.

   A heap is a list of nodes, a location an index: allocation appends, nothing ever overwrites.
   Internally the routines work on LOCATED VALUES lv = (location, the value it denotes); hmar / hunm read
   the input once.  Definitions only. *)
From Coq Require Import List Arith Bool PeanoNat.
Import ListNotations.
Require Import TL.Model.Core.

(* ------------------------------------------------------------------ heaps *)
Definition loc := nat.
Inductive node :=
| HAtom (a : nat)                          (* an immutable scalar *)
| HKey (f : nat)                           (* the str equal to field name f *)
| HSeq (k : seqkind) (l : list loc)
| HDict (k : dictkind) (l : list (loc * loc))
| HObj (c : nat) (l : list (nat * loc))    (* instance of a dataclass / plain class *)
| HNamed (c : nat) (l : list loc).         (* named tuple *)

Definition heap := list node.
Definition hget (h : heap) (l : loc) : option node := nth_error h l.
Definition alloc (h : heap) (n : node) : heap * loc := (h ++ [n], length h).
(* h' extends h: every object of h is still there, unchanged *)
Definition ext (h h' : heap) : Prop := exists e, h' = h ++ e.

(* list, set, deque, dict, OrderedDict, class instances are mutable; tuple, frozenset, named tuples, scalars are not *)
Definition mutable_seq (k : seqkind) : bool := match k with KList | KSet | KDeque => true | KTuple | KFrozenset => false end.
Definition mutable_node (n : node) : bool :=
  match n with HSeq k _ => mutable_seq k | HDict _ _ => true | HObj _ _ => true | HAtom _ | HKey _ | HNamed _ _ => false end.
Definition mutable_at (h : heap) (p : loc) : bool := match hget h p with Some n => mutable_node n | None => false end.

Definition children (n : node) : list loc :=
  match n with
  | HAtom _ | HKey _ => []
  | HSeq _ ls | HNamed _ ls => ls
  | HDict _ kls => flat_map (fun kv => [fst kv; snd kv]) kls
  | HObj _ fls => map snd fls
  end.
Inductive reach (h : heap) : loc -> loc -> Prop :=
| reach_refl : forall l, reach h l l
| reach_step : forall l n c p, hget h l = Some n -> In c (children n) -> reach h c p -> reach h l p.

(* ------------------------------------------------------------------ the value a location denotes *)
Fixpoint mapO {A B} (f : A -> option B) (l : list A) : option (list B) :=
  match l with
  | [] => Some []
  | x :: r => match f x with Some y => match mapO f r with Some t => Some (y :: t) | None => None end | None => None end
  end.

Fixpoint read (fuel : nat) (h : heap) (l : loc) : option pv :=
  match fuel with
  | 0 => None
  | S n =>
    match hget h l with
    | None => None
    | Some (HAtom a) => Some (PAtom a)
    | Some (HKey f) => Some (PKey f)
    | Some (HSeq k ls) => option_map (PSeq k) (mapO (read n h) ls)
    | Some (HDict k kls) =>
        option_map (PDict k)
          (mapO (fun kv => match read n h (fst kv) with
                           | Some a => match read n h (snd kv) with Some b => Some (a, b) | None => None end
                           | None => None end) kls)
    | Some (HObj c fls) =>
        option_map (PObj c) (mapO (fun fv => option_map (fun v => (fst fv, v)) (read n h (snd fv))) fls)
    | Some (HNamed c ls) => option_map (PNamed c) (mapO (read n h) ls)
    end
  end.
(* cyclic structures denote no value: they are excluded by every statement through this hypothesis *)
Definition reads (h : heap) (l : loc) (x : pv) : Prop := exists n, read n h l = Some x.

(* ------------------------------------------------------------------ allocation of a whole value *)
Section AllocList.
Variable f : heap -> pv -> heap * loc.
Fixpoint alloc_list (h : heap) (l : list pv) : heap * list loc :=
  match l with
  | [] => (h, [])
  | x :: r => let (h1, lx) := f h x in let (h2, lr) := alloc_list h1 r in (h2, lx :: lr)
  end.
Fixpoint alloc_pairs (h : heap) (l : list (pv * pv)) : heap * list (loc * loc) :=
  match l with
  | [] => (h, [])
  | (a, b) :: r => let (h1, la) := f h a in let (h2, lb) := f h1 b in
                   let (h3, lr) := alloc_pairs h2 r in (h3, (la, lb) :: lr)
  end.
Fixpoint alloc_fields (h : heap) (l : list (nat * pv)) : heap * list (nat * loc) :=
  match l with
  | [] => (h, [])
  | (g, a) :: r => let (h1, la) := f h a in let (h2, lr) := alloc_fields h1 r in (h2, (g, la) :: lr)
  end.
End AllocList.

(* a new object graph for the value v: members first, then the container *)
Fixpoint alloc_pv (h : heap) (v : pv) {struct v} : heap * loc :=
  match v with
  | PAtom a => alloc h (HAtom a)
  | PKey f => alloc h (HKey f)
  | PSeq k l => let (h', ls) := alloc_list alloc_pv h l in alloc h' (HSeq k ls)
  | PDict k l => let (h', ls) := alloc_pairs alloc_pv h l in alloc h' (HDict k ls)
  | PObj c l => let (h', ls) := alloc_fields alloc_pv h l in alloc h' (HObj c ls)
  | PNamed c l => let (h', ls) := alloc_list alloc_pv h l in alloc h' (HNamed c ls)
  end.

(* ------------------------------------------------------------------ located values *)
Definition lv := (loc * pv)%type.
Definition lv_ok (h : heap) (a : lv) : Prop := reads h (fst a) (snd a).
Definition vpair (p : lv * lv) : pv * pv := (snd (fst p), snd (snd p)).
Definition lpair (p : lv * lv) : loc * loc := (fst (fst p), fst (snd p)).
Definition vfield (p : nat * lv) : nat * pv := (fst p, snd (snd p)).
Definition lfield (p : nat * lv) : nat * loc := (fst p, fst (snd p)).

Definition hres (A : Type) := res (heap * A).
Definition hbind {A B} (r : hres A) (f : heap -> A -> hres B) : hres B :=
  match r with
  | Ok (h, a) => f h a
  | Raise e => Raise e
  | OutOfFuel => OutOfFuel
  | Unmodelled => Unmodelled
  end.

Section HMapM.
Context {A B : Type}.
Variable f : heap -> A -> hres B.
Fixpoint hmapM (h : heap) (l : list A) : hres (list B) :=
  match l with
  | [] => Ok (h, [])
  | x :: r => hbind (f h x) (fun h1 y => hbind (hmapM h1 r) (fun h2 t => Ok (h2, y :: t)))
  end.
End HMapM.

Definition alloc_lv (h : heap) (v : pv) : heap * lv := let (h', l) := alloc_pv h v in (h', (l, v)).
Fixpoint alloc_lvs (h : heap) (vs : list pv) : heap * list lv :=
  match vs with
  | [] => (h, [])
  | v :: r => let (h1, a) := alloc_lv h v in let (h2, t) := alloc_lvs h1 r in (h2, a :: t)
  end.
Fixpoint alloc_lvpairs (h : heap) (l : list (pv * pv)) : heap * list (lv * lv) :=
  match l with
  | [] => (h, [])
  | kv :: r => let (h1, a) := alloc_lv h (fst kv) in let (h2, b) := alloc_lv h1 (snd kv) in
               let (h3, t) := alloc_lvpairs h2 r in (h3, (a, b) :: t)
  end.
(* new key objects (field-name strs, the ints of enumerate) for existing member objects *)
Fixpoint alloc_keyed (h : heap) (l : list (pv * lv)) : heap * list (lv * lv) :=
  match l with
  | [] => (h, [])
  | kv :: r => let (h1, a) := alloc_lv h (fst kv) in let (h2, t) := alloc_keyed h1 r in (h2, (a, snd kv) :: t)
  end.

(* new containers over existing members *)
Definition alloc_seq (h : heap) (k : seqkind) (l : list lv) : heap * lv :=
  let (h', p) := alloc h (HSeq k (map fst l)) in (h', (p, PSeq k (map snd l))).
Definition alloc_dict (h : heap) (k : dictkind) (l : list (lv * lv)) : heap * lv :=
  let (h', p) := alloc h (HDict k (map lpair l)) in (h', (p, PDict k (map vpair l))).
Definition alloc_obj (h : heap) (c : nat) (l : list (nat * lv)) : heap * lv :=
  let (h', p) := alloc h (HObj c (map lfield l)) in (h', (p, PObj c (map vfield l))).
Definition alloc_named (h : heap) (c : nat) (l : list (nat * lv)) : heap * lv :=
  let (h', p) := alloc h (HNamed c (map (fun q => fst (snd q)) l)) in (h', (p, PNamed c (map (fun q => snd (snd q)) l))).

(* ------------------------------------------------------------------ where leaf results live *)
Record hruntime := {
  (* leaf s, heap, the input object, the input value, the value the leaf routine returned -> where it lives *)
  leaf_alloc_m : nat -> heap -> loc -> pv -> pv -> heap * loc;
  leaf_alloc_u : nat -> heap -> loc -> pv -> pv -> heap * loc
}.
Record AllocLaws (hr : hruntime) : Prop := {
  am_ext : forall s h l x w, ext h (fst (leaf_alloc_m hr s h l x w));
  am_read : forall s h l x w, reads h l x -> reads (fst (leaf_alloc_m hr s h l x w)) (snd (leaf_alloc_m hr s h l x w)) w;
  au_ext : forall s h l x w, ext h (fst (leaf_alloc_u hr s h l x w));
  au_read : forall s h l x w, reads h l x -> reads (fst (leaf_alloc_u hr s h l x w)) (snd (leaf_alloc_u hr s h l x w)) w
}.
(* every mutable object reachable from l' in h' did not exist in a heap of size n *)
Definition fresh_from (n : nat) (h' : heap) (l' : loc) : Prop :=
  forall p, reach h' l' p -> mutable_at h' p = true -> n <= p.
(* "immutable results may be shared, mutable ones are new", for the leaves named by fm / fu *)
Record FreshLaws (hr : hruntime) (fm fu : nat -> bool) : Prop := {
  fm_fresh : forall s h l x w, fm s = true -> reads h l x ->
      fresh_from (length h) (fst (leaf_alloc_m hr s h l x w)) (snd (leaf_alloc_m hr s h l x w));
  fu_fresh : forall s h l x w, fu s = true -> reads h l x ->
      fresh_from (length h) (fst (leaf_alloc_u hr s h l x w)) (snd (leaf_alloc_u hr s h l x w))
}.

(* the concrete allocation of the tie *)
Inductive place := PInput | PShallow | PFresh.
(* what iterating an object yields: members, the KEYS of a dict *)
Definition iter_locs (n : node) : list loc :=
  match n with HSeq _ ls | HNamed _ ls => ls | HDict _ kls => map fst kls | _ => [] end.
Definition iter_vals (x : pv) : list pv :=
  match x with PSeq _ l | PNamed _ l => l | PDict _ kvs => map fst kvs | _ => [] end.
Definition pair_eqb (a b : pv * pv) : bool := pv_eqb (fst a) (fst b) && pv_eqb (snd a) (snd b).
Definition place_alloc (pl : place) (h : heap) (l : loc) (x w : pv) : heap * loc :=
  match pl with
  | PInput => if pv_eqb x w then (h, l) else alloc_pv h w
  | PFresh => alloc_pv h w
  | PShallow =>
      match w, hget h l with
      | PSeq k ws, Some n =>                       (* IterableMarshaller, list(decoded): a new list over the same members *)
          if list_eqb pv_eqb (iter_vals x) ws && Nat.eqb (length (iter_locs n)) (length ws)
          then alloc h (HSeq k (iter_locs n)) else alloc_pv h w
      | PDict k kvs, Some (HDict _ kls) =>         (* MappingMarshaller, dict(decoded) *)
          match x with
          | PDict _ kvs0 => if list_eqb pair_eqb kvs0 kvs && Nat.eqb (length kls) (length kvs)
                            then alloc h (HDict k kls) else alloc_pv h w
          | _ => alloc_pv h w
          end
      | _, _ => alloc_pv h w
      end
  end.
Definition place_hr (pm pu : nat -> pv -> place) : hruntime :=
  {| leaf_alloc_m := fun s h l x w => place_alloc (pm s x) h l x w;
     leaf_alloc_u := fun s h l x w => place_alloc (pu s x) h l x w |}.

(* leaf s is a fresh leaf of the concrete allocation: a new object graph, or the input when that is a scalar *)
Definition is_scalar_pv (v : pv) : bool := match v with PAtom _ | PKey _ => true | _ => false end.
Definition place_fresh (pl : nat -> pv -> place) (s : nat) : Prop :=
  forall x, pl s x = PFresh \/ (pl s x = PInput /\ is_scalar_pv x = true).

(* the heap-level result denotes the value-level result; exceptions and the two model failures coincide *)
Definition refines (r : res (heap * loc)) (v : res pv) : Prop :=
  match r, v with
  | Ok (h', l'), Ok w => reads h' l' w
  | Raise e, Raise e' => e = e'
  | OutOfFuel, OutOfFuel => True
  | Unmodelled, Unmodelled => True
  | _, _ => False
  end.

(* ------------------------------------------------------------------ generic helpers on keyword lists *)
Fixpoint kw_lookupG {A} (f : nat) (kw : list (nat * A)) : option A :=
  match kw with [] => None | (g, v) :: r => if Nat.eqb f g then Some v else kw_lookupG f r end.
Fixpoint kw_setG {A} (f : nat) (v : A) (kw : list (nat * A)) : list (nat * A) :=
  match kw with
  | [] => [(f, v)]
  | (g, w) :: r => if Nat.eqb f g then (g, v) :: r else (g, w) :: kw_setG f v r
  end.
Definition has_kwG {A} (f : nat) (kw : list (nat * A)) : bool :=
  match kw_lookupG f kw with Some _ => true | None => false end.

Section HSem.
Variable rt : runtime.
Variable hr : hruntime.
Variable E : env.

(* ---- serdes.load / itervalues / iteritems on objects ---- *)
Definition hload (h : heap) (a : lv) : hres lv :=
  if is_scalar (snd a) then bind (load_scalar rt (snd a)) (fun d => Ok (alloc_lv h d)) else Ok (h, a).

Definition value_locs (n : node) : list loc :=
  match n with HSeq _ ls | HNamed _ ls => ls | HDict _ kls => map snd kls | HObj _ fls => map snd fls | _ => [] end.

Definition hitervalues (h : heap) (a : lv) : hres (list lv) :=
  bind (itervalues rt (snd a)) (fun vs =>
    if is_scalar (snd a) then Ok (alloc_lvs h vs)
    else match hget h (fst a) with
         | Some n => Ok (h, combine (value_locs n) vs)
         | None => Unmodelled
         end).

(* `k, v = x` on a member of an iterable of pairs *)
Definition hunpack2 (h : heap) (a : lv) : hres (lv * lv) :=
  bind (unpack2 rt (snd a)) (fun p =>
    if is_scalar (snd a)
    then let (h1, x) := alloc_lv h (fst p) in let (h2, y) := alloc_lv h1 (snd p) in Ok (h2, (x, y))
    else match hget h (fst a) with
         | Some n => match iter_locs n with
                     | [la; lb] => Ok (h, ((la, fst p), (lb, snd p)))
                     | _ => Unmodelled
                     end
         | None => Unmodelled
         end).

Definition hiteritems (h : heap) (a : lv) : hres (list (lv * lv)) :=
  match snd a with
  | PDict _ kvs =>
      match hget h (fst a) with
      | Some (HDict _ kls) => Ok (h, combine (combine (map fst kls) (map fst kvs)) (combine (map snd kls) (map snd kvs)))
      | _ => Unmodelled
      end
  | PObj _ fs =>
      match hget h (fst a) with
      | Some (HObj _ fls) => Ok (alloc_keyed h (combine (map (fun fv => PKey (fst fv)) fs) (combine (map snd fls) (map snd fs))))
      | _ => Unmodelled
      end
  | PSeq _ l =>
      match hget h (fst a) with
      | Some (HSeq _ ls) =>
          match l with
          | x :: _ => if pairlike rt x then hmapM hunpack2 h (combine ls l)
                      else Ok (alloc_keyed h (combine (map fst (enumerate_from rt 0 l)) (combine ls l)))
          | [] => Ok (h, [])
          end
      | _ => Unmodelled
      end
  | PNamed c l =>
      match hget h (fst a) with
      | Some (HNamed _ ls) => Ok (alloc_keyed h (combine (map PKey (named_fields E c)) (combine ls l)))
      | _ => Unmodelled
      end
  | _ => bind (items_scalar rt (snd a)) (fun kvs => Ok (alloc_lvpairs h kvs))
  end.

(* ---- constructors of the target containers: always a NEW object ---- *)
Fixpoint hdedupe (l : list lv) (seen : list pv) : list lv :=
  match l with
  | [] => []
  | x :: r => if mem_pv rt (snd x) seen then hdedupe r seen else x :: hdedupe r (snd x :: seen)
  end.
Definition hconstruct_seq (k : seqkind) (h : heap) (l : list lv) : hres lv :=
  match k with
  | KSet | KFrozenset => if existsb (unhashable rt) (map snd l) then Raise EType else Ok (alloc_seq h k (hdedupe l []))
  | _ => Ok (alloc_seq h k l)
  end.

(* a repeated key keeps the FIRST key object and its position and takes the last value object *)
Fixpoint hdict_set (k v : lv) (d : list (lv * lv)) : list (lv * lv) :=
  match d with
  | [] => [(k, v)]
  | (k', v') :: r => if pv_pyeq rt (snd k) (snd k') then (k', v) :: r else (k', v') :: hdict_set k v r
  end.
Definition hdict_of (l : list (lv * lv)) : list (lv * lv) :=
  fold_left (fun d kv => hdict_set (fst kv) (snd kv) d) l [].
Definition hconstruct_map (k : dictkind) (h : heap) (l : list (lv * lv)) : hres lv :=
  if existsb (fun kv => unhashable rt (fst kv)) (map vpair l) then Raise EType else Ok (alloc_dict h k (hdict_of l)).

(* hash-as-produced (Core.hashing) on located values: the element (key) is hashed when it arrives *)
Definition hhashing {A B} (key : B -> pv) (f : heap -> A -> hres B) (h : heap) (x : A) : hres B :=
  hbind (f h x) (fun h1 y => if unhashable rt (key y) then Raise EType else Ok (h1, y)).
Definition helem_conv (k : seqkind) (f : heap -> lv -> hres lv) : heap -> lv -> hres lv :=
  if hashes k then hhashing snd f else f.

(* the dict a structured routine returns / a TypedDict: new key strs, the member objects as values *)
Definition hkw_dict (h : heap) (kw : list (nat * lv)) : heap * lv :=
  let (h1, ps) := alloc_keyed h (map (fun fv => (PKey (fst fv), snd fv)) kw) in alloc_dict h1 KDict ps.

Fixpoint hfill_fields (h : heap) (fs : list field) (kw : list (nat * lv)) : hres (list (nat * lv)) :=
  match fs with
  | [] => Ok (h, [])
  | f :: r =>
      match kw_lookupG (fname f) kw with
      | Some v => hbind (hfill_fields h r kw) (fun h' t => Ok (h', (fname f, v) :: t))
      | None =>
          match fdefault f with
          | None => Raise EType
          | Some d => let (h1, dv) := alloc_lv h d in
                      hbind (hfill_fields h1 r kw) (fun h' t => Ok (h', (fname f, dv) :: t))
          end
      end
  end.
Definition hconstruct_class (c : nat) (cd : classdef) (h : heap) (kw : list (nat * lv)) : hres lv :=
  match cflavour cd with
  | FTypedDict =>
      if forallb (fun fd => negb (existsb (Nat.eqb (fname fd)) (crequired cd)) || has_kwG (fname fd) kw) (cfields cd)
      then Ok (hkw_dict h kw) else Raise EType
  | FNamedTuple => hbind (hfill_fields h (cfields cd) kw) (fun h' l => Ok (alloc_named h' c l))
  | FDataclass | FPlain => hbind (hfill_fields h (cfields cd) kw) (fun h' l => Ok (alloc_obj h' c l))
  end.

(* objects allocated by a member that then rejects the input are garbage *)
Fixpoint hfirst_ok (rs : list (heap -> lv -> hres lv)) (h : heap) (x : lv) : hres lv :=
  match rs with
  | [] => Raise EValue
  | r :: rest =>
      match r h x with
      | Raise e => if suppressed rt e then hfirst_ok rest h x else Raise e
      | other => other
      end
  end.

(* ---- one level of the routines; rec = the member routines ---- *)
Definition hmap_step (rec : ty -> heap -> lv -> hres lv) (kt vt : ty) (h : heap) (kv : lv * lv) : hres (lv * lv) :=
  hbind (rec kt h (fst kv)) (fun h1 k' => hbind (rec vt h1 (snd kv)) (fun h2 v' => Ok (h2, (k', v')))).

Definition hkw_step (rec : ty -> heap -> lv -> hres lv) (cd : classdef)
  (acc : hres (list (nat * lv))) (kv : lv * lv) : hres (list (nat * lv)) :=
  hbind acc (fun h kw =>
    match snd (fst kv) with
    | PKey g => match field_ty cd g with
                | Some ft => hbind (rec ft h (snd kv)) (fun h1 v' => Ok (h1, kw_setG g v' kw))
                | None => Ok (h, kw) end
    | k => if unhashable rt k then Raise EType else Ok (h, kw)
    end).

Definition hmar_step (rec : ty -> heap -> lv -> hres lv) (t : ty) (h : heap) (a : lv) : hres lv :=
  match t with
  | TLeaf s | TRefLeaf s =>
      bind (leaf_m rt s (snd a)) (fun w =>
        let hl := leaf_alloc_m hr s h (fst a) (snd a) w in Ok (fst hl, (snd hl, w)))
  | TNone => if is_none_val rt (snd a) then Ok (h, a) else Raise EValue            (* `return None`: the input *)
  | TSeq k e =>
      hbind (hitervalues h a) (fun h1 vs => hbind (hmapM (rec e) h1 vs) (fun h2 rs => Ok (alloc_seq h2 KList rs)))
  | TMap k kt vt =>
      hbind (hiteritems h a) (fun h1 kvs =>
      hbind (hmapM (hhashing (fun kv => fst (vpair kv)) (hmap_step rec kt vt)) h1 kvs) (fun h2 rs => hconstruct_map KDict h2 rs))
  | TTuple ts =>
      hbind (hitervalues h a) (fun h1 vs =>
      hbind (hmapM (fun h' tv => rec (fst tv) h' (snd tv)) h1 (zip_trunc ts vs)) (fun h2 rs => Ok (alloc_seq h2 KList rs)))
  | TUnion ts =>
      if isoptional ts && is_none_val rt (snd a) then Ok (h, a)                      (* `return val` *)
      else hfirst_ok (map rec ts) h a
  | TName c | TRef c | TAliasStr _ c =>
      match E c with
      | None => Raise EOther
      | Some (NType t') => rec t' h a
      | Some (NClass cd) =>
          hbind (hiteritems h a) (fun h1 kvs =>
          hbind (fold_left (hkw_step rec cd) kvs (Ok (h1, []))) (fun h2 kw => Ok (hkw_dict h2 kw)))
      end
  | TNewType _ t' | TAlias _ t' | TFinal t' | TClassVar t' | TRefTo t' => rec t' h a
  end.

Definition hunm_step (rec : ty -> heap -> lv -> hres lv) (t : ty) (h : heap) (a : lv) : hres lv :=
  match t with
  | TLeaf s | TRefLeaf s =>
      bind (leaf_u rt s (snd a)) (fun w =>
        let hl := leaf_alloc_u hr s h (fst a) (snd a) w in Ok (fst hl, (snd hl, w)))
  | TNone => bind (none_u rt (snd a)) (fun w => Ok (alloc_lv h w))
  | TSeq k e =>
      hbind (hload h a) (fun h0 d => hbind (hitervalues h0 d) (fun h1 vs =>
      hbind (hmapM (helem_conv k (rec e)) h1 vs) (fun h2 rs => hconstruct_seq k h2 rs)))
  | TMap k kt vt =>
      hbind (hload h a) (fun h0 d => hbind (hiteritems h0 d) (fun h1 kvs =>
      hbind (hmapM (hhashing (fun kv => fst (vpair kv)) (hmap_step rec kt vt)) h1 kvs) (fun h2 rs => hconstruct_map k h2 rs)))
  | TTuple ts =>
      hbind (hload h a) (fun h0 d => hbind (hitervalues h0 d) (fun h1 vs =>
      if Nat.ltb (length vs) (length ts) then Raise EValue
      else
      hbind (hmapM (fun h' tv => rec (fst tv) h' (snd tv)) h1 (zip_trunc ts vs)) (fun h2 rs => Ok (alloc_seq h2 KTuple rs))))
  | TUnion ts => hfirst_ok (map rec (union_stack_u ts)) h a
  | TName c | TRef c | TAliasStr _ c =>
      match E c with
      | None => Raise EOther
      | Some (NType t') => rec t' h a
      | Some (NClass cd) =>
          hbind (hload h a) (fun h0 d => hbind (hiteritems h0 d) (fun h1 kvs =>
          hbind (fold_left (hkw_step rec cd) kvs (Ok (h1, []))) (fun h2 kw => hconstruct_class c cd h2 kw)))
      end
  | TNewType _ t' | TAlias _ t' | TFinal t' | TClassVar t' | TRefTo t' => rec t' h a
  end.

Fixpoint hmar_w (fuel : nat) (t : ty) (h : heap) (a : lv) {struct fuel} : hres lv :=
  match fuel with 0 => OutOfFuel | S n => hmar_step (hmar_w n) t h a end.
Fixpoint hunm_w (fuel : nat) (t : ty) (h : heap) (a : lv) {struct fuel} : hres lv :=
  match fuel with 0 => OutOfFuel | S n => hunm_step (hunm_w n) t h a end.

(* ---- the heap-level routines ---- *)
Definition hmar (fuel : nat) (t : ty) (h : heap) (l : loc) : res (heap * loc) :=
  match read fuel h l with
  | None => OutOfFuel
  | Some x => bind (hmar_w fuel t h (l, x)) (fun r => Ok (fst r, fst (snd r)))
  end.
Definition hunm (fuel : nat) (t : ty) (h : heap) (l : loc) : res (heap * loc) :=
  match read fuel h l with
  | None => OutOfFuel
  | Some x => bind (hunm_w fuel t h (l, x)) (fun r => Ok (fst r, fst (snd r)))
  end.

(* ---- Core.mar / Core.unm in the same one-level shape (equal to them by conversion) ---- *)
Definition vmap_step (rec : ty -> pv -> res pv) (kt vt : ty) (kv : pv * pv) : res (pv * pv) :=
  bind (rec kt (fst kv)) (fun k' => bind (rec vt (snd kv)) (fun v' => Ok (k', v'))).
Definition vkw_step (rec : ty -> pv -> res pv) (cd : classdef)
  (acc : res (list (nat * pv))) (kv : pv * pv) : res (list (nat * pv)) :=
  bind acc (fun kw =>
    match fst kv with
    | PKey g => match field_ty cd g with
                | Some ft => bind (rec ft (snd kv)) (fun v' => Ok (kw_set g v' kw))
                | None => Ok kw end
    | k => if unhashable rt k then Raise EType else Ok kw
    end).
Definition mar_step (rec : ty -> pv -> res pv) (t : ty) (x : pv) : res pv :=
  match t with
  | TLeaf s | TRefLeaf s => leaf_m rt s x
  | TNone => if is_none_val rt x then Ok x else Raise EValue
  | TSeq k a => bind (itervalues rt x) (fun vs => bind (mapM (rec a) vs) (fun rs => Ok (PSeq KList rs)))
  | TMap k kt vt =>
      bind (iteritems rt E x) (fun kvs =>
      bind (mapM (hashing rt fst (vmap_step rec kt vt)) kvs) (fun rs => construct_map rt KDict rs))
  | TTuple ts =>
      bind (itervalues rt x) (fun vs =>
      bind (mapM (fun tv => rec (fst tv) (snd tv)) (zip_trunc ts vs)) (fun rs => Ok (PSeq KList rs)))
  | TUnion ts => if isoptional ts && is_none_val rt x then Ok x else first_ok rt (map rec ts) x
  | TName c | TRef c | TAliasStr _ c =>
      match E c with
      | None => Raise EOther
      | Some (NType t') => rec t' x
      | Some (NClass cd) =>
          bind (iteritems rt E x) (fun kvs =>
          bind (fold_left (vkw_step rec cd) kvs (Ok []))
               (fun kw => Ok (PDict KDict (map (fun fv => (PKey (fst fv), snd fv)) kw))))
      end
  | TNewType _ t' | TAlias _ t' | TFinal t' | TClassVar t' | TRefTo t' => rec t' x
  end.
Definition unm_step (rec : ty -> pv -> res pv) (t : ty) (x : pv) : res pv :=
  match t with
  | TLeaf s | TRefLeaf s => leaf_u rt s x
  | TNone => none_u rt x
  | TSeq k a =>
      bind (load rt x) (fun d => bind (itervalues rt d) (fun vs =>
      bind (mapM (elem_conv rt k (rec a)) vs) (fun rs => construct_seq rt k rs)))
  | TMap k kt vt =>
      bind (load rt x) (fun d => bind (iteritems rt E d) (fun kvs =>
      bind (mapM (hashing rt fst (vmap_step rec kt vt)) kvs) (fun rs => construct_map rt k rs)))
  | TTuple ts =>
      bind (load rt x) (fun d => bind (itervalues rt d) (fun vs =>
      if Nat.ltb (length vs) (length ts) then Raise EValue
      else
      bind (mapM (fun tv => rec (fst tv) (snd tv)) (zip_trunc ts vs)) (fun rs => Ok (PSeq KTuple rs))))
  | TUnion ts => first_ok rt (map rec (union_stack_u ts)) x
  | TName c | TRef c | TAliasStr _ c =>
      match E c with
      | None => Raise EOther
      | Some (NType t') => rec t' x
      | Some (NClass cd) =>
          bind (load rt x) (fun d => bind (iteritems rt E d) (fun kvs =>
          bind (fold_left (vkw_step rec cd) kvs (Ok [])) (fun kw => construct_class c cd kw)))
      end
  | TNewType _ t' | TAlias _ t' | TFinal t' | TClassVar t' | TRefTo t' => rec t' x
  end.

End HSem.

(* ------------------------------------------------------------------ the boundary of freshness *)
(* every leaf of the annotation places its result on new mutable objects (fl), every name is in G *)
Section FreshTy.
Variable fl : nat -> bool.
Variable G : nat -> bool.
Fixpoint fresh_ty (t : ty) : bool :=
  match t with
  | TLeaf s | TRefLeaf s => fl s
  | TNone => true
  | TSeq _ a => fresh_ty a
  | TMap _ kt vt => fresh_ty kt && fresh_ty vt
  | TTuple ts | TUnion ts => forallb fresh_ty ts
  | TName c | TRef c | TAliasStr _ c => G c
  | TNewType _ t' | TAlias _ t' | TFinal t' | TClassVar t' | TRefTo t' => fresh_ty t'
  end.
Definition fresh_def (d : ndef) : bool :=
  match d with NClass cd => forallb (fun f => fresh_ty (fty f)) (cfields cd) | NType t => fresh_ty t end.
(* G is closed under "mentions" (recursive classes are fine) *)
Definition env_fresh (E : env) : Prop := forall c d, G c = true -> E c = Some d -> fresh_def d = true.
End FreshTy.

(* the annotation's own routine is a composite one: its result is a container built in this call *)
Fixpoint composite_ty (E : env) (fuel : nat) (t : ty) : bool :=
  match fuel with
  | 0 => false
  | S n =>
    match t with
    | TSeq _ _ | TMap _ _ _ | TTuple _ => true
    | TName c | TRef c | TAliasStr _ c =>
        match E c with Some (NClass _) => true | Some (NType t') => composite_ty E n t' | None => false end
    | TNewType _ t' | TAlias _ t' | TFinal t' | TClassVar t' | TRefTo t' => composite_ty E n t'
    | _ => false
    end
  end.

(* ------------------------------------------------------------------ computable reachability (tie, examples) *)
Fixpoint locs_from (fuel : nat) (h : heap) (l : loc) : list loc :=
  match fuel with
  | 0 => []
  | S n => l :: match hget h l with Some nd => flat_map (locs_from n h) (children nd) | None => [] end
  end.
Definition mut_locs (fuel : nat) (h : heap) (l : loc) : list loc := filter (mutable_at h) (locs_from fuel h l).

(* ------------------------------------------------------------------ call histories threading the heap *)
Inductive call :=
| CMar (t : ty) (l : loc)          (* marshal the object at l *)
| CUnm (t : ty) (l : loc)          (* unmarshal the object at l *)
| CNew (v : pv).                   (* the caller builds a new value *)
Section Hist.
Variable rt : runtime.
Variable hr : hruntime.
Variable E : env.
Definition hcall (fuel : nat) (c : call) (h : heap) : res (heap * loc) :=
  match c with
  | CMar t l => hmar rt hr E fuel t h l
  | CUnm t l => hunm rt hr E fuel t h l
  | CNew v => Ok (alloc_pv h v)
  end.
(* the heap after the history and the result of every call, oldest first *)
Fixpoint hrun (fuel : nat) (cs : list call) (h : heap) : res (heap * list loc) :=
  match cs with
  | [] => Ok (h, [])
  | c :: r => bind (hcall fuel c h) (fun hl => bind (hrun fuel r (fst hl)) (fun rest => Ok (fst rest, snd hl :: snd rest)))
  end.
End Hist.
