(* Model of the Union routines of typelib:
     src/typelib/unmarshals/routines.py  UnionUnmarshaller.__init__ / __call__, NoneTypeUnmarshaller
     src/typelib/marshals/routines.py    UnionMarshaller.__init__ / __call__
   The member routines, the value universe and `serdes.decode` are NOT typelib's union logic: they are
   Section variables.  Which exception kinds the try-loop swallows is a parameter `sup`; the live value
   is measured on the classes on every run (GenSuppress.v in the build dir).
   Definitions only; proofs live in Proofs/UnionLemmas.v. *)
From Coq Require Import List Bool Arith.
Import ListNotations.

(* Exception kinds.  Each constructor has one representative Python class that the harness raises
   from a scripted member when it measures the suppressed set (harness/props/c08.py: KINDS);
   an observed exception is mapped to the most specific representative in its MRO. *)
Inductive exn :=
| EValue        (* ValueError *)
| EUnicode      (* UnicodeDecodeError  (a ValueError) *)
| EType         (* TypeError *)
| ESyntax       (* SyntaxError *)
| EAttribute    (* AttributeError *)
| EArith        (* decimal.InvalidOperation / ArithmeticError *)
| EOverflow     (* OverflowError  (an ArithmeticError) *)
| EZeroDiv      (* ZeroDivisionError  (an ArithmeticError) *)
| EKey          (* KeyError  (a LookupError) *)
| EIndex        (* IndexError  (a LookupError) *)
| EOS           (* OSError *)
| ERuntime      (* RuntimeError *)
| ERecursion    (* RecursionError  (a RuntimeError) *)
| EStopIter     (* StopIteration *)
| EAssert       (* AssertionError *)
| EMemory       (* MemoryError *)
| ERegex        (* re.error *)
| EOther        (* any other subclass of Exception *)
| EKeyboard     (* KeyboardInterrupt   -- BaseException only *)
| ESysExit      (* SystemExit          -- BaseException only *)
| EGenExit      (* GeneratorExit       -- BaseException only *)
| EBaseOther.   (* any other direct subclass of BaseException *)

Definition all_exn : list exn :=
  [EValue; EUnicode; EType; ESyntax; EAttribute; EArith; EOverflow; EZeroDiv; EKey; EIndex; EOS;
   ERuntime; ERecursion; EStopIter; EAssert; EMemory; ERegex; EOther;
   EKeyboard; ESysExit; EGenExit; EBaseOther].

(* "an error a member can use to reject an input": instances of Exception.
   KeyboardInterrupt & co are not rejections. *)
Definition is_exception (e : exn) : bool :=
  match e with EKeyboard | ESysExit | EGenExit | EBaseOther => false | _ => true end.

Definition exn_eqb (a b : exn) : bool :=
  match a, b with
  | EValue, EValue | EUnicode, EUnicode | EType, EType | ESyntax, ESyntax | EAttribute, EAttribute
  | EArith, EArith | EOverflow, EOverflow | EZeroDiv, EZeroDiv | EKey, EKey | EIndex, EIndex
  | EOS, EOS | ERuntime, ERuntime | ERecursion, ERecursion | EStopIter, EStopIter | EAssert, EAssert
  | EMemory, EMemory | ERegex, ERegex | EOther, EOther | EKeyboard, EKeyboard | ESysExit, ESysExit
  | EGenExit, EGenExit | EBaseOther, EBaseOther => true
  | _, _ => false
  end.

Inductive res (A : Type) := Ok (a : A) | Raise (e : exn).
Arguments Ok {A}. Arguments Raise {A}.

Section Union.
Variable V : Type.                 (* Python objects *)
Variable vnone : V.                (* the object None *)
Variable is_none : V -> bool.      (* `x is None` *)

Definition routine := V -> res V.

(* __call__ of both Union routines:
     for routine in self.ordered_routines:
         with contextlib.suppress(<sup>):
             return routine(val)
     raise ValueError(...)                                                      *)
Fixpoint first_ok (sup : exn -> bool) (rs : list routine) (x : V) : res V :=
  match rs with
  | [] => Raise EValue
  | r :: rest =>
      match r x with
      | Ok y => Ok y
      | Raise e => if sup e then first_ok sup rest x else Raise e
      end
  end.

(* A declared member A_i of Union[A_1..A_n], as the constructor sees it:
   m_none = inspection.isnonetype(A_i);  m_run = self.context[A_i]. *)
Record member := { m_none : bool; m_run : routine }.

(* inspection.isoptionaltype(t) for a Union/UnionType: some argument is None/NoneType. *)
Definition isoptional (ms : list member) : bool := existsb m_none ms.

Definition not_none (m : member) : bool := negb (m_none m).

(* UnionUnmarshaller.__init__ (repaired code, proposed_fixes/C08-none-first.diff):
     self.stack = inspection.args(t, evaluate=True)
     if inspection.isoptionaltype(t):
         self.stack = ( *(a for a in stack if isnonetype(a)), *(a for a in stack if not isnonetype(a)) )
     self.ordered_routines = [self.context[typ] for typ in self.stack]            *)
Definition stack_u (ms : list member) : list member :=
  if isoptional ms then filter m_none ms ++ filter not_none ms else ms.

(* The pinned tree (b80d764) instead rotates:  self.stack = (self.stack[-1], *self.stack[:-1]) *)
Definition rotate (ms : list member) : list member :=
  match rev ms with [] => [] | l :: r => l :: rev r end.
Definition stack_u_pinned (ms : list member) : list member :=
  if isoptional ms then rotate ms else ms.

Definition unm_union (sup : exn -> bool) (ms : list member) (x : V) : res V :=
  first_ok sup (map m_run (stack_u ms)) x.
Definition unm_union_pinned (sup : exn -> bool) (ms : list member) (x : V) : res V :=
  first_ok sup (map m_run (stack_u_pinned ms)) x.

(* UnionMarshaller: stack = args (no reordering); nullable = isoptionaltype(t);
     if self.nullable and val is None: return val
     <same loop>                                                                *)
Definition mar_union (sup : exn -> bool) (ms : list member) (x : V) : res V :=
  if isoptional ms && is_none x then Ok x else first_ok sup (map m_run ms) x.

(* NoneTypeUnmarshaller.__call__:
     decoded = serdes.decode(val)
     if decoded is not None: raise ValueError
     return None                                                                 *)
Definition none_unm (decode : V -> res V) : routine :=
  fun x => match decode x with
           | Ok d => if is_none d then Ok vnone else Raise EValue
           | Raise e => Raise e
           end.

(* ---- vocabulary of the property statement ---- *)
Definition accepts (r : routine) (x y : V) : Prop := r x = Ok y.
Definition rejects (r : routine) (x : V) : Prop := exists e, r x = Raise e /\ is_exception e = true.
Definition rejects_sup (sup : exn -> bool) (r : routine) (x : V) : Prop :=
  exists e, r x = Raise e /\ sup e = true.

(* what the library's own routine for a NoneType member does (both facts are proved for none_unm) *)
Definition none_member_ok (sup : exn -> bool) (m : member) : Prop :=
  m_none m = true ->
  m_run m vnone = Ok vnone /\ forall x, x <> vnone -> rejects_sup sup (m_run m) x.

End Union.

Arguments first_ok {V}. Arguments m_none {V}. Arguments m_run {V}.
Arguments isoptional {V}. Arguments stack_u {V}. Arguments stack_u_pinned {V}. Arguments rotate {V}.
Arguments unm_union {V}. Arguments unm_union_pinned {V}. Arguments mar_union {V}.
Arguments none_unm {V}. Arguments not_none {V}.
Arguments accepts {V}. Arguments rejects {V}. Arguments rejects_sup {V}. Arguments none_member_ok {V}.
