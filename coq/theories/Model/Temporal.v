(* Model/Temporal.v -- C04: values, the runtime interface (what is NOT typelib), and the plumbing
   serdes adds around it: decode, isoformat, unixtime, dateparse, _nomalize_dt, _normalize_number.
   DEFINITIONS ONLY.  Mirrors the tree with proposed_fixes/C04-*.diff applied. *)
From Coq Require Import List ZArith Ascii String Bool.
Import ListNotations.
Require Import TL.Model.Duration.
Open Scope Z_scope.

Inductive exn := EValue | EType | EOverflow | EOther.
Inductive res (A : Type) := Ok (a : A) | Raise (e : exn) | Unmodelled.
Arguments Ok {A} a. Arguments Raise {A} e. Arguments Unmodelled {A}.
Definition bind {A B} (r : res A) (f : A -> res B) : res B :=
  match r with Ok a => f a | Raise e => Raise e | Unmodelled => Unmodelled end.
Notation "r >>= f" := (bind r f) (at level 50, left associativity).

(* the five text carriers *)
Inductive carrier := CStr | CBytes | CBytearray | CMvBytes | CMvBytearray.
(* interpreter values typelib never looks inside: identified by their canonical repr *)
Definition tok := string.
Record dtf := { dy : Z; dmo : Z; dd : Z; dh : Z; dmi : Z; ds : Z; dus : Z; doff : option Z; dfold : Z }.
Record tmf := { th : Z; tmi : Z; ts : Z; tus : Z; toff : option Z; tfold : Z }.
Inductive val :=
| VNone | VBool (b : bool) | VInt (z : Z) | VFloat (f : tok)
| VText (c : carrier) (s : string)          (* CStr: the text; otherwise: its bytes *)
| VDec (t : tok) | VFrac (t : tok) | VUuid (t : tok) | VPath (t : tok) | VEnum (t : tok)
| VDate (y m d : Z) | VDateTime (d : dtf) | VTime (t : tmf) | VTimeDelta (d s us : Z)
| VPattern (t : tok)                        (* a compiled re.Pattern *)
| VOther (t : tok).
Inductive tkind := KDate | KDateTime | KTime | KTimeDelta.
(* pendulum.parse(exact=False): DateTime or Duration *)
Inductive parsed := PDT (d : dtf) | PDur (d s us : Z).

Record Runtime := {
  utf8_decode : string -> res string;          (* bytes.decode('utf-8') *)
  utf8_encode : string -> string;              (* str.encode('utf-8') *)
  canon_text : val -> string;                  (* str(v); .isoformat() for date, datetime, time *)
  int_of_str : string -> res Z;                (* int(s) *)
  float_of_str : string -> res tok;            (* float(s) *)
  dec_of_str : string -> res tok;              (* Decimal(s) *)
  frac_of_str : string -> res tok;             (* Fraction(s) *)
  uuid_of_str : string -> res tok;             (* UUID(s) *)
  uuid_of_int : Z -> res tok;                  (* UUID(int=z) *)
  path_of_str : string -> res tok;             (* Path(s) *)
  enum_of_val : val -> res tok;                (* E(value), for the enum class at hand *)
  int_of_float : tok -> res Z;                 (* int(f) *)
  float_of_int : Z -> res tok;                 (* float(z) *)
  load : val -> res val;                       (* serdes.load (owned by C14) *)
  pendulum_parse : string -> res parsed;       (* pendulum.parse *)
  time_fromisoformat : string -> res tmf;      (* datetime.time.fromisoformat *)
  fromtimestamp_utc : val -> res dtf;          (* datetime.fromtimestamp(x, tz=UTC), x int or float *)
  timestamp : dtf -> res tok;                  (* aware datetime .timestamp() *)
  td_total_seconds : Z * Z * Z -> tok;         (* timedelta.total_seconds() *)
  td_of_seconds : val -> res (Z * Z * Z);      (* timedelta(seconds=x), x int or float *)
  is_digit_str : string -> bool;               (* s.isdigit() or s.isdecimal() *)
  is_member : tok -> bool;                     (* isinstance(m, E) for the enum class at hand *)
  enum_base : tok -> option val;               (* the member as an instance of its data-type mixin: the str of a
                                                  (str, Enum) member, the int of an IntEnum member; None: plain Enum *)
  py_eq : val -> val -> bool;                  (* x == y, where the model does not decide it itself (floats, Decimal ...) *)
  truthy : val -> res bool;                    (* bool(x), where the model does not decide it itself *)
  re_compile : string -> res tok;              (* re.compile(s), s a str *)
  pattern_text : tok -> val                    (* p.pattern: a str or a bytes object *)
}.

Section WithRuntime.
Variable rt : Runtime.

(* a text [s] in carrier [c] *)
Definition text (c : carrier) (s : string) : val :=
  match c with CStr => VText CStr s | _ => VText c (utf8_encode rt s) end.

(* serdes.decode *)
Definition decode (v : val) : res val :=
  match v with
  | VText CStr _ => Ok v
  | VText _ b => utf8_decode rt b >>= fun s => Ok (VText CStr s)
  | _ => Ok v end.

(* what an isinstance test against a builtin class sees: a member of a mixin enum IS a str / an int ... *)
Definition view (v : val) : val :=
  match v with VEnum m => match enum_base rt m with Some b => b | None => v end | _ => v end.
(* isinstance(v, str) *)
Definition as_str (v : val) : option string := match view v with VText CStr s => Some s | _ => None end.
(* isinstance(v, int), bool included: the int it is *)
Definition b2z (b : bool) : Z := if b then 1 else 0.
Definition as_int (v : val) : option Z := match view v with VInt z => Some z | VBool b => Some (b2z b) | _ => None end.

Definition is_temporal (v : val) : bool :=
  match v with VDate _ _ _ | VDateTime _ | VTime _ | VTimeDelta _ _ _ => true | _ => false end.

(* serdes.isoformat: the interpreter's own isoformat() for date/time/datetime, typelib's writer for timedelta *)
Definition isoformat (v : val) : string :=
  match v with
  | VTimeDelta d s us => iso_duration (d, s, us)
  | _ => canon_text rt v end.

Definition utc : option Z := Some 0.
Definition midnight_utc (y m d : Z) : dtf :=
  {| dy := y; dmo := m; dd := d; dh := 0; dmi := 0; ds := 0; dus := 0; doff := utc; dfold := 0 |}.
(* dt.time().replace(tzinfo=dt.tzinfo) *)
Definition time_of (d : dtf) : tmf :=
  {| th := dh d; tmi := dmi d; ts := ds d; tus := dus d; toff := doff d; tfold := dfold d |}.

(* pendulum.DateTime.time() builds a fresh Time: the fold is not carried over *)
Definition time_of_pendulum (d : dtf) : tmf :=
  {| th := dh d; tmi := dmi d; ts := ds d; tus := dus d; toff := doff d; tfold := 0 |}.

(* serdes.unixtime; the time branch reads now() and is outside the model *)
Definition unixtime (v : val) : res tok :=
  match v with
  | VTimeDelta d s us => Ok (td_total_seconds rt (d, s, us))
  | VDateTime d => timestamp rt d
  | VDate y m d => timestamp rt (midnight_utc y m d)
  | _ => Unmodelled end.

(* serdes._nomalize_dt *)
Definition nomalize_dt (p : parsed) (t : tkind) : res val :=
  match p, t with
  | PDT d, KTime => Ok (VTime (time_of_pendulum d))
  | PDT d, KDateTime => Ok (VDateTime d)
  | PDT d, KDate => Ok (VDate (dy d) (dmo d) (dd d))
  | PDT _, KTimeDelta => Raise EValue
  | PDur d s us, KTimeDelta => Ok (VTimeDelta d s us)
  | PDur _ _ _, _ => Raise EValue end.

(* serdes._normalize_number *)
Definition normalize_number (x : val) (t : tkind) : res val :=
  match t with
  | KTimeDelta => td_of_seconds rt x >>= fun '(d, s, us) => Ok (VTimeDelta d s us)
  | KDateTime => fromtimestamp_utc rt x >>= fun d => Ok (VDateTime d)
  | KTime => fromtimestamp_utc rt x >>= fun d => Ok (VTime (time_of d))
  | KDate => fromtimestamp_utc rt x >>= fun d => Ok (VDate (dy d) (dmo d) (dd d)) end.

Definition td_total (td : Z * Z * Z) : Z := let '(d, s, us) := td in (d * 86400 + s) * 1000000 + us.
(* timedelta(0) - parsed *)
Definition negate (p : parsed) : res parsed :=
  match p with
  | PDur d s us => let '(d', s', us') := td_of_total (- td_total (d, s, us)) in Ok (PDur d' s' us')
  | PDT _ => Raise EType end.
(* val.startswith("-P") *)
Definition starts_neg (s : string) : bool :=
  match s with
  | String a t => if Ascii.eqb a "-" then match t with String b _ => Ascii.eqb b "P" | EmptyString => false end else false
  | EmptyString => false end.
Definition str_tail (s : string) : string := match s with String _ r => r | EmptyString => s end.
Definition is_some_off (t : tmf) : bool := match toff t with Some _ => true | None => false end.

(* serdes.dateparse *)
Definition dateparse (s : string) (t : tkind) : res val :=
  let shortcut : option (res val) :=
    match t with
    | KTime => match time_fromisoformat rt s with
               | Ok tm => if is_some_off tm then Some (Ok (VTime tm)) else None
               | Raise EValue => None
               | Raise e => Some (Raise e)
               | Unmodelled => Some Unmodelled end
    | _ => None end in
  let main : res val :=
    match shortcut with
    | Some r => r
    | None =>
      let neg := starts_neg s in
      pendulum_parse rt (if neg then str_tail s else s) >>= fun p =>
      (if neg then negate p else Ok p) >>= fun p' => nomalize_dt p' t end in
  match main with
  | Raise EValue =>
      if is_digit_str rt s then float_of_str rt s >>= fun f => normalize_number (VFloat f) t
      else Raise EValue
  | r => r end.

End WithRuntime.
