(* Dispatch bridge: comparison of the model's dispatch with routine classes observed on the
   implementation (correspondence runs only).  Definitions only. *)
From Coq Require Import List NArith ZArith String Bool.
Import ListNotations.
Require Import TL.Model.Inspect TL.Model.Dispatch.

(* what was seen: the class of the routine instance; an exception that escaped from a handler
   predicate; nothing comparable (the factory raised somewhere else: graph, routine constructor) *)
Inductive dobs := OCls (s : string) | ORaised | OSkip.

Definition obs_ok (r : dres string) (o : dobs) : bool :=
  match r, o with
  | DOk c, OCls s => String.eqb c s
  | DRaise _, ORaised => true
  | _, OSkip => true
  | _, _ => false
  end.

(* one case: annotation, observed unmarshaller class, observed marshaller class *)
Definition dcase := (ity * dobs * dobs)%type.

(* root = true: through the public factory (a bare TypeVar is normalised first);
   root = false: _get_unmarshaller / _get_marshaller on a node *)
Definition model_u (D : dtables) (root : bool) (t : ity) : dres string :=
  impl_res (d_impl D) ((if root then dispatch_root else dispatch) (d_tbl D) (d_unm D) (d_unm_fb D) t).
Definition model_m (D : dtables) (root : bool) (t : ity) : dres string :=
  impl_res (d_impl D) ((if root then dispatch_root else dispatch) (d_tbl D) (d_mar D) (d_mar_fb D) t).

Fixpoint mismatches_from (D : dtables) (root : bool) (cs : list dcase) (i : nat) : list (nat * nat) :=
  match cs with
  | [] => []
  | (t, ou, om) :: r =>
      (if obs_ok (model_u D root t) ou then [] else [(i, 0)]) ++
      (if obs_ok (model_m D root t) om then [] else [(i, 1)]) ++
      mismatches_from D root r (S i)
  end.
Definition mismatches (D : dtables) (root : bool) (cs : list dcase) := mismatches_from D root cs 0.
(* for diagnostics *)
Definition model_says (D : dtables) (root : bool) (t : ity) := (model_u D root t, model_m D root t).
