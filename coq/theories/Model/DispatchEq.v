(* Dispatch bridge: comparison of the model's dispatch with routine classes observed on the
   implementation (correspondence runs only).  Definitions only. *)
From Coq Require Import List NArith ZArith String Bool.
Import ListNotations.
Require Import TL.Model.Inspect TL.Model.Dispatch.
Require TL.Model.Core TL.Model.Build.

(* what was seen: the class of the routine instance; an exception that escaped from a handler
   predicate; nothing comparable (the factory raised somewhere else: graph, routine constructor) *)
Inductive dobs := OCls (s : string) | ORaised | OSkip.

Definition obs_ok (r : dres string) (o : dobs) : bool :=
  match r, o with
  | DOk c, OCls s => String.eqb c s
  | DRaise _, ORaised => true
  | _, OSkip => true
  | _, _ => false
  end.

(* one case: annotation, observed unmarshaller class, observed marshaller class *)
Definition dcase := (ity * dobs * dobs)%type.

(* root = true: through the public factory (a bare TypeVar is normalised first);
   root = false: _get_unmarshaller / _get_marshaller on a node *)
Definition model_u (D : dtables) (root : bool) (t : ity) : dres string :=
  impl_res (d_impl D) ((if root then dispatch_root else dispatch) (d_tbl D) (d_unm D) (d_unm_fb D) t).
Definition model_m (D : dtables) (root : bool) (t : ity) : dres string :=
  impl_res (d_impl D) ((if root then dispatch_root else dispatch) (d_tbl D) (d_mar D) (d_mar_fb D) t).

Fixpoint mismatches_from (D : dtables) (root : bool) (cs : list dcase) (i : nat) : list (nat * nat) :=
  match cs with
  | [] => []
  | (t, ou, om) :: r =>
      (if obs_ok (model_u D root t) ou then [] else [(i, 0)]) ++
      (if obs_ok (model_m D root t) om then [] else [(i, 1)]) ++
      mismatches_from D root r (S i)
  end.
Definition mismatches (D : dtables) (root : bool) (cs : list dcase) := mismatches_from D root cs 0.
(* for diagnostics *)
Definition model_says (D : dtables) (root : bool) (t : ity) := (model_u D root t, model_m D root t).

(* the conclusion of the dispatch theorems read directly against the observation: inside the supported grammar the
   observed classes are the classes of the head kind *)
Definition spec_says (D : dtables) (root : bool) (t : ity) : option (string * string) :=
  let t' := if root then normalize_typevar t else t in
  if supported D t' && negb (is_typevar t') then
    match kind_of (d_tbl D) (peel t') with Some k => Some (expected_u k, expected_m k) | None => None end
  else None.
Definition cls_ok (e : string) (o : dobs) : bool :=
  match o with OCls s => String.eqb e s | OSkip => true | ORaised => false end.
(* (number of cases inside the supported grammar, indexes of those whose observation differs) in one pass *)
Fixpoint spec_report_from (D : dtables) (root : bool) (cs : list dcase) (i : nat) : nat * list nat :=
  match cs with
  | [] => (0, [])
  | (t, ou, om) :: r =>
      let (n, bad) := spec_report_from D root r (S i) in
      match spec_says D root t with
      | Some (eu, em) => (S n, if cls_ok eu ou && cls_ok em om then bad else i :: bad)
      | None => (n, bad)
      end
  end.
Definition spec_report (D : dtables) (root : bool) (cs : list dcase) := spec_report_from D root cs 0.

(* ------------------------------------------------------------------ one annotation, two descriptions *)
(* The core harness (universe.py) describes an annotation as a Core.ty; the catalogue of C17 describes the same
   Python object as an ity.  Build.construct chooses its case by the constructor of the (unwrapped) ty; the code
   chooses the routine class by dispatch.  [heads_agree]: the case Build.construct takes is the one the head kind of
   the ity stands for (and the ity is inside the supported grammar, so that the dispatch theorems apply). *)
Definition ty_bhead (E : Core.env) (u : Core.ty) : option bhead :=
  match u with
  | Core.TLeaf _ => Some BLeaf
  | Core.TNone => Some BNone
  | Core.TSeq _ _ => Some BSeq
  | Core.TMap _ _ _ => Some BMap
  | Core.TTuple _ => Some BTuple
  | Core.TUnion _ => Some BUnion
  | Core.TName c => match E c with Some (Core.NClass _) => Some BStruct | _ => None end
  | Core.TRef _ | Core.TRefLeaf _ | Core.TRefTo _ | Core.TAliasStr _ _ => Some BDelayed
  | _ => None
  end.
Definition routine_bhead (r : Build.routine) : bhead :=
  match r with
  | Build.RLeaf _ => BLeaf | Build.RNone => BNone | Build.RNoOp => BNoOp | Build.RSeq _ _ => BSeq
  | Build.RMap _ _ _ => BMap | Build.RTuple _ => BTuple | Build.RUnion _ _ => BUnion
  | Build.RStruct _ _ => BStruct | Build.RDelayed _ => BDelayed
  end.
Definition bhead_eqb (a b : bhead) : bool :=
  match a, b with
  | BLeaf, BLeaf | BNone, BNone | BNoOp, BNoOp | BSeq, BSeq | BMap, BMap | BTuple, BTuple | BUnion, BUnion
  | BStruct, BStruct | BDelayed, BDelayed => true
  | _, _ => false
  end.
(* 0 = agree; 1 = the ity is outside the supported grammar; 2 = the ty has no constructor case; 3 = different heads *)
Definition heads_agree (D : dtables) (E : Core.env) (t : ity) (tau : Core.ty) : nat :=
  if negb (supported D t && negb (is_typevar t)) then 1
  else match kind_of (d_tbl D) (peel t), ty_bhead E (Build.unwrap E tau) with
       | Some k, Some h => if bhead_eqb (build_head k) h then 0 else 3
       | None, _ => 1
       | _, None => 2
       end.
Definition head_case := (ity * Core.ty)%type.
Definition head_report (D : dtables) (E : Core.env) (cs : list head_case) : list nat :=
  map (fun c => heads_agree D E (fst c) (snd c)) cs.
