(* Comparison of the reference-resolution model with observations of the implementation (the per-run tie
   harness/refstie.py), and the concrete instance used by the witnesses and examples.  Definitions only. *)
From Coq Require Import List Bool Arith PeanoNat String Ascii.
Import ListNotations.
Require Import TL.Model.Refs.
Local Open Scope string_scope.
Local Open Scope list_scope.

(* ---------------- observations ---------------- *)
(* what the harness saw of one operation: for each routine built, the identities of the objects whose routine
   behaves like the one observed (a singleton wherever the object carries a witness class) *)
Inductive bobs : Type :=
| BOk (cands : list (list nat))
| BRef (n : string) (m : option string) (r : bobs)
| BErr (e : err)
| BUnit
| BOther.                      (* anything the model has no word for: agrees with nothing *)

Definition err_eqb (a b : err) : bool :=
  match a, b with
  | ENameError, ENameError | ETypeError, ETypeError | EAttributeError, EAttributeError => true
  | _, _ => false              (* EUnmodelled agrees with nothing, not even itself *)
  end.

Definition obj_in (o : obj) (ids : list nat) : bool :=
  match o with OVal i _ => existsb (Nat.eqb i) ids | OMod _ => false end.

Fixpoint objs_match (os : list obj) (cs : list (list nat)) : bool :=
  match os, cs with
  | [], [] => true
  | o :: r, c :: t => obj_in o c && objs_match r t
  | _, _ => false
  end.

Definition res_match (r : res obj) (b : bobs) : bool :=
  match r, b with
  | Ok o, BOk [c] => obj_in o c
  | Err e, BErr e' => err_eqb e e'
  | _, _ => false
  end.

Definition result_match (r : result) (b : bobs) : bool :=
  match r, b with
  | ROk os, BOk cs => objs_match os cs
  | RRef n m x, BRef n' m' b' => String.eqb n n' && opt_str_eqb m m' && res_match x b'
  | RErr e, BErr e' => err_eqb e e'
  | RUnit, BUnit => true
  | _, _ => false
  end.

Fixpoint mism_from (rs : list result) (bs : list bobs) (i : nat) : list nat :=
  match rs, bs with
  | [], [] => []
  | r :: rt, b :: bt => (if result_match r b then [] else [i]) ++ mism_from rt bt (S i)
  | _, _ => [i]                (* different lengths *)
  end.

Record rcase : Type := {
  c_fixed : bool;
  c_world : world;
  c_lib : lib;
  c_hist : list op;
  c_obs : list bobs
}.

Definition bad_ops (c : rcase) : list nat :=
  mism_from (outs (c_fixed c) (c_world c) (c_lib c) init (c_hist c)) (c_obs c) 0.

Fixpoint bad_cases_from (cs : list rcase) (i : nat) : list (nat * nat) :=
  match cs with
  | [] => []
  | c :: r => map (fun j => (i, j)) (bad_ops c) ++ bad_cases_from r (S i)
  end.
Definition bad_cases (cs : list rcase) : list (nat * nat) := bad_cases_from cs 0.

(* the hypothesis of the theorems about the repaired resolver, decided on the reflected chains *)
Definition all_entries : list entry :=
  [EUnmarshal; EMarshal; EDecode; EStaticOrder; EForwardref; ECodec; ECodecM; ECodecU; EDecodePre; ECodecPost].
Definition libs_ok (L : lib) : bool := forallb (lib_ok L) all_entries.

(* per operation: is it inside the hypotheses of Refs_repaired_bare (the innermost frame of the caller's
   stack that the resolver does not pass over binds the name in its globals, its module is known to the
   interpreter and binds the name to a non-module) -- and if so, does the model answer that object? *)
Definition bare_target (W : world) (L : lib) (s : string) (ust : list frame) : option obj :=
  if negb (is_ident s) then None else
  match first_binding (l_pkg L) s ust with
  | Some c =>
      match lookup s (f_globals c), f_gname c with
      | Some _, Some m =>
          match lookup m (w_modules W) with
          | Some d => match lookup s d with
                      | Some (OVal i x) => Some (OVal i x)
                      | _ => None
                      end
          | None => None
          end
      | _, _ => None
      end
  | None => None
  end.

(* the operations of a case that lie inside those hypotheses (count), and those among them whose OBSERVATION is not
   the object the theorem names (indexes): the theorem's conclusion read directly on the implementation *)
Definition entry_in_bare (e : entry) : bool :=
  match e with ECodecM | ECodecU | EDecodePre | ECodecPost => false | _ => true end.

Definition expect_obs (e : entry) (s m : string) (b : bobs) (o : obj) : bool :=
  match e, b with
  | EForwardref, BRef n' m' (BOk [c]) => String.eqb s n' && opt_str_eqb (Some m) m' && obj_in o c
  | ECodec, BOk [c1; c2] => obj_in o c1 && obj_in o c2
  | EForwardref, _ | ECodec, _ => false
  | _, BOk [c] => obj_in o c
  | _, _ => false
  end.

Fixpoint cover_from (W : world) (L : lib) (h : list op) (bs : list bobs) (i : nat) : nat * list nat :=
  match h, bs with
  | OCall e (RStr s) ust :: ht, b :: bt =>
      let '(n, bad) := cover_from W L ht bt (S i) in
      if entry_in_bare e && lib_ok L e then
        match bare_target W L s ust, first_binding (l_pkg L) s ust with
        | Some o, Some c =>
            match f_gname c with
            | Some m => (S n, if expect_obs e s m b o then bad else i :: bad)
            | None => (n, bad)
            end
        | _, _ => (n, bad)
        end
      else (n, bad)
  | _ :: ht, _ :: bt => cover_from W L ht bt (S i)
  | _, _ => (0, [])
  end.

Definition cover_case (c : rcase) : nat * list nat :=
  if c_fixed c then cover_from (c_world c) (c_lib c) (c_hist c) (c_obs c) 0 else (0, []).

Fixpoint cover_cases_from (cs : list rcase) (i : nat) : nat * list (nat * nat) :=
  match cs with
  | [] => (0, [])
  | c :: r =>
      let '(n, bad) := cover_case c in
      let '(n', bad') := cover_cases_from r (S i) in
      (n + n', map (fun j => (i, j)) bad ++ bad')
  end.
Definition cover_cases (cs : list rcase) : nat * list (nat * nat) := cover_cases_from cs 0.

Definition libs_bad (cs : list rcase) : list nat :=
  List.concat (map (fun p => if libs_ok (c_lib (snd p)) then [] else [fst p]) (combine (seq 0 (List.length cs)) cs)).

(* ---------------- a concrete interpreter state ---------------- *)
Definition cls (i : nat) (m : string) : obj := OVal i (Some m).

Definition d_mod_a : table :=
  [("Node", cls 1 "mod_a"); ("Alias", cls 3 "builtins"); ("TypeNode", cls 4 "mod_a"); ("go", cls 50 "mod_a")].
Definition d_mod_b : table := [("Node", cls 2 "mod_b"); ("go", cls 51 "mod_b")].
Definition d_mod_c : table := [("Thing", cls 1 "mod_a"); ("mod_a", OMod "mod_a")].
(* import mod_a as ma; import mod_a as mod_b *)
Definition d_mod_d : table := [("ma", OMod "mod_a"); ("mod_b", OMod "mod_a")].

Definition W0 : world := {|
  w_modules := [("mod_a", d_mod_a); ("mod_b", d_mod_b); ("mod_c", d_mod_c); ("mod_d", d_mod_d);
                ("builtins", [("int", cls 10 "builtins")]);
                ("typelib.graph", [("TypeNode", cls 900 "typelib.graph")]);
                ("app", [("webapp", OMod "app.webapp")]);
                ("app.webapp", [("Model", cls 7 "app.webapp")]);
                ("__main__", [])];
  w_builtins := [("int", cls 10 "builtins")]
|}.

Definition lib_frame (m q : string) (g l : table) : frame := {|
  f_gname := Some m; f_mod := Some m; f_qual := q;
  f_file := "/venv/lib/python3.12/site-packages/" ++ "typelib/x.py";
  f_globals := g; f_locals := l |}.

Definition a_str : obj := OVal 800 None.    (* some str / None / bool local of the library: no __module__ *)

Definition fr_resolve := lib_frame "typelib.py.refs" "_resolve_module_name" [] [("ref", a_str); ("module", a_str)].
Definition fr_forwardref := lib_frame "typelib.py.refs" "forwardref" [] [("ref", a_str); ("name", a_str)].
Definition fr_static_order := lib_frame "typelib.graph" "static_order" [("TypeNode", cls 900 "typelib.graph")] [("t", a_str)].
Definition fr_unmarshaller := lib_frame "typelib.unmarshals.api" "unmarshaller" [] [("t", a_str)].
Definition fr_unmarshal := lib_frame "typelib.unmarshals.api" "unmarshal" [] [("t", a_str); ("value", a_str)].
Definition fr_marshaller := lib_frame "typelib.marshals.api" "marshaller" [] [("t", a_str)].
Definition fr_marshal := lib_frame "typelib.marshals.api" "marshal" [] [("t", a_str); ("value", a_str)].
Definition fr_wrapper := lib_frame "typelib.py.refs" "cache.<locals>.wrapper" [] [("t", a_str)].
Definition fr_codec := lib_frame "typelib.codecs" "codec" [] [("t", a_str)].
Definition fr_isbyteslike := lib_frame "typelib.codecs" "isbyteslike" [] [("t", a_str)].
Definition fr_decode := lib_frame "typelib.api" "decode" [] [("t", a_str); ("value", a_str)].

(* the code before the repair *)
Definition L0 : lib := {|
  l_pkg := "typelib"; l_strip_lead := false; l_caller_head := false;
  l_extract := lib_frame "typelib.py.frames" "extract" [] [("name", a_str); ("frame", a_str)];
  l_chain := fun e =>
    match e with
    | EUnmarshal => [fr_resolve; fr_forwardref; fr_static_order; fr_unmarshaller; fr_unmarshal]
    | EDecode => [fr_resolve; fr_forwardref; fr_static_order; fr_unmarshaller; fr_unmarshal; fr_decode]
    | EDecodePre => [fr_resolve; fr_forwardref; fr_isbyteslike; fr_decode]
    | ECodecPost => [fr_resolve; fr_forwardref; fr_isbyteslike; fr_codec]
    | EMarshal => [fr_resolve; fr_forwardref; fr_static_order; fr_marshaller; fr_marshal]
    | EStaticOrder => [fr_resolve; fr_forwardref; fr_static_order]
    | EForwardref => [fr_resolve; fr_forwardref]
    | ECodec => []
    | ECodecM => [fr_resolve; fr_forwardref; fr_static_order; fr_marshaller; fr_codec]
    | ECodecU => [fr_resolve; fr_forwardref; fr_static_order; fr_unmarshaller; fr_codec]
    end
|}.

(* the repaired code *)
Definition L1 : lib := {|
  l_pkg := "typelib"; l_strip_lead := false; l_caller_head := false;
  l_extract := l_extract L0;
  l_chain := fun e =>
    match e with
    | EUnmarshal => [fr_resolve; fr_forwardref; fr_wrapper; fr_unmarshal]
    | EDecode => [fr_resolve; fr_forwardref; fr_wrapper; fr_unmarshal; fr_decode]
    | EDecodePre => [fr_resolve; fr_forwardref; fr_isbyteslike; fr_decode]
    | EMarshal => [fr_resolve; fr_forwardref; fr_wrapper; fr_marshal]
    | EStaticOrder | ECodec => [fr_resolve; fr_forwardref; fr_wrapper]
    | EForwardref => [fr_resolve; fr_forwardref]
    | ECodecM | ECodecU | ECodecPost => []
    end
|}.

(* the repaired code with the two later repairs of forwardref / the dotted head *)
Definition L2 : lib := {|
  l_pkg := "typelib"; l_strip_lead := true; l_caller_head := true;
  l_extract := l_extract L1; l_chain := l_chain L1 |}.
(* ... with only the first of them (the head rule pinned) *)
Definition L2_head_pinned : lib := {|
  l_pkg := "typelib"; l_strip_lead := true; l_caller_head := false;
  l_extract := l_extract L1; l_chain := l_chain L1 |}.

Definition user_frame (m q : string) (g l : table) : frame := {|
  f_gname := Some m; f_mod := Some m; f_qual := q; f_file := "/srv/app/" ++ m ++ ".py";
  f_globals := g; f_locals := l |}.

Definition fa : frame := user_frame "mod_a" "go" d_mod_a [("v", a_str)].
Definition fb : frame := user_frame "mod_b" "go" d_mod_b [("v", a_str)].
Definition fc : frame := user_frame "mod_c" "go" d_mod_c [("v", a_str)].
Definition fd : frame := user_frame "mod_d" "go" d_mod_d [("v", a_str)].
(* a helper module that binds none of the names: references are issued through it on behalf of its callers *)
Definition fh : frame := user_frame "mod_h" "relay" [("typelib", OMod "typelib")] [("ref", a_str)].
Definition fmain : frame := user_frame "__main__" "<module>" [] [].
(* a function of mod_b with a local variable called Node, bound to mod_a's class *)
Definition fb_local : frame := user_frame "mod_b" "run" d_mod_b [("Node", cls 1 "mod_a")].
(* a function of mod_c that defines a class in its body: the name is a local only *)
Definition fc_local : frame := user_frame "mod_c" "make" d_mod_c [("Loc", cls 60 "mod_c")].
(* an outer frame with a local called Ghost bound to a class of mod_a, which mod_a binds under another name *)
Definition fouter_ghost : frame := user_frame "mod_b" "outer" d_mod_b [("Ghost", cls 1 "mod_a")].

Definition call_a : op := OCall EUnmarshal (RStr "Node") [fa; fmain].
Definition call_b : op := OCall EUnmarshal (RStr "Node") [fb; fmain].
