(* Heap model: evaluation of generated cases for the per-run tie (harness/heaptie.py, stream `identity`) and the
   small concrete instances used by the examples of Props/C06Heap.v.  Definitions only. *)
From Coq Require Import List Arith Bool PeanoNat.
Import ListNotations.
Require Import TL.Model.Core.
Require Import TL.Model.CoreTables.
Require Import TL.Model.Heap.

(* ------------------------------------------------------------------ place tables -> hruntime *)
(* pm / pu: (leaf, input value) -> place, for the leaves whose answer depends on the input;
   dm / du: leaf -> place;  everything else is PFresh *)
Definition place_of (tbl : list (nat * pv * place)) (dflt : list (nat * place)) (s : nat) (x : pv) : place :=
  match lookup_leaf s x tbl with
  | Some p => p
  | None => match lookup_nat s dflt with Some p => p | None => PFresh end
  end.
Definition mk_hruntime (pm pu : list (nat * pv * place)) (dm du : list (nat * place)) : hruntime :=
  place_hr (place_of pm dm) (place_of pu du).

(* ------------------------------------------------------------------ container positions *)
(* the empty tuple / frozenset are interpreter singletons: their identity says nothing *)
Definition is_container (n : node) : bool :=
  match n with
  | HAtom _ | HKey _ => false
  | HSeq KTuple [] | HSeq KFrozenset [] | HNamed _ [] => false
  | _ => true
  end.
(* pre-order listing of the container objects reachable from l; members of sets are not visited (their order is
   not defined; they are hashable, hence immutable) *)
Fixpoint conts (fuel : nat) (h : heap) (l : loc) : list loc :=
  match fuel with
  | 0 => []
  | S n =>
    match hget h l with
    | Some nd =>
        (if is_container nd then [l] else []) ++
        match nd with
        | HSeq KSet _ | HSeq KFrozenset _ => []
        | _ => flat_map (conts n h) (children nd)
        end
    | None => []
    end
  end.

Fixpoint index_of (c : loc) (base : list loc) (i : nat) : nat :=
  match base with [] => 0 | b :: r => if Nat.eqb c b then S i else index_of c r (S i) end.
(* per container position of the result: 0 = a new object, S i = the i-th object of base *)
Definition share_vec (base : list loc) (cs : list loc) : list nat := map (fun c => index_of c base 0) cs.
Definition mem_loc (c : loc) (l : list loc) : bool := existsb (Nat.eqb c) l.

(* ------------------------------------------------------------------ one case *)
(* observed: both calls returned (value and sharing vector of each; the second vector is relative to the input's
   containers followed by the first result's new ones) or the first call raised; and the input re-encoded afterwards *)
Inductive observed :=
| ObsOk (w1 : pv) (v1 : list nat) (w2 : pv) (v2 : list nat) (after : pv)
| ObsRaise (after : pv).
Definition hcase := (bool * ty * pv * observed)%type.

Definition list_nat_eqb (a b : list nat) : bool := list_eqb Nat.eqb a b.

Definition run_dir (rt : runtime) (hr : hruntime) (E : env) (fuel : nat) (dir : bool) (t : ty) (h : heap) (l : loc) :=
  if dir then hunm rt hr E fuel t h l else hmar rt hr E fuel t h l.

(* bit 0: outcome / value differs; bit 1: sharing of the first result; bit 2: sharing of the second result (with the
   input and with the first result); bit 3: the input does not denote the same value afterwards *)
Definition hcase_code (rt : runtime) (hr : hruntime) (E : env) (fuel : nat) (c : hcase) : nat :=
  match c with (dir, t, x, obs) =>
    let h0 := fst (alloc_pv [] x) in
    let l0 := snd (alloc_pv [] x) in
    let b0 := conts fuel h0 l0 in
    match run_dir rt hr E fuel dir t h0 l0, obs with
    | Ok (h1, r1), ObsOk w1 v1 w2 v2 after =>
        let c1 := conts fuel h1 r1 in
        let b1 := b0 ++ filter (fun c => negb (mem_loc c b0)) c1 in
        (match read fuel h1 r1 with Some m1 => if pv_sim m1 w1 then 0 else 1 | None => 1 end) +
        (if list_nat_eqb (share_vec b0 c1) v1 then 0 else 2) +
        match run_dir rt hr E fuel dir t h1 l0 with
        | Ok (h2, r2) =>
            (match read fuel h2 r2 with Some m2 => if pv_sim m2 w2 then 0 else 1 | None => 1 end) +
            (if list_nat_eqb (share_vec b1 (conts fuel h2 r2)) v2 then 0 else 4) +
            (match read fuel h2 l0 with Some x' => if pv_eqb x' after then 0 else 8 | None => 8 end)
        | _ => 1
        end
    | Raise _, ObsRaise after => if pv_eqb x after then 0 else 8
    | _, _ => 1
    end
  end.

Fixpoint hcodes_from (f : hcase -> nat) (l : list hcase) (i : nat) : list (nat * nat) :=
  match l with
  | [] => []
  | c :: r => (match f c with 0 => [] | k => [(i, k)] end) ++ hcodes_from f r (S i)
  end.
Definition hbad (rt : runtime) (hr : hruntime) (E : env) (fuel : nat) (l : list hcase) : list nat :=
  map fst (hcodes_from (hcase_code rt hr E fuel) l 0).
Definition hbad_codes (rt : runtime) (hr : hruntime) (E : env) (fuel : nat) (l : list hcase) : list nat :=
  map snd (hcodes_from (hcase_code rt hr E fuel) l 0).

(* ------------------------------------------------------------------ a toy instance for the examples *)
(* runtime of Model/CoreC06Toy.v extended by unmarshal leaves:
   atoms  0 None  1 int 5  2 str '5'  3 Decimal('1.5')  4 str '1.5'  5 int 1  6 Decimal('1')  7 str '1'  8 text '[5, 1]'
   leaves 0 int   1 Decimal   2 Literal[1]   3 Any (no-op routines)   4 bare list (star-unpacking / list(decoded)) *)
Definition htoy_leaf_m (s : nat) (x : pv) : res pv :=
  match s, x with
  | 0, PAtom 1 => Ok (PAtom 1) | 0, PAtom 5 => Ok (PAtom 5)
  | 1, PAtom 3 => Ok (PAtom 4) | 1, PAtom 6 => Ok (PAtom 7)
  | 2, PAtom 5 => Ok (PAtom 5)
  | 3, _ => Ok x
  | 4, PSeq _ l => Ok (PSeq KList l)
  | 4, PDict _ kvs => Ok (PSeq KList (map fst kvs))
  | _, _ => Raise EValue
  end.
Definition htoy_leaf_u (s : nat) (x : pv) : res pv :=
  match s, x with
  | 0, PAtom 1 => Ok (PAtom 1) | 0, PAtom 5 => Ok (PAtom 5) | 0, PAtom 2 => Ok (PAtom 1) | 0, PAtom 7 => Ok (PAtom 5)
  | 1, PAtom 3 => Ok (PAtom 3) | 1, PAtom 4 => Ok (PAtom 3) | 1, PAtom 6 => Ok (PAtom 6) | 1, PAtom 7 => Ok (PAtom 6)
  | 3, _ => Ok x
  | 4, PSeq KList l => Ok (PSeq KList l)
  | 4, PSeq _ l => Ok (PSeq KList l)
  | 4, PAtom 8 => Ok (PSeq KList [PAtom 1; PAtom 5])
  | _, _ => Raise EValue
  end.
Definition htoy_rt : runtime :=
  {| leaf_u := htoy_leaf_u;
     leaf_m := htoy_leaf_m;
     none_u := fun x => match x with PAtom 0 => Ok (PAtom 0) | _ => Raise EValue end;
     load_scalar := fun x => match x with PAtom 8 => Ok (PSeq KList [PAtom 1; PAtom 5]) | _ => Ok x end;
     values_scalar := fun _ => Raise EType; unpack_scalar := fun _ => Raise EType;
     items_scalar := fun _ => Raise EType;
     pairlike_scalar := fun _ => false;
     index := fun _ => PAtom 1;
     unhashable_class := fun _ => false;
     atom_eq := fun _ _ => false;
     none := PAtom 0;
     suppressed := fun _ => true |}.
(* no-op routines hand back their input; a bare list is copied shallowly (an instance of list passes through
   unmarshal unchanged); the scalar leaves short-circuit on an instance of their class *)
Definition htoy_pm (s : nat) (x : pv) : place :=
  match s with 3 => PInput | 4 => PShallow | _ => PFresh end.
Definition htoy_pu (s : nat) (x : pv) : place :=
  match s, x with
  | 3, _ => PInput
  | 4, PSeq KList _ => PInput
  | 4, PSeq _ _ => PShallow
  | 0, PAtom 1 | 0, PAtom 5 | 1, PAtom 3 | 1, PAtom 6 => PInput
  | _, _ => PFresh
  end.
Definition htoy_hr : hruntime := place_hr htoy_pm htoy_pu.
Definition htoy_fresh (s : nat) : bool := Nat.ltb s 3.

(* class 0: dataclass(a: Optional[Decimal], b: list[int]);  class 1: dataclass(kids: list[class 1], tag: Any) *)
Definition htoy_E : env := fun c =>
  match c with
  | 0 => Some (NClass {| cflavour := FDataclass;
                         cfields := [ {| fname := 0; fty := TUnion [TLeaf 1; TNone]; fdefault := None |};
                                      {| fname := 1; fty := TSeq KList (TLeaf 0); fdefault := None |} ];
                         crequired := [] |})
  | 1 => Some (NClass {| cflavour := FDataclass;
                         cfields := [ {| fname := 2; fty := TSeq KList (TName 1); fdefault := None |};
                                      {| fname := 3; fty := TLeaf 3; fdefault := None |} ];
                         crequired := [] |})
  | _ => None
  end.
Definition htoy_G (c : nat) : bool := Nat.eqb c 0.
(* tuple[class 0, dict[Decimal, list[int]]] *)
Definition htoy_T : ty := TTuple [TName 0; TMap KDict (TLeaf 1) (TSeq KList (TLeaf 0))].
Definition htoy_v : pv :=
  PSeq KTuple [ PObj 0 [(0, PAtom 3); (1, PSeq KDeque [PAtom 1; PAtom 5])];
                PDict KOrderedDict [(PAtom 3, PSeq KList [PAtom 5]); (PAtom 6, PSeq KList [])] ].
Definition htoy_w : pv :=
  PSeq KList [ PDict KDict [(PKey 0, PAtom 4); (PKey 1, PSeq KList [PAtom 1; PAtom 5])];
               PDict KDict [(PAtom 4, PSeq KList [PAtom 5]); (PAtom 7, PSeq KList [])] ].
(* the valid instance of htoy_T made of exactly the annotated classes (unmarshal returns an equal copy) *)
Definition htoy_u : pv :=
  PSeq KTuple [ PObj 0 [(0, PAtom 3); (1, PSeq KList [PAtom 1; PAtom 5])];
                PDict KDict [(PAtom 3, PSeq KList [PAtom 5]); (PAtom 6, PSeq KList [])] ].
Definition htoy_h0 : heap := fst (alloc_pv [] htoy_v).
Definition htoy_l0 : loc := snd (alloc_pv [] htoy_v).
Definition htoy_hu : heap := fst (alloc_pv [] htoy_u).
Definition htoy_lu : loc := snd (alloc_pv [] htoy_u).

(* outside fresh_ty: list[Any] passes its members through, a bare list is a SHALLOW copy *)
Definition htoy_any_T : ty := TSeq KList (TLeaf 3).
Definition htoy_bare_T : ty := TLeaf 4.
Definition htoy_nested : pv := PSeq KList [PSeq KList [PAtom 1]; PAtom 5].
Definition htoy_hn : heap := fst (alloc_pv [] htoy_nested).
Definition htoy_ln : loc := snd (alloc_pv [] htoy_nested).

(* mutable objects reachable from a and from b *)
Definition shared_mut (fuel : nat) (h : heap) (a b : loc) : list loc :=
  filter (fun p => mem_loc p (mut_locs fuel h b)) (mut_locs fuel h a).

(* ------------------------------------------------------------------ the guard of the freshness theorems on a run *)
Definition hmem_nat (l : list nat) (n : nat) : bool := existsb (Nat.eqb n) l.
(* boolean reading of env_fresh over the finitely many names of a generated environment *)
Definition env_fresh_b (E : env) (fl G : nat -> bool) (names : list nat) : bool :=
  forallb (fun c => if G c then match E c with Some d => fresh_def fl G d | None => true end else true) names.
(* the place tables put every leaf of fl on new objects (place_fresh for the table-driven allocation) *)
Definition place_tbl_fresh (fl : nat -> bool) (tbl : list (nat * pv * place)) (dflt : list (nat * place)) : bool :=
  forallb (fun e => match e with (s, x, p) =>
             negb (fl s) || match p with PFresh => true | PInput => is_scalar_pv x | PShallow => false end end) tbl &&
  forallb (fun e => negb (fl (fst e)) || match snd e with PFresh => true | _ => false end) dflt.
Definition inside_count (fl G : nat -> bool) (l : list hcase) : nat :=
  length (filter (fun c => match c with (_, t, _, _) => fresh_ty fl G t end) l).
(* the conclusion of the freshness theorem read on the OBSERVED sharing vectors: inside fresh_ty no position of a
   result is an object of the input or of the earlier result (the tie compares them with the model's anyway) *)
Definition observed_fresh_ok (fl G : nat -> bool) (c : hcase) : bool :=
  match c with
  | (_, t, _, ObsOk _ v1 _ v2 _) => negb (fresh_ty fl G t) || (forallb (Nat.eqb 0) v1 && forallb (Nat.eqb 0) v2)
  | _ => true
  end.
