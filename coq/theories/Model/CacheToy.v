(* A small concrete world for Model/Cache.v: the hypotheses of the C12 theorems are satisfiable,
   and the refutation witnesses are evaluated in it.  Atoms:
     0 = 777 (the marker)   1 = 'zz'   2 = None   3 = 1   4 = 2   5 = '[1,2]'
     6 = datetime 2020-01-01 12:00 +00:00      7 = datetime 2020-01-01 17:00 +05:00  (== atom 6, same hash)
     8 = '2020-01-01T12:00:00+00:00'           9 = '2020-01-01T17:00:00+05:00'
     10 = 5    11 = '5'
   Definitions only. *)
From Coq Require Import List NArith Bool.
Import ListNotations.
Require Import TL.Model.Cache.
Local Open Scope N_scope.

Definition toy_leaf_u (t : sty) (a : N) : res N :=
  match t with
  | SInt => match a with 0 | 3 | 4 | 10 => Ok a | 11 => Ok 10 | _ => Raise EValue end
  | SStr => match a with 10 => Ok 11 | 1 | 5 | 8 | 9 | 11 => Ok a | _ => Unmodelled end
  | SNone => match a with 2 => Ok 2 | _ => Raise EValue end
  | _ => Unmodelled
  end.
Definition toy_leaf_m (t : sty) (a : N) : res N :=
  match t with
  | SInt => match a with 0 | 3 | 4 | 10 => Ok a | 11 => Ok 10 | _ => Raise EType end
  | SStr => match a with 10 => Ok 11 | 1 | 5 | 8 | 9 | 11 => Ok a | _ => Unmodelled end
  | SNone => Ok a
  | _ => Unmodelled
  end.
Definition W0 : world := {|
  w_text := fun a => match a with 1 | 5 | 8 | 9 | 11 => true | _ => false end;
  w_temporal := fun a => match a with 6 | 7 => true | _ => false end;
  w_isdelta := fun a => false;
  w_isnone := fun a => match a with 2 => true | _ => false end;
  w_eqc := fun a => match a with 7 => 6 | _ => a end;
  w_strload := fun a => match a with 5 => VL PFresh [VA 3; VA 4] | 11 => VA 10 | _ => VA a end;
  w_iso := fun a => match a with 6 => Ok 8 | 7 => Ok 9 | _ => Raise EAttribute end;
  w_decode := fun a => Ok a;
  w_parse := fun a t => match t, a with SDateTime, 8 => Ok 6 | SDateTime, 9 => Ok 7 | _, _ => Raise EValue end;
  w_post := fun t a => Ok a;
  w_chars := fun a => Raise EType;
  w_len2 := fun a => match a with 1 => true | _ => false end;
  w_leaf_u := toy_leaf_u;
  w_leaf_m := toy_leaf_m;
  w_cast := fun b a => Raise EType;
  w_json := fun a => Ok a;
  w_jkey := fun a => Ok a;
  w_loads := fun a => match a with 5 => Ok (VL PFresh [VA 3; VA 4]) | 11 => Ok (VA 10) | _ => Raise EValue end;
  w_index := fun i => 3;
  w_marker := 0; w_zz := 1; w_none := 2;
  w_max_load := Some 100000; w_max_iso := Some 100000; w_max_parse := Some 100000
|}.

Definition U_int_str : ann := AUnion [AS SInt; AS SStr].
Definition U_str_int : ann := AUnion [AS SStr; AS SInt].

(* design observation 9 (repaired in f57eb40): unmarshal(list, '[1,2]'), append to the result, unmarshal again *)
Definition h_alias : list op := [OUnmarshal ABareList (INew (VA 5)); OMutResult 0 []].
Definition o_alias : op := OUnmarshal ABareList (INew (VA 5)).
Definition o_alias_copy : op := OUnmarshal (AList (AS SInt)) (INew (VA 5)).
(* design observation 10 (repaired in 34d5e39): marshal 12:00+00:00, then the equal instant 17:00+05:00 *)
Definition h_iso : list op := [OMarshal (AS SDateTime) (INew (VA 6))].
Definition o_iso : op := OMarshal (AS SDateTime) (INew (VA 7)).
(* finding 11: build Union[int, str], then use Union[str, int]; and the nested form through inspection.unwrap *)
Definition h_union : list op := [OBuildU U_int_str].
Definition o_union : op := OUnmarshal U_str_int (INew (VA 11)).
Definition h_union_nested : list op := [OBuildM (AList U_int_str)].
Definition o_union_nested : op := OMarshal (ADict U_str_int) (INew (VD PFresh [(1, VA 10)])).
(* a history inside the guard that uses every kind of operation *)
Definition h_good : list op :=
  [ OBuildU U_int_str; OUnmarshal (AList (AS SInt)) (INew (VA 5)); OMutResult 1 []; OMarshal (AS SDateTime) (INew (VA 6));
    OUnmarshal ABareList (INew (VL PFresh [VA 3])); OMutResult 4 []; OBuildC (AList U_int_str); OClear;
    OMarshal (AS SDateTime) (INew (VA 7)); OMutInput 0 [] ].
Definition o_good : op := OUnmarshal (AList U_int_str) (INew (VA 5)).
