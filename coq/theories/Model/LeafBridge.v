(* Model/LeafBridge.v -- the leaf bridge: the scalar model of C04 (Model/Scalars.v over Model/Temporal.v) as the
   leaf routines of the core value model (Model/Core.v).  DEFINITIONS ONLY.

   1. the scalar MARSHALLERS of marshals/routines.py over Scalars' value type [val]
      (CastMarshaller[int|float], ToStringMarshaller, ToISOTimeMarshaller, EnumMarshaller, NoOpMarshaller[bytes]),
      NoneTypeUnmarshaller, and the table  leaf kind -> (unmarshal routine of Scalars.v, marshal routine);
   2. shapes, ranges and the additional stated laws (FoldLaws, LoadLaws);
   3. for an ARBITRARY coding (record [coding]: enc : val -> nat, dec : nat -> option val with dec (enc v) = Some v;
      the text of the field names, whose strs are PKey in the core model), an
      arbitrary numbering [kind_of] of leaf ids, the interpreter as seen from each leaf type [rts s] (Path(s), E(v) are
      "for the class at hand" in Temporal.Runtime) and an arbitrary core runtime [base] for everything that is not a
      leaf: the core [runtime] whose leaf_u / leaf_m / none_u run the scalar model on the decoded atom and re-encode;
   4. a concrete coding (val -> token list -> bit list -> positive -> nat), so that the coding law is satisfiable.

   Names: [res], [Ok], [Raise], [Unmodelled], [exn] are Temporal's; the core model's are written Core.xxx. *)
From Coq Require Import List ZArith Arith Ascii String Bool PeanoNat.
Import ListNotations.
Require Import TL.Model.Duration.
Require Import TL.Model.Temporal.
Require Import TL.Model.Scalars.
Require TL.Model.Core.
Require TL.Model.CoreC01.
Require TL.Model.Serdes.
Local Open Scope nat_scope.

(* the scalar leaf types of typelib that the C04 model covers (bool and Pattern are not in [val]) *)
Inductive leafkind :=
| LInt | LFloat | LStr | LBytes | LDec | LFrac | LUuid | LPath | LEnum | LDate | LDateTime | LTime | LTimeDelta
| LBool | LPattern | LNone | LLit (vs : list val)         (* Literal[vs]: the declared values *)
| LAny.   (* typing.Any / object / unresolvable: NoOpUnmarshaller / NoOpMarshaller, the identity on EVERY value *)

(* ---------------------------------------------------------------- 1. the marshal side *)
(* member.__class__ is val.__class__ (enum members, paths, patterns: the class is part of the token) *)
Definition same_class (m v : val) : bool :=
  match m, v with
  | VNone, VNone | VBool _, VBool _ | VInt _, VInt _ | VFloat _, VFloat _ | VDec _, VDec _ | VFrac _, VFrac _
  | VUuid _, VUuid _ | VDate _ _ _, VDate _ _ _ | VDateTime _, VDateTime _ | VTime _, VTime _
  | VTimeDelta _ _ _, VTimeDelta _ _ _ => true
  | VText c _, VText c' _ => carrier_eqb c c'
  | VEnum a, VEnum b | VPath a, VPath b | VPattern a, VPattern b | VOther a, VOther b => String.eqb a b
  | _, _ => false end.
(* the values a Literal may legally declare: None, bool, int, str, bytes, enum members *)
Definition lit_plain (x : val) : bool :=
  match x with VNone | VBool _ | VInt _ | VText CStr _ | VText CBytes _ | VEnum _ => true | _ => false end.

Section Marshallers.
Variable rt : Runtime.
Variable ev : tok -> res val.                 (* m.value of the enum member m (interpreter) *)

(* IntegerMarshaller = CastMarshaller[int]: int(val); True is 1, a member of a mixin enum is converted as the int /
   str it is *)
Definition mar_int (v : val) : res val :=
  match view rt v with
  | VInt z => Ok (VInt z)
  | VBool b => Ok (VInt (b2z b))
  | VFloat f => int_of_float rt f >>= fun z => Ok (VInt z)
  | VText CStr s => int_of_str rt s >>= fun z => Ok (VInt z)
  | VNone | VPath _ | VDate _ _ _ | VDateTime _ | VTime _ | VTimeDelta _ _ _ | VPattern _ | VEnum _ => Raise EType
  | _ => Unmodelled end.                      (* int(bytes), int(Decimal), int(UUID) *)

(* FloatMarshaller = CastMarshaller[float]: float(val) *)
Definition mar_float (v : val) : res val :=
  match view rt v with
  | VFloat f => Ok (VFloat f)
  | VInt z => float_of_int rt z >>= fun f => Ok (VFloat f)
  | VBool b => float_of_int rt (b2z b) >>= fun f => Ok (VFloat f)
  | VText CStr s => float_of_str rt s >>= fun f => Ok (VFloat f)
  | VNone | VPath _ | VDate _ _ _ | VDateTime _ | VTime _ | VTimeDelta _ _ _ | VPattern _ | VEnum _ => Raise EType
  | _ => Unmodelled end.

(* bool is an int to the dispatch (isintegertype): IntegerMarshaller = CastMarshaller[bool]: bool(val) *)
Definition mar_bool (v : val) : res val := truth rt v >>= fun b => Ok (VBool b).

(* ToStringMarshaller (str, Decimal, Fraction, UUID, Path): str(val).
   canon_text is str(v) except for datetime (isoformat has 'T', str a space), timedelta, bytes-like values and
   patterns *)
Definition mar_tostring (v : val) : res val :=
  match v with
  | VText CStr _ => Ok v
  | VNone | VBool _ | VInt _ | VFloat _ | VDec _ | VFrac _ | VUuid _ | VPath _ | VDate _ _ _ | VTime _ | VEnum _ =>
      Ok (VText CStr (canon_text rt v))
  | _ => Unmodelled end.

(* ToISOTimeMarshaller (date, datetime, time, timedelta): serdes.isoformat(val); anything that is not a date / time is
   handed to the memoised duration writer, which hashes it and then reads .days *)
Definition mar_iso (v : val) : res val :=
  match v with
  | VDate _ _ _ | VDateTime _ | VTime _ | VTimeDelta _ _ _ => Ok (VText CStr (isoformat rt v))
  | VText CBytearray _ | VText CMvBytearray _ => Raise EType      (* unhashable *)
  | VOther _ => Unmodelled
  | _ => Raise EOther end.                                        (* AttributeError *)

(* EnumMarshaller: val.value *)
Definition mar_enum (v : val) : res val :=
  match v with
  | VEnum m => ev m
  | VOther _ => Unmodelled
  | _ => Raise EOther end.                                        (* AttributeError *)

(* BytesMarshaller = NoOpMarshaller[bytes] *)
Definition mar_noop (v : val) : res val := Ok v.

(* PatternMarshaller: val.pattern (a str, or a bytes object for a bytes pattern; the flags are not written) *)
Definition mar_pattern (v : val) : res val :=
  match v with
  | VPattern p => Ok (pattern_text rt p)
  | VOther _ => Unmodelled
  | _ => Raise EOther end.                                        (* AttributeError *)

(* NoneTypeMarshaller *)
Definition mar_none (v : val) : res val := match v with VNone => Ok VNone | _ => Raise EValue end.

(* LiteralMarshaller: the first declared value that equals val AND has its class; that value is returned *)
Definition lit_match (v m : val) : bool := same_class m v && eqv rt m v.
Definition mar_literal (vs : list val) (v : val) : res val :=
  match find (lit_match v) vs with Some m => Ok m | None => Raise EValue end.

(* the table: leaf kind -> (unmarshal routine of Scalars.v, marshal routine) *)
Definition unm_of (k : leafkind) : val -> res val :=
  match k with
  | LInt => unm_number rt KInt | LFloat => unm_number rt KFloat | LDec => unm_number rt KDec
  | LFrac => unm_number rt KFrac | LStr => unm_str rt | LBytes => unm_bytes rt | LUuid => unm_uuid rt
  | LPath => unm_path rt | LEnum => unm_enum rt | LDate => unm_date rt | LDateTime => unm_datetime rt
  | LTime => unm_time rt | LTimeDelta => unm_timedelta rt
  | LBool => unm_number rt KBool | LPattern => unm_pattern rt | LNone => unm_none rt
  | LLit vs => unm_literal rt vs | LAny => fun v => Ok v end.
Definition mar_of (k : leafkind) : val -> res val :=
  match k with
  | LInt => mar_int | LFloat => mar_float | LBool => mar_bool
  | LStr | LDec | LFrac | LUuid | LPath => mar_tostring
  | LBytes => mar_noop | LEnum => mar_enum
  | LDate | LDateTime | LTime | LTimeDelta => mar_iso
  | LPattern => mar_pattern | LNone => mar_none | LLit vs => mar_literal vs | LAny => mar_noop end.
Definition leaf_table (k : leafkind) : (val -> res val) * (val -> res val) := (unm_of k, mar_of k).

(* ---------------------------------------------------------------- 2. classes and ranges *)
(* isinstance(x, self.t): True is an int, a member of a mixin enum is a str / an int; for Literal: x in values *)
Definition inst (k : leafkind) (x : val) : bool :=
  match k with
  | LInt => isinstance_num rt KInt x | LFloat => isinstance_num rt KFloat x | LDec => isinstance_num rt KDec x
  | LFrac => isinstance_num rt KFrac x | LBool => isinstance_num rt KBool x
  | LStr => match as_str rt x with Some _ => true | None => false end
  | LBytes => match x with VText CBytes _ => true | _ => false end
  | LUuid => match x with VUuid _ => true | _ => false end
  | LPath => match x with VPath _ => true | _ => false end
  | LEnum => match x with VEnum m => is_member rt m | _ => false end
  | LDate => match x with VDate _ _ _ => true | _ => false end
  | LDateTime => match x with VDateTime _ => true | _ => false end
  | LTime => match x with VTime _ => true | _ => false end
  | LTimeDelta => match x with VTimeDelta _ _ _ => true | _ => false end
  | LPattern => match x with VPattern _ => true | _ => false end
  | LNone => match x with VNone => true | _ => false end
  | LLit vs => mem rt x vs
  | LAny => true end.
(* what a routine may return: an instance; for an enum class some member (that E(v) is a member of E is the
   interpreter's business), for a Literal a value == to a declared one (C03: resolved in favour of the code) *)
Definition cls (k : leafkind) (x : val) : bool :=
  match k, x with LEnum, VEnum _ => true | _, _ => inst k x end.
(* type(x) is self.t exactly (C01: "made of exactly the annotated classes"); Literal: one of the declared values *)
Definition exact (k : leafkind) (x : val) : bool :=
  match k, x with
  | LInt, VInt _ | LFloat, VFloat _ | LStr, VText CStr _ | LBytes, VText CBytes _ | LDec, VDec _ | LFrac, VFrac _
  | LUuid, VUuid _ | LPath, VPath _ | LDate, VDate _ _ _ | LDateTime, VDateTime _
  | LTime, VTime _ | LTimeDelta, VTimeDelta _ _ _ | LBool, VBool _ | LPattern, VPattern _ | LNone, VNone => true
  | LEnum, VEnum m => is_member rt m
  | LLit vs, _ => lit_plain x && existsb (val_eqb x) vs
  | LAny, _ => true
  | _, _ => false end.

(* the value of a member as EnumUnmarshaller can look it up: not a member itself, not a bytes-like value
   (decode turns bytes into str before the lookup: an enum with bytes values does not come back) *)
Definition plain (w : val) : bool :=
  match w with VEnum _ => false | VText CStr _ => true | VText _ _ => false | _ => true end.
Definition res_tok_is (r : res tok) (m : tok) : bool := match r with Ok m' => String.eqb m' m | _ => false end.
(* E(m.value) is m *)
Definition enum_value_ok (m : tok) : bool :=
  match ev m with Ok w => plain w && res_tok_is (enum_of_val rt w) m | _ => false end.
(* a str pattern without flags: re.compile(p.pattern) is p *)
Definition pattern_ok (p : tok) : bool :=
  match pattern_text rt p with VText CStr s => res_tok_is (re_compile rt s) p | _ => false end.

(* inside the range the scalar round trip is stated for; strict: the fold (which is not part of the text) is 0 *)
Definition range (strict : bool) (k : leafkind) (x : val) : bool :=
  match k, x with
  | LLit _, _ | LAny, _ => true               (* a declared value / anything comes back whatever it is *)
  | _, VEnum m => enum_value_ok m
  | _, VPattern p => pattern_ok p
  | _, VDate y m d => valid_date y m d
  | _, VDateTime d => valid_dt d && (negb strict || Z.eqb (dfold d) 0)
  | _, VTime t => valid_tm t && (negb strict || Z.eqb (tfold t) 0)
  | _, VTimeDelta d s us => td_in_range (d, s, us)
  | _, _ => true end.
Definition in_kind (strict : bool) (k : leafkind) (x : val) : bool := exact k x && range strict k x.

(* wire data: None / bool / int / float / str of the exact builtin class *)
Definition prim_val (x : val) : bool :=
  match x with VNone | VBool _ | VInt _ | VFloat _ | VText CStr _ => true | _ => false end.
(* kinds whose marshal routine returns wire data on every input it accepts (EnumMarshaller returns whatever the
   member's value is, NoOpMarshaller[bytes] its input, PatternMarshaller bytes for a bytes pattern, LiteralMarshaller
   a declared value) *)
Definition robust_kind (k : leafkind) : bool :=
  match k with LEnum | LBytes | LPattern | LAny => false | LLit vs => forallb prim_val vs | _ => true end.

End Marshallers.

(* equal up to the fold of datetime / time values (the fold is not in the ISO text) *)
Definition sim_val (a b : val) : Prop :=
  match a, b with
  | VDateTime x, VDateTime y => same_dt x y = true
  | VTime x, VTime y => same_tm x y = true
  | _, _ => a = b end.

(* ---- stated laws beyond Scalars.RuntimeLaws ---- *)
(* the parsers answer with fold 0 on the text the writers emit (needed only for EXACT equality of datetime / time) *)
Record FoldLaws (rt : Runtime) : Prop := {
  parse_fold0 : forall d d', valid_dt d = true ->
    pendulum_parse rt (canon_text rt (VDateTime d)) = Ok (PDT d') -> dfold d' = 0%Z;
  timeiso_fold0 : forall t t', valid_tm t = true ->
    time_fromisoformat rt (canon_text rt (VTime t)) = Ok t' -> tfold t' = 0%Z
}.
(* serdes.load hands a UUID back unchanged (C14_load_nontext on C14's own model of load; UUIDUnmarshaller is the
   only scalar routine that loads before its isinstance test) *)
Record LoadLaws (rt : Runtime) : Prop := {
  load_uuid_self : forall u, load rt (VUuid u) = Ok (VUuid u)
}.

(* ---------------------------------------------------------------- 3. the bridged core runtime *)
Definition exn_map (e : exn) : Core.exn :=
  match e with EValue => Core.EValue | EType => Core.EType | EOverflow => Core.EArith | EOther => Core.EOther end.

(* the coding of scalar values as core values: [enc x] is the atom standing for x, [dec] its left inverse; a str that
   equals a field name is not an atom in the core model but [PKey f] (harness/universe.py: Registry.kind_of):
   [key_text f] is the text of field name f (None: f is not a field name), [key_of] its inverse *)
Record coding := {
  enc : val -> nat;
  dec : nat -> option val;
  key_text : nat -> option string;
  key_of : string -> option nat
}.
Definition coding_law (C : coding) : Prop :=
  (forall v, dec C (enc C v) = Some v) /\
  (forall f s, key_text C f = Some s -> key_of C s = Some f) /\
  (forall s f, key_of C s = Some f -> key_text C f = Some s).

Section Bridge.
Variable C : coding.
Variable kind_of : nat -> option leafkind.    (* the harness' numbering of leaf types *)
Variable rts : nat -> Runtime.                (* the interpreter as seen by the routines bound to leaf type s *)
Variable ev : tok -> res val.
Variable rt0 : Runtime.                       (* ... by NoneTypeUnmarshaller (only its UTF-8 decoder is asked) *)
Variable base : Core.runtime.                 (* everything that is not a leaf routine *)

(* canonical decoding: an atom stands for x only if it is THE atom of x *)
Definition cdec (a : nat) : option val :=
  match dec C a with Some x => if Nat.eqb (enc C x) a then Some x else None | None => None end.

(* the core value standing for a scalar *)
Definition encp (x : val) : Core.pv :=
  match x with
  | VText CStr s => match key_of C s with Some f => Core.PKey f | None => Core.PAtom (enc C x) end
  | _ => Core.PAtom (enc C x) end.
(* ... and back; an atom for a str that is a field name is not canonical (that str is the PKey) *)
Definition decp (p : Core.pv) : option val :=
  match p with
  | Core.PAtom a =>
      match cdec a with
      | Some (VText CStr s) => match key_of C s with Some _ => None | None => Some (VText CStr s) end
      | o => o end
  | Core.PKey f => match key_text C f with Some s => Some (VText CStr s) | None => None end
  | _ => None end.

Definition lift (r : res val) : Core.res Core.pv :=
  match r with
  | Ok x => Core.Ok (encp x)
  | Raise e => Core.Raise (exn_map e)
  | Unmodelled => Core.Unmodelled end.

(* containers and values outside the coding are outside the scalar model *)
Definition run_leaf (f : val -> res val) (p : Core.pv) : Core.res Core.pv :=
  match decp p with Some x => lift (f x) | None => Core.Unmodelled end.

(* a pass-through leaf (LAny) hands EVERY core value back, containers and instances included; a leaf id the table does
   not know keeps the routine of the base runtime *)
Definition b_leaf_u (s : nat) (p : Core.pv) : Core.res Core.pv :=
  match kind_of s with
  | Some LAny => Core.Ok p
  | Some k => run_leaf (unm_of (rts s) k) p
  | None => Core.leaf_u base s p end.
(* LiteralMarshaller on a container or an object outside the coding: no declared value has its class (the declared
   values are in the coding): ValueError *)
Definition b_leaf_m (s : nat) (p : Core.pv) : Core.res Core.pv :=
  match kind_of s with
  | Some (LLit vs) => match decp p with Some x => lift (mar_literal (rts s) vs x) | None => Core.Raise Core.EValue end
  | Some LAny => Core.Ok p
  | Some k => run_leaf (mar_of (rts s) ev k) p
  | None => Core.leaf_m base s p end.
Definition b_none : Core.pv := Core.PAtom (enc C VNone).
(* a container, or an object that is not in the coding, is not None (None is in the coding): decode hands it back or
   raises, then ValueError *)
Definition b_none_u (p : Core.pv) : Core.res Core.pv :=
  match decp p with Some x => lift (unm_none rt0 x) | None => Core.Raise Core.EValue end.

Definition bridged : Core.runtime := {|
  Core.leaf_u := b_leaf_u;
  Core.leaf_m := b_leaf_m;
  Core.none_u := b_none_u;
  Core.load_scalar := Core.load_scalar base;
  Core.values_scalar := Core.values_scalar base;
  Core.items_scalar := Core.items_scalar base;
  Core.pairlike_scalar := Core.pairlike_scalar base;
  Core.unpack_scalar := Core.unpack_scalar base;
  Core.index := Core.index base;
  Core.unhashable_class := Core.unhashable_class base;
  Core.atom_eq := Core.atom_eq base;
  Core.none := b_none;
  Core.suppressed := Core.suppressed base |}.

Definition on_scalar (f : val -> bool) (p : Core.pv) : bool :=
  match decp p with Some x => f x | None => false end.

(* leaf validity: v stands for a value of kind s inside its range *)
Definition lv (strict : bool) (s : nat) (v : Core.pv) : bool :=
  match kind_of s with
  | Some LAny => true                          (* every core value is valid at a pass-through leaf *)
  | Some k => on_scalar (in_kind (rts s) ev strict k) v
  | None => false end.
(* ... an instance of the class of leaf type s (isinstance: what the pass-through needs) *)
Definition lv_inst (s : nat) (v : Core.pv) : bool :=
  match kind_of s with Some LAny => true | Some k => on_scalar (inst (rts s) k) v | None => false end.
(* v is of the class of leaf type s (C03's leaf_ok); nothing is claimed at a leaf the table does not know *)
Definition leaf_class_ok (s : nat) (v : Core.pv) : bool :=
  match kind_of s with Some LAny => true | Some k => on_scalar (cls (rts s) k) v | None => true end.
(* the pass-through leaves (C05's noop_leaf) *)
Definition any_leaf (s : nat) : bool := match kind_of s with Some LAny => true | _ => false end.
(* C06's parameters *)
Definition prim_atom (a : nat) : bool := on_scalar prim_val (Core.PAtom a).
Definition robust_leaf (s : nat) : bool := match kind_of s with Some k => robust_kind k | None => false end.
Definition lit_leaf (s : nat) : bool := match kind_of s with Some (LLit _) => true | _ => false end.
(* some declared value equals v and has its class *)
Definition lit_member (s : nat) (v : Core.pv) : bool :=
  match kind_of s with
  | Some (LLit vs) => on_scalar (fun x => existsb (lit_match (rts s) x) vs) v
  | _ => false end.

(* equality up to the fold of the values they stand for *)
Definition sim_pv (v v' : Core.pv) : Prop :=
  v = v' \/ exists x y, decp v = Some x /\ decp v' = Some y /\ sim_val x y.

End Bridge.

(* RoundLaws with exact equality on the LAX range (folds 0 and 1): the full statement, refuted in Props/LeafBridge.v *)
Definition round_full_stmt : Prop :=
  forall C kind_of rts ev rt0 base, coding_law C ->
  (forall s, RuntimeLaws (rts s)) -> (forall s, FoldLaws (rts s)) ->
  CoreC01.RoundLaws (bridged C kind_of rts ev rt0 base) (lv C kind_of rts ev false).

(* ---------------------------------------------------------------- 4. a concrete coding *)
(* val -> tokens (nat) -> bits -> positive -> nat.  Never evaluated: it only shows [coding_law] is satisfiable. *)
Definition tz (z : Z) : list nat := [if Z.ltb z 0 then 1 else 0; Z.abs_nat z].
Definition tstr (s : string) : list nat :=
  let cs := list_ascii_of_string s in List.length cs :: map nat_of_ascii cs.
Definition toz (o : option Z) : list nat := match o with None => [0] | Some z => 1 :: tz z end.
Definition tcar (c : carrier) : nat :=
  match c with CStr => 0 | CBytes => 1 | CBytearray => 2 | CMvBytes => 3 | CMvBytearray => 4 end.
Definition tokens_of (v : val) : list nat :=
  match v with
  | VNone => [0]
  | VInt z => 1 :: tz z
  | VFloat t => 2 :: tstr t
  | VText c s => 3 :: tcar c :: tstr s
  | VDec t => 4 :: tstr t
  | VFrac t => 5 :: tstr t
  | VUuid t => 6 :: tstr t
  | VPath t => 7 :: tstr t
  | VEnum t => 8 :: tstr t
  | VDate y m d => 9 :: tz y ++ tz m ++ tz d
  | VDateTime d => 10 :: tz (dy d) ++ tz (dmo d) ++ tz (dd d) ++ tz (dh d) ++ tz (dmi d) ++ tz (ds d) ++ tz (dus d)
                      ++ toz (doff d) ++ tz (dfold d)
  | VTime t => 11 :: tz (th t) ++ tz (tmi t) ++ tz (ts t) ++ tz (tus t) ++ toz (toff t) ++ tz (tfold t)
  | VTimeDelta d s us => 12 :: tz d ++ tz s ++ tz us
  | VOther t => 13 :: tstr t
  | VBool b => [14; if b then 1 else 0]
  | VPattern t => 15 :: tstr t end.

Definition obind {A B} (o : option A) (f : A -> option B) : option B := match o with Some a => f a | None => None end.
Definition pz (l : list nat) : option (Z * list nat) :=
  match l with
  | sg :: n :: r => Some (if Nat.eqb sg 1 then Z.opp (Z.of_nat n) else Z.of_nat n, r)
  | _ => None end.
Fixpoint take_chars (n : nat) (l : list nat) : option (list ascii * list nat) :=
  match n with
  | O => Some ([], l)
  | S n' => match l with
            | c :: r => obind (take_chars n' r) (fun '(cs, r') => Some (ascii_of_nat c :: cs, r'))
            | [] => None end end.
Definition pstr (l : list nat) : option (string * list nat) :=
  match l with
  | n :: r => obind (take_chars n r) (fun '(cs, r') => Some (string_of_list_ascii cs, r'))
  | [] => None end.
Definition poz (l : list nat) : option (option Z * list nat) :=
  match l with
  | 0 :: r => Some (None, r)
  | _ :: r => obind (pz r) (fun '(z, r') => Some (Some z, r'))
  | [] => None end.
Definition pcar (n : nat) : carrier :=
  match n with 0 => CStr | 1 => CBytes | 2 => CBytearray | 3 => CMvBytes | _ => CMvBytearray end.
Definition ptag (f : tok -> val) (l : list nat) : option val := obind (pstr l) (fun '(s, _) => Some (f s)).
Definition val_of_tokens (l : list nat) : option val :=
  match l with
  | 0 :: _ => Some VNone
  | 1 :: r => obind (pz r) (fun '(z, _) => Some (VInt z))
  | 2 :: r => ptag VFloat r
  | 3 :: c :: r => ptag (VText (pcar c)) r
  | 4 :: r => ptag VDec r
  | 5 :: r => ptag VFrac r
  | 6 :: r => ptag VUuid r
  | 7 :: r => ptag VPath r
  | 8 :: r => ptag VEnum r
  | 9 :: r => obind (pz r) (fun '(y, r1) => obind (pz r1) (fun '(m, r2) => obind (pz r2) (fun '(d, _) =>
              Some (VDate y m d))))
  | 10 :: r => obind (pz r) (fun '(y, r1) => obind (pz r1) (fun '(mo, r2) => obind (pz r2) (fun '(d, r3) =>
               obind (pz r3) (fun '(h, r4) => obind (pz r4) (fun '(mi, r5) => obind (pz r5) (fun '(s, r6) =>
               obind (pz r6) (fun '(us, r7) => obind (poz r7) (fun '(o, r8) => obind (pz r8) (fun '(fo, _) =>
               Some (VDateTime {| dy := y; dmo := mo; dd := d; dh := h; dmi := mi; ds := s; dus := us;
                                  doff := o; dfold := fo |}))))))))))
  | 11 :: r => obind (pz r) (fun '(h, r1) => obind (pz r1) (fun '(mi, r2) => obind (pz r2) (fun '(s, r3) =>
               obind (pz r3) (fun '(us, r4) => obind (poz r4) (fun '(o, r5) => obind (pz r5) (fun '(fo, _) =>
               Some (VTime {| th := h; tmi := mi; ts := s; tus := us; toff := o; tfold := fo |})))))))
  | 12 :: r => obind (pz r) (fun '(d, r1) => obind (pz r1) (fun '(s, r2) => obind (pz r2) (fun '(us, _) =>
               Some (VTimeDelta d s us))))
  | 13 :: r => ptag VOther r
  | 14 :: b :: _ => Some (VBool (Nat.eqb b 1))
  | 15 :: r => ptag VPattern r
  | _ => None end.

(* tokens -> bits: n as n ones and a zero *)
Fixpoint bits_of_tokens (l : list nat) : list bool :=
  match l with [] => [] | n :: r => repeat true n ++ false :: bits_of_tokens r end.
Fixpoint tokens_of_bits (acc : nat) (l : list bool) : list nat :=
  match l with
  | [] => []
  | true :: r => tokens_of_bits (S acc) r
  | false :: r => acc :: tokens_of_bits 0 r end.
Fixpoint pos_of_bits (l : list bool) : positive :=
  match l with [] => xH | true :: r => xI (pos_of_bits r) | false :: r => xO (pos_of_bits r) end.
Fixpoint bits_of_pos (p : positive) : list bool :=
  match p with xH => [] | xI r => true :: bits_of_pos r | xO r => false :: bits_of_pos r end.

Definition std_enc (v : val) : nat := Pos.to_nat (pos_of_bits (bits_of_tokens (tokens_of v))).
Definition std_dec (a : nat) : option val := val_of_tokens (tokens_of_bits 0 (bits_of_pos (Pos.of_nat a))).
(* field name 0 is "kids" (so the str "kids" is PKey 0, never an atom); no other field names *)
Definition with_keys (e : val -> nat) (d : nat -> option val) : coding := {|
  enc := e; dec := d;
  key_text := fun f => match f with 0 => Some "kids"%string | _ => None end;
  key_of := fun s => if String.eqb s "kids" then Some 0 else None |}.
Definition std_coding : coding := with_keys std_enc std_dec.

(* ---------------------------------------------------------------- 5. witness runtimes and the example instance *)
(* the same interpreter seen from another enum class *)
Definition with_enum (rt : Runtime) (f : val -> res tok) : Runtime := {|
  utf8_decode := utf8_decode rt; utf8_encode := utf8_encode rt; canon_text := canon_text rt;
  int_of_str := int_of_str rt; float_of_str := float_of_str rt; dec_of_str := dec_of_str rt;
  frac_of_str := frac_of_str rt; uuid_of_str := uuid_of_str rt; uuid_of_int := uuid_of_int rt;
  path_of_str := path_of_str rt; enum_of_val := f; int_of_float := int_of_float rt;
  float_of_int := float_of_int rt; load := load rt; pendulum_parse := pendulum_parse rt;
  time_fromisoformat := time_fromisoformat rt; fromtimestamp_utc := fromtimestamp_utc rt;
  timestamp := timestamp rt; td_total_seconds := td_total_seconds rt; td_of_seconds := td_of_seconds rt;
  is_digit_str := is_digit_str rt; is_member := is_member rt; enum_base := enum_base rt; py_eq := py_eq rt;
  truthy := truthy rt; re_compile := re_compile rt; pattern_text := pattern_text rt |}.
(* ... with another duration parser *)
Definition with_parse (rt : Runtime) (p : string -> res parsed) : Runtime := {|
  utf8_decode := utf8_decode rt; utf8_encode := utf8_encode rt; canon_text := canon_text rt;
  int_of_str := int_of_str rt; float_of_str := float_of_str rt; dec_of_str := dec_of_str rt;
  frac_of_str := frac_of_str rt; uuid_of_str := uuid_of_str rt; uuid_of_int := uuid_of_int rt;
  path_of_str := path_of_str rt; enum_of_val := enum_of_val rt; int_of_float := int_of_float rt;
  float_of_int := float_of_int rt; load := load rt; pendulum_parse := p;
  time_fromisoformat := time_fromisoformat rt; fromtimestamp_utc := fromtimestamp_utc rt;
  timestamp := timestamp rt; td_total_seconds := td_total_seconds rt; td_of_seconds := td_of_seconds rt;
  is_digit_str := is_digit_str rt; is_member := is_member rt; enum_base := enum_base rt; py_eq := py_eq rt;
  truthy := truthy rt; re_compile := re_compile rt; pattern_text := pattern_text rt |}.
(* a parser that is strict about ISO 8601: the dangling 'PT' is rejected *)
Definition strict_parse (p : string -> res parsed) (s : string) : res parsed :=
  if String.eqb s "PT"%string then Raise EValue else p s.

(* an enum class whose member E.c has the bytes value b"yy": E(b"yy") is E.c, E("yy") is a ValueError *)
Definition bytes_enum_of_val (v : val) : res tok :=
  match v with VText CBytes "yy"%string => Ok "E.c"%string | _ => Raise EValue end.
Definition bytes_enum_value (m : tok) : res val :=
  if String.eqb m "E.c"%string then Ok (VText CBytes "yy"%string) else Raise EOther.

(* the example instance: leaf ids 0 int, 1 date, 2 timedelta, 3 Decimal, 4 enum (str values), 5 datetime, 6 str,
   7 bool, 8 Literal[1, "a", None], 9 Pattern, 10 typing.Any *)
Definition ex_lit : list val := [VInt 1; VText CStr "a"%string; VNone].
Definition ex_kinds (s : nat) : option leafkind :=
  match s with 0 => Some LInt | 1 => Some LDate | 2 => Some LTimeDelta | 3 => Some LDec | 4 => Some LEnum
             | 5 => Some LDateTime | 6 => Some LStr | 7 => Some LBool | 8 => Some (LLit ex_lit) | 9 => Some LPattern
             | 10 => Some LAny | _ => None end.
Definition ex_ev (m : tok) : res val := Ok (VText CStr m).            (* the toy enum: the member's value is its token *)
Definition ex_base : Core.runtime := {|
  Core.leaf_u := fun _ _ => Core.Unmodelled; Core.leaf_m := fun _ _ => Core.Unmodelled;
  Core.none_u := fun _ => Core.Unmodelled; Core.load_scalar := fun x => Core.Ok x;
  Core.values_scalar := fun _ => Core.Raise Core.EType; Core.items_scalar := fun _ => Core.Raise Core.EType;
  Core.unpack_scalar := fun _ => Core.Raise Core.EType;
  Core.pairlike_scalar := fun _ => false; Core.index := fun i => Core.PAtom i;
  Core.unhashable_class := fun _ => false; Core.atom_eq := fun _ _ => false; Core.none := Core.PAtom 0;
  Core.suppressed := fun _ => true |}.
Definition ex_dt : dtf :=
  {| dy := 2020; dmo := 1; dd := 1; dh := 17; dmi := 0; ds := 0; dus := 999999; doff := Some 19800%Z; dfold := 0 |}.
Definition ex_dt_fold1 : dtf :=
  {| dy := 2020; dmo := 1; dd := 1; dh := 17; dmi := 0; ds := 0; dus := 999999; doff := Some 19800%Z; dfold := 1 |}.
(* list[tuple[int, date, timedelta, Decimal, E, datetime, str, str, bool, Literal[1, "a", None], Literal[..], Pattern]] *)
Definition ex_T : Core.ty :=
  Core.TSeq Core.KList (Core.TTuple [Core.TLeaf 0; Core.TLeaf 1; Core.TLeaf 2; Core.TLeaf 3; Core.TLeaf 4; Core.TLeaf 5;
                                     Core.TLeaf 6; Core.TLeaf 6; Core.TLeaf 7; Core.TLeaf 8; Core.TLeaf 8; Core.TLeaf 9]).
Definition ex_vals : list val :=
  [VInt (-12345); VDate 2024 2 29; VTimeDelta (-8) 3661 500; VDec "1.50"%string; VEnum "one"%string; VDateTime ex_dt;
   VText CStr "kids"%string; VText CStr "null"%string; VBool true; VText CStr "a"%string; VNone; VPattern "x+"%string].
Definition ex_wire : list val :=
  [VInt (-12345); VText CStr "2024-02-29"%string; VText CStr "-P7DT22H58M58.999500S"%string; VText CStr "1.50"%string; VText CStr "one"%string;
   VText CStr "2020-01-01T17:00:00.999999+05:30"%string; VText CStr "kids"%string; VText CStr "null"%string;
   VBool true; VText CStr "a"%string; VNone; VText CStr "x+"%string].
(* tuple[Any, int] with a set at the Any position *)
Definition ex_any_T : Core.ty := Core.TTuple [Core.TLeaf 10; Core.TLeaf 0].
Definition ex_any_pv (C : coding) (k : Core.seqkind) : Core.pv :=
  Core.PSeq k [Core.PSeq Core.KSet [Core.PAtom 7; Core.PSeq Core.KTuple []]; encp C (VInt 1)].
Definition ex_pv (C : coding) (k : Core.seqkind) (l : list val) : Core.pv :=
  Core.PSeq Core.KList [Core.PSeq k (map (encp C) l)].

(* ---------------------------------------------------------------- 6. serdes.load from C14's model (Model/Serdes.v) *)
(* [sshape]: how the text model of C14 sees a scalar of the scalar model (its Serdes.pv: a text carrier or not), and
   which scalar a decoded value is.  Explicit argument of everything below, as the tshape of Model/IoBridge.v. *)
Module S := TL.Model.Serdes.
Record sshape := {
  v_ser : val -> S.pv;
  v_back : S.pv -> option val
}.
Definition sexn_dn (e : S.exn) : option exn :=
  match e with
  | S.EValue | S.EUnicode => Some EValue | S.EType => Some EType | S.EUnmodelled => None | _ => Some EOther end.
(* Runtime.load DEFINED from the text model *)
Definition ind_load (T : sshape) (srt : S.Runtime) (v : val) : res val :=
  match S.load srt (v_ser T v) with
  | S.Ok x => match v_back T x with Some y => Ok y | None => Unmodelled end
  | S.Raise e => match sexn_dn e with Some e' => Raise e' | None => Unmodelled end end.
(* the law that ties the load field of a scalar runtime to the text model *)
Definition SLoadLaw (T : sshape) (srt : S.Runtime) (rt : Runtime) : Prop := forall v, load rt v = ind_load T srt v.
(* inspection.istexttype(val.__class__): text carriers, and members of str / bytes mixin enums *)
Definition textual (rt : Runtime) (v : val) : bool := match view rt v with VText _ _ => true | _ => false end.
Record SShapeLaws (T : sshape) (rt : Runtime) : Prop := {
  ss_nontext : forall v, textual rt v = false -> S.is_text (v_ser T v) = false;
  ss_back : forall v, textual rt v = false -> v_back T (v_ser T v) = Some v
}.
(* ... and for TEXT: [cp s] are the code points of the text s; a text carrier of the scalar model is the carrier of the
   text model (hashable carriers: the ones uuid_text_not_loadable speaks about), and the decoded str reads back *)
Record STextLaws (T : sshape) (srt : S.Runtime) (rt : Runtime) (cp : string -> S.str) : Prop := {
  st_carrier : forall c s, hashable c = true -> v_ser T (text rt c s) = S.carrier srt (
    match c with CStr => S.CStr | CBytes => S.CBytes | CBytearray => S.CBytearray | CMvBytes => S.CMemviewRO
               | CMvBytearray => S.CMemviewRW end) (cp s);
  st_back : forall s, v_back T (S.PText S.CStr (cp s)) = Some (VText CStr s)
}.
(* the interpreter facts about the text of a UUID (36 characters with hyphens, or whatever str(u) is): it can be
   encoded, the JSON decoder rejects it, ast.literal_eval rejects it *)
Definition UuidTextFacts (srt : S.Runtime) (rt : Runtime) (cp : string -> S.str) : Prop :=
  forall u, S.encodable (cp (canon_text rt (VUuid u))) = true /\
            (exists e, S.json_loads_str srt (cp (canon_text rt (VUuid u))) = S.Raise e) /\
            (exists e, S.literal_eval srt (cp (canon_text rt (VUuid u))) = S.Raise e).
Definition with_load (rt : Runtime) (f : val -> res val) : Runtime := {|
  utf8_decode := utf8_decode rt; utf8_encode := utf8_encode rt; canon_text := canon_text rt;
  int_of_str := int_of_str rt; float_of_str := float_of_str rt; dec_of_str := dec_of_str rt;
  frac_of_str := frac_of_str rt; uuid_of_str := uuid_of_str rt; uuid_of_int := uuid_of_int rt;
  path_of_str := path_of_str rt; enum_of_val := enum_of_val rt; int_of_float := int_of_float rt;
  float_of_int := float_of_int rt; load := f; pendulum_parse := pendulum_parse rt;
  time_fromisoformat := time_fromisoformat rt; fromtimestamp_utc := fromtimestamp_utc rt;
  timestamp := timestamp rt; td_total_seconds := td_total_seconds rt; td_of_seconds := td_of_seconds rt;
  is_digit_str := is_digit_str rt; is_member := is_member rt; enum_base := enum_base rt; py_eq := py_eq rt;
  truthy := truthy rt; re_compile := re_compile rt; pattern_text := pattern_text rt |}.
(* a concrete shape: text carriers by their character codes, every other scalar an opaque object named by its atom *)
Definition codes (s : string) : list N := map N_of_ascii (list_ascii_of_string s).
Definition uncodes (l : list N) : string := string_of_list_ascii (map ascii_of_N l).
Definition std_ckind (c : carrier) : S.ckind :=
  match c with CStr => S.CStr | CBytes => S.CBytes | CBytearray => S.CBytearray | CMvBytes => S.CMemviewRO
             | CMvBytearray => S.CMemviewRW end.
Definition std_sshape : sshape := {|
  v_ser := fun v => match v with
                    | VText c s => S.PText (std_ckind c) (codes s)
                    | _ => S.POther (N.of_nat (std_enc v)) end;
  v_back := fun x => match x with
                     | S.POther id => std_dec (N.to_nat id)
                     | S.PText S.CStr p => Some (VText CStr (uncodes p))
                     | S.PNone => Some VNone | S.PBool b => Some (VBool b) | S.PInt z => Some (VInt z)
                     | _ => None end |}.
